/-
`ResourceTransformer.process(uris, cache=True)` (`xsdata generate --cache`): the
classes mapped from the sources are pickled under a file name derived from the
source URIs and reused by later runs that derive the same name.

The mapped ("raw") classes are abstract here: `raw uris package` is what
`process_sources` produces (file contents fixed).  They depend on the output
package because `process_json_documents` names the root class of a JSON sample
after the last part of the package.  `md5` is taken as injective.
-/
import XsdataModel.Codegen.Basic

namespace Xs.Codegen
open Py

/-- `"".join(parts)` -/
def concatAll : List Str → Str
  | [] => []
  | p :: ps => p ++ concatAll ps

/-- the string that is hashed; `withPackage` = since the repair the output package is part of it -/
def cacheKey (withPackage : Bool) (uris : List Str) (package : Str) : Str :=
  if withPackage then concatAll (uris ++ [package]) else concatAll uris

/-- one run: load the cached classes if the file exists, else map the sources and write the file.
Returns the classes the analysis starts from and the new cache directory. -/
def processCached {α} (withPackage : Bool) (raw : List Str → Str → α)
    (cache : List (Str × α)) (uris : List Str) (package : Str) : α × List (Str × α) :=
  let key := cacheKey withPackage uris package
  match List.lookup key cache with
  | some classes => (classes, cache)
  | none => (raw uris package, cache ++ [(key, raw uris package)])

/-- a history of runs in one temp directory: the classes each run started from -/
def runHistory {α} (withPackage : Bool) (raw : List Str → Str → α) :
    List (Str × α) → List (List Str × Str) → List α
  | _, [] => []
  | cache, (uris, package) :: rest =>
    let r := processCached withPackage raw cache uris package
    r.1 :: runHistory withPackage raw r.2 rest

end Xs.Codegen
