"""C02 — generated classes are faithful to the XML Schema they came from.

Partial: the occurrence arithmetic (element sites and their particle paths,
CalculateAttributePaths, UpdateAttributesEffectiveChoice, MergeAttributes) is modelled and
proved sound for content models without repeated element names; the rest of the pipeline
is exercised end to end (real pipeline + stand-in renderer) by the oracle."""
import dataclasses
import os
import json
import random

import codegen_run as CG
import gengen as G
from framework import Corr, Oracle, err, ok

PROP_ID = "C02"
DESIGN_REF = "6/C02"
MAXSIZE = G.MAXSIZE


def n_cases(tier, quick, thorough):
    return quick if tier == "quick" else thorough


HAND = [
    {"seq": [1, 1, [{"choice": [1, 1, [{"elem": ["a", 1, 1]}, {"elem": ["b", 1, 1]}]]}, {"choice": [1, 1, [{"elem": ["a", 1, 1]}, {"elem": ["c", 1, 1]}]]}]]},
    {"choice": [1, 1, [{"seq": [1, 1, [{"elem": ["a", 1, 1]}, {"elem": ["x", 1, 1]}, {"elem": ["a", 1, 1]}]]}, {"elem": ["b", 1, 1]}]]},
    {"seq": [1, 1, [{"choice": [2, 2, [{"elem": ["a", 1, 1]}, {"elem": ["b", 1, 1]}]]}, {"elem": ["a", 1, 1]}]]},
    {"seq": [0, MAXSIZE, [{"elem": ["a", 1, 1]}, {"elem": ["b", 0, 1]}]]},
    {"choice": [0, MAXSIZE, [{"elem": ["a", 1, 1]}, {"elem": ["b", 1, MAXSIZE]}]]},
    {"seq": [1, 1, [{"elem": ["a", 1, 1]}, {"elem": ["b", 0, 1]}, {"elem": ["a", 0, 1]}]]},
    {"seq": [2, 3, [{"seq": [1, 2, [{"elem": ["a", 1, 2]}]]}]]},
    # valid schema on which generation died with AssertionError in reset_symmetrical_choices (repaired, fixed: C02)
    {"choice": [1, 1, [{"choice": [0, 1, [{"elem": ["b", 1, 1]}, {"elem": ["c", 1, 1]}, {"elem": ["d", 1, 1]}]]},
                       {"seq": [0, 1, [{"elem": ["a", 1, 1]}, {"elem": ["a", 1, 1]}, {"elem": ["d", 1, 1]}]]}]]},
]


def particles(rng, n, dup_share=0.5):
    for p in HAND:
        yield p
    for _ in range(n):
        if rng.random() < dup_share:
            p = G.gen_particle(rng, names=rng.choice([["a", "b"], ["a", "b", "c", "d"]]))
        else:
            p = G.gen_particle(rng, distinct=["a", "b", "c", "d", "e", "f"])
        if p is not None and "elem" not in p:
            yield p


# ------------------------------------------------------------------ cores
def gen_sites(rng, tier):
    for p in particles(rng, n_cases(tier, 300, 6000)):
        yield {"particle": p}


def impl_sites(a):
    try:
        return ok(G.real_xsd_sites(G.particle_xsd(a["particle"])))
    except Exception as e:  # noqa: BLE001
        return err("HARNESS:" + type(e).__name__)


def canon_sites(o):
    if isinstance(o, dict) and "ok" in o:
        return {"ok": G.renumber(o["ok"])}
    return o


def stage_gen(stage):
    def gen(rng, tier):
        for p in particles(rng, n_cases(tier, 200, 4000), dup_share=0.7):
            try:
                sites = G.real_xsd_sites(G.particle_xsd(p))
            except Exception:  # noqa: BLE001
                continue
            try:
                if stage != "calc":
                    # feed each later stage with what the real earlier stages produce
                    sites = G.real_stage(sites, "calc")
                if stage == "merge":
                    sites = G.real_stage(sites, "effective")
            except Exception:  # noqa: BLE001
                # an earlier real stage raised: that case belongs to the op of that stage (which
                # compares the exception with the model), it cannot be fed to a later one
                continue
            yield {"sites": sites}

    return gen


def stage_impl(stage):
    def impl(a):
        try:
            return ok(G.real_stage(a["sites"], stage))
        except Exception as e:  # noqa: BLE001
            return err("LEAK:" + type(e).__name__)

    return impl


def gen_occurs(rng, tier):
    for p in particles(rng, n_cases(tier, 200, 4000), dup_share=0.7):
        try:
            yield {"sites": G.real_xsd_sites(G.particle_xsd(p))}
        except Exception:  # noqa: BLE001
            continue


# ------------------------------------------------------------------ end to end: field shapes
def field_shapes(cls):
    """local element name -> (is_list, has_default) of the generated dataclass"""
    out = {}
    for f in dataclasses.fields(cls):
        md = f.metadata
        if md.get("type") != "Element":
            continue
        name = md.get("name", f.name)
        is_list = f.default_factory is not dataclasses.MISSING
        required = f.default is dataclasses.MISSING and f.default_factory is dataclasses.MISSING
        out[name] = [is_list, required]
    return out


def gen_fields(rng, tier):
    for p in particles(rng, n_cases(tier, 80, 700), dup_share=0.5):
        if valid_schema(p):
            yield {"particle": p}


def valid_schema(p):
    from lxml import etree

    try:
        etree.XMLSchema(etree.fromstring(G.particle_xsd(p).encode()))
        return True
    except etree.XMLSchemaParseError:
        return False


def impl_fields(a):
    g = CG.run_pipeline({"s.xsd": G.particle_xsd(a["particle"])})
    try:
        if g.error is not None:
            return err("GEN:" + type(g.error).__name__)
        return ok(field_shapes(g.classes()["R"]))
    finally:
        g.close()


def canon_fields(o):
    """the model answers with sites; reduce both to name -> [is_list, required]"""
    if isinstance(o, dict) and "ok" in o and isinstance(o["ok"], list):
        return {"ok": {s["name"]: [s["max"] > 1, s["min"] >= 1 and s["max"] <= 1] for s in o["ok"]}}
    return o


def impl_e2e(a):
    """`faithful`, or `finding:<id>` when every failure of the input is one a listed finding describes
    (oracle_docs returns an uncovered failure whenever there is one), else the failure"""
    msg = oracle_docs(a)
    if msg is None:
        return ok("faithful")
    fid = (covered_subst if "subs" in a else covered_docs)(a, msg)
    return ok("finding:" + fid) if fid else {"err": msg[:160]}


def spec_e2e(a):
    """the property itself: every valid document is accepted by the strict parser and comes back with the same
    content.  (No region is left unspecified: on a content model with an element name at several sites the
    implementation may answer `finding:C02-duplicate-name-sites`, which `compare_e2e` admits only there and only
    when the coverage predicate recognised the failure itself.)"""
    return ok("faithful")


def compare_e2e(m, i, a):
    if m == i:
        return True
    p = a["particle"]
    dup = len(set(G.particle_names(p))) != len(G.particle_names(p))
    return dup and i == ok("finding:C02-duplicate-name-sites")


def gen_choice_clashes(rng, tier):
    """repeating choices of single elements whose python types overlap (the case compound fields
    must disambiguate): plain/derived types and unions sharing a member type"""
    clash = ["string", "token", "int", "long", "date", "u_int_string", "u_date_int", "boolean", "decimal"]
    for _ in range(n_cases(tier, 20, 400)):
        k = rng.randint(2, 4)
        names = rng.sample(["a", "b", "c", "d", "e"], k)
        p = {"choice": [rng.choice([0, 1]), MAXSIZE, [{"elem": [n, 1, 1]} for n in names]]}
        if rng.random() < 0.3:
            p = {"seq": [1, 1, [{"elem": ["h", 1, 1]}, p]]}
        types = {n: rng.choice(clash) for n in G.particle_names(p)}
        yield {"particle": p, "words": [G.sample_word(rng, p, budget=4) for _ in range(4)], "types": types,
               "configs": [{"compound_fields": True}]}


def gen_e2e(rng, tier):
    yield from gen_choice_clashes(rng, tier)
    n = 0
    for a in gen_docs(rng, tier):
        n += 1
        if n > n_cases(tier, 25, 500):
            break
        yield a


# ------------------------------------------------------------------ named model groups and xs:all (Gen/Groups.lean)
HAND_GROUPS = [
    # the seeded-regression shape: one group, referenced plainly and with 0..unbounded, stricter reference first
    {"defs": [["g0", {"seq": [1, 1, [{"elem": ["a", 1, 1]}, {"elem": ["b", 0, 1]}]]}]],
     "types": [{"ref": ["g0", 1, 1]}, {"ref": ["g0", 0, MAXSIZE]}]},
    {"defs": [["g0", {"seq": [1, 1, [{"elem": ["a", 1, 1]}, {"elem": ["b", 0, 1]}]]}]],
     "types": [{"ref": ["g0", 0, MAXSIZE]}, {"seq": [1, 1, [{"elem": ["x", 1, 1]}, {"ref": ["g0", 1, 1]}]]}]},
    # a reference inside a choice, a nested reference, a group defined after its use
    {"defs": [["g0", {"seq": [1, 1, [{"elem": ["a", 1, 1]}, {"ref": ["g1", 0, 1]}]]}], ["g1", {"choice": [1, 1, [{"elem": ["b", 1, 1]}, {"elem": ["c", 1, 3]}]]}]],
     "types": [{"ref": ["g0", 1, MAXSIZE]}, {"choice": [1, 1, [{"elem": ["x", 1, 1]}, {"ref": ["g0", 1, 1]}]]}, {"seq": [1, 1, [{"ref": ["g1", 2, 2]}]]}]},
    # xs:all, directly and through a group
    {"defs": [["g0", {"all": [1, 1, [{"elem": ["a", 1, 1]}, {"elem": ["b", 0, 1]}]]}]],
     "types": [{"all": [0, 1, [{"elem": ["p", 1, 1]}, {"elem": ["q", 0, 1]}]]}, {"ref": ["g0", 1, 1]}, {"ref": ["g0", 0, 1]}]},
    # the same group twice in one type: two clones of one declaration
    {"defs": [["g0", {"choice": [1, 1, [{"elem": ["a", 1, 1]}, {"elem": ["b", 1, 1]}]]}]],
     "types": [{"seq": [1, 1, [{"ref": ["g0", 1, 1]}, {"ref": ["g0", 1, 1]}]]}, {"ref": ["g0", 1, 1]}]},
]


def gschemas(rng, n):
    for sch in HAND_GROUPS:
        yield sch
    for _ in range(n):
        yield G.gen_gschema(rng, dup=rng.random() < 0.25)


def gen_gsites(rng, tier):
    for sch in gschemas(rng, n_cases(tier, 200, 3000)):
        yield sch


def impl_gsites(a, upto="ungroup"):
    try:
        return ok(G.real_schema_classes(G.gschema_xsd(a, defs_last=bool(a.get("defs_last"))), upto=upto))
    except AssertionError:
        return err("LEAK:AssertionError")
    except Exception as e:  # noqa: BLE001
        return err("GEN:" + type(e).__name__)


def canon_gsites(o):
    if isinstance(o, dict) and "ok" in o:
        return {"ok": G.renumber_classes(o["ok"])}
    return o


def gen_gcalc(rng, tier):
    """the classes of a schema after the real UNGROUP step, as the input of one CalculateAttributePaths handler"""
    for sch in gschemas(rng, n_cases(tier, 200, 3000)):
        try:
            yield {"classes": G.renumber_classes(G.real_schema_classes(G.gschema_xsd(sch)))}
        except Exception:  # noqa: BLE001
            continue


def impl_gcalc(a):
    try:
        return ok(G.real_calc_classes(a["classes"]))
    except Exception as e:  # noqa: BLE001
        return err("LEAK:" + type(e).__name__)


def gschema_valid(sch, types=None):
    from lxml import etree

    try:
        etree.XMLSchema(etree.fromstring(G.gschema_xsd(sch, types=types).encode()))
        return True
    except etree.XMLSchemaParseError:
        return False


def gen_gfields(rng, tier):
    n = 0
    for sch in HAND_GROUPS:
        if gschema_valid(sch):
            yield sch
    while n < n_cases(tier, 60, 600):
        sch = G.gen_gschema(rng, valid=True, dup=rng.random() < 0.15)
        n += 1
        if gschema_valid(sch):
            yield sch


def impl_gfields(a):
    g = CG.run_pipeline({"s.xsd": G.gschema_xsd(a)})
    try:
        if g.error is not None:
            return err("GEN:" + type(g.error).__name__)
        classes = g.classes()
        return ok([field_shapes(classes[f"R{i}"]) for i in range(len(a["types"]))])
    finally:
        g.close()


def canon_gfields(o):
    if isinstance(o, dict) and "ok" in o and all(isinstance(c, list) for c in o["ok"]):
        return {"ok": [{s["name"]: [s["max"] > 1, s["min"] >= 1 and s["max"] <= 1] for s in c} for c in o["ok"]]}
    return o


# ------------------------------------------------------------------ use / default / fixed (Gen/Attrs.lean)
def gen_attr_decls(rng, tier):
    uses = [None, "optional", "required", "prohibited"]
    # bounded-exhaustive first: every use x default/fixed x type; every occurrence range x default/fixed x type
    exhaustive = []
    for tp in ("string", None):
        for dflt, fx in ((None, None), ("dv", None), (None, "fv"), ("dv", "fv"), ("", None)):
            for u in uses:
                exhaustive.append({"kind": "attribute", "use": u, "default": dflt, "fixed": fx, "type": tp})
            for mn, mx in ((1, 1), (0, 1), (0, MAXSIZE), (1, MAXSIZE), (2, 2), (0, 0), (2, 3)):
                exhaustive.append({"kind": "element", "min": mn, "max": mx, "default": dflt, "fixed": fx, "type": tp})
    for i in range(0, len(exhaustive), 12):
        yield {"decls": exhaustive[i:i + 12]}
    for _ in range(n_cases(tier, 150, 2000)):
        yield {"decls": [G.gen_decl(rng) for _ in range(rng.randint(1, 8))]}


def impl_attr_map(a):
    try:
        return ok(G.real_attr_map(a["decls"]))
    except Exception as e:  # noqa: BLE001
        return err("HARNESS:" + type(e).__name__)


def gen_attr_sanitize(rng, tier):
    vals = [None, "dv", ""]
    out = []
    for ia in (True, False):
        for mn, mx in ((0, 1), (1, 1), (0, MAXSIZE), (1, MAXSIZE), (2, 2), (0, 0)):
            for d in vals:
                for fx in (False, True):
                    for ao in (False, True):
                        for xt in (False, True):
                            if xt and not ia:
                                continue
                            out.append({"is_attribute": ia, "min": mn, "max": mx, "default": d, "fixed": fx and d is not None, "any_obj": ao, "xsi_type": xt})
                            # the value is a list of tokens (restrictions.tokens: NMTOKENS / IDREFS / ENTITIES, xs:list): Attr.is_factory
                            # without Attr.is_list — the default is one value and stays
                            if not ao and not xt and d != "":
                                out.append({**out[-1], "default": "t1 t2" if d else None, "tokens": True})
    for i in range(0, len(out), 4):
        yield {"attrs": out[i:i + 4]}
    for _ in range(n_cases(tier, 50, 3000)):
        yield {"attrs": [rng.choice(out) for _ in range(8)]}


def impl_attr_sanitize(a):
    try:
        return ok(G.real_attr_sanitize(a["attrs"]))
    except Exception as e:  # noqa: BLE001
        return err("LEAK:" + type(e).__name__)


def gen_attr_fields(rng, tier):
    for i, a in enumerate(gen_attr_decls(rng, tier)):
        if i >= n_cases(tier, 110, 400):
            break
        yield a


def impl_attr_fields(a):
    g = CG.run_pipeline({"s.xsd": G.decls_xsd(a["decls"])})
    try:
        if g.error is not None:
            return err("GEN:" + type(g.error).__name__)
        fs = {f.metadata.get("name", f.name): f for f in dataclasses.fields(g.classes()["R"])}
        return ok([G.dataclass_field_shape(fs[f"d{i}"]) if f"d{i}" in fs else None for i in range(len(a["decls"]))])
    finally:
        g.close()


# ------------------------------------------------------------------ derived types (Gen/Derive.lean)
def gen_override(rng, tier):
    occs = [(1, 1), (0, 1), (0, MAXSIZE), (1, MAXSIZE), (2, 2), (0, 0), (2, 5)]
    dfl = [(None, False), ("dv", False), ("dv", True), ("x", False)]
    for cmn, cmx in occs:
        for pmn, pmx in occs:
            for cd, cf in dfl:
                for pd, pf in dfl[:3]:
                    yield {"child": {"min": cmn, "max": cmx, "default": cd, "fixed": cf}, "parent": {"min": pmn, "max": pmx, "default": pd, "fixed": pf}}
    for _ in range(n_cases(tier, 100, 5000)):
        yield {"child": G.gen_oattr(rng), "parent": G.gen_oattr(rng)}


def impl_override(a):
    try:
        return ok(G.real_override(a["child"], a["parent"]))
    except Exception as e:  # noqa: BLE001
        return err("LEAK:" + type(e).__name__)


def gen_restrict(rng, tier):
    """base: 1..5 elements; own: a subsequence of the base names re-declared with any bounds, sometimes a new name"""
    for _ in range(n_cases(tier, 200, 3000)):
        names = rng.sample(list("abcdefg"), rng.randint(1, 5))
        base = [G.gen_oattr(rng, n) for n in names]
        own = [G.gen_oattr(rng, n) for n in names if rng.random() < 0.6]
        if rng.random() < 0.15:
            own.append(G.gen_oattr(rng, "z"))
        yield {"base": base, "own": own}


def impl_restrict_attrs(a):
    try:
        return ok(G.real_restrict_attrs(a["base"], a["own"]))
    except Exception as e:  # noqa: BLE001
        return err("LEAK:" + type(e).__name__)


def gen_restrict_fields(rng, tier):
    for i, a in enumerate(gen_restrict(rng, tier)):
        if i >= n_cases(tier, 150, 700):
            break
        # the mapper reads `default`+`fixed` from one declaration: keep what a schema can say; no maxOccurs=0 in the base
        ok_ = all(o["max"] > 0 for o in a["base"]) and all(not (o["max"] == 0 and o["default"] is not None) for o in a["own"])
        if ok_ and a["own"]:
            yield a


def named_shapes(cls):
    import dataclasses as dc

    out = []
    for f in dc.fields(cls):
        if f.metadata.get("type") == "Ignore":
            out.append([f.metadata.get("name", f.name), "prohibited"])
        elif f.metadata.get("type") == "Element":
            out.append([f.metadata.get("name", f.name), G.dataclass_field_shape(f)])
    return out


def impl_restrict_fields(a):
    g = CG.run_pipeline({"s.xsd": G.derive_xsd(a["base"], own=a["own"])})
    try:
        if g.error is not None:
            return err("GEN:" + type(g.error).__name__)
        classes = g.classes()
        inherits = classes["C"].__bases__[0].__name__ == "A"
        return ok({"inherits": inherits, "derived": named_shapes(classes["C"]), "base": named_shapes(classes["A"])})
    finally:
        g.close()


def canon_restrict_fields(o):
    return o


def gen_ext(rng, tier):
    for _ in range(n_cases(tier, 60, 500)):
        pa = G.gen_particle(rng, distinct=["a", "b", "c", "d"])
        pb = G.gen_particle(rng, distinct=["e", "f", "g", "h"])
        if pa is None or pb is None or "elem" in pa or "elem" in pb:
            continue
        yield {"base": pa, "ext": pb}


def impl_ext_fields(a):
    g = CG.run_pipeline({"s.xsd": G.derive_xsd(a["base"], ext=a["ext"])})
    try:
        if g.error is not None:
            return err("GEN:" + type(g.error).__name__)
        classes = g.classes()
        if classes["B"].__bases__[0].__name__ != "A":
            return err("SHAPE:the extension was flattened or dropped")
        return ok([[n, [isinstance(sh, dict) and sh["default"] == "list", isinstance(sh, dict) and sh["default"] == "MISSING"]] for n, sh in named_shapes(classes["B"])])
    finally:
        g.close()


def canon_ext_fields(o):
    if isinstance(o, dict) and "ok" in o and o["ok"] and isinstance(o["ok"][0], dict):
        return {"ok": [[s["name"], [s["max"] > 1, s["min"] >= 1 and s["max"] <= 1]] for s in o["ok"]]}
    return o


# ------------------------------------------------------------------ substitution groups (Gen/Subst.lean)
def gen_subst_case(rng):
    p = G.gen_particle(rng, distinct=["a", "b", "c", "d", "e"])
    if p is None or "elem" in p:
        return None
    names = G.particle_names(p)
    refs = [n for n in names if rng.random() < 0.6]
    members = ["m1", "m2", "m3", "m4"][: rng.randint(0, 4)]
    subs = []
    for m in members:
        heads = refs + [x for x, _ in subs]
        if heads:
            subs.append([m, rng.choice(heads)])
    return {"particle": p, "refs": refs, "subs": subs}


def gen_subst_sites(rng, tier):
    for _ in range(n_cases(tier, 200, 2500)):
        a = gen_subst_case(rng)
        if a is None:
            continue
        try:
            sites = G.real_stage(G.real_stage(G.real_xsd_sites(G.particle_xsd(a["particle"])), "calc"), "effective")
        except Exception:  # noqa: BLE001
            continue
        yield {"sites": sites, "refs": a["refs"], "subs": a["subs"]}


def impl_subst_sites(a):
    try:
        return ok(G.real_subst_sites(a["sites"], a["subs"], a["refs"]))
    except Exception as e:  # noqa: BLE001
        return err("LEAK:" + type(e).__name__)


def canon_by_name(o):
    if isinstance(o, dict) and "ok" in o:
        return {"ok": G.by_name(o["ok"])}
    return o


def gen_subst_fields(rng, tier):
    for _ in range(n_cases(tier, 50, 500)):
        a = gen_subst_case(rng)
        if a is not None:
            yield a


def impl_subst_fields(a):
    g = CG.run_pipeline({"s.xsd": G.particle_xsd(a["particle"], refs=a["refs"], subs=[tuple(x) for x in a["subs"]])})
    try:
        if g.error is not None:
            return err("GEN:" + type(g.error).__name__)
        return ok(field_shapes(g.classes()["R"]))
    finally:
        g.close()


# ------------------------------------------------------------------ namespaces and forms (Gen/Ns.lean)
def gen_ns(rng, tier):
    # bounded-exhaustive: one declaration of every shape under every form default, target namespace bound as default / prefix / not at all
    forms = [None, "qualified", "unqualified"]
    for tns, default, prefixes in (("urn:t", "urn:t", {}), ("urn:t", None, {"t": "urn:t"}), ("urn:t", None, {}), (None, None, {}),
                                   ("urn:t", "urn:o", {"t": "urn:t", "o": "urn:o"}), ("urn:t", "urn:o", {"o": "urn:o"}),
                                   ("urn:t", None, {"cham": "1"}), ("urn:t", "urn:o", {"cham": "1", "o": "urn:o"})):
        chameleon = prefixes.pop("cham", None) is not None if "cham" in prefixes else False
        for ef in forms:
            for af in forms:
                ctx = {"tns": tns, "chameleon": chameleon, "default": default, "prefixes": dict(prefixes), "eform": ef, "aform": af}
                decls = []
                for attr in (False, True):
                    for i, f in enumerate(forms):
                        decls.append({"attr": attr, "kind": "local", "name": "abc"[i], "form": f, "tnsattr": None})
                    if tns and (default == tns or "t" in prefixes or (chameleon and not default)):
                        decls.append({"attr": attr, "kind": "ref", "prefix": None if (default == tns or chameleon) else "t", "name": "ha" if attr else "h"})
                    if "o" in prefixes:
                        decls.append({"attr": attr, "kind": "ref", "prefix": "o", "name": "ga" if attr else "g"})
                yield {"ctx": ctx, "decls": decls}
    for _ in range(n_cases(tier, 200, 3000)):
        ctx = G.gen_ns_ctx(rng)
        decls = G.gen_ns_decls(rng, ctx)
        if decls:
            yield {"ctx": ctx, "decls": decls}


def classify_ns(a, out):
    c = a["ctx"]
    k = "chameleon" if c.get("chameleon") else ("no-tns" if not c["tns"] else ("tns-default" if c["default"] == c["tns"] else ("other-default" if c["default"] else ("tns-prefixed" if "t" in c["prefixes"] else "tns-unbound"))))
    refs = sum(1 for d in a["decls"] if d["kind"] == "ref")
    un = sum(1 for d in a["decls"] if d["kind"] == "ref" and d["prefix"] is None)
    return f"{k}/refs={min(refs, 2)}/unprefixed={min(un, 1)}" + ("/err" if isinstance(out, dict) and "err" in out else "")


def impl_ns_attrs(a):
    try:
        return ok(G.real_ns_attrs(a["ctx"], a["decls"]))
    except Exception as e:  # noqa: BLE001
        return err("HARNESS:" + type(e).__name__)


def gen_ns_meta(rng, tier):
    vals = [None, "", "urn:t", "urn:o"]
    cases = [{"parent": p, "attr": x, "is_attr": ia} for p in vals for x in vals for ia in (False, True)]
    for i in range(0, len(cases), 8):
        yield {"cases": cases[i:i + 8]}


def impl_ns_meta(a):
    try:
        return ok(G.real_ns_meta(a["cases"]))
    except Exception as e:  # noqa: BLE001
        return err("LEAK:" + type(e).__name__)


def gen_ns_fields(rng, tier):
    for i, a in enumerate(gen_ns(rng, tier)):
        if i >= n_cases(tier, 80, 600):
            break
        yield a


def impl_ns_fields(a):
    try:
        return ok(G.real_ns_fields(a["ctx"], a["decls"]))
    except Exception as e:  # noqa: BLE001
        return err("GEN:" + type(e).__name__)


# ------------------------------------------------------------------ input distributions (evidence: coverage.distribution)
def _depth(p):
    if "elem" in p:
        return 0
    return 1 + max((_depth(k) for k in (p.get("seq") or p.get("choice"))[2]), default=0)


def _occ_class(mn, mx):
    return ("opt" if mn == 0 else "req" if mn == 1 else "min2+") + ("-once" if mx == 1 else "-unb" if mx == MAXSIZE else "-max0" if mx == 0 else "-bounded")


def classify_particle(a, out):
    p = a["particle"]
    names = G.particle_names(p)
    kinds = set()

    def walk(q):
        if "elem" in q:
            return
        k = "seq" if "seq" in q else "choice"
        mn, mx, kids = q[k]
        kinds.add(k + ("*" if mx > 1 else ""))
        for c in kids:
            walk(c)

    walk(p)
    return f"depth={_depth(p)}/{'dup' if len(set(names)) != len(names) else 'distinct'}/{'+'.join(sorted(kinds))}" + ("/err" if isinstance(out, dict) and "err" in out else "")


def classify_sites(a, out):
    ss = a["sites"]
    names = [s["name"] for s in ss]
    dup = len(set(names)) != len(names)
    ch = sum(1 for s in ss if s.get("choice"))
    eff = any((s.get("choice") or 0) < 0 for s in ss)
    deep = max((len(s["path"]) for s in ss), default=0)
    return f"n={min(len(ss), 6)}/{'dup' if dup else 'distinct'}/choice={'some' if ch else 'none'}{'+effective' if eff else ''}/pathlen={min(deep, 4)}" + ("/err" if isinstance(out, dict) and "err" in out else "")


def classify_gschema(a, out):
    js = json.dumps(a)
    nested = '"ref"' in json.dumps(a["defs"])
    names = [n for t in a["types"] for n in G.gparticle_names(a, t)]
    per_type_dup = any(len(set(G.gparticle_names(a, t))) != len(G.gparticle_names(a, t)) for t in a["types"])
    return f"defs={len(a['defs'])}/{'nested' if nested else 'flat'}/{'all' if chr(34) + 'all' + chr(34) in js else 'noall'}/{'dup' if per_type_dup else 'distinct'}" + ("/err" if isinstance(out, dict) and "err" in out else "")


def classify_gclasses(a, out):
    shared = set()
    seen = {}
    for i, cls in enumerate(a["classes"]):
        for s_ in cls:
            for e in s_["path"]:
                if e[1] in seen and seen[e[1]] != i:
                    shared.add(e[1])
                seen.setdefault(e[1], i)
    return f"classes={len(a['classes'])}/shared-ids={'yes' if shared else 'no'}"


def classify_decls(a, out):
    """the rarest-looking declaration of the case: kind, use / occurrence class, default, fixed"""
    ks = []
    for d in a["decls"]:
        if d["kind"] == "attribute":
            ks.append("A:" + str(d["use"]) + ("+d" if d["default"] is not None else "") + ("+f" if d["fixed"] is not None else "") + (":untyped" if d["type"] is None else ""))
        else:
            ks.append("E:" + _occ_class(d["min"], d["max"]) + ("+d" if d["default"] is not None else "") + ("+f" if d["fixed"] is not None else "") + (":untyped" if d["type"] is None else ""))
    return sorted(ks, key=lambda k: (-len(k), k))[0]


def classify_sanitize(a, out):
    ks = set()
    for g in a["attrs"]:
        lst = g["max"] > 1
        if not g["is_attribute"] and g["default"] is None and g["any_obj"] and not lst:
            ks.add("reset-required")
        elif g["default"] is not None and (g.get("xsi_type") or lst or (not g["is_attribute"] and g["min"] == 0)):
            ks.add("reset-default")
        else:
            ks.add("keep")
    return "+".join(sorted(ks))


def classify_override(a, out):
    c, p = a["child"], a["parent"]
    cl, pl = c["max"] > 1, p["max"] > 1
    branch = "widen-parent" if cl and not pl and p["max"] != 0 else "widen-child" if not cl and c["max"] != 0 and pl else "same"
    kept = "kept" if isinstance(out, dict) and out.get("ok", {}).get("child") else "removed"
    return f"{branch}/{kept}"


def classify_restrict(a, out):
    base = {o["name"] for o in a["base"]}
    own = [o["name"] for o in a["own"]]
    return f"base={len(base)}/own={len(own)}/{'new-name' if any(n not in base for n in own) else 'subset'}/{'omits' if base - set(own) else 'all'}" + ("/base-dropped" if isinstance(out, dict) and isinstance(out.get("ok"), dict) and out["ok"].get("inherits") is False else "")


def classify_subst(a, out):
    heads = {h for _, h in a["subs"]}
    chain = any(h in {m for m, _ in a["subs"]} for h in heads)
    return f"members={min(len(a['subs']), 4)}/{'transitive' if chain else 'flat'}/refs={min(len(a['refs']), 3)}"


# ------------------------------------------------------------------ compound fields (Gen/Compound.lean)
def gen_compound(rng, tier):
    for p in particles(rng, n_cases(tier, 250, 3000), dup_share=0.4):
        try:
            sites = G.real_stage(G.real_xsd_sites(G.particle_xsd(p)), "all")
        except Exception:  # noqa: BLE001
            continue
        # sequence ids as ResetAttributeSequences leaves them is not modelled: keep the raw ones (renumbered)
        yield {"sites": G.renumber(sites)}


def impl_compound(a):
    try:
        return ok(G.real_compound(a["sites"]))
    except Exception as e:  # noqa: BLE001
        return err("LEAK:" + type(e).__name__)


def classify_compound(a, out):
    ss = a["sites"]
    groups = {}
    for s_ in ss:
        if s_["choice"]:
            groups.setdefault(s_["choice"], []).append(s_)
    big = [g for g in groups.values() if len(g) > 1]
    eff = any(c < 0 for c in groups)
    deep = max((len(s_["path"]) for g in big for s_ in g), default=0)
    seqs = any(len({s_["sequence"] for s_ in g}) == 1 and g[0]["sequence"] for g in big)
    return f"groups={min(len(big), 3)}/{'effective' if eff else 'real'}/pathlen={min(deep, 4)}/{'one-sequence' if seqs else 'mixed-sequence'}"


# ------------------------------------------------------------------ readAttr: the strict parser on the generated class
def gen_read_attr(rng, tier):
    """every use x default/fixed x type, each with the attribute absent, given freely, given as the default /
    fixed value (documents outside `allows` included: the op ties `readAttr` as a whole, not only on valid input)"""
    for tp in ("string", None):
        for dflt, fx in ((None, None), ("dv", None), (None, "fv"), ("x y", None)):
            for u in (None, "optional", "required", "prohibited"):
                d = {"kind": "attribute", "use": u, "default": dflt, "fixed": fx, "type": tp}
                yield {"decl": d, "givens": [None, "v1", dflt or fx or "w", "two words"]}
    for _ in range(n_cases(tier, 15, 300)):
        d = G.gen_decl(rng, kind="attribute")
        d.pop("enum", None)
        d["group"] = rng.random() < 0.3
        yield {"decl": d, "givens": [None, rng.choice(["v1", "dv", "fv", "7"]), d["default"] or d["fixed"] or "q"]}


def impl_read_attr(a):
    d = a["decl"]
    try:
        return ok(G.real_read_attr({"s.xsd": G.decls_xsd([d])}, a["givens"],
                                   lambda x: '<t:r xmlns:t="urn:t"' + (f' d0="{G._xml_attr(x)}"' if x is not None else "") + "/>"))
    except Exception as e:  # noqa: BLE001
        return err("GEN:" + type(e).__name__)


def classify_read_attr(a, out):
    d = a["decl"]
    res = out.get("ok") if isinstance(out, dict) else None
    kinds = sorted({("error" if r == "ParserError" else "none" if r == [None] else "value") for r in (res or [])})
    return f"{d['use']}{'+d' if d['default'] is not None else ''}{'+f' if d['fixed'] is not None else ''}/" + "+".join(kinds)


# ------------------------------------------------------------------ type name lookup (Gen/TypeLookup.lean)
def gen_find_dependency(rng, tier):
    import itertools

    tags = ["Element", "ComplexType", "SimpleType", "Attribute"]
    for n in range(0, 4):
        for cands in itertools.permutations(tags, n):
            for tag in ("Element", "Attribute"):
                for target in [None] + list(range(n)):
                    yield {"tag": tag, "cands": list(cands), "target": target}


def impl_find_dependency(a):
    try:
        return ok(G.real_find_dependency(a["tag"], a["cands"], a["target"]))
    except Exception as e:  # noqa: BLE001
        return err("LEAK:" + type(e).__name__)


def gen_field_type(rng, tier):
    """(1) every member of the live DataType enumeration, directly; (2) every member under each
    derivation step (restriction, restriction with a pattern, list, unions around it, a member that
    follows a patterned one); (3) random nestings"""
    decls = G.TYPE_DECLS
    codes = G.datatype_codes()
    for c in codes:
        yield {"type": {"b": c}, "decls": decls}
    for c in codes:
        if c == "anyType":
            continue
        b = {"b": c}
        shapes = [{"r": b, "pattern": False}, {"r": b, "pattern": True}, {"r": {"r": b, "pattern": True}, "pattern": False},
                  {"u": [b, {"b": "int"}]}, {"u": [{"r": {"b": "int"}, "pattern": True}, b]}, {"u": [b, {"r": {"b": "int"}, "pattern": True}]},
                  {"u": [{"b": "anySimpleType"}, b]}, {"u": [{"u": [{"b": "error"}]}, b]}]
        if c not in G.LIST_CODES:
            shapes += [{"l": b}, {"l": {"r": b, "pattern": True}}, {"u": [{"l": b}, {"b": "date"}]},
                       {"l": {"r": b, "pattern": False}, "anon": True}, {"l": {"u": [b, {"b": "int"}]}, "anon": True}]
        for t in (shapes if tier == "thorough" else rng.sample(shapes, 3)):
            yield {"type": t, "decls": decls[:1] + decls[4:5] if tier != "thorough" else decls}
    for _ in range(1500 if tier == "thorough" else 60):
        ds = rng.sample(decls, rng.randint(1, 3))
        yield {"type": G.gen_sty(rng, rng.randint(1, 3)), "decls": ds}


def impl_field_type(a):
    try:
        return ok(G.real_field_types(a["type"], a["decls"]))
    except Exception as e:  # noqa: BLE001
        return err("LEAK:" + type(e).__name__ + ":" + str(e)[:80])


def classify_field_type(a, o):
    shape = G.sty_shape(a["type"])
    if len(shape) > 12:
        shape = shape[:2] + "…depth" + str(shape.count("("))
    v = o.get("ok") if isinstance(o, dict) else None
    flags = ""
    if isinstance(v, dict):
        flags = ("/tokens" if v.get("tokens") else "") + ("/pattern" if v.get("pattern") else "") + ("/union" if any(" | " in f.replace("None | ", "") for f in v["fields"]) else "")
    return shape + flags


def _c16():
    import props.c16 as c16

    return c16


CORRS = [
    Corr("gen.xsd_sites", gen_sites, impl_sites, canon=canon_sites, classify=classify_particle, describe="SchemaParser+SchemaMapper element sites and paths vs model"),
    Corr("gen.calc_paths", stage_gen("calc"), stage_impl("calc"), classify=classify_sites, describe="CalculateAttributePaths.process vs model"),
    Corr("gen.effective", stage_gen("effective"), stage_impl("effective"), classify=classify_sites, describe="UpdateAttributesEffectiveChoice.process vs model"),
    Corr("gen.merge", stage_gen("merge"), stage_impl("merge"), classify=classify_sites, describe="MergeAttributes.process vs model"),
    Corr("gen.occurs", gen_occurs, stage_impl("all"), classify=classify_sites, describe="the three handlers in container order vs model"),
    Corr("gen.xsd_occurs", gen_fields, impl_fields, canon=canon_fields,
         classify=classify_particle, describe="whole real pipeline + stand-in renderer: list-ness / requiredness of generated fields vs model"),
    Corr("gen.grp_sites", gen_gsites, impl_gsites, canon=canon_gsites,
         nontrivial=lambda a, o: "ref" in json.dumps(a["types"]) or "all" in json.dumps(a),
         classify=classify_gschema, describe="named groups / xs:all: SchemaParser + SchemaMapper + ClassContainer UNGROUP step (FlattenAttributeGroups, copy_group_attributes) -> attrs and paths of every class vs model"),
    Corr("gen.grp_calc", gen_gcalc, impl_gcalc, canon=canon_gsites,
         classify=classify_gclasses, describe="one CalculateAttributePaths handler over all the classes of a schema (paths with shared group ids) vs model"),
    Corr("gen.grp_occurs", gen_gsites, lambda a: impl_gsites(a, upto="flatten"), canon=canon_gsites,
         classify=classify_gschema, describe="named groups / xs:all: real container through the FLATTEN step vs model (UNGROUP + the three handlers)"),
    Corr("gen.grp_fields", gen_gfields, impl_gfields, canon=canon_gfields,
         classify=classify_gschema, describe="named groups / xs:all: whole real pipeline + stand-in renderer: list-ness / requiredness of the fields of every class vs model"),
    Corr("gen.attr_map", gen_attr_decls, impl_attr_map,
         classify=classify_decls, describe="use/default/fixed: SchemaParser + SchemaMapper.build_class_attribute (+ CalculateAttributePaths) on xs:attribute / xs:element declarations vs model"),
    Corr("gen.attr_sanitize", gen_attr_sanitize, impl_attr_sanitize,
         classify=classify_sanitize, describe="SanitizeAttributesDefaultValue.process_attribute on constructed attrs vs model"),
    Corr("gen.attr_fields", gen_attr_fields, impl_attr_fields,
         classify=classify_decls, describe="use/default/fixed: whole real pipeline + stand-in renderer: presence, init and default of the dataclass field of every declaration vs model"),
    Corr("gen.enum_default", lambda rng, tier: _c16().gen_enum_default(rng, tier), lambda a: _c16().impl_enum_default(a),
         classify=lambda a, o: _c16().classify_enum_default(a, o),
         describe="xs:enumeration / DTD enumerations whose values collide after slugging: is_valid_enum_type placeholder and the member values field_default_enum / constant_name resolve it to vs model (shared with C16)"),
    Corr("gen.read_attr", gen_read_attr, impl_read_attr, classify=classify_read_attr,
         describe="readAttr (the conclusion of attribute_faithful): whole real pipeline on one xs:attribute declaration, then the real XmlParser (fail_on_unknown_attributes) on documents that omit / give the attribute (valid or not) vs readAttr (attrField d)"),
    Corr("gen.find_dependency", gen_find_dependency, impl_find_dependency,
         classify=lambda a, o: f"{a['tag']}/n={len(a['cands'])}/{'own' if a['target'] is not None else 'other'}",
         describe="ProcessAttributeTypes.find_dependency in a real container with every arrangement of same-named Element / ComplexType / SimpleType / Attribute classes vs model"),
    Corr("gen.field_type", gen_field_type, impl_field_type, classify=classify_field_type,
         describe="whole real pipeline + stand-in renderer (real Filters.field_type): the annotation of the field of an element / attribute (required, optional, list) of every DataType member and of user simple types (restriction with/without pattern, list, union, nested) + tokens flag vs model"),
    Corr("gen.override", gen_override, impl_override,
         classify=classify_override, describe="ValidateAttributesOverrides.validate_override on constructed child/parent attrs vs model"),
    Corr("gen.restrict_attrs", gen_restrict, impl_restrict_attrs,
         classify=classify_restrict, describe="ValidateAttributesOverrides.process on a constructed class with a restriction base (validate_attrs + prohibit_parent_attrs) vs model"),
    Corr("gen.restrict_fields", gen_restrict_fields, impl_restrict_fields,
         classify=classify_restrict, describe="complexContent restriction: whole real pipeline + stand-in renderer, the dataclass fields of base and derived class vs model"),
    Corr("gen.ext_fields", gen_ext, impl_ext_fields, canon=canon_ext_fields,
         classify=lambda a, o: classify_particle({'particle': a['base']}, o), describe="complexContent extension: whole real pipeline + stand-in renderer, list-ness / requiredness of inherited + own fields of the derived class vs model"),
    Corr("gen.subst_sites", gen_subst_sites, impl_subst_sites, canon=canon_by_name,
         nontrivial=lambda a, o: bool(a["subs"]),
         classify=classify_subst, describe="AddAttributeSubstitutions.process on a constructed class in a real container (global elements with substitutionGroup) vs model"),
    Corr("gen.subst_fields", gen_subst_fields, impl_subst_fields, canon=canon_fields,
         nontrivial=lambda a, o: bool(a["subs"]),
         classify=classify_subst, describe="substitution groups: whole real pipeline + stand-in renderer: list-ness / requiredness of the fields (head and members) vs model"),
    Corr("gen.ns_attrs", gen_ns, impl_ns_attrs, classify=classify_ns,
         describe="namespaces and forms: SchemaParser (forms, chameleon target namespace) + SchemaMapper.element_namespace for the class and every declaration vs model"),
    Corr("gen.ns_meta", gen_ns_meta, impl_ns_meta,
         describe="Filters.field_metadata namespace entry + XmlMetaBuilder.resolve_namespaces on constructed attrs vs model"),
    Corr("gen.ns_fields", gen_ns_fields, impl_ns_fields, classify=classify_ns,
         describe="namespaces and forms: whole real pipeline (imports, chameleon include) + stand-in renderer + XmlContext: namespace of the qualified name of the class and of every field vs model"),
    Corr("gen.compound", gen_compound, impl_compound, classify=classify_compound,
         nontrivial=lambda a, o: any("compound" in x for x in (o.get("ok") or [])),
         describe="CreateCompoundFields.process (compound fields enabled: group_fields, update_counters, sum_counters, sequence) on the attrs the real FLATTEN handlers leave vs model"),
    Corr("c02.e2e", gen_e2e, impl_e2e, spec=spec_e2e, compare=compare_e2e,
         describe="spec-level: schema (typed elements, unions) -> real pipeline under default / compound-field / output-only options -> strict parse of valid documents -> re-serialise; expected: faithful"),
]


# ------------------------------------------------------------------ oracle: the property on the real pipeline
def true_max(p, n):
    """reference: the largest number of `n` children any valid word can have (None = unbounded)"""

    def mul(a, b):
        if a == 0 or b == 0:
            return 0
        if a is None or b is None:
            return None
        return a * b

    def add(a, b):
        if a is None or b is None:
            return None
        return a + b

    def mx(a, b):
        if a is None or b is None:
            return None
        return max(a, b)

    if "elem" in p:
        name, mn, ma = p["elem"]
        return (None if ma == MAXSIZE else ma) if name == n else 0
    if "seq" in p:
        mn, ma, kids = p["seq"]
        tot = 0
        for k in kids:
            tot = add(tot, true_max(k, n))
        return mul(None if ma == MAXSIZE else ma, tot)
    mn, ma, kids = p["choice"]
    best = 0
    for k in kids:
        best = mx(best, true_max(k, n))
    return mul(None if ma == MAXSIZE else ma, best)


def multi_site(p, n):
    return G.particle_names(p).count(n) > 1


def order_promised(p, top=True):
    """every repeating group is a choice of single elements, or the top-level sequence of single elements.
    (A reference to an element that heads a substitution group is a single element particle of the schema:
    the clause applies to it.)"""
    if "elem" in p:
        return True
    if "choice" in p:
        mn, mx, kids = p["choice"]
        return all("elem" in k and k["elem"][1:] == [1, 1] for k in kids)
    mn, mx, kids = p["seq"]
    if mx > 1:
        # "single elements": each member occurs exactly once per iteration (with optional or
        # repeating members the rolling interleave of sequence fields cannot tell iterations apart)
        return top and all("elem" in k and k["elem"][1:] == [1, 1] for k in kids)
    return all(order_promised(k, False) for k in kids)


def has_choice(p):
    if "elem" in p:
        return False
    if "choice" in p:
        return True
    return any(has_choice(k) for k in p["seq"][2])


def order_clause(p, opts):
    """does the property promise the element order for this content model under these options: choices of
    single elements need compound fields; a content model without any choice (its only repeating group is the
    top-level sequence of single elements) is promised under every configuration"""
    return order_promised(p) and (bool(opts.get("compound_fields")) or not has_choice(p))


def repeating_heads(a):
    """element references with substitutes that a valid document may use more than once (the reference
    repeats, or sits in a repeating group)"""
    heads = {h for _, h in a.get("subs", ()) if h in a.get("refs", ())}
    out = set()
    for h in heads:
        tm = true_max(a["particle"], h)
        if tm is None or tm > 1:
            out.add(h)
    return out


# "nothing retyped": the python type a value of each XSD type of `G.ELEM_TYPES` is held as (own table, from the
# XSD built-in datatypes; a union holds a value of one of its member types)
PY_TYPES = {
    "string": {"str"}, "token": {"str"}, "int": {"int"}, "long": {"int"}, "boolean": {"bool"}, "date": {"XmlDate"},
    "decimal": {"Decimal"}, "u_int_string": {"int", "str"}, "u_date_int": {"XmlDate", "int"},
    "l_int": {"int"}, "l_date": {"XmlDate"}, "nmtokens": {"str"},  # the items of a token list
}


def retyped(obj, types):
    """an element value of the parsed object that is not held as a value of its schema type"""
    for f in dataclasses.fields(obj):
        md = f.metadata
        key = (types or {}).get(md.get("name", f.name))
        if md.get("type") != "Element" or key not in PY_TYPES:
            continue
        v = getattr(obj, f.name)
        vs = v if type(v) in (list, tuple) else [v]  # frozen classes hold tuples; XmlDate is a NamedTuple
        if key in G.LIST_TYPES:  # a token list, or (repeating element) a list of token lists: judge the items
            if not (type(v) in (list, tuple)):
                return f"element {md.get('name', f.name)} of the list type {G.ELEM_TYPES[key][0]} is held as {type(v).__name__} ({v!r})"
            vs = [y for x in vs for y in (x if type(x) in (list, tuple) else [x])]
        for x in vs:
            if x is not None and type(x).__name__ not in PY_TYPES[key]:
                return f"element {md.get('name', f.name)} of type {G.ELEM_TYPES[key][0]} is held as {type(x).__name__} ({x!r})"
    return None


def _oracle_docs_failures(a):
    """yields every failure, pass by pass (a failure ends its pass)"""
    from lxml import etree
    from xsdata.formats.dataclass.context import XmlContext
    from xsdata.formats.dataclass.parsers import XmlParser
    from xsdata.formats.dataclass.parsers.config import ParserConfig
    from xsdata.formats.dataclass.serializers import XmlSerializer

    p, words, types = a["particle"], a["words"], a.get("types")
    xsd = G.particle_xsd(p, types=types, refs=a.get("refs", ()), subs=[tuple(x) for x in a.get("subs", ())])
    try:
        schema = etree.XMLSchema(etree.fromstring(xsd.encode()))
    except etree.XMLSchemaParseError:
        return  # not a valid schema (e.g. non-deterministic content model): outside the property
    passes = [({}, order_clause(p, {}))]
    for extra in a.get("configs", []):
        passes.append((extra, order_clause(p, extra)))
    state = {}
    for opts, ordered in passes:
        g = CG.run_pipeline({"s.xsd": xsd}, **opts)
        try:
            yield from _one_pass(g, opts, ordered, a, p, words, types, schema, state)
        finally:
            g.close()


def _one_pass(g, opts, ordered, a, p, words, types, schema, state):
    from lxml import etree
    from xsdata.formats.dataclass.context import XmlContext
    from xsdata.formats.dataclass.parsers import XmlParser
    from xsdata.formats.dataclass.parsers.config import ParserConfig
    from xsdata.formats.dataclass.serializers import XmlSerializer

    reference = state.get("reference")
    if True:
        if True:
            if g.error is not None:
                yield f"generation failed ({opts}): {type(g.error).__name__}: {g.error}"
                return
            R = g.classes()["R"]
            ctx = XmlContext()
            parser = XmlParser(context=ctx, config=ParserConfig(fail_on_unknown_properties=True, fail_on_unknown_attributes=True, fail_on_converter_warnings=True))
            outs = []
            for w in words:
                doc = G.word_doc(w, types=types)
                if not schema.validate(etree.fromstring(doc.encode())):
                    continue
                try:
                    obj = parser.from_string(doc, R)
                except Exception as e:  # noqa: BLE001
                    yield f"schema-valid document {doc} rejected ({opts}): {type(e).__name__}: {e}"
                    continue
                if types and not opts.get("compound_fields"):
                    bad = retyped(obj, types)
                    if bad:
                        yield f"document {doc} parsed with a retyped value ({opts}): {bad}"
                        continue
                try:
                    out = XmlSerializer(context=ctx).render(obj)
                except Exception as e:  # noqa: BLE001
                    yield f"document {doc} parsed but cannot be written ({opts}): {type(e).__name__}: {e}"
                    continue
                back = etree.fromstring(out.encode())
                got = [(etree.QName(c).localname, c.text) for c in back]
                exp = list(zip(w, G.word_values(w, types)))
                if sorted(got) != sorted(exp):
                    yield f"document {doc} re-serialised with other content ({opts}): {out}"
                    continue
                if ordered:
                    if got != exp:
                        yield f"document {doc} re-serialised in another element order ({opts}): {out}"
                        continue
                    if not schema.validate(back):
                        yield f"document {doc} re-serialised as {out}, which is not schema-valid ({opts})"
                        continue
                outs.append(sorted(got))
            if reference is None:
                state["reference"] = reference = outs
            elif outs != reference and not opts.get("compound_fields"):
                yield f"output-only options {opts} change the documents produced"


def oracle_docs(a):
    """the first failure that no listed finding covers; else the first failure; else None. (A covered failure of
    one configuration must not hide an uncovered failure of another.)"""
    first = None
    cov = covered_subst if "subs" in a else covered_docs
    for msg in _oracle_docs_failures(a):
        if first is None:
            first = msg
        if not cov(a, msg):
            return msg
    return first


OUTPUT_ONLY = [
    {"structure_style": "single-package"},
    {"unnest_classes": True},
    {"frozen": True},
    {"slots": True},
    {"docstring_style": "Google"},
    {"relative_imports": True},
    {"generic_collections": True},
    {"kw_only": False},
]


def token_list_cases(rng, n):
    """content models with elements of an xs:list type (token lists: one element per list, a repeating
    element is a list of token lists) where the serializer has to interleave fields:
    (1) the top-level repeating sequence of single elements (order promised under every configuration),
    (2) … with an optional / repeating member, (3) a repeating sequence below the top, (4) a repeating choice of
    single elements (compound fields), (5) a non-repeating choice with a multi-element sequence alternative
    followed by an optional element, e.g. ((name | (first, last)), email?) — each with words of 2..3 iterations"""
    names = ["a", "b", "c", "d", "e"]
    for i in range(n):
        k = rng.randint(2, 4)
        ns = names[:k]
        kind = i % 6
        mn, mx = rng.choice([(0, G.MAXSIZE), (1, G.MAXSIZE), (1, 3), (2, 4)])
        if kind in (0, 1, 2):
            kids = [{"elem": [x, 1, 1]} for x in ns]
            if kind == 1:
                kids[rng.randrange(k)]["elem"][1:] = rng.choice([[0, 1], [1, 2], [0, G.MAXSIZE]])
            rep = {"seq": [mn, mx, kids]}
            p = rep if kind != 2 else {"seq": [1, 1, [{"elem": ["x", 1, 1]}, rep, {"elem": ["y", 0, 1]}]]}
            iters = [[w for _ in range(r) for kd in kids for w in G.sample_word(rng, kd)] for r in (max(mn, 2), max(mn, 3))]
            words = iters if kind != 2 else [["x"] + w + (["y"] if j else []) for j, w in enumerate(iters)]
        elif kind == 3:
            p = {"choice": [mn, mx, [{"elem": [x, 1, 1]} for x in ns]]}
            words = [[rng.choice(ns) for _ in range(r)] for r in (max(mn, 2), max(mn, 3))]
        elif kind == 4:
            alt = {"seq": [1, 1, [{"elem": [x, 1, 1]} for x in ns[1:]]]}
            p = {"seq": [1, 1, [{"choice": [1, 1, [{"elem": [ns[0], 1, 1]}, alt]]}, {"elem": ["z", 0, 1]}]]}
            words = [[ns[0]], ns[1:] + ["z"], [ns[0], "z"], ns[1:]]
        else:
            # (6) a repeating sequence of a choice (one compound field, rolled out item by item) and a single element
            alt = {"seq": [1, 1, [{"elem": [x, 1, 1]} for x in ns]]}
            p = {"seq": [mn, mx, [{"choice": [1, 1, [alt] + ([{"elem": ["y", 1, 1]}] if rng.random() < 0.5 else [])]}, {"elem": ["z", 1, 1]}]]}
            words = [(ns + ["z"]) * r for r in (max(mn, 1), max(mn, 2))]
        types = G.assign_types(rng, p)
        for x in rng.sample(ns, rng.randint(1, k)):
            types[x] = rng.choice(G.LIST_TYPES)
        configs = [{"compound_fields": True}] + ([rng.choice(OUTPUT_ONLY)] if rng.random() < 0.3 else [])
        yield {"particle": p, "words": words + [G.sample_word(rng, p) for _ in range(2)], "types": types, "configs": configs}


def gen_docs(rng, tier):
    for a in token_list_cases(rng, n_cases(tier, 15, 600)):
        try:
            from lxml import etree

            etree.XMLSchema(etree.fromstring(G.particle_xsd(a["particle"], types=a["types"]).encode()))
        except Exception:  # noqa: BLE001
            continue
        yield a
    for p in particles(rng, n_cases(tier, 60, 100000), dup_share=0.3):
        typed = rng.random() < 0.6
        types = G.assign_types(rng, p) if typed else None
        try:
            from lxml import etree

            etree.XMLSchema(etree.fromstring(G.particle_xsd(p, types=types).encode()))
        except Exception:  # noqa: BLE001
            continue
        configs = [{"compound_fields": True}] if rng.random() < 0.6 else []
        if rng.random() < 0.4:
            configs.append(rng.choice(OUTPUT_ONLY))
        yield {"particle": p, "words": [G.sample_word(rng, p) for _ in range(5)], "types": types, "configs": configs}


# ---- named model groups referenced from several types with different occurrence ranges
def oracle_groups(a):
    """every reference of a named group has its own occurrence range and ancestry: documents valid
    for the type of r<i> parse into the generated class R<i> and come back with the same children"""
    from lxml import etree
    from xsdata.formats.dataclass.context import XmlContext
    from xsdata.formats.dataclass.parsers import XmlParser
    from xsdata.formats.dataclass.parsers.config import ParserConfig
    from xsdata.formats.dataclass.serializers import XmlSerializer

    group, refs, types = a["group"], a["refs"], a.get("types")
    xsd = G.group_refs_xsd(group, refs, types=types)
    try:
        schema = etree.XMLSchema(etree.fromstring(xsd.encode()))
    except etree.XMLSchemaParseError:
        return None
    g = CG.run_pipeline({"s.xsd": xsd}, **a.get("config", {}))
    try:
        if g.error is not None:
            return f"generation failed: {type(g.error).__name__}: {g.error}"
        ctx = XmlContext()
        parser = XmlParser(context=ctx, config=ParserConfig(fail_on_unknown_properties=True, fail_on_unknown_attributes=True, fail_on_converter_warnings=True))
        for i, words in enumerate(a["words"]):
            R = g.classes()[f"R{i}"]
            for w in words:
                doc = G.word_doc(w, types=types, root=f"r{i}")
                if not schema.validate(etree.fromstring(doc.encode())):
                    continue
                try:
                    obj = parser.from_string(doc, R)
                except Exception as e:  # noqa: BLE001
                    return f"schema-valid document {doc} rejected (group reference #{i} with occurs {refs[i]}): {type(e).__name__}: {e}"
                out = XmlSerializer(context=ctx).render(obj)
                got = [(etree.QName(c).localname, c.text) for c in etree.fromstring(out.encode())]
                if sorted(got) != sorted(zip(w, G.word_values(w, types))):
                    return f"document {doc} re-serialised with other content (group reference #{i}): {out}"
    finally:
        g.close()
    return None


def gen_groups(rng, tier):
    occs = [(1, 1), (0, 1), (0, G.MAXSIZE), (1, G.MAXSIZE), (2, 3), (0, 2)]
    hand = {"seq": [1, 1, [{"elem": ["a", 1, 1]}, {"elem": ["b", 0, 1]}]]}
    yield {"group": hand, "refs": [(1, 1), (0, G.MAXSIZE)], "words": [[["a", "b"], ["a"]], [[], ["a", "a", "b", "a"], ["a", "b"]]], "types": None}
    yield {"group": hand, "refs": [(0, G.MAXSIZE), (1, 1)], "words": [[[], ["a", "a", "b", "a"]], [["a", "b"], ["a"]]], "types": None}
    for _ in range(n_cases(tier, 40, 100000)):
        q = G.gen_particle(rng, distinct=["a", "b", "c", "d", "e", "f"])
        if q is None or "elem" in q:
            continue
        kind = "seq" if "seq" in q else "choice"
        q = {kind: [1, 1, q[kind][2]]}
        refs = [rng.choice(occs) for _ in range(rng.randint(2, 3))]
        types = G.assign_types(rng, q) if rng.random() < 0.4 else None
        words = [[G.sample_word(rng, {"seq": [mn, mx, [q]]}) for _ in range(4)] for mn, mx in refs]
        cfg = {"compound_fields": True} if rng.random() < 0.3 else {}
        yield {"group": q, "refs": refs, "words": words, "types": types, "config": cfg}


def _oracle_gschema_failures(a):
    """schemas with named groups (nested references, several references with their own occurrence ranges)
    and xs:all: documents valid for the type of r<i> parse into R<i> under strict settings and come back
    with the same children"""
    from lxml import etree
    from xsdata.formats.dataclass.context import XmlContext
    from xsdata.formats.dataclass.parsers import XmlParser
    from xsdata.formats.dataclass.parsers.config import ParserConfig
    from xsdata.formats.dataclass.serializers import XmlSerializer

    sch, types = a["schema"], a.get("types")
    xsd = G.gschema_xsd(sch, types=types, defs_last=bool(a.get("defs_last")))
    try:
        schema = etree.XMLSchema(etree.fromstring(xsd.encode()))
    except etree.XMLSchemaParseError:
        return
    g = CG.run_pipeline({"s.xsd": xsd}, **a.get("config", {}))
    try:
        if g.error is not None:
            yield f"generation failed: {type(g.error).__name__}: {g.error}"
            return
        ctx = XmlContext()
        parser = XmlParser(context=ctx, config=ParserConfig(fail_on_unknown_properties=True, fail_on_unknown_attributes=True, fail_on_converter_warnings=True))
        for i, words in enumerate(a["words"]):
            R = g.classes()[f"R{i}"]
            for w in words:
                doc = G.word_doc(w, types=types, root=f"r{i}")
                if not schema.validate(etree.fromstring(doc.encode())):
                    continue
                try:
                    obj = parser.from_string(doc, R)
                except Exception as e:  # noqa: BLE001
                    yield f"schema-valid document {doc} rejected (type #{i}): {type(e).__name__}: {e}"
                    continue
                out = XmlSerializer(context=ctx).render(obj)
                got = [(etree.QName(c).localname, c.text) for c in etree.fromstring(out.encode())]
                if sorted(got) != sorted(zip(w, G.word_values(w, types))):
                    yield f"document {doc} re-serialised with other content (type #{i}): {out}"
    finally:
        g.close()


def oracle_gschema(a):
    """the first failure no listed finding covers, else the first failure, else None (a covered failure of one
    document must not hide an uncovered failure of another)"""
    first = None
    for msg in _oracle_gschema_failures(a):
        if first is None:
            first = msg
        if not covered_gschema(a, msg):
            return msg
    return first


def gen_gschema_docs(rng, tier):
    for sch in HAND_GROUPS:
        yield {"schema": sch, "words": [[G.sample_gword(rng, sch, t) for _ in range(4)] for t in sch["types"]], "types": None}
    n = 0
    while n < n_cases(tier, 60, 100000):
        n += 1
        sch = G.gen_gschema(rng, valid=True, dup=rng.random() < 0.1)
        names = {x for t in sch["types"] for x in G.gparticle_names(sch, t)}
        types = {x: rng.choice(list(G.ELEM_TYPES)) for x in names} if rng.random() < 0.4 else None
        if not gschema_valid(sch, types):
            continue
        words = [[G.sample_gword(rng, sch, t) for _ in range(4)] for t in sch["types"]]
        cfg = {"compound_fields": True} if rng.random() < 0.3 else {}
        yield {"schema": sch, "words": words, "types": types, "config": cfg, "defs_last": rng.random() < 0.3}


def covered_gschema(a, msg):
    """known finding C02-duplicate-name-sites (an element name with several sites in the expanded content model), and only
    the failures it describes: `Unknown property …:n` for such a name n that the rejected document carries more than once,
    or, with compound fields, a re-serialisation that lacks only elements with such names.  Anything else is reported."""
    import re

    from lxml import etree

    m = re.search(r"\(type #(\d+)\)", msg)
    if not m:
        return None
    names = G.gparticle_names(a["schema"], a["schema"]["types"][int(m.group(1))])
    dups = {n for n in names if names.count(n) > 1}
    if not dups:
        return None
    DOC = r"(<t:r\d+\b.*?</t:r\d+>|<t:r\d+\b[^>]*/>)"
    m = re.search(r"schema-valid document " + DOC + r" rejected \(type #\d+\): ParserError: Unknown property (?:\{urn:t\})?r\d+:(?:\{urn:t\})?([^\s:{}]+)\s*$", msg, re.S)
    if m:
        n = m.group(2)
        try:
            count = sum(1 for ch in etree.fromstring(m.group(1).encode()) if etree.QName(ch).localname == n)
        except etree.XMLSyntaxError:
            return None
        return "C02-duplicate-name-sites" if n in dups and count > 1 else None
    m = re.search(r"document " + DOC + r" re-serialised with other content \(type #\d+\): (<\?xml.*)$", msg, re.S)
    if m and a.get("config", {}).get("compound_fields"):
        try:
            root = etree.fromstring(m.group(1).encode())
            back = etree.fromstring(m.group(2).strip().encode())
        except (etree.XMLSyntaxError, ValueError):
            return None

        def others(e):
            return sorted((etree.QName(ch).localname, ch.text) for ch in e if etree.QName(ch).localname not in dups)

        if others(root) == others(back):
            return "C02-duplicate-name-sites"
    return None


def _oracle_attr_docs_failures(a):
    """use/default/fixed: whatever a schema-valid element carries for an attribute declaration is accepted by
    the strict parser and read as the schema-normalized value (the value given, else default/fixed, else nothing);
    elements with default/fixed and every occurrence range keep their children through the round trip"""
    from lxml import etree
    from xsdata.formats.dataclass.context import XmlContext
    from xsdata.formats.dataclass.parsers import XmlParser
    from xsdata.formats.dataclass.parsers.config import ParserConfig
    from xsdata.formats.dataclass.serializers import XmlSerializer

    decls = a["decls"]
    xsd = G.decls_xsd(decls)
    try:
        schema = etree.XMLSchema(etree.fromstring(xsd.encode()))
    except etree.XMLSchemaParseError:
        return
    g = CG.run_pipeline({"s.xsd": xsd}, **a.get("config", {}))
    try:
        if g.error is not None:
            yield f"generation failed: {type(g.error).__name__}: {g.error}"
            return
        R = g.classes()["R"]
        ctx = XmlContext()
        parser = XmlParser(context=ctx, config=ParserConfig(fail_on_unknown_properties=True, fail_on_unknown_attributes=True, fail_on_converter_warnings=True))
        fields = {f.metadata.get("name", f.name): f.name for f in dataclasses.fields(R)}
        for doc_spec in a["docs"]:
            attrs = "".join(f' d{i}="{G._xml_attr(v)}"' for i, v in doc_spec["attrs"])
            kids = "".join((f'<t:d{i} xsi:nil="true"/>' if v is None else f"<t:d{i}>{v}</t:d{i}>") for i, vals in doc_spec["elems"] for v in vals)
            doc = f'<t:r xmlns:t="urn:t" xmlns:xsi="{XSI}"{attrs}>{kids}</t:r>'
            if not schema.validate(etree.fromstring(doc.encode())):
                continue
            try:
                obj = parser.from_string(doc, R)
            except Exception as e:  # noqa: BLE001
                yield f"schema-valid document {doc} rejected: {type(e).__name__}: {e}"
                continue
            given = dict(doc_spec["attrs"])
            for i, d in enumerate(decls):
                if d["kind"] != "attribute" or d["use"] == "prohibited":
                    continue
                want = given.get(i)
                if want is None:
                    want = d["default"] if d["default"] is not None else d["fixed"]
                got = getattr(obj, fields[f"d{i}"]) if f"d{i}" in fields else None
                if d.get("enum"):
                    # an enumeration-typed field holds the member (or the members, for a list) of that value
                    import enum as _enum

                    items = list(got) if isinstance(got, (list, tuple)) else [got]
                    if got is not None and not all(isinstance(x, _enum.Enum) for x in items):
                        yield f"document {doc}: attribute d{i} ({d}) is held as {got!r}, not as member(s) of its enumeration (retyped)"
                        continue
                    if isinstance(got, (list, tuple)):
                        got = " ".join(x.value if isinstance(x, _enum.Enum) else str(x) for x in got) if got else None
                    elif isinstance(got, _enum.Enum):
                        got = got.value
                if got != want:
                    yield f"document {doc}: attribute d{i} ({d}) read as {got!r}, schema-normalized value {want!r}"
                    continue
            out = XmlSerializer(context=ctx).render(obj)
            back = etree.fromstring(out.encode())
            exp_kids = [(f"d{i}", v) for i, vals in doc_spec["elems"] for v in vals]
            got_kids = [(etree.QName(c).localname, None if c.get("{%s}nil" % XSI) == "true" else (c.text or "")) for c in back]
            if got_kids != exp_kids:
                yield f"document {doc} re-serialised with other children: {out}"
                # the xsi:nil findings: when the difference is exactly the one they describe, the remaining clauses
                # (attributes, validity of the output) are still judged
                if got_kids != nil_predicted(decls, doc_spec["elems"])[0]:
                    continue

            def norm(attrib):
                m = {k: v for k, v in attrib.items()}
                for i, d in enumerate(decls):
                    if d["kind"] == "attribute" and d["use"] != "prohibited" and f"d{i}" not in m:
                        dv = d["default"] if d["default"] is not None else d["fixed"]
                        if dv is not None:
                            m[f"d{i}"] = dv
                return m

            if norm(back.attrib) != norm({f"d{i}": v for i, v in doc_spec["attrs"]}):
                yield f"document {doc} re-serialised with other attributes (after defaults): {out}"
                continue
            if not schema.validate(back):
                yield f"document {doc} re-serialised as {out}, which is not schema-valid"
                continue
    finally:
        g.close()
    return


XSI = "http://www.w3.org/2001/XMLSchema-instance"



def oracle_attr_docs(a):
    """the first failure no listed finding covers, else the first failure, else None"""
    first = None
    for msg in _oracle_attr_docs_failures(a):
        if first is None:
            first = msg
        if not covered_attr_docs(a, msg):
            return msg
    return first

_LISTED = []


def listed_findings():
    """ids under "findings" in known_findings.json: a clause that describes a listed defect applies only while the defect
    is listed (a repaired one moves to "fixed" and its clause lapses with it)"""
    if not _LISTED:
        import framework

        _LISTED.append({f["id"] for f in framework.load_findings().get("findings", [])})
    return _LISTED[0]


def nil_predicted(decls, elems):
    """the children the UNCHANGED code writes back under the two listed xsi:nil findings (the object holds None for
    'absent', 'nil' and 'empty' alike): an absent optional single nillable element appears as nil, an empty nillable
    element comes back as nil; everything else as given.  Returns (children, finding id) or (None, None) when neither
    finding says anything about this document."""
    given = dict((i, list(vals)) for i, vals in elems)
    out, fid = [], None
    listed = listed_findings()
    for i, d in enumerate(decls):
        if d["kind"] != "element":
            continue
        vals = given.get(i, [])
        if d.get("nillable"):
            if "" in vals and "C02-nillable-empty-read-as-nil" in listed:
                fid = fid or "C02-nillable-empty-read-as-nil"
                vals = [None if v == "" else v for v in vals]
            if not vals and d["min"] == 0 and d["max"] == 1 and "C02-nillable-absent-rendered-nil" in listed:
                fid = "C02-nillable-absent-rendered-nil"
                vals = [None]
        out += [(f"d{i}", v) for v in vals]
    return (out, fid) if fid else (None, None)


def covered_attr_docs(a, msg):
    """known findings about xsi:nil, and only the failure they describe: the re-serialised document (quoted in the
    message) has exactly the children `nil_predicted` gives for the failing document.  Any other difference in a
    document with nillable elements is reported."""
    import re

    from lxml import etree

    m = re.search(r"document (<t:r\b.*?</t:r>|<t:r\b[^>]*/>) re-serialised with other children: (<\?xml.*)$", msg, re.S)
    if not m:
        return None
    try:
        root = etree.fromstring(m.group(1).encode())
        back = etree.fromstring(m.group(2).strip().encode())
    except (etree.XMLSyntaxError, ValueError):
        return None

    def kids(e):
        return [(etree.QName(c).localname, None if c.get("{%s}nil" % XSI) == "true" else (c.text or "")) for c in e]

    elems = {}
    for name, v in kids(root):
        elems.setdefault(int(name[1:]), []).append(v)
    pred, fid = nil_predicted(a["decls"], sorted(elems.items()))
    if pred is not None and kids(back) == pred:
        return fid
    return None


def gen_attr_docs(rng, tier):
    n = 0
    while n < n_cases(tier, 60, 100000):
        n += 1
        decls = []
        for _ in range(rng.randint(1, 7)):
            d = G.gen_decl(rng)
            if d.get("enum") and d["kind"] == "attribute" and rng.random() < 0.3:
                # a list of the enumeration: default / fixed is a token list of members
                d["enum_list"] = True
                for k in ("default", "fixed"):
                    if d[k] is not None:
                        d[k] = " ".join(rng.sample(d["enum"], rng.randint(1, min(3, len(d["enum"])))))
            if G.decl_valid(d) and not (d["kind"] == "element" and d["type"] is None):
                if d["kind"] == "element" and d["fixed"] is None and d["default"] is None and rng.random() < 0.3:
                    d["nillable"] = True
                decls.append(d)
        if not decls:
            continue
        docs = []
        for _ in range(4):
            attrs, elems = [], []
            for i, d in enumerate(decls):
                if d["kind"] == "attribute":
                    if d["use"] == "prohibited":
                        continue
                    if d["use"] == "required" or rng.random() < 0.5:
                        if d.get("enum_list"):
                            free = " ".join(rng.sample(d["enum"], rng.randint(1, len(d["enum"]))))
                        else:
                            free = rng.choice(d["enum"]) if d.get("enum") else rng.choice(["v1", "dv", "other value"])
                        attrs.append([i, d["fixed"] if d["fixed"] is not None else free])
                else:
                    hi = d["min"] + 2 if d["max"] == MAXSIZE else d["max"]
                    k = rng.randint(d["min"], max(d["min"], hi))
                    val = d["fixed"] if d["fixed"] is not None else None
                    vals = [val if val is not None else (rng.choice(d["enum"]) if d.get("enum") else f"e{j}") for j in range(k)]
                    if d.get("nillable"):
                        vals = [None if rng.random() < 0.4 else ("" if rng.random() < 0.15 else v) for v in vals]
                    elems.append([i, vals])
            docs.append({"attrs": attrs, "elems": elems})
        yield {"decls": decls, "docs": docs, "config": {"compound_fields": True} if rng.random() < 0.2 else {}}


def oracle_derived(a):
    """types derived by extension / restriction: documents valid for the derived type parse into the derived
    class under strict settings and come back with the same children"""
    from lxml import etree
    from xsdata.formats.dataclass.context import XmlContext
    from xsdata.formats.dataclass.parsers import XmlParser
    from xsdata.formats.dataclass.parsers.config import ParserConfig
    from xsdata.formats.dataclass.serializers import XmlSerializer

    xsd = G.derive_xsd(a["base"], own=a.get("own"), ext=a.get("ext"))
    try:
        schema = etree.XMLSchema(etree.fromstring(xsd.encode()))
    except etree.XMLSchemaParseError:
        return None
    g = CG.run_pipeline({"s.xsd": xsd}, **a.get("config", {}))
    try:
        if g.error is not None:
            return f"generation failed: {type(g.error).__name__}: {g.error}"
        ctx = XmlContext()
        parser = XmlParser(context=ctx, config=ParserConfig(fail_on_unknown_properties=True, fail_on_unknown_attributes=True, fail_on_converter_warnings=True))
        for root, words in a["docs"].items():
            R = g.classes()[root.capitalize()]
            for w in words:
                doc = G.word_doc(w, root=root)
                if not schema.validate(etree.fromstring(doc.encode())):
                    continue
                try:
                    obj = parser.from_string(doc, R)
                except Exception as e:  # noqa: BLE001
                    return f"schema-valid document {doc} rejected: {type(e).__name__}: {e}"
                out = XmlSerializer(context=ctx).render(obj)
                back = etree.fromstring(out.encode())
                got = [(etree.QName(c).localname, c.text) for c in back]
                if sorted(got) != sorted(zip(w, G.word_values(w))):
                    return f"document {doc} re-serialised with other content: {out}"
    finally:
        g.close()
    return None


def gen_derived(rng, tier):
    n = 0
    while n < n_cases(tier, 60, 100000):
        n += 1
        names = rng.sample(list("abcdefg"), rng.randint(1, 4))
        base = []
        for nm in names:
            mn, mx = rng.choice([(1, 1), (0, 1), (0, MAXSIZE), (1, MAXSIZE), (0, 3), (2, 5)])
            base.append({"name": nm, "min": mn, "max": mx, "default": None, "fixed": False})
        own = []
        for o in base:
            r = rng.random()
            if o["min"] == 0 and r < 0.3:
                continue  # left out by the restriction
            mn = rng.randint(o["min"], o["min"] + 1)
            hi = o["max"] if o["max"] != MAXSIZE else rng.choice([MAXSIZE, 1, 2, 4])
            mx = hi if r < 0.6 else max(mn, min(hi, rng.choice([1, 2, 3])))
            if mx < mn:
                mn = mx
            own.append({**o, "min": mn, "max": mx})
        ext = G.gen_particle(rng, distinct=["p", "q", "r", "s"])
        if ext is not None and "elem" in ext:
            ext = {"seq": [1, 1, [ext]]}
        base_p = {"seq": [1, 1, [{"elem": [o["name"], o["min"], o["max"]]} for o in base]]}
        own_p = {"seq": [1, 1, [{"elem": [o["name"], o["min"], o["max"]]} for o in own]]} if own else None
        docs = {"ra": [G.sample_word(rng, base_p) for _ in range(3)]}
        if own_p:
            docs["rc"] = [G.sample_word(rng, own_p) for _ in range(4)] + [G.sample_word(rng, base_p)]
        if ext is not None:
            docs["rb"] = [G.sample_word(rng, base_p) + G.sample_word(rng, ext) for _ in range(4)]
        yield {"base": base, "own": own if own_p else None, "ext": ext, "docs": docs,
               "config": {"compound_fields": True} if rng.random() < 0.2 else {}}


def gen_subst_docs(rng, tier):
    """element references whose elements head substitution groups: in the documents every occurrence of a
    reference is the head or a (transitive) member of its group"""
    # the shapes the order clause speaks of, with compound fields: a repeating top-level sequence of single
    # elements one of which has substitutes; a repeating reference with substitutes
    yield {**SUBST_ORDER_WITNESS, "words": [["m1", "c", "d", "c"], ["d", "c"], []], "configs": [{"compound_fields": True}]}
    yield {"particle": {"seq": [1, 1, [{"elem": ["x", 1, 1]}, {"elem": ["d", 0, MAXSIZE]}]]}, "refs": ["d"], "subs": [["m1", "d"], ["m2", "m1"]],
           "words": [["x", "m2", "d", "m1", "d"], ["x"]], "types": None, "configs": [{"compound_fields": True}]}
    n = 0
    while n < n_cases(tier, 60, 100000):
        n += 1
        a = gen_subst_case(rng)
        if a is not None and n % 3 == 0:
            # a repeating top-level sequence of references, each exactly once per iteration
            names = G.particle_names(a["particle"])[:3]
            a["particle"] = {"seq": [rng.choice([0, 1]), MAXSIZE, [{"elem": [x, 1, 1]} for x in dict.fromkeys(names)]]}
            a["refs"] = list(dict.fromkeys(names))
            a["subs"] = [[m, h] for m, h in a["subs"] if h in a["refs"] or h in {x for x, _ in a["subs"]}] or [["m1", a["refs"][0]]]
        if a is None or not a["subs"]:
            continue
        heads = {}
        for m, h in a["subs"]:
            heads.setdefault(h, []).append(m)

        def closure(h):
            out = [h]
            for m in heads.get(h, []):
                out += closure(m)
            return out

        words = []
        for _ in range(5):
            w = G.sample_word(rng, a["particle"])
            words.append([rng.choice(closure(x)) if x in a["refs"] else x for x in w])
        cfgs = [{"compound_fields": True}] if rng.random() < 0.6 else []
        yield {"particle": a["particle"], "refs": a["refs"], "subs": a["subs"], "words": words, "types": None, "configs": cfgs}


def covered_subst(a, msg):
    """known finding: without compound fields the head of a substitution group and its substitutes are separate
    list fields; when the reference can occur more than once their interleaving (with each other and with the
    other members of a repeating sequence) is lost (element names are distinct here; with compound fields the order
    is kept since fix c02c-01).  Only that failure is excused: the document comes back with the same children, every
    element name outside the group keeps the order of its own values, and the children outside the group that occur at
    most once per document are still in their order (`displaced_only_around`: the separate list fields of the group
    are written in turns with their repeatable neighbours, nothing else moves)."""
    import re

    from lxml import etree

    heads = repeating_heads(a)
    if not heads or "compound_fields" in msg:
        return None
    m = re.search(r"document (<t:r\b.*?</t:r>|<t:r\b[^>]*/>) re-serialised (?:in another element order \(\{\}\): |as )"
                  r"(<\?xml.*?</ns0:r>|<\?xml.*?<ns0:r\b[^>]*/>)(, which is not schema-valid \(\{\}\))?\s*$", msg, re.S)
    if not m:
        return None
    try:
        root = etree.fromstring(m.group(1).encode())
        back = etree.fromstring(m.group(2).encode())
    except (etree.XMLSyntaxError, ValueError):
        return None
    group = set(heads)
    grew = True
    while grew:
        grew = False
        for mem, h in a.get("subs", ()):
            if h in group and mem not in group:
                group.add(mem)
                grew = True

    def kids(e):
        return [(etree.QName(c).localname, c.text) for c in e]

    if sorted(kids(root)) == sorted(kids(back)) and displaced_only_around(a["particle"], group, kids(root), kids(back)):
        return "C02-substitution-order-without-compound"
    return None


def _oracle_ns_docs_failures(a):
    """namespaces and forms: an instance that carries every declared child and attribute under the name the schema
    gives it (own reference computation, document validated by lxml) parses under strict settings and comes back
    with the same expanded names"""
    import tempfile

    from lxml import etree
    from xsdata.formats.dataclass.context import XmlContext
    from xsdata.formats.dataclass.parsers import XmlParser
    from xsdata.formats.dataclass.parsers.config import ParserConfig
    from xsdata.formats.dataclass.serializers import XmlSerializer

    ctx, decls = a["ctx"], a["decls"]
    srcs = G.ns_sources(ctx, decls)
    entry = G.ns_entry(ctx)
    with tempfile.TemporaryDirectory(prefix="vpns_") as d:
        for k, v in srcs.items():
            with open(os.path.join(d, k), "w") as f:
                f.write(v)
        try:
            schema = etree.XMLSchema(etree.parse(os.path.join(d, entry[0])))
        except etree.XMLSchemaParseError:
            return
    g = CG.run_pipeline(srcs, entry=entry, **a.get("config", {}))
    try:
        if g.error is not None:
            yield f"generation failed: {type(g.error).__name__}: {g.error}"
            return
        R = g.classes()["R"]
        ctxt = XmlContext()
        parser = XmlParser(context=ctxt, config=ParserConfig(fail_on_unknown_properties=True, fail_on_unknown_attributes=True, fail_on_converter_warnings=True))
        for present in a["present"]:
            doc = G.ns_doc(ctx, decls, set(present))
            src = etree.fromstring(doc.encode())
            if not schema.validate(src):
                continue
            try:
                obj = parser.from_string(doc, R)
            except Exception as e:  # noqa: BLE001
                yield f"schema-valid document {doc} rejected: {type(e).__name__}: {e}"
                continue
            out = XmlSerializer(context=ctxt).render(obj)
            back = etree.fromstring(out.encode())
            if back.tag != src.tag or [(c.tag, c.text) for c in back] != [(c.tag, c.text) for c in src] or dict(back.attrib) != dict(src.attrib):
                yield f"document {doc} re-serialised under other names: {out}"
                continue
            if not schema.validate(back):
                yield f"document {doc} re-serialised as {out}, which is not schema-valid"
                continue
    finally:
        g.close()
    return



def oracle_ns_docs(a):
    """the first failure no listed finding covers, else the first failure, else None"""
    first = None
    for msg in _oracle_ns_docs_failures(a):
        if first is None:
            first = msg
        if not covered_ns(a, msg):
            return msg
    return first

def gen_ns_docs(rng, tier):
    n = 0
    for a in gen_ns(rng, "thorough"):
        n += 1
        if n > n_cases(tier, 200, 100000):
            break
        k = len(a["decls"])
        present = [list(range(k)), [i for i in range(k) if rng.random() < 0.5], []]
        yield {**a, "present": present, "config": {"compound_fields": True} if rng.random() < 0.2 else {}}


def ns_heuristic_wrong(a):
    """an unprefixed reference with no default namespace in scope, where "the target namespace has no binding
    in this document" and "this document is a chameleon include" do not coincide (the model's `refHeuristicOk`
    is false): element_namespace answers the target namespace for a document with its own, unbound, target
    namespace, and no namespace for a chameleon include that binds a prefix to the includer's namespace"""
    c = a["ctx"]
    bound = c["tns"] in c["prefixes"].values()
    return bool(c["tns"]) and not c["default"] and bool(c.get("chameleon")) == bound and any(
        d["kind"] == "ref" and d["prefix"] is None for d in a["decls"])


def covered_ns(a, msg):
    """known finding C02-unprefixed-ref-unbound-target-namespace, and only the failure it describes: the strict parser
    does not know the child (attribute) that an UNPREFIXED reference declares, because the field was bound to the other
    namespace.  A rejection that names anything else, or any other failure in such a context, is reported."""
    import re

    if not ns_heuristic_wrong(a):
        return None
    m = re.search(r" rejected: ParserError: Unknown (property|attribute) (?:\{[^}]*\})?r:(?:\{[^}]*\})?([^\s:{}]+)\s*$", msg)
    if not m:
        return None
    want_attr = m.group(1) == "attribute"
    if any(d["kind"] == "ref" and d["prefix"] is None and bool(d["attr"]) == want_attr and d["name"] == m.group(2) for d in a["decls"]):
        return "C02-unprefixed-ref-unbound-target-namespace"
    return None


# ---- wildcards, mixed content, recursion: schema templates with generated documents
def _canon(e):
    at = {}
    for k, v in e.attrib.items():
        if k == "{%s}type" % XSI_NS and ":" in v:
            # a QName: compared by expanded name, not by prefix
            pfx, local = v.split(":", 1)
            v = "{%s}%s" % (e.nsmap.get(pfx), local)
        at[k] = v
    return (e.tag, sorted(at.items()), e.text or "", [_canon(c) for c in e], e.tail or "")


XSI_NS = "http://www.w3.org/2001/XMLSchema-instance"


def _oracle_misc_failures(a):
    """xs:any / xs:anyAttribute with every namespace constraint and processContents, mixed="true", recursive and
    nested anonymous types: every schema-valid document parses under strict settings and comes back with the
    same infoset (prefixes aside)"""
    from lxml import etree
    from xsdata.formats.dataclass.context import XmlContext
    from xsdata.formats.dataclass.parsers import XmlParser
    from xsdata.formats.dataclass.parsers.config import ParserConfig
    from xsdata.formats.dataclass.serializers import XmlSerializer

    xsd = a["xsd"]
    try:
        schema = etree.XMLSchema(etree.fromstring(xsd.encode()))
    except etree.XMLSchemaParseError:
        return
    g = CG.run_pipeline({"s.xsd": xsd}, **a.get("config", {}))
    try:
        if g.error is not None:
            yield f"generation failed: {type(g.error).__name__}: {g.error}"
            return
        R = g.classes()["R"]
        ctx = XmlContext()
        parser = XmlParser(context=ctx, config=ParserConfig(fail_on_unknown_properties=True, fail_on_unknown_attributes=True, fail_on_converter_warnings=True))
        for doc in a["docs"]:
            src = etree.fromstring(doc.encode())
            if not schema.validate(src):
                continue
            try:
                obj = parser.from_string(doc, R)
            except Exception as e:  # noqa: BLE001
                yield f"schema-valid document {doc} rejected: {type(e).__name__}: {e}"
                continue
            out = XmlSerializer(context=ctx).render(obj)
            back = etree.fromstring(out.encode())
            for k, v in (a.get("defaults") or {}).items():
                # "modulo applied defaults": an absent attribute with a declared default may come back with it
                if k not in src.attrib and k in back.attrib and back.attrib[k] == v:
                    src.set(k, v)
            if _canon(back) != _canon(src):
                yield f"document {doc} re-serialised with another infoset: {out}"
                continue
            if not schema.validate(back):
                yield f"document {doc} re-serialised as {out}, which is not schema-valid"
                continue
    finally:
        g.close()
    return



def oracle_misc(a):
    """the first failure no listed finding covers, else the first failure, else None"""
    first = None
    for msg in _oracle_misc_failures(a):
        if first is None:
            first = msg
        if not covered_misc(a, msg):
            return msg
    return first


def _msg_docs(msg):
    """the document and its re-serialisation quoted by a failure message of oracle_misc"""
    from lxml import etree

    for sep in (" re-serialised with another infoset: ", " re-serialised as "):
        if msg.startswith("document ") and sep in msg:
            doc, out = msg[len("document "):].split(sep, 1)
            out = out.split(", which is not schema-valid")[0]
            try:
                return etree.fromstring(doc.encode()), etree.fromstring(out.encode())
            except etree.XMLSyntaxError:
                return None
    return None


def covered_misc(a, msg):
    """C02-empty-list-element-dropped: the re-serialisation is the document without its empty elements of list
    type, nothing else differs.  C02-same-name-type-and-element: the rejected child is the one whose type= / ref=
    names both a type and a global element of other content."""
    kind = a.get("kind", "")
    if kind.startswith("list") and a.get("list_elems"):
        pair = _msg_docs(msg)
        if pair:
            src, back = pair
            dropped = False
            for ch in list(src):
                from lxml import etree

                if etree.QName(ch).localname in a["list_elems"] and not (ch.text or "").strip() and len(ch) == 0:
                    src.remove(ch)
                    dropped = True
            for k, v in (a.get("defaults") or {}).items():
                if k not in src.attrib and back.attrib.get(k) == v:
                    src.set(k, v)
            if dropped and _canon(src) == _canon(back):
                return "C02-empty-list-element-dropped"
    if kind.startswith("merge/clash") and "rejected" in msg and a.get("clash_child") and ("Unknown property" in msg or "Failed to create" in msg):
        import re as _re

        m = _re.search(r"document (<.*>) rejected", msg, _re.S)
        if m and ("<t:%s" % a["clash_child"]) in m.group(1):
            return "C02-same-name-type-and-element"
    return None


def _schema(body, extra=""):
    return ('<?xml version="1.0"?>\n<xs:schema xmlns:xs="http://www.w3.org/2001/XMLSchema" targetNamespace="urn:t" xmlns="urn:t" elementFormDefault="qualified">\n'
            f'{extra} <xs:element name="r">{body}</xs:element>\n <xs:element name="g" type="xs:string"/>\n</xs:schema>\n')


def gen_misc(rng, tier):
    NSD = 'xmlns:t="urn:t" xmlns:o="urn:o" xmlns:p="urn:p"'
    n = 0
    while n < n_cases(tier, 60, 100000):
        n += 1
        kind = rng.choice(["any", "any", "anyattr", "mixed", "recursive", "nested", "derived", "xsitype", "xsitype", "list", "list", "facets", "merge", "merge"])
        cfg = {"compound_fields": True} if rng.random() < 0.25 else {}
        if kind == "any":
            ns = rng.choice(["##any", "##other", "##local", "##targetNamespace", "urn:o urn:p", "urn:o", "##targetNamespace ##local"])
            pc = rng.choice(["lax", "skip", "strict"])
            mn, mx = rng.choice([(0, "unbounded"), (1, 1), (0, 1), (1, "unbounded")])
            before = rng.random() < 0.7
            body = ('<xs:complexType><xs:sequence>' + ('<xs:element name="a" type="xs:string"/>' if before else "")
                    + f'<xs:any namespace="{ns}" processContents="{pc}" minOccurs="{mn}" maxOccurs="{mx}"/></xs:sequence></xs:complexType>')
            pool = ['<o:x>1</o:x>', '<o:y k="2">t<o:z/>u</o:y>', '<loc>1</loc>', '<t:g>q</t:g>', '<p:x/>', '<p:w><p:v>deep</p:v>tail</p:w>']
            docs = []
            for _ in range(5):
                kids = [rng.choice(pool) for _ in range(rng.randint(0, 3))]
                docs.append(f'<t:r {NSD}>' + ("<t:a>v</t:a>" if before else "") + "".join(kids) + "</t:r>")
            yield {"xsd": _schema(body), "docs": docs, "config": cfg, "kind": f"any/{ns}/{pc}"}
        elif kind == "anyattr":
            ns = rng.choice(["##any", "##other", "##local", "urn:o"])
            body = f'<xs:complexType><xs:sequence><xs:element name="a" type="xs:string"/></xs:sequence><xs:attribute name="k" type="xs:string"/><xs:anyAttribute namespace="{ns}" processContents="lax"/></xs:complexType>'
            pool = ['k="1"', 'o:m="2"', 'o:n="3"', 'm="4"', 'p:q="5"']
            docs = [f'<t:r {NSD} ' + " ".join(rng.sample(pool, rng.randint(0, 3))) + "><t:a>v</t:a></t:r>" for _ in range(5)]
            yield {"xsd": _schema(body), "docs": docs, "config": cfg, "kind": f"anyattr/{ns}"}
        elif kind == "mixed":
            body = '<xs:complexType mixed="true"><xs:sequence><xs:element name="a" type="xs:string" minOccurs="0" maxOccurs="unbounded"/><xs:element name="b" type="xs:int" minOccurs="0"/></xs:sequence></xs:complexType>'
            docs = []
            for _ in range(5):
                parts = [rng.choice(["x", "y z", ""])]
                for _ in range(rng.randint(0, 3)):
                    parts += ["<t:a>v</t:a>", rng.choice(["t", "", "u v"])]
                if rng.random() < 0.5:
                    parts += ["<t:b>3</t:b>", rng.choice(["w", ""])]
                docs.append(f'<t:r {NSD}>' + "".join(parts) + "</t:r>")
            yield {"xsd": _schema(body), "docs": docs, "config": cfg, "kind": "mixed"}
        elif kind == "xsitype":
            # a chain of extensions A <- B <- C; elements declared with the base type carry instances of the derived
            # types under xsi:type (also the root element, also inside a list, also an abstract base)
            abstract = rng.random() < 0.3
            extra = (f' <xs:complexType name="A"{" abstract=" + chr(34) + "true" + chr(34) if abstract else ""}><xs:sequence><xs:element name="a" type="xs:string"/></xs:sequence><xs:attribute name="k" type="xs:string"/></xs:complexType>\n'
                     ' <xs:complexType name="B"><xs:complexContent><xs:extension base="A"><xs:sequence><xs:element name="b" type="xs:int" maxOccurs="unbounded"/></xs:sequence><xs:attribute name="m" type="xs:string"/></xs:extension></xs:complexContent></xs:complexType>\n'
                     ' <xs:complexType name="C"><xs:complexContent><xs:extension base="B"><xs:sequence><xs:element name="c" type="xs:string" minOccurs="0"/><xs:element name="in" type="A" minOccurs="0"/></xs:sequence></xs:extension></xs:complexContent></xs:complexType>\n')
            body = '<xs:complexType><xs:sequence><xs:element name="one" type="A" minOccurs="0"/><xs:element name="item" type="A" minOccurs="0" maxOccurs="unbounded"/></xs:sequence></xs:complexType>'

            def inst(tag, depth=0):
                t = rng.choice(["B", "C"] if abstract else ["A", "B", "C"])
                at = (f' xsi:type="t:{t}"' if t != "A" else "") + rng.choice(["", ' k="kv"']) + (rng.choice(["", ' m="mv"']) if t != "A" else "")
                kids = "<t:a>av</t:a>"
                if t in ("B", "C"):
                    kids += "".join(f"<t:b>{rng.randint(-9, 9)}</t:b>" for _ in range(rng.randint(1, 3)))
                if t == "C":
                    kids += rng.choice(["", "<t:c>cv</t:c>"])
                    if depth < 2 and rng.random() < 0.4:
                        kids += inst("t:in", depth + 1)
                return f"<{tag}{at}>{kids}</{tag}>"

            docs = []
            for _ in range(5):
                kids = (inst("t:one") if rng.random() < 0.5 else "") + "".join(inst("t:item") for _ in range(rng.randint(0, 3)))
                docs.append(f'<t:r {NSD} xmlns:xsi="{XSI_NS}">{kids}</t:r>')
            yield {"xsd": _schema(body, extra), "docs": docs, "config": cfg, "kind": f"xsitype/{'abstract' if abstract else 'concrete'}"}
        elif kind == "list":
            # xs:list of a builtin, of an anonymous enumeration, NMTOKENS / IDREFS; as element (single, repeated) and attribute, with a default
            item = rng.choice(["xs:int", "xs:string", "xs:date", "xs:boolean"])
            vals = {"xs:int": ["1", "-2", "30"], "xs:string": ["a", "bb", "c1"], "xs:date": ["2020-01-01", "1999-12-31"], "xs:boolean": ["true", "false"]}[item]
            dflt = " ".join(rng.sample(vals, 2))
            extra = (f' <xs:simpleType name="L"><xs:list itemType="{item}"/></xs:simpleType>\n'
                     ' <xs:simpleType name="LE"><xs:list><xs:simpleType><xs:restriction base="xs:string"><xs:enumeration value="a"/><xs:enumeration value="b-1"/><xs:enumeration value="b1"/></xs:restriction></xs:simpleType></xs:list></xs:simpleType>\n'
                     ' <xs:simpleType name="LL"><xs:restriction base="L"><xs:maxLength value="3"/></xs:restriction></xs:simpleType>\n')
            body = ('<xs:complexType><xs:sequence><xs:element name="l" type="L"/><xs:element name="m" type="L" minOccurs="0" maxOccurs="unbounded"/>'
                    '<xs:element name="e" type="LE" minOccurs="0"/><xs:element name="ll" type="LL" minOccurs="0"/></xs:sequence>'
                    f'<xs:attribute name="al" type="L" default="{dflt}"/><xs:attribute name="nm" type="xs:NMTOKENS"/><xs:attribute name="ae" type="LE"/></xs:complexType>')

            def toks(pool, lo=1, hi=3):
                return " ".join(rng.choice(pool) for _ in range(rng.randint(lo, hi)))

            docs = []
            for _ in range(6):
                at = rng.choice(["", f' al="{toks(vals)}"']) + rng.choice(["", f' nm="{toks(["x", "y-1", "z.2"])}"']) + rng.choice(["", f' ae="{toks(["a", "b-1", "b1"])}"'])
                kids = f"<t:l>{toks(vals, 0 if rng.random() < 0.25 else 1)}</t:l>" + "".join(f"<t:m>{toks(vals)}</t:m>" for _ in range(rng.randint(0, 2)))
                kids += rng.choice(["", f'<t:e>{toks(["a", "b-1", "b1"])}</t:e>']) + rng.choice(["", f"<t:ll>{toks(vals, 1, 3)}</t:ll>"])
                docs.append(f"<t:r {NSD}{at}>{kids}</t:r>")
            yield {"xsd": _schema(body, extra), "docs": docs, "config": cfg, "kind": f"list/{item}", "defaults": {"al": dflt}, "list_elems": ["l", "m", "e", "ll"]}
        elif kind == "facets":
            # restrictions with facets (bounds, pattern, lengths, digits, whiteSpace), a restriction of a restriction; valid values only
            extra = (' <xs:simpleType name="F1"><xs:restriction base="xs:int"><xs:minInclusive value="1"/><xs:maxExclusive value="10"/></xs:restriction></xs:simpleType>\n'
                     ' <xs:simpleType name="F2"><xs:restriction base="xs:string"><xs:pattern value="[a-z]{2,4}"/><xs:maxLength value="4"/></xs:restriction></xs:simpleType>\n'
                     ' <xs:simpleType name="F3"><xs:restriction base="xs:decimal"><xs:totalDigits value="5"/><xs:fractionDigits value="2"/></xs:restriction></xs:simpleType>\n'
                     ' <xs:simpleType name="F4"><xs:restriction base="F2"><xs:length value="3"/></xs:restriction></xs:simpleType>\n'
                     ' <xs:simpleType name="F5"><xs:restriction base="xs:token"><xs:minLength value="1"/></xs:restriction></xs:simpleType>\n'
                     ' <xs:simpleType name="F6"><xs:restriction base="xs:dateTime"><xs:minInclusive value="2000-01-01T00:00:00"/></xs:restriction></xs:simpleType>\n')
            body = ('<xs:complexType><xs:sequence><xs:element name="a" type="F1"/><xs:element name="b" type="F2" maxOccurs="2"/><xs:element name="c" type="F3"/>'
                    '<xs:element name="d" type="F4" minOccurs="0"/><xs:element name="e" type="F5" minOccurs="0"/><xs:element name="f" type="F6" minOccurs="0"/></xs:sequence>'
                    '<xs:attribute name="k" type="F1"/><xs:attribute name="p" type="F4" default="abc"/></xs:complexType>')
            docs = []
            for _ in range(5):
                at = rng.choice(["", f' k="{rng.randint(1, 9)}"']) + rng.choice(["", ' p="xyz"'])
                kids = (f"<t:a>{rng.randint(1, 9)}</t:a>" + "".join(f"<t:b>{rng.choice(['ab', 'abc', 'abcd'])}</t:b>" for _ in range(rng.randint(1, 2)))
                        + f"<t:c>{rng.choice(['123.45', '-1.5', '0', '99999'])}</t:c>" + rng.choice(["", "<t:d>abc</t:d>"]) + rng.choice(["", "<t:e>tok en</t:e>"])
                        + rng.choice(["", "<t:f>2001-02-03T04:05:06</t:f>", "<t:f>2020-12-31T23:59:59Z</t:f>"]))
                docs.append(f"<t:r {NSD}{at}>{kids}</t:r>")
            yield {"xsd": _schema(body, extra), "docs": docs, "config": cfg, "kind": "facets", "defaults": {"p": "abc"}}
        elif kind == "merge":
            # global components that share a name (ClassValidator: an element and the complexType of the same name it is
            # typed by are merged; a simple type, an attribute and an element of one name live side by side), and the clash
            # where type= / ref= must pick the type resp. the element although the other one has another content
            v = rng.choice(["merged", "merged", "side-by-side", "clash-type", "clash-ref"])
            if v == "merged":
                extra = (' <xs:complexType name="x"><xs:sequence><xs:element name="p" type="xs:string"/></xs:sequence><xs:attribute name="q" type="xs:int"/></xs:complexType>\n'
                         ' <xs:element name="x" type="x"/>\n')
                body = '<xs:complexType><xs:sequence><xs:element name="u" type="x" minOccurs="0"/><xs:element ref="x" minOccurs="0" maxOccurs="unbounded"/></xs:sequence></xs:complexType>'
                docs = [f"<t:r {NSD}>" + rng.choice(["", '<t:u q="1"><t:p>s</t:p></t:u>']) + "".join(rng.choice(['<t:x><t:p>t</t:p></t:x>', '<t:x q="-2"><t:p>w</t:p></t:x>']) for _ in range(rng.randint(0, 2))) + "</t:r>" for _ in range(5)]
                yield {"xsd": _schema(body, extra), "docs": docs, "config": cfg, "kind": "merge/merged"}
            elif v == "side-by-side":
                extra = (' <xs:simpleType name="x"><xs:restriction base="xs:int"/></xs:simpleType>\n <xs:attribute name="x" type="xs:boolean"/>\n'
                         ' <xs:element name="x" type="x"/>\n')
                body = '<xs:complexType><xs:sequence><xs:element name="u" type="x" minOccurs="0"/><xs:element ref="x" minOccurs="0"/></xs:sequence><xs:attribute ref="x"/></xs:complexType>'
                docs = [f"<t:r {NSD}" + rng.choice(["", ' t:x="true"']) + ">" + rng.choice(["", "<t:u>5</t:u>"]) + rng.choice(["", "<t:x>-7</t:x>"]) + "</t:r>" for _ in range(5)]
                yield {"xsd": _schema(body, extra), "docs": docs, "config": cfg, "kind": "merge/side-by-side"}
            elif v == "clash-type":
                extra = (' <xs:simpleType name="x"><xs:restriction base="xs:int"/></xs:simpleType>\n'
                         ' <xs:element name="x"><xs:complexType><xs:sequence><xs:element name="q" type="xs:string"/></xs:sequence></xs:complexType></xs:element>\n')
                body = '<xs:complexType><xs:sequence><xs:element name="a" type="xs:string"/><xs:element name="u" type="x" minOccurs="0"/></xs:sequence></xs:complexType>'
                docs = [f"<t:r {NSD}><t:a>v</t:a>" + rng.choice(["", "<t:u>5</t:u>"]) + "</t:r>" for _ in range(4)]
                yield {"xsd": _schema(body, extra), "docs": docs, "config": cfg, "kind": "merge/clash-type", "clash_child": "u"}
            else:
                extra = (' <xs:complexType name="y"><xs:sequence><xs:element name="p" type="xs:string"/></xs:sequence></xs:complexType>\n'
                         ' <xs:element name="y"><xs:complexType><xs:sequence><xs:element name="q" type="xs:int"/></xs:sequence></xs:complexType></xs:element>\n')
                body = '<xs:complexType><xs:sequence><xs:element name="u" type="y"/><xs:element ref="y" minOccurs="0"/></xs:sequence></xs:complexType>'
                docs = [f"<t:r {NSD}><t:u><t:p>s</t:p></t:u>" + rng.choice(["", "<t:y><t:q>3</t:q></t:y>"]) + "</t:r>" for _ in range(4)]
                yield {"xsd": _schema(body, extra), "docs": docs, "config": cfg, "kind": "merge/clash-ref", "clash_child": "y"}
        elif kind == "derived":
            # extension of a named type that carries XML attributes (directly and through attribute groups), with a wildcard at
            # the end of the base content (the base is then flattened into the derived class) or without one (python
            # inheritance); a simpleContent chain with attributes on both levels
            wild = rng.random() < 0.6
            grouped = rng.random() < 0.5
            any_ = '<xs:any namespace="##other" processContents="lax" minOccurs="0" maxOccurs="unbounded"/>' if wild else ""
            base_attrs = ('<xs:attributeGroup ref="ag"/>' if grouped else '<xs:attribute name="k" type="xs:string"/><xs:attribute name="n" type="xs:int" use="required"/>')
            extra = ((' <xs:attributeGroup name="ag"><xs:attribute name="k" type="xs:string"/><xs:attribute name="n" type="xs:int" use="required"/></xs:attributeGroup>\n' if grouped else "")
                     + f' <xs:complexType name="A"><xs:sequence><xs:element name="a" type="xs:string"/>{any_}</xs:sequence>{base_attrs}</xs:complexType>\n'
                     ' <xs:complexType name="B"><xs:complexContent><xs:extension base="A"><xs:sequence><xs:element name="b" type="xs:string" minOccurs="0"/>'
                     '<xs:element name="s" type="S2" minOccurs="0" maxOccurs="unbounded"/></xs:sequence><xs:attribute name="m" type="xs:string"/></xs:extension></xs:complexContent></xs:complexType>\n'
                     ' <xs:complexType name="S"><xs:simpleContent><xs:extension base="xs:int"><xs:attribute name="u" type="xs:string"/></xs:extension></xs:simpleContent></xs:complexType>\n'
                     ' <xs:complexType name="S2"><xs:simpleContent><xs:extension base="S"><xs:attribute name="w" type="xs:boolean"/></xs:extension></xs:simpleContent></xs:complexType>\n')
            xsd = _schema("", extra).replace('<xs:element name="r"></xs:element>', '<xs:element name="r" type="B"/>')
            docs = []
            for _ in range(5):
                at = ' n="%d"' % rng.randint(-3, 9) + rng.choice(["", ' k="kv"']) + rng.choice(["", ' m="mv"'])
                kids = "<t:a>v</t:a>" + "".join(rng.choice(["<o:x>1</o:x>", '<p:w q="1"><p:v>deep</p:v></p:w>']) for _ in range(rng.randint(0, 2) if wild else 0))
                if rng.random() < 0.6:
                    kids += "<t:b>w</t:b>"
                for _ in range(rng.randint(0, 2)):
                    kids += "<t:s" + rng.choice(["", ' u="m"']) + rng.choice(["", ' w="true"', ' w="false"']) + f">{rng.randint(-5, 5)}</t:s>"
                docs.append(f"<t:r {NSD}{at}>{kids}</t:r>")
            yield {"xsd": xsd, "docs": docs, "config": cfg, "kind": f"derived/{'wild' if wild else 'plain'}/{'group' if grouped else 'direct'}"}
        elif kind == "recursive":
            extra = ' <xs:complexType name="T"><xs:sequence><xs:element name="v" type="xs:string"/><xs:element name="c" type="T" minOccurs="0" maxOccurs="unbounded"/></xs:sequence><xs:attribute name="id" type="xs:string"/></xs:complexType>\n'
            xsd = _schema("", extra).replace('<xs:element name="r"></xs:element>', '<xs:element name="r" type="T"/>')

            def node(tag, depth):
                kids = "".join(node("t:c", depth + 1) for _ in range(rng.randint(0, 2 if depth < 3 else 0)))
                ida = f' id="i{depth}"' if rng.random() < 0.5 else ""
                return f"<{tag}{ida}><t:v>v{depth}</t:v>{kids}</{tag}>"

            docs = [node("t:r", 0).replace("<t:r", f"<t:r {NSD}", 1) for _ in range(5)]
            yield {"xsd": xsd, "docs": docs, "config": cfg, "kind": "recursive"}
        else:
            body = ('<xs:complexType><xs:sequence><xs:element name="a" maxOccurs="unbounded"><xs:complexType><xs:sequence>'
                    '<xs:element name="b" minOccurs="0"><xs:complexType><xs:simpleContent><xs:extension base="xs:int"><xs:attribute name="u" type="xs:string"/></xs:extension></xs:simpleContent></xs:complexType></xs:element>'
                    '<xs:element name="a" type="xs:string" minOccurs="0"/></xs:sequence><xs:attribute name="k" type="xs:boolean"/></xs:complexType></xs:element></xs:sequence></xs:complexType>')
            docs = []
            for _ in range(5):
                items = []
                for _ in range(rng.randint(1, 3)):
                    b = rng.choice(["", '<t:b u="m">7</t:b>', "<t:b>-1</t:b>"])
                    inner = rng.choice(["", "<t:a>in</t:a>"])
                    k = rng.choice(["", ' k="true"', ' k="false"'])
                    items.append(f"<t:a{k}>{b}{inner}</t:a>")
                docs.append(f'<t:r {NSD}>' + "".join(items) + "</t:r>")
            yield {"xsd": _schema(body), "docs": docs, "config": cfg, "kind": "nested"}


def covered_groups(a, msg):
    return None  # element names are distinct inside the group: the duplicate-site finding cannot apply


_MODEL_BOUNDS = {}


def model_bounds(p):
    """name -> (min, max) of the element fields the UNCHANGED code generates for this content model: replay of the
    Lean model (driver op gen.xsd_occurs, the definition the theorems and counterexamples are about).  None when
    the driver cannot be asked."""
    import framework

    key = json.dumps(p, sort_keys=True)
    if key not in _MODEL_BOUNDS:
        try:
            out = framework.Driver().run([{"op": "gen.xsd_occurs", "args": {"particle": p}}])[0]
            _MODEL_BOUNDS[key] = {s["name"]: (s["min"], s["max"]) for s in out["ok"]}
        except Exception:  # noqa: BLE001
            _MODEL_BOUNDS[key] = None
    return _MODEL_BOUNDS[key]


def covered_docs(a, msg):
    """known finding C02-duplicate-name-sites: one field per element name.  A failure belongs to it only if it is
    (a) `Unknown property …r:…n` for a name n with several sites that the rejected document carries more often than the
        single merged field admits (its bound is replayed on the model), or
    (b) a re-serialisation in which only the elements with such names lose their place (or, with compound fields, are
        dropped): the other children come back unchanged and in their order.
    Any other failure on such a schema (another name, another exception, other content without compound fields, a
    displaced element whose name has one site) is reported."""
    import re

    from lxml import etree

    p = a["particle"]
    names = G.particle_names(p)
    dups = {n for n in names if names.count(n) > 1}
    if not dups:
        return None
    DOC = r"(<t:r\b.*?</t:r>|<t:r\b[^>]*/>)"
    m = re.search(r"schema-valid document " + DOC + r" rejected \([^)]*\): ParserError: Unknown property (?:\{urn:t\})?r:(?:\{urn:t\})?([^\s:{}]+)\s*$", msg, re.S)
    if m:
        n = m.group(2)
        if n not in dups:
            return None
        try:
            count = sum(1 for ch in etree.fromstring(m.group(1).encode()) if etree.QName(ch).localname == n)
        except etree.XMLSyntaxError:
            return None
        bounds = model_bounds(p)
        limit = bounds[n][1] if bounds and n in bounds else 1
        return "C02-duplicate-name-sites" if count > limit else None
    m = re.search(r"document " + DOC + r" re-serialised (?:in another element order \([^)]*\): |with other content \({'compound_fields': True}\): |as )"
                  r"(<\?xml.*?</ns0:r>|<\?xml.*?<ns0:r\b[^>]*/>)(, which is not schema-valid \([^)]*\))?\s*$", msg, re.S)
    if m:
        try:
            root = etree.fromstring(m.group(1).encode())
            back = etree.fromstring(m.group(2).encode())
        except (etree.XMLSyntaxError, ValueError):
            return None

        if displaced_only_around(p, dups, [(etree.QName(ch).localname, ch.text) for ch in root],
                                 [(etree.QName(ch).localname, ch.text) for ch in back]):
            # one field per element name: two sites of one name cannot both keep their place
            return "C02-duplicate-name-sites"
    return None


def displaced_only_around(p, dups, before, after):
    """the re-serialisation `after` differs from the document `before` only in the way the merged field of a name
    with several sites explains: the children with other names are all there; every name keeps the order of its own
    values; and the children that have one site and occur at most once per document (own reference `true_max`) are
    still in their order.  (The merged field is a list inside the sequence of its neighbours, which are then written
    in turns: repeatable neighbours move with it, nothing else does.)"""
    def only(kids, pred):
        return [k for k in kids if pred(k[0])]

    if sorted(only(before, lambda n: n not in dups)) != sorted(only(after, lambda n: n not in dups)):
        return False
    for n in {k[0] for k in before}:
        if n not in dups and only(before, lambda x: x == n) != only(after, lambda x: x == n):
            return False

    def single(n):
        return n not in dups and true_max(p, n) == 1

    return only(before, single) == only(after, single)


def adapt_docs(op, a):
    if "particle" not in a:
        return None
    rng = random.Random(json.dumps(a["particle"], sort_keys=True))
    return {"particle": a["particle"], "words": [G.sample_word(rng, a["particle"]) for _ in range(6)]}


ORACLES = [
    Oracle("c02.valid_docs", gen_docs, oracle_docs, covered=covered_docs, from_ops=("gen.xsd_sites", "gen.xsd_occurs"), adapt=adapt_docs),
    Oracle("c02.group_refs", gen_groups, oracle_groups, covered=covered_groups),
    Oracle("c02.gschema_docs", gen_gschema_docs, oracle_gschema, covered=covered_gschema),
    Oracle("c02.attr_docs", gen_attr_docs, oracle_attr_docs, covered=covered_attr_docs),
    Oracle("c02.derived_docs", gen_derived, oracle_derived),
    Oracle("c02.subst_docs", gen_subst_docs, oracle_docs, covered=covered_subst),
    Oracle("c02.ns_docs", gen_ns_docs, oracle_ns_docs, covered=covered_ns),
    Oracle("c02.misc_docs", gen_misc, oracle_misc, covered=covered_misc),
]


def finding_duplicate_sites():
    a = {"particle": HAND[0], "words": [["a", "a"]]}
    msg = oracle_docs(a)
    return (msg is not None and "rejected" in msg and covered_docs(a, msg) == "C02-duplicate-name-sites", msg or "the document now parses")


def finding_same_choice_sequence():
    a = {"particle": HAND[1], "words": [["a", "x", "a"]]}
    msg = oracle_docs(a)
    return (msg is not None and "rejected" in msg, msg or "the document now parses")


SUBST_ORDER_WITNESS = {
    "particle": {"seq": [0, MAXSIZE, [{"elem": ["d", 1, 1]}, {"elem": ["c", 1, 1]}]]},
    "refs": ["d", "c"], "subs": [["m1", "d"]], "words": [["m1", "c", "d", "c"]], "types": None, "configs": [],
}


def finding_subst_order():
    msg = oracle_docs(SUBST_ORDER_WITNESS)
    still = msg is not None and "another element order" in msg and covered_subst(SUBST_ORDER_WITNESS, msg) is not None
    return (still, msg or "the document now comes back in the same order")


NS_HEURISTIC_WITNESS = {
    "ctx": {"tns": "urn:t", "chameleon": False, "default": None, "prefixes": {}, "eform": None, "aform": None},
    "decls": [{"attr": False, "kind": "ref", "prefix": None, "name": "n"}], "present": [[0]],
}


def finding_ns_heuristic():
    msg = oracle_ns_docs(NS_HEURISTIC_WITNESS)
    return (msg is not None and "rejected" in msg and covered_ns(NS_HEURISTIC_WITNESS, msg) is not None, msg or "the document now parses")


def _nil_witness(vals):
    return {"decls": [{"kind": "element", "min": 1, "max": 1, "default": None, "fixed": None, "type": "string"},
                      {"kind": "element", "min": 0, "max": 1, "default": None, "fixed": None, "type": "string", "nillable": True}],
            "docs": [{"attrs": [], "elems": [[0, ["e0"]], [1, vals]]}]}


def finding_nil_absent():
    a = _nil_witness([])
    msg = oracle_attr_docs(a)
    return (msg is not None and covered_attr_docs(a, msg) == "C02-nillable-absent-rendered-nil", msg or "the document now comes back unchanged")


def finding_empty_list():
    xsd = _schema('<xs:complexType><xs:sequence><xs:element name="l" type="L"/></xs:sequence></xs:complexType>',
                  ' <xs:simpleType name="L"><xs:list itemType="xs:int"/></xs:simpleType>\n')
    a = {"xsd": xsd, "docs": ['<t:r xmlns:t="urn:t"><t:l></t:l></t:r>'], "kind": "list/xs:int", "list_elems": ["l"]}
    msg = oracle_misc(a)
    return (msg is not None and covered_misc(a, msg) == "C02-empty-list-element-dropped", msg or "the document now comes back unchanged")


def finding_name_clash():
    extra = (' <xs:simpleType name="x"><xs:restriction base="xs:int"/></xs:simpleType>\n'
             ' <xs:element name="x"><xs:complexType><xs:sequence><xs:element name="q" type="xs:string"/></xs:sequence></xs:complexType></xs:element>\n')
    body = '<xs:complexType><xs:sequence><xs:element name="a" type="xs:string"/><xs:element name="u" type="x" minOccurs="0"/></xs:sequence></xs:complexType>'
    a = {"xsd": _schema(body, extra), "docs": ['<t:r xmlns:t="urn:t"><t:a>v</t:a><t:u>5</t:u></t:r>'], "kind": "merge/clash-type", "clash_child": "u"}
    msg = oracle_misc(a)
    return (msg is not None and covered_misc(a, msg) == "C02-same-name-type-and-element", msg or "the document now parses")


def finding_pattern_retypes():
    t = {"r": {"b": "int"}, "pattern": True}
    got = G.real_field_types(t, G.TYPE_DECLS[:1])
    u = G.real_field_types({"u": [t, {"b": "date"}]}, G.TYPE_DECLS[:1])
    return (got["fields"] == ["str"] and u["fields"] == ["str"], f"restriction of xs:int with a pattern -> {got['fields'][0]}; union of it and xs:date -> {u['fields'][0]}")


def finding_union_any():
    got = G.real_field_types({"u": [{"b": "anySimpleType"}, {"b": "int"}]}, G.TYPE_DECLS[:1])
    return (got["fields"] == ["int"], f"union of xs:anySimpleType and xs:int -> {got['fields'][0]}")


FINDINGS = {
    "C02-pattern-facet-retypes-str": finding_pattern_retypes,
    "C02-union-any-member-dropped": finding_union_any,
    "C02-empty-list-element-dropped": finding_empty_list,
    "C02-same-name-type-and-element": finding_name_clash,
    "C02-duplicate-name-sites": finding_duplicate_sites,
    "C02-nillable-absent-rendered-nil": finding_nil_absent,
    "C02-unprefixed-ref-unbound-target-namespace": finding_ns_heuristic,
    "C02-substitution-order-without-compound": finding_subst_order,
}

TRUSTED = [
    "SchemaParser/SchemaMapper path recording is tied to the model only by the correspondence op gen.xsd_sites on generated schemas",
    "jinja2/ruff are absent: harness/standin_render.py transliterates the templates; everything else in the end-to-end ops is the real pipeline",
    "lxml.etree.XMLSchema (libxml2) is the independent validator of instance documents",
]
ASSUMPTIONS = [
    "modelled fragments: occurrence arithmetic (sequence/choice/all/named groups/substitution groups, extension, restriction overrides), use/default/fixed of "
    "string-typed or untyped declarations, namespaces and forms (one schema document with imports and chameleon include), the python type of fields of builtin and "
    "user simple types (named restriction / list / union, anonymous list items; no enumerations, no facets other than pattern, formats "
    "of binary types not modelled); compound-field arithmetic, wildcards, nillable and mixed content are covered by the oracles only",
]
LEVEL_TEXT = (
    "Partial. Lean theorems (Props/C02.lean, Props/C02Ns.lean, Props/C02Compound.lean, Props/C02Lookup.lean, Props/C02Types.lean) about the decisions the property hinges on. Occurrences: for content models "
    "whose field names occur at one site each, over sequences, choices, xs:all, references to named groups (each with its own range), "
    "substitution groups (whole content models), extension and restriction overrides, a field the generator makes non-list is never repeated "
    "in a valid document, a field it makes required is always present, and a list field is needed, for every particle and every word of its "
    "language; the handlers are total. use/default/fixed: every value a valid element carries for an attribute is accepted and read as its "
    "schema-normalized value; element defaults. Namespaces and forms: the field of every local declaration, reference or global declaration is "
    "bound to the namespace the schema gives it (form, elementFormDefault/attributeFormDefault, targetNamespace, prefixes, default namespace, "
    "chameleon include), except where the chameleon heuristic for unprefixed references is wrong (counterexample + finding). Field types (Props/C02Types.lean): for every member of the live DataType "
    "enumeration the generated field has the python type XML Schema gives the builtin (and C05's registry serves), a list exactly for the list "
    "builtins; for user simple types built by restriction, list and union in any nesting the field's python types are exactly those of the builtin "
    "leaves and it is a list exactly when the type is one, except under a pattern facet or with xs:anySimpleType as a union member (counterexamples + "
    "findings). Counterexample "
    "theorems for repeated names. The models are tied to /repo by correspondence of each handler / mapper stage and of the whole pipeline's "
    "generated fields and bound names; documents are checked end to end by nine oracles."
)
LEVEL_NOTE = (
    "Trusted: Lean kernel; particle language and attribute-use / namespace specs; stand-in renderer for the Jinja2 templates; sampling "
    "correspondence. Not modelled (oracles only): simple-type restriction/list/union/enumeration and the python field types, compound-field "
    "min/max arithmetic, wildcards, nillable, mixed content, recursion, output options."
)
