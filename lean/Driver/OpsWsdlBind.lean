import Driver.Proto
import Driver.OpsBind
import XsdataModel.Wsdl.Binding
import XsdataModel.Proofs.WsdlMapper
open Lean Proto Py Xs.Wsdl

/-! C17 ↔ C01: the envelope class family as binding metadata (`Wsdl/Binding.lean`),
encoded like `harness/bindlib.Universe.export_ctx`. -/
namespace OpsWsdlBind

def field (j : Json) (k : String) : Json := j.getObjValD k

def dOptStr (j : Json) : Except String (Option Str) :=
  match j with
  | .null => .ok none
  | .str s => .ok (some s.toList)
  | _ => .error "expected string or null"

def dOptNat (j : Json) : Except String (Option Nat) :=
  match j with
  | .null => .ok none
  | _ => match j.getNat? with
    | .ok n => .ok (some n)
    | .error _ => .error "expected nat or null"

def dBool (j : Json) : Except String Bool :=
  match j with
  | .bool b => .ok b
  | _ => .error "expected bool"

def dAttr (j : Json) : Except String AttrM := do
  pure { name := ← getStr j "name", ns := ← dOptStr (field j "namespace"), default := ← dOptStr (field j "default"),
         type := ← getStr j "type", forward := ← dBool (field j "forward"), native := ← dBool (field j "native"),
         ref := ← dOptStr (field j "ref"), min := ← dOptNat (field j "min"), max := ← dOptNat (field j "max") }

def dNsPair (j : Json) : Except String (Option Str × Str) :=
  match j with
  | .arr #[a, b] => do pure (← dOptStr a, ← asStr b)
  | _ => .error "expected pair"

partial def dCls (j : Json) : Except String Cls := do
  let attrs ← (← getArr j "attrs").mapM dAttr
  let inner ← (← getArr j "inner").mapM dCls
  let nsm ← (← getArr j "ns_map").mapM dNsPair
  pure (Cls.mk (← getStr j "qname") (← dOptStr (field j "meta_name")) (← getStr j "tag") (← getNat j "status")
    (← dOptStr (field j "namespace")) (← getStr j "location") nsm attrs inner)

def dKind (s : Str) : Except String SourceKind :=
  match String.ofList s with
  | "absent" => .ok .absent
  | "enumeration" => .ok .enumeration
  | "simple" => .ok .simple
  | "abstract_element" => .ok .abstractElement
  | "complex" => .ok .complex
  | k => .error s!"bad kind {k}"

def dTypeInfo (j : Json) : Except String TypeInfo := do
  pure ⟨← getStr j "qname", ← dKind (← getStr j "kind"), ← dOptStr (field j "ns"), ← dOptStr (field j "class_id")⟩

/-! encoders (inverse of `OpsBind.dClass`) -/
open Xs.Bind in
def jTypeRef : TypeRef → Json
  | .prim .str => jObj [("prim", "str")]
  | .prim .int => jObj [("prim", "int")]
  | .prim .bool => jObj [("prim", "bool")]
  | .prim .qname => jObj [("prim", "qname")]
  | .cls c => jObj [("cls", jStr c)]
  | .obj => Json.str "obj"
  | .other o => jObj [("other", jStr o)]

open Xs.Bind in
def jDefault : DefaultV → Json
  | .none => Json.null
  | .listFactory => "list"
  | .dictFactory => "dict"
  | .other => "other"
  | .val p => jObj [("val", OpsBind.jPVal p)]

open Xs.Bind in
def jKind : VarKind → Json
  | .text => "text" | .element => "element" | .elements => "elements"
  | .wildcard => "wildcard" | .attribute => "attribute" | .attributes => "attributes"

open Xs.Bind in
def jVarCoreFields (v : VarCore) : List (String × Json) :=
  [("index", jNat v.index), ("name", jStr v.name), ("local_name", jStr v.localName), ("qname", jStr v.qname),
   ("wrapper_qname", jOpt jStr v.wrapperQName), ("types", jList jTypeRef v.types), ("clazz", jOpt jStr v.clazz),
   ("init", jBool v.init), ("mixed", jBool v.mixed), ("tokens", jBool v.tokens), ("format", jOpt jStr v.format),
   ("any_type", jBool v.anyType), ("process_contents", jStr v.processContents), ("required", jBool v.required),
   ("nillable", jBool v.nillable), ("sequence", jOpt jNat v.sequence), ("list_element", jBool v.listElement),
   ("default", jDefault v.default), ("namespaces", jList jStr v.namespaces), ("kind", jKind v.kind),
   ("is_clazz_union", jBool v.isClazzUnion)]

open Xs.Bind in
def jVar (v : XmlVar) : Json :=
  jObj (jVarCoreFields v.toVarCore ++
    [("elements", jList (fun (p : QN × VarCore) => Json.arr #[jStr p.1, jObj (jVarCoreFields p.2)]) v.elements),
     ("wildcards", jList (fun c => jObj (jVarCoreFields c)) v.wildcards)])

open Xs.Bind in
def jMeta (m : XmlMeta) : Json :=
  jObj [("clazz", jStr m.clazz), ("qname", jStr m.qname), ("target_qname", jOpt jStr m.targetQName),
        ("nillable", jBool m.nillable), ("text", jOpt jVar m.text), ("choices", jList jVar m.choices),
        ("elements", jList (fun (p : QN × List XmlVar) => Json.arr #[jStr p.1, jList jVar p.2]) m.elements),
        ("wildcards", jList jVar m.wildcards),
        ("attributes", jList (fun (p : QN × XmlVar) => Json.arr #[jStr p.1, jVar p.2]) m.attributes),
        ("any_attributes", jList jVar m.anyAttributes),
        ("wrappers", jList (fun (p : QN × Str) => Json.arr #[jStr p.1, jStr p.2]) m.wrappers)]

open Xs.Bind in
def jFieldInfo (f : FieldInfo) : Json :=
  jObj ([("name", jStr f.name), ("init", jBool f.init)] ++
    (match f.default with
     | some .none => [("default", Json.null)]
     | _ => []))

open Xs.Bind in
def jClassInfo (c : ClassInfo) : Json :=
  jObj [("id", jStr c.id),
        ("metas", jList (fun (p : Option Str × XmlMeta) => Json.arr #[jOpt jStr p.1, jMeta p.2]) c.metas),
        ("mro", jList jStr c.mro), ("bases", jList jStr c.bases), ("fields", jList jFieldInfo c.fields)]

/-- element names of a document, full depth -/
partial def names : Xs.Bind.Tree → Json
  | .node q _ _ _ c _ => jObj [("q", jStr q), ("c", Json.arr (c.map names).toArray)]

def run (op : String) (a : Json) : Option (Except String Json) :=
  match op with
  | "wsdl.envmeta" => some do
      let env ← dCls (field a "env")
      let types ← (← getArr a "types").mapM dTypeInfo
      let pns ← (← getArr a "pns").mapM dOptStr
      pure <| match envelopeClasses types pns env with
        | some cs => ok (jList jClassInfo cs)
        | none => err "unsupported"
  | "wsdl.reqshape" => some do
      let env ← dCls (field a "env")
      let types ← (← getArr a "types").mapM dTypeInfo
      let pns ← (← getArr a "pns").mapM dOptStr
      let pctx ← OpsBind.dCtx (jObj [("classes", field a "payload"), ("xsi_index", Json.arr #[]), ("datatypes", field a "datatypes")])
      let v ← OpsBind.dVal (field a "value")
      match envelopeCtx types pns env pctx.classes pctx.datatypes with
      | none => pure (err "unsupported")
      | some Γ =>
        let hyp := Xs.Bind.F1.ctxF1 Γ && decide ((Γ.classes.map (·.id)).Nodup) &&
          Xs.Bind.F1.valF1 OpsBind.benv Γ env.qname v
        match Xs.Bind.generate OpsBind.benv Γ {} v with
        | .error e => pure (jObj [("err", "generate"), ("detail", OpsBind.jErr e), ("f1", jBool hyp)])
        | .ok evs =>
          match Xs.Bind.eventsTree (Xs.Bind.F1.isDatatype Γ) evs with
          | .error e => pure (jObj [("err", "write"), ("detail", OpsBind.jErr e), ("f1", jBool hyp)])
          | .ok t =>
            let back := match Xs.Bind.parseRoot OpsBind.benv Γ {} env.qname t with
              | .ok (_, w) => w == 0
              | .error _ => false
            pure (ok (jObj [("f1", jBool hyp), ("parsed_back", jBool back), ("shape", names t)]))
  | _ => none

end OpsWsdlBind
