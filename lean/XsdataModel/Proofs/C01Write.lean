/-
C01 helper lemmas, part 2: the abstract writer (`Bind/Write.lean`) on the event
lists of fragment F1.  The events of one element subtree fold into exactly one
child tree: `SubW` (events → SAX calls) and `saxTree_tree` (SAX calls → tree).
-/
import XsdataModel.Proofs.C01Prim

namespace Proofs.C01
open Py Xs.Bind Xs.Bind.F1

/-! ### generic list / `Except` plumbing -/

theorem mapM_ok {α β ε : Type} (f : α → Except ε β) (g : α → β) (l : List α)
    (h : ∀ x ∈ l, f x = .ok (g x)) : l.mapM f = .ok (l.map g) := by
  induction l with
  | nil => rfl
  | cons a t ih =>
    rw [List.mapM_cons, h a (by simp), ih (fun x hx => h x (by simp [hx]))]
    rfl

/-! ### the SAX reading of a tree -/

mutual
/-- the SAX calls that build a tree (no tails: the fragment never writes character data
after an end tag) -/
def treeSax : Tree → List Sax
  | .node q a _ text kids _ =>
    Sax.open q a :: ((match text with | some s => [Sax.chars s] | none => []) ++
      (treesSax kids ++ [Sax.close q]))
def treesSax : List Tree → List Sax
  | [] => []
  | t :: ts => treeSax t ++ treesSax ts
end

mutual
/-- every node carries the document-wide prefix map `M` and has no tail -/
def plain (M : NsMap) : Tree → Bool
  | .node _ _ n _ kids tl => decide (n = M) && tl.isNone && plainList M kids
def plainList (M : NsMap) : List Tree → Bool
  | [] => true
  | t :: ts => plain M t && plainList M ts
end

theorem treesSax_append (a b : List Tree) : treesSax (a ++ b) = treesSax a ++ treesSax b := by
  induction a with
  | nil => simp [treesSax]
  | cons t ts ih => simp [treesSax, ih]

theorem treesSax_flatMap {α : Type} (l : List α) (f : α → List Tree) :
    treesSax (l.flatMap f) = l.flatMap (fun x => treesSax (f x)) := by
  induction l with
  | nil => simp [treesSax]
  | cons a t ih => simp [List.flatMap_cons, treesSax_append, ih]

theorem treesSax_map {α : Type} (l : List α) (f : α → Tree) :
    treesSax (l.map f) = l.flatMap (fun x => treeSax (f x)) := by
  induction l with
  | nil => simp [treesSax]
  | cons a t ih => simp [treesSax, ih]

theorem plainList_append (M : NsMap) (a b : List Tree) :
    plainList M (a ++ b) = (plainList M a && plainList M b) := by
  induction a with
  | nil => simp [plainList]
  | cons t ts ih => simp [plainList, ih, Bool.and_assoc]

theorem plainList_iff (M : NsMap) (l : List Tree) :
    plainList M l = true ↔ ∀ t ∈ l, plain M t = true := by
  induction l with
  | nil => simp [plainList]
  | cons t ts ih => simp [plainList, ih]

mutual
theorem saxTree_tree : ∀ (M : NsMap) (t : Tree), plain M t = true →
    ∀ (rest : List Sax) (f : Frame) (stack : List Frame),
    saxTree M (treeSax t ++ rest) (f :: stack) none =
      saxTree M rest ({ f with kids := t :: f.kids } :: stack) none
  | M, .node q a n text kids tl, h, rest, f, stack => by
    simp only [plain, Bool.and_eq_true, decide_eq_true_eq, Option.isNone_iff_eq_none] at h
    obtain ⟨⟨hn, htl⟩, hk⟩ := h
    subst hn htl
    cases text with
    | none =>
      simp only [treeSax, List.nil_append, List.cons_append, List.append_assoc]
      rw [saxTree]
      simp only [Option.isSome_none, Bool.false_eq_true, if_false]
      rw [saxTree_trees n kids hk]
      simp [saxTree]
    | some s =>
      simp only [treeSax, List.cons_append, List.nil_append, List.append_assoc]
      rw [saxTree]
      simp only [Option.isSome_none, Bool.false_eq_true, if_false]
      rw [saxTree]
      simp only [appendText]
      rw [saxTree_trees n kids hk]
      simp [saxTree]
theorem saxTree_trees : ∀ (M : NsMap) (ts : List Tree), plainList M ts = true →
    ∀ (rest : List Sax) (f : Frame) (stack : List Frame),
    saxTree M (treesSax ts ++ rest) (f :: stack) none =
      saxTree M rest ({ f with kids := ts.reverse ++ f.kids } :: stack) none
  | _, [], _, rest, f, stack => by simp [treesSax]
  | M, t :: ts, h, rest, f, stack => by
    simp only [plainList, Bool.and_eq_true] at h
    simp only [treesSax, List.append_assoc]
    rw [saxTree_tree M t h.1, saxTree_trees M ts h.2]
    simp
end

/-- a plain tree is what an ElementTree builder makes of its SAX calls -/
theorem saxTree_root (M : NsMap) (t : Tree) (h : plain M t = true) :
    saxTree M (treeSax t) [] none = some t := by
  cases t with
  | node q a n text kids tl =>
    simp only [plain, Bool.and_eq_true, decide_eq_true_eq, Option.isNone_iff_eq_none] at h
    obtain ⟨⟨hn, htl⟩, hk⟩ := h
    subst hn htl
    cases text with
    | none =>
      simp only [treeSax, List.nil_append]
      rw [saxTree]
      simp only [Option.isSome_none, Bool.false_eq_true, if_false]
      rw [saxTree_trees n kids hk]
      simp [saxTree]
    | some s =>
      simp only [treeSax, List.cons_append, List.nil_append]
      rw [saxTree]
      simp only [Option.isSome_none, Bool.false_eq_true, if_false]
      rw [saxTree]
      simp only [appendText]
      rw [saxTree_trees n kids hk]
      simp [saxTree]

/-! ### events → SAX calls -/

/-- the state every complete element leaves behind -/
def afterW (w : WState) (saxs : List Sax) : WState :=
  ⟨(w.flush false).out ++ saxs, none, [], false, none⟩

/-- `evs` are the events of one or more complete elements: from every quiescent writer
state they flush the pending start tag of the parent and append `saxs` -/
def SubW (M : NsMap) (isDt : Str → Bool) (evs : List Ev) (saxs : List Sax) : Prop :=
  evs ≠ [] ∧ ∀ w : WState, w.tail = none → (w.pending = none → w.attrs = []) →
    evs.foldlM (WState.step M isDt) w = .ok (afterW w saxs)

/-- zero or more complete elements -/
def BodyW (M : NsMap) (isDt : Str → Bool) (evs : List Ev) (saxs : List Sax) : Prop :=
  (evs = [] → saxs = []) ∧ ∀ w : WState, w.tail = none → (w.pending = none → w.attrs = []) →
    evs.foldlM (WState.step M isDt) w = .ok (if evs.isEmpty then w else afterW w saxs)

theorem BodyW_nil (M : NsMap) (isDt : Str → Bool) : BodyW M isDt [] [] :=
  ⟨fun _ => rfl, fun _ _ _ => rfl⟩

theorem SubW.body {M : NsMap} {isDt : Str → Bool} {evs : List Ev} {saxs : List Sax}
    (h : SubW M isDt evs saxs) : BodyW M isDt evs saxs := by
  refine ⟨fun he => absurd he h.1, fun w h1 h2 => ?_⟩
  have : evs.isEmpty = false := by
    cases evs with
    | nil => exact absurd rfl h.1
    | cons _ _ => rfl
  rw [h.2 w h1 h2, this]; rfl

theorem afterW_afterW (w : WState) (s s' : List Sax) :
    afterW (afterW w s) s' = afterW w (s ++ s') := by
  simp [afterW, WState.flush]

theorem BodyW.append {M : NsMap} {isDt : Str → Bool} {a b : List Ev} {s s' : List Sax}
    (ha : BodyW M isDt a s) (hb : BodyW M isDt b s') : BodyW M isDt (a ++ b) (s ++ s') := by
  constructor
  · intro h
    have h' := List.append_eq_nil_iff.1 h
    rw [ha.1 h'.1, hb.1 h'.2]; rfl
  · intro w h1 h2
    rw [List.foldlM_append, ha.2 w h1 h2]
    cases a with
    | nil =>
      rw [ha.1 rfl]
      simp only [List.isEmpty_nil, if_true, List.nil_append]
      show List.foldlM _ w b = _
      rw [hb.2 w h1 h2]
    | cons x xs =>
      simp only [List.isEmpty_cons, Bool.false_eq_true, if_false, List.cons_append]
      show List.foldlM _ (afterW w s) b = _
      rw [hb.2 (afterW w s) rfl (fun _ => rfl)]
      cases b with
      | nil => rw [hb.1 rfl]; simp
      | cons y ys => simp [afterW_afterW]

theorem BodyW_flatMap {M : NsMap} {isDt : Str → Bool} {α : Type} (l : List α)
    (fe : α → List Ev) (fs : α → List Sax) (h : ∀ x ∈ l, BodyW M isDt (fe x) (fs x)) :
    BodyW M isDt (l.map fe).flatten (l.flatMap fs) := by
  induction l with
  | nil => exact BodyW_nil M isDt
  | cons a t ih =>
    simp only [List.map_cons, List.flatten_cons, List.flatMap_cons]
    exact (h a (by simp)).append (ih (fun x hx => h x (by simp [hx])))

/-! ### attributes -/

/-- the attribute events of the fragment: `str` payloads -/
def attrEvs (A : List (QN × Str)) : List Ev := A.map (fun kv => Ev.attr kv.1 (.prim (.str kv.2)))

/-- the writer stores the value as it is (no `is_xsi_type` rewrite) -/
def attrPlain (isDt : Str → Bool) (kv : QN × Str) : Prop :=
  ¬ (kv.2.head? = some '{' ∧ (kv.1 = xsiType ∨ isDt kv.2 = true))

theorem dictSet_fresh (d : List (QN × Str)) (k : QN) (v : Str) (h : ∀ kv ∈ d, kv.1 ≠ k) :
    dictSet d k v = d ++ [(k, v)] := by
  unfold dictSet
  have : d.any (fun x => decide (x.1 = k)) = false := by
    simp only [List.any_eq_false, decide_eq_true_eq]
    exact fun x hx => h x hx
  simp [this]

theorem foldl_attrs (M : NsMap) (isDt : Str → Bool) (q : QN) :
    ∀ (A : List (QN × Str)) (w : WState), w.pending = some q →
    (A.map (·.1)).Nodup → (∀ kv ∈ A, ∀ kv' ∈ w.attrs, kv'.1 ≠ kv.1) →
    (∀ kv ∈ A, attrPlain isDt kv) →
    (attrEvs A).foldlM (WState.step M isDt) w = .ok { w with attrs := w.attrs ++ A } := by
  intro A
  induction A with
  | nil => intro w _ _ _ _; simp [attrEvs]; rfl
  | cons kv t ih =>
    intro w hp hnd hfresh hplain
    obtain ⟨k, v⟩ := kv
    simp only [List.map_cons, List.nodup_cons] at hnd
    have hpl : attrPlain isDt (k, v) := hplain _ (by simp)
    have hstep : WState.step M isDt w (Ev.attr k (.prim (.str v))) =
        .ok { w with attrs := w.attrs ++ [(k, v)] } := by
      simp only [WState.step, hp]
      have hcond : (v.head? = some '{' && (decide (k = xsiType) || isDt v)) = false := by
        simp only [attrPlain] at hpl
        cases hh : (v.head? = some '{' && (decide (k = xsiType) || isDt v)) with
        | false => rfl
        | true =>
          exfalso; apply hpl
          simp only [Bool.and_eq_true, Bool.or_eq_true, decide_eq_true_eq] at hh
          exact hh
      simp only [Option.isNone_some, Bool.false_eq_true, if_false, hcond, encodeData]
      rw [dictSet_fresh _ _ _ (fun kv' hkv' => hfresh (k, v) (by simp) kv' hkv')]
    simp only [attrEvs, List.map_cons, List.foldlM_cons, hstep]
    show List.foldlM _ _ (attrEvs t) = _
    rw [ih { w with attrs := w.attrs ++ [(k, v)] } hp hnd.2]
    · simp
    · intro kv hkv kv' hkv'
      simp only [List.mem_append, List.mem_singleton] at hkv'
      rcases hkv' with h | h
      · exact hfresh kv (by simp [hkv]) kv' h
      · subst h
        intro heq
        apply hnd.1
        simp only [List.mem_map]
        exact ⟨kv, hkv, heq.symm⟩
    · exact fun kv hkv => hplain kv (by simp [hkv])

theorem filter_ne_nil (A : List (QN × Str)) (h : ∀ kv ∈ A, kv.1 ≠ xsiNil) :
    A.filter (fun x => !decide (x.1 = xsiNil)) = A := by
  rw [List.filter_eq_self]
  intro a ha
  simpa using h a ha

theorem foldlM_append_ok {α β ε : Type} {f : β → α → Except ε β} {a b : List α} {w w' : β}
    (h : a.foldlM f w = .ok w') : (a ++ b).foldlM f w = b.foldlM f w' := by
  rw [List.foldlM_append, h]; rfl

theorem flush_none {w : WState} (h : w.pending = none) (b : Bool) : w.flush b = w := by
  simp [WState.flush, h]

/-- state after `START q` and the attribute events -/
theorem start_attrs (M : NsMap) (isDt : Str → Bool) (q : QN) (A : List (QN × Str)) (w : WState)
    (h2 : w.pending = none → w.attrs = [])
    (hnd : (A.map (·.1)).Nodup) (hplain : ∀ kv ∈ A, attrPlain isDt kv) :
    ([Ev.start q] ++ attrEvs A).foldlM (WState.step M isDt) w =
      .ok { w.flush false with pending := some q, attrs := A } := by
  have hattrs : (w.flush false).attrs = [] := by
    unfold WState.flush
    cases hp : w.pending with
    | none => simpa using h2 hp
    | some p => simp
  have h0 : [Ev.start q].foldlM (WState.step M isDt) w =
      .ok { w.flush false with pending := some q } := rfl
  rw [foldlM_append_ok h0, foldl_attrs M isDt q A _ rfl hnd _ hplain]
  · simp [hattrs]
  · intro kv _ kv' hkv'
    simp only [hattrs] at hkv'
    cases hkv'

theorem flush_tail (w : WState) (b : Bool) : (w.flush b).tail = w.tail := by
  unfold WState.flush; split <;> rfl

/-- an element with attributes `A` and complete child elements -/
theorem SubW_elem {M : NsMap} {isDt : Str → Bool} (q : QN) (A : List (QN × Str))
    (body : List Ev) (saxs : List Sax)
    (hnil : ∀ kv ∈ A, kv.1 ≠ xsiNil) (hnd : (A.map (·.1)).Nodup)
    (hplain : ∀ kv ∈ A, attrPlain isDt kv) (hb : BodyW M isDt body saxs) :
    SubW M isDt ([Ev.start q] ++ attrEvs A ++ body ++ [Ev.end q])
      (Sax.open q A :: saxs ++ [Sax.close q]) := by
  refine ⟨by simp, fun w h1 h2 => ?_⟩
  have ht : (w.flush false).tail = none := by rw [flush_tail]; exact h1
  generalize hw0 : w.flush false = w0 at ht
  have e1 := start_attrs M isDt q A w h2 hnd hplain
  rw [hw0] at e1
  have e2 := hb.2 { w0 with pending := some q, attrs := A } ht (by simp)
  rw [List.append_assoc, foldlM_append_ok e1, foldlM_append_ok e2]
  have hgoal : ∀ X, afterW w X = ⟨w0.out ++ X, none, [], false, none⟩ := by
    intro X; simp [afterW, hw0]
  rw [hgoal]
  cases body with
  | nil =>
    rw [hb.1 rfl]
    simp [WState.step, WState.flush, ht]
  | cons x xs =>
    simp [WState.step, WState.flush, afterW, filter_ne_nil A hnil, ht]

/-- what `DATA d` leaves as character data -/
def dataSax (value : Option Str) : List Sax :=
  match value with
  | some s => if s.isEmpty then [] else [Sax.chars s]
  | none => []

/-- an element with attributes `A` and one `DATA` event -/
theorem SubW_elem_data {M : NsMap} {isDt : Str → Bool} (q : QN) (A : List (QN × Str))
    (d : Data) (value : Option Str) (hd : encodeData M d = some value)
    (hnil : ∀ kv ∈ A, kv.1 ≠ xsiNil) (hnd : (A.map (·.1)).Nodup)
    (hplain : ∀ kv ∈ A, attrPlain isDt kv) :
    SubW M isDt ([Ev.start q] ++ attrEvs A ++ [Ev.data d] ++ [Ev.end q])
      (Sax.open q A :: dataSax value ++ [Sax.close q]) := by
  refine ⟨by simp, fun w h1 h2 => ?_⟩
  have ht : (w.flush false).tail = none := by rw [flush_tail]; exact h1
  generalize hw0 : w.flush false = w0 at ht
  have e1 := start_attrs M isDt q A w h2 hnd hplain
  rw [hw0] at e1
  rw [List.append_assoc, foldlM_append_ok e1]
  have hgoal : ∀ X, afterW w X = ⟨w0.out ++ X, none, [], false, none⟩ := by
    intro X; simp [afterW, hw0]
  rw [hgoal]
  cases value with
  | none =>
    simp [WState.step, hd, WState.flush, dataSax, ht, bind, Except.bind]
    rfl
  | some s =>
    by_cases hs : s = []
    · subst hs
      simp [WState.step, hd, WState.flush, dataSax, ht, bind, Except.bind,
        filter_ne_nil A hnil]
      rfl
    · simp [WState.step, hd, WState.flush, dataSax, ht, bind, Except.bind,
        filter_ne_nil A hnil, hs]
      rfl

end Proofs.C01
