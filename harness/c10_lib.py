"""C10 helpers: injection of unknown content into documents and dictionaries, labelling of
document elements with the node that binds them, real-code adapters for the dictionary
decoder, and the independent bookkeeping the oracles need (what a class declares, read
from the universe *description*, not from xsdata)."""
from __future__ import annotations

import copy
import json
import warnings
from dataclasses import field, fields, is_dataclass, make_dataclass
from typing import Optional

import bindgen as G
import bindlib as B
from bindcases import documents, n_cases, new_universe, uni_of

XSI = "http://www.w3.org/2001/XMLSchema-instance"
XMLNS = "http://www.w3.org/XML/1998/namespace"
FRESH_NS = "urn:c10:unknown"

FLAGS = ("fail_on_unknown_properties", "fail_on_unknown_attributes", "fail_on_converter_warnings")

CFG8 = [
    {"fail_on_unknown_properties": p, "fail_on_unknown_attributes": a, "fail_on_converter_warnings": c}
    for p in (True, False)
    for a in (False, True)
    for c in (False, True)
]


def cfg_key(c):
    dflt = {"fail_on_unknown_properties": True, "fail_on_unknown_attributes": False, "fail_on_converter_warnings": False}
    return "".join("1" if c.get(k, dflt[k]) else "0" for k in dflt)


# --------------------------------------------------------------------------
# unknown subtrees
# --------------------------------------------------------------------------
def el(q, a=(), t=None, c=(), tl=None):
    return {"q": q, "a": [list(x) for x in a], "ns": [], "t": t, "c": list(c), "tl": tl}


def unknown_shapes(tree):
    """Subtrees whose root name cannot be declared by any generated class (fresh namespace /
    reserved local name). Inside they carry attributes, text, tails, deep nesting and
    *copies of elements of the document* (names that are known elsewhere)."""
    known = [copy.deepcopy(n) for _, n in G.tree_paths(tree)][:4]
    for k in known:
        k["tl"] = None
    fresh = "{%s}zz9" % FRESH_NS
    return [
        ("empty", el(fresh)),
        ("plain-name", el("zz9unknown", t="text")),
        ("attrs-text-tail", el(fresh, a=[("k", "v"), ("{%s}k2" % FRESH_NS, "")], t=" some text ", tl="tail text")),
        ("deep", el(fresh, t=" ", c=[el("{%s}d1" % FRESH_NS, t="x", c=[el("d2", c=[el("d3", t="deepest", tl="t3")], tl="t2")]), el("d1b")], tl="\n  ")),
        ("known-names-inside", el(fresh, a=[("{%s}type" % XSI, "xs:int"), ("{%s}nil" % XSI, "true")], c=known, tl=None)),
    ]


def insert_child(tree, path, pos, sub):
    t = copy.deepcopy(tree)
    G.tree_at(t, path)["c"].insert(pos, copy.deepcopy(sub))
    return t


def set_attr(tree, path, k, v):
    t = copy.deepcopy(tree)
    n = G.tree_at(t, path)
    for kv in n["a"]:
        if kv[0] == k:
            kv[1] = v
            return t
    n["a"].append([k, v])
    return t


def set_text(tree, path, text):
    t = copy.deepcopy(tree)
    G.tree_at(t, path)["t"] = text
    return t


UNKNOWN_ATTRS = [
    ("fresh-ns", "{%s}att" % FRESH_NS, "v"),
    ("plain", "zz9att", ""),
    ("xml-lang", "{%s}lang" % XMLNS, "en"),
]
XSI_ATTRS = [
    ("xsi-schemaLocation", "{%s}schemaLocation" % XSI, "urn:a a.xsd"),
    ("xsi-noNs", "{%s}noNamespaceSchemaLocation" % XSI, "a.xsd"),
    ("xsi-other", "{%s}zz9" % XSI, "x"),
]
BAD_VALUES = ["zz9", " 12x ", "truee", "1 2", ""]


# --------------------------------------------------------------------------
# which node binds which element (real parser, original document only)
# --------------------------------------------------------------------------
def label_elements(uni: B.Universe, clazz: str, tree, parent_ns=None):
    """pre-order list of labels, one per element of `tree`:
    ("element", class name) | ("wrapper", parent class) | ("primitive", var name, [type names], list?, tokens?, init?)
    | ("standard",) | ("wildcard",) | ("skip",) | ("union",) ; None when the parse does not get that far."""
    from xsdata.formats.dataclass.context import XmlContext
    from xsdata.formats.dataclass.parsers import nodes as N
    from xsdata.formats.dataclass.parsers.bases import NodeParser
    from xsdata.formats.dataclass.parsers.config import ParserConfig
    from xsdata.formats.dataclass.parsers.mixins import EventsHandler

    labels = []

    class Rec(NodeParser):
        def start(self, clazz, queue, objects, qname, attrs, ns_map):
            super().start(clazz, queue, objects, qname, attrs, ns_map)
            n = queue[-1]
            if isinstance(n, N.ElementNode):
                labels.append(("element", n.meta.clazz.__name__))
            elif isinstance(n, N.WrapperNode):
                labels.append(("wrapper", n.parent.meta.clazz.__name__))
            elif isinstance(n, N.PrimitiveNode):
                v = n.var
                labels.append(("primitive", v.name, [getattr(t, "__name__", str(t)) for t in v.types], bool(v.list_element), bool(v.tokens), bool(v.init), n.meta.clazz.__name__))
            elif isinstance(n, N.StandardNode):
                labels.append(("standard",))
            elif isinstance(n, N.WildcardNode):
                labels.append(("wildcard",))
            elif isinstance(n, N.SkipNode):
                labels.append(("skip",))
            else:
                labels.append(("union",))

    ctx = XmlContext(models_package=uni.modname)
    if parent_ns is not None:
        ctx.build(uni.classes[clazz], parent_ns=parent_ns)  # the metadata a UnionNode replays the subtree with
    p = Rec(context=ctx, config=ParserConfig(fail_on_unknown_properties=False), handler=EventsHandler)
    with warnings.catch_warnings():
        warnings.simplefilter("ignore")
        try:
            p.parse(B.tree_events(tree), uni.classes[clazz])
        except Exception:  # noqa: BLE001
            pass
    paths = [p for p, _ in G.tree_paths(tree)]
    return {tuple(pa): (labels[i] if i < len(labels) else None) for i, pa in enumerate(paths)}


# --------------------------------------------------------------------------
# what a class declares, from the description alone
# --------------------------------------------------------------------------
def desc_fields(desc, cname):
    by = {c["name"]: c for c in desc["classes"]}
    out = []
    for b in by[cname].get("bases", []):
        out += desc_fields(desc, b)
    return out + by[cname]["fields"]


def declares_wildcard(desc, cname):
    return any(f.get("metadata", {}).get("type") == "Wildcard" for f in desc_fields(desc, cname))


def declares_any_attributes(desc, cname):
    return any(f.get("metadata", {}).get("type") == "Attributes" for f in desc_fields(desc, cname))


def has_subclasses(desc, cname):
    return any(cname in c.get("bases", []) for c in desc["classes"])


# --------------------------------------------------------------------------
# real parser routes
# --------------------------------------------------------------------------
ROUTES = ("events", "native", "lxml")


def parse_route(uni, clazz, tree, config, route):
    if route == "events":
        return B.real_parse_tree(uni, clazz, tree, config)
    return parse_bytes_keepcfg(uni, clazz, G.tree_xml(tree), route, config)


def parse_bytes_keepcfg(uni, clazz, data: bytes, handler, config):
    """XmlParser.from_bytes with an explicit ParserConfig instance; reports a changed config"""
    from xsdata.exceptions import ConverterWarning
    from xsdata.formats.dataclass.context import XmlContext
    from xsdata.formats.dataclass.parsers import XmlParser
    from xsdata.formats.dataclass.parsers.config import ParserConfig
    from xsdata.formats.dataclass.parsers.handlers import LxmlEventHandler, XmlEventHandler

    dflt = ParserConfig()
    full = {k: config.get(k, getattr(dflt, k)) for k in FLAGS}
    cfg = ParserConfig(**full)
    h = XmlEventHandler if handler == "native" else LxmlEventHandler
    # The judged parse runs on a context that has already read the same bytes with every
    # fail_on_* option off: the options of *this* call decide, not what an earlier, more
    # tolerant call on the shared context saw (a seeded change remembered unknown names on the
    # binding metadata during a lenient parse and skipped them silently afterwards).
    ctx = XmlContext(models_package=uni.modname)
    with warnings.catch_warnings():
        warnings.simplefilter("ignore")
        try:
            XmlParser(context=ctx, config=ParserConfig(**{k: False for k in FLAGS}), handler=h).from_bytes(data, uni.classes[clazz])
        except Exception:  # noqa: BLE001, S110
            pass
    p = XmlParser(context=ctx, config=cfg, handler=h)
    with warnings.catch_warnings(record=True) as w:
        warnings.simplefilter("always")
        try:
            obj = p.from_bytes(data, uni.classes[clazz])
            r = {"ok": {"value": uni.to_val(obj), "warnings": sum(1 for x in w if issubclass(x.category, ConverterWarning))}}
        except Exception as e:  # noqa: BLE001
            r = B.classify_exc(e)
    after = {k: getattr(cfg, k) for k in FLAGS}
    if after != full:
        return {"err": "CONFIG-CHANGED", "after": after}
    return r


# --------------------------------------------------------------------------
# dictionaries
# --------------------------------------------------------------------------
MARK = "__c10cls__"


def encode_marked(uni: B.Universe, obj):
    """real DictEncoder output in which every dict that stands for a dataclass instance
    carries the class name under MARK"""
    from xsdata.formats.dataclass.context import XmlContext
    from xsdata.formats.dataclass.serializers.dict import DictEncoder

    class Enc(DictEncoder):
        def next_value(self, o):
            yield MARK, type(o).__name__
            yield from super().next_value(o)

    return Enc(context=XmlContext(models_package=uni.modname)).encode(obj)


def marked_paths(d, path=()):
    """paths (keys / list indexes) of the dicts that stand for universe dataclasses"""
    if isinstance(d, dict):
        if MARK in d:
            yield path, d[MARK]
        for k, v in d.items():
            yield from marked_paths(v, path + (k,))
    elif isinstance(d, list):
        for i, v in enumerate(d):
            yield from marked_paths(v, path + (i,))


def strip_marks(d):
    if isinstance(d, dict):
        return {k: strip_marks(v) for k, v in d.items() if k != MARK}
    if isinstance(d, list):
        return [strip_marks(v) for v in d]
    return d


def dict_at(d, path):
    for k in path:
        d = d[k]
    return d


def inject_key(data, path, key, value, pos):
    d = copy.deepcopy(data)
    tgt = dict_at(d, path)
    items = list(tgt.items())
    items.insert(min(pos, len(items)), (key, copy.deepcopy(value)))
    tgt.clear()
    tgt.update(items)
    return d


UNKNOWN_KEY = "zz9_unknown"
UNKNOWN_VALUES = [1, "s", None, [1, 2], {"a": 1}, {"zz": {"deep": [1, {"x": None}]}}, [], {}]


def real_decode(uni: B.Universe, clazz: str, data, config: dict, via="dict"):
    from xsdata.exceptions import ConverterWarning
    from xsdata.formats.dataclass.context import XmlContext
    from xsdata.formats.dataclass.parsers import DictDecoder, JsonParser
    from xsdata.formats.dataclass.parsers.config import ParserConfig

    ctx = XmlContext(models_package=uni.modname)
    with warnings.catch_warnings(record=True) as w:
        warnings.simplefilter("always")
        try:
            if via == "dict":
                obj = DictDecoder(context=ctx, config=ParserConfig(**config)).decode(copy.deepcopy(data), uni.classes[clazz])
            else:
                obj = JsonParser(context=ctx, config=ParserConfig(**config)).from_string(json.dumps(data), uni.classes[clazz])
        except Exception as e:  # noqa: BLE001
            r = B.classify_exc(e)
            r["msg"] = str(e)[:120]
            return r
    n = sum(1 for x in w if issubclass(x.category, ConverterWarning))
    return {"ok": {"value": uni.to_val(obj), "warnings": n}}


# ---- dict.bindkeys: the real bind_dataclass loop with the value binder stubbed out
def export_dvars(meta):
    return [
        {"name": v.name, "local_name": v.local_name, "wrapper": v.wrapper, "is_list": bool(v.list_element or v.tokens), "list_element": bool(v.list_element), "init": bool(v.init)}
        for v in meta.get_all_vars()
    ]


def shape_of(value):
    from xsdata.utils import collections

    if value is None:
        return "null"
    if collections.is_array(value):
        return "array"
    if isinstance(value, dict):
        return {"object": [[k, bool(collections.is_array(v))] for k, v in value.items()]}
    return "scalar"


def shape_value(shape, key):
    """a JSON value of the given shape whose leaves name the key it sits under"""
    tag = "K:" + key
    if shape == "null":
        return None
    if shape == "scalar":
        return tag
    if shape == "array":
        return [tag]
    return {m: ([tag] if arr else tag) for m, arr in shape["object"]}


def _leaf(v):
    if isinstance(v, str):
        return v[2:] if v.startswith("K:") else None
    if isinstance(v, (list, tuple)):
        for x in v:
            r = _leaf(x)
            if r is not None:
                return r
    if isinstance(v, dict):
        for x in v.values():
            r = _leaf(x)
            if r is not None:
                return r
    return None


def real_bindkeys(clazz, data: dict, config: dict):
    """DictDecoder.bind_dataclass on `data` with bind_value / bind_derived_dataclass /
    class_factory replaced by recorders: returns what the loop decided"""
    from xsdata.exceptions import ParserError
    from xsdata.formats.dataclass.context import XmlContext
    from xsdata.formats.dataclass.parsers import DictDecoder
    from xsdata.formats.dataclass.parsers.config import ParserConfig

    seen = {}

    class Stub(DictDecoder):
        def bind_value(self, meta, var, value, recursive=False):
            if not var.init:
                return var.default() if callable(var.default) else var.default
            return ("bound", _leaf(value))

        def bind_derived_dataclass(self, data, clazz):
            seen["derived"] = True
            return None

    def factory(cls, params):
        seen["params"] = [[k, v[1] if isinstance(v, tuple) else None] for k, v in params.items()]
        return None

    dec = Stub(context=XmlContext(), config=ParserConfig(class_factory=factory, **config))
    try:
        dec.bind_dataclass(data, clazz)
    except ParserError:
        return {"err": "ParserError"}
    except Exception as e:  # noqa: BLE001
        return {"err": "LEAK:" + type(e).__name__}
    if seen.get("derived"):
        return {"ok": {"derived": True, "params": []}}
    return {"ok": {"derived": False, "params": seen.get("params", [])}}


# ---- dict.best: the real bind_best_dataclass with the per-class attempt stubbed out
_BEST_CLASSES = {}


def best_class(names: tuple):
    """a model class declaring exactly the given element names (all Optional[object])"""
    if names not in _BEST_CLASSES:
        flds = [(n, Optional[object], field(default=None, metadata={"type": "Element"})) for n in names]
        cls = make_dataclass("C10Best_" + "_".join(names) if names else "C10Best_none", flds)
        cls.__module__ = __name__
        _BEST_CLASSES[names] = cls
    return _BEST_CLASSES[names]


def real_best(keys, cands, config=None):
    """cands: [{id, local_names, attempt}], attempt = None (the attempt raises) or the score in half points"""
    from xsdata.exceptions import ParserError
    from xsdata.formats.dataclass.context import XmlContext
    from xsdata.formats.dataclass.parsers import DictDecoder

    classes = []
    table = {}
    for c in cands:
        cls = make_dataclass(c["id"], [], bases=(best_class(tuple(c["local_names"])),))
        classes.append(cls)
        table[cls] = c

    def fake(self, data, clazz):
        c = table[clazz]
        if c["attempt"] is None:
            raise ValueError("attempt fails")
        n_str, n_other = c["_mix"]  # 2 half points per string value, 3 per other value
        names = list(c["local_names"])
        kw = {n: "s" for n in names[:n_str]}
        kw.update({n: 5 for n in names[n_str : n_str + n_other]})
        return clazz(**kw)

    orig = DictDecoder.bind_dataclass
    DictDecoder.bind_dataclass = fake
    try:
        data = {k: "v" for k in keys}
        try:
            from xsdata.formats.dataclass.parsers.config import ParserConfig

            obj = DictDecoder(context=XmlContext(), config=ParserConfig(**(config or {}))).bind_best_dataclass(data, classes)
        except ParserError:
            return {"err": "ParserError"}
        except Exception as e:  # noqa: BLE001
            return {"err": "LEAK:" + type(e).__name__}
    finally:
        DictDecoder.bind_dataclass = orig
    return {"ok": type(obj).__name__}


# --------------------------------------------------------------------------
# dictionary documents with polymorphic (best-match) fields
# --------------------------------------------------------------------------
def _opt(t):
    return {"opt": t}


def _f(name, t, typ="Element", default=None, **md):
    return {"name": name, "type": t, "metadata": {"type": typ, **md}, "default": default if default is not None else {"value": None}}


def poly_desc(rng):
    """A universe whose Root mixes plain int/bool fields with the four kinds of fields that
    DictDecoder binds through bind_best_dataclass, in a random order."""
    animal = {"name": "Animal", "fields": [_f("name", _opt("str")), _f("legs", _opt("int"))]}
    dog = {"name": "Dog", "bases": ["Animal"], "fields": [_f("breed", _opt("str")), _f("age", _opt("int"))]}
    plain = {"name": "Plain", "fields": [_f("v", _opt("int")), _f("b", _opt("bool"), "Attribute")]}
    ca = {"name": "UA", "fields": [_f("ax", _opt("int")), _f("an", _opt("str"))]}
    cb = {"name": "UB", "fields": [_f("bx", _opt("str")), _f("bn", _opt("bool"))]}
    pool = [
        _f("n1", _opt("int")),
        _f("n2", _opt("int")),
        _f("f1", _opt("bool"), "Attribute"),
        _f("f2", _opt("bool")),
        _f("pet", _opt({"cls": "Animal"})),
        _f("pets", {"list": {"cls": "Animal"}}, default={"factory": "list"}),
        _f("un", _opt({"union": [{"cls": "UA"}, {"cls": "UB"}]})),
        _f("anyf", _opt("object")),
        {"name": "comp", "type": {"list": "object"}, "metadata": {"type": "Elements", "choices": [
            {"name": "ci", "type": "int"}, {"name": "ca", "type": {"cls": "Animal"}}, {"name": "cp", "type": {"cls": "Plain"}}]},
         "default": {"factory": "list"}},
        _f("kid", _opt({"cls": "Plain"})),
        _f("kids", {"list": {"cls": "Plain"}}, default={"factory": "list"}),
    ]
    rng.shuffle(pool)
    keep = [f for f in pool if rng.random() < 0.8]
    if not any(f["name"] in ("pet", "pets", "un", "anyf", "comp") for f in keep):
        keep.insert(0, pool[[f["name"] for f in pool].index("pet")])
    if not any(f["name"] in ("n1", "n2", "f1", "f2") for f in keep):
        keep.append(pool[[f["name"] for f in pool].index("n2")])
    return {"classes": [animal, dog, plain, ca, cb, {"name": "Root", "fields": keep}]}


def poly_instance(rng, uni: B.Universe):
    C = uni.classes

    def animal():
        if rng.random() < 0.5:
            return C["Dog"](name=rng.choice(["rex", None]), legs=rng.choice([4, None]), breed=rng.choice(["lab", "pug"]), age=rng.choice([None, 3]))
        return C["Animal"](name=rng.choice(["tom", "x"]), legs=rng.choice([4, 2, None]))

    def plain():
        return C["Plain"](v=rng.choice([1, 7, None]), b=rng.choice([True, False, None]))

    def union():
        return C["UA"](ax=rng.choice([1, 5]), an=rng.choice(["s", None])) if rng.random() < 0.5 else C["UB"](bx=rng.choice(["t", "u"]), bn=rng.choice([True, None]))

    makers = {
        "n1": lambda: rng.choice([0, 12, -3]), "n2": lambda: rng.choice([5, 99]), "f1": lambda: rng.random() < 0.5, "f2": lambda: rng.random() < 0.5,
        "pet": animal, "pets": lambda: [animal() for _ in range(rng.randint(1, 2))], "un": union,
        "anyf": lambda: rng.choice([plain, animal, lambda: "text"])(),
        "comp": lambda: [rng.choice([lambda: rng.randint(0, 9), animal, plain])() for _ in range(rng.randint(1, 3))],
        "kid": plain, "kids": lambda: [plain() for _ in range(rng.randint(1, 2))],
    }
    kw = {}
    for f in desc_fields(uni.desc, "Root"):
        if rng.random() < 0.9:
            kw[f["name"]] = makers[f["name"]]()
    return C["Root"](**kw)


def key_vars(uni: B.Universe, cname: str):
    """JSON key -> field name of the class (the naming is read from the real metadata; what the
    field *is* comes from the description)"""
    from xsdata.formats.dataclass.context import XmlContext

    cache = uni.__dict__.setdefault("_c10_keyvars", {})
    if cname not in cache:
        meta = XmlContext(models_package=uni.modname).build(uni.classes[cname])
        cache[cname] = {(v.wrapper or v.local_name): v.name for v in meta.get_all_vars()}
    return cache[cname]


def desc_field(desc, cname, fname):
    for f in desc_fields(desc, cname):
        if f["name"] == fname:
            return f
    return None


def _strip_type(t):
    while isinstance(t, dict) and ("opt" in t or "list" in t or "tuple" in t):
        t = t.get("opt") or t.get("list") or t.get("tuple")
    return t


def field_is_best_match(desc, f):
    """the decoder binds a nested object of this field through bind_best_dataclass"""
    if f.get("metadata", {}).get("type") in ("Elements", "Wildcard"):
        return True
    bt = _strip_type(f["type"])
    if bt == "object" or (isinstance(bt, dict) and "union" in bt):
        return True
    if isinstance(bt, dict) and "cls" in bt:
        return has_subclasses(desc, bt["cls"])
    return False


def dict_positions(uni: B.Universe, marked):
    """for every dict of the encoded document that stands for a dataclass:
    (path, class, inside_best) and its int/bool scalar members (key, kind)"""
    desc = uni.desc
    marks = sorted(marked_paths(marked), key=lambda pc: len(pc[0]))
    info = {}
    out = []
    for path, cname in marks:
        path = tuple(path)
        inside = False
        if path:
            q = max((p for p in info if len(p) < len(path) and path[: len(p)] == p), key=len)
            pc, pin = info[q]
            fname = key_vars(uni, pc).get(path[len(q)])
            f = desc_field(desc, pc, fname) if fname else None
            inside = pin or f is None or field_is_best_match(desc, f)
        info[path] = (cname, inside)
        scalars = []
        for k, v in dict_at(marked, path).items():
            if k == MARK or isinstance(v, (dict, list)) or v is None:
                continue
            fname = key_vars(uni, cname).get(k)
            f = desc_field(desc, cname, fname) if fname else None
            if f is None or f.get("init") is False or f.get("metadata", {}).get("tokens"):
                continue
            t = f["type"]
            if isinstance(t, dict) and "opt" in t:
                t = t["opt"]
            if t in ("int", "bool"):
                scalars.append((k, t))
        out.append({"path": list(path), "cls": cname, "inside_best": inside, "scalars": scalars, "size": len(dict_at(marked, path)) - 1})
    return out


def replace_in_val(uni: B.Universe, val, path, key, new):
    """`val` (Universe.to_val of the decoded root) with the field reached by the JSON path/key set to `new`"""
    out = copy.deepcopy(val)
    cur = out
    segs = list(path) + [key]
    for i, seg in enumerate(segs):
        if isinstance(seg, int):
            if not (isinstance(cur, dict) and "list" in cur) or seg >= len(cur["list"]):
                return None
            cur = cur["list"][seg]
            continue
        if not (isinstance(cur, dict) and "obj" in cur):
            return None
        fname = key_vars(uni, cur["obj"]).get(seg)
        slot = next((kv for kv in cur["fields"] if kv[0] == fname), None)
        if slot is None:
            return None
        if i == len(segs) - 1:
            slot[1] = new
            return out
        cur = slot[1]
    return None




def apply_dict_injection(data, inj):
    if inj is None:
        return data
    if inj["kind"] == "key":
        return inject_key(data, inj["path"], inj["key"], inj["value"], inj["pos"])
    d = copy.deepcopy(data)
    dict_at(d, inj["path"])[inj["key"]] = inj["bad"]
    return d


def run_dict_sequence(uni: B.Universe, clazz: str, docs, config: dict, via: str, share: str):
    """decode the documents in order with ONE ParserConfig instance (and one decoder/parser
    when share == 'decoder'); returns the per-document outcomes and the flags afterwards"""
    from xsdata.exceptions import ConverterWarning
    from xsdata.formats.dataclass.context import XmlContext
    from xsdata.formats.dataclass.parsers import DictDecoder, JsonParser
    from xsdata.formats.dataclass.parsers.config import ParserConfig

    cfg = ParserConfig(**config)
    ctx = XmlContext(models_package=uni.modname)

    def make():
        return DictDecoder(context=ctx, config=cfg) if via == "dict" else JsonParser(context=ctx, config=cfg)

    dec = make()
    outs = []
    for d in docs:
        if share != "decoder":
            dec = make()
        with warnings.catch_warnings(record=True) as w:
            warnings.simplefilter("always")
            try:
                if via == "dict":
                    obj = dec.decode(copy.deepcopy(d), uni.classes[clazz])
                else:
                    obj = dec.from_string(json.dumps(d), uni.classes[clazz])
                n = sum(1 for x in w if issubclass(x.category, ConverterWarning))
                outs.append({"ok": {"value": uni.to_val(obj), "warnings": n}})
            except Exception as e:  # noqa: BLE001
                outs.append(B.classify_exc(e))
    return {"docs": outs, "config_after": {k: getattr(cfg, k) for k in FLAGS}}


def real_bestcfg(keys, cands, config):
    """real bind_best_dataclass (per-class attempt stubbed: it picks its outcome by the
    configuration of the decoder it runs in), then one unconvertible scalar through the
    same decoder's config; reports the caller's flags afterwards"""
    from xsdata.exceptions import ConverterWarning, ParserError
    from xsdata.formats.dataclass.context import XmlContext
    from xsdata.formats.dataclass.models.elements import XmlMeta  # noqa: F401
    from xsdata.formats.dataclass.parsers import DictDecoder
    from xsdata.formats.dataclass.parsers.config import ParserConfig
    from xsdata.formats.dataclass.parsers.utils import ParserUtils

    classes, table = [], {}
    for c in cands:
        cls = make_dataclass(c["id"], [], bases=(best_class(tuple(c["local_names"])),))
        classes.append(cls)
        table[cls] = c

    def fake(self, data, clazz):
        c = table[clazz]
        which = "strict" if self.config.fail_on_converter_warnings else "lenient"
        if c["attempt_" + which] is None:
            raise ValueError("attempt fails")
        n_str, n_other = c["_mix_" + which]
        names = list(c["local_names"])
        kw = {n: "s" for n in names[:n_str]}
        kw.update({n: 5 for n in names[n_str : n_str + n_other]})
        return clazz(**kw)

    dflt = ParserConfig()
    cfg = ParserConfig(**{k: config.get(k, getattr(dflt, k)) for k in FLAGS})
    ctx = XmlContext()
    dec = DictDecoder(context=ctx, config=cfg)
    steps = []
    orig = DictDecoder.bind_dataclass
    DictDecoder.bind_dataclass = fake
    try:
        try:
            obj = dec.bind_best_dataclass({k: "v" for k in keys}, classes)
            steps.append({"ok": type(obj).__name__})
        except ParserError:
            steps.append({"err": "ParserError"})
        except Exception as e:  # noqa: BLE001
            steps.append({"err": "LEAK:" + type(e).__name__})
    finally:
        DictDecoder.bind_dataclass = orig
    # an unconvertible scalar decoded next by the same decoder (its config object)
    meta = ctx.build(make_dataclass("C10Int", [("n", Optional[int], field(default=None, metadata={"type": "Element"}))]))
    var = meta.get_all_vars()[0]
    with warnings.catch_warnings(record=True) as w:
        warnings.simplefilter("always")
        try:
            v = dec.bind_text(meta, var, "many")
            n = sum(1 for x in w if issubclass(x.category, ConverterWarning))
            steps.append({"ok": "warned" if (v == "many" and n == 1) else f"other:{v!r}:{n}"})
        except ParserError:
            steps.append({"err": "ParserError"})
    return {"ok": {"steps": steps, "after": [getattr(cfg, k) for k in FLAGS]}}


# --------------------------------------------------------------------------
# the binding metadata shared by the parses of one XmlContext
# --------------------------------------------------------------------------
def snapshot(o, _depth=0):
    """every slot / attribute of an object graph as plain data (classes and callables by name).
    `XmlVar.namespace_matches` — the memo of the pure `_match_namespace`, subject of C14 — is
    replaced by the list of its entries that do NOT equal the un-memoised answer."""
    if _depth > 12:
        return "<deep>"
    if o is None or isinstance(o, (str, int, float, bool, bytes)):
        return o
    if isinstance(o, type):
        return ("type", o.__module__.split("vp_models_")[0] + o.__qualname__)
    if isinstance(o, (list, tuple)):
        return [snapshot(x, _depth + 1) for x in o]
    if isinstance(o, (set, frozenset)):
        return ("set", sorted(repr(snapshot(x, _depth + 1)) for x in o))
    if isinstance(o, dict):
        return ("dict", [[snapshot(k, _depth + 1), snapshot(v, _depth + 1)] for k, v in o.items()])
    if callable(o) and not hasattr(o, "__slots__"):
        return ("callable", getattr(o, "__qualname__", type(o).__name__))
    names = []
    for k in type(o).__mro__:
        s = k.__dict__.get("__slots__", ())
        names += [s] if isinstance(s, str) else list(s)
    names += list(getattr(o, "__dict__", {}))
    out = []
    for n in dict.fromkeys(names):
        if not hasattr(o, n):
            continue
        v = getattr(o, n)
        if n == "namespace_matches" and hasattr(o, "_match_namespace"):
            v = [[q, b] for q, b in (v or {}).items() if o._match_namespace(q) != b]
        out.append([n, snapshot(v, _depth + 1)])
    return (type(o).__name__, out)


def real_metastate(uni: B.Universe, clazz: str, warm, calls):
    """parser calls in order on ONE XmlContext (warmed by a strict parse of `warm`): the
    outcomes and the classes whose XmlMeta object graph differs afterwards"""
    from xsdata.exceptions import ConverterWarning
    from xsdata.formats.dataclass.context import XmlContext
    from xsdata.formats.dataclass.parsers.bases import NodeParser
    from xsdata.formats.dataclass.parsers.config import ParserConfig
    from xsdata.formats.dataclass.parsers.mixins import EventsHandler

    ctx = XmlContext(models_package=uni.modname)

    def run(tree, config):
        p = NodeParser(context=ctx, config=ParserConfig(**config), handler=EventsHandler)
        with warnings.catch_warnings(record=True) as w:
            warnings.simplefilter("always")
            try:
                obj = p.parse(B.tree_events(tree), uni.classes[clazz])
            except Exception as e:  # noqa: BLE001
                return B.classify_exc(e)
        return {"ok": {"value": uni.to_val(obj), "warnings": sum(1 for x in w if issubclass(x.category, ConverterWarning))}}

    def metas():
        # the cache is keyed by (class, parent namespace) since /repo b368559 (by class before)
        out = {}
        for k, m in ctx.cache.items():
            cls, pns = k if isinstance(k, tuple) else (k, None)
            out[(cls.__name__, pns)] = snapshot(m)
        return out

    run(warm, {})
    before = metas()
    results = [run(c["tree"], c["config"]) for c in calls]
    after = metas()
    changed = sorted({k[0] for k in before if after.get(k) != before[k]})
    return {"ok": {"results": results, "changed": changed}}


# --------------------------------------------------------------------------
# XML documents with fields that are unions of dataclasses (UnionNode)
# --------------------------------------------------------------------------
def union_desc(rng):
    """Root mixes plain fields with union-of-dataclass fields (single, list, inside a child
    class); no class declares a wildcard or an Attributes field, so a name in a fresh namespace
    is unknown wherever an element class binds"""
    # no namespaces here: since the context caches by (class, parent_ns) a UnionNode replays its
    # candidates with the metadata built for parent_ns=None, so unions under a namespaced parent
    # do not even read back their own serialisation (reported; not a C10 matter)
    ns = None
    label = {"name": "Label", "fields": [_f("lang", _opt("str"), "Attribute"), {"name": "value", "type": _opt("str"), "metadata": {"type": "Text"}, "default": {"value": None}}]}
    circle = {"name": "Circle", "fields": [_f("radius", _opt("int"), "Attribute"), _f("label", _opt({"cls": "Label"})), _f("note", _opt("str"))]}
    square = {"name": "Square", "fields": [_f("side", _opt("int"), "Attribute"), _f("label", _opt({"cls": "Label"})),
                                           _f("tags", {"list": "str"}, default={"factory": "list"})]}
    tri = {"name": "Tri", "fields": [_f("a", _opt("int")), _f("b", _opt("bool"), "Attribute"), _f("inner", _opt({"cls": "Label"}))]}
    u2 = {"union": [{"cls": "Circle"}, {"cls": "Square"}]}
    u3 = {"union": [{"cls": "Tri"}, {"cls": "Circle"}, {"cls": "Square"}]}
    mid = {"name": "Mid", "fields": [_f("m1", _opt("int")), _f("part", _opt(u2)), _f("m2", _opt("str"), "Attribute")]}
    pool = [
        _f("title", _opt("str"), "Attribute"),
        _f("n", _opt("int")),
        _f("shape", _opt(u2)),
        _f("shapes", {"list": u3}, default={"factory": "list"}),
        _f("mid", _opt({"cls": "Mid"})),
        _f("kid", _opt({"cls": "Label"})),
        _f("flag", _opt("bool")),
    ]
    rng.shuffle(pool)
    keep = [f for f in pool if rng.random() < 0.8]
    if not any(f["name"] in ("shape", "shapes", "mid") for f in keep):
        keep.insert(rng.randint(0, len(keep)), next(f for f in pool if f["name"] == "shape"))
    root = {"name": "Root", "fields": keep}
    if ns:
        root["meta"] = {"namespace": ns}
    return {"classes": [label, circle, square, tri, mid, root]}


def union_instance(rng, uni: B.Universe):
    C = uni.classes

    def label():
        return C["Label"](lang=rng.choice(["en", None]), value=rng.choice(["x", "some text", None]))

    def circle():
        return C["Circle"](radius=rng.choice([3, 10]), label=rng.choice([label, lambda: None])(), note=rng.choice(["n", None]))

    def square():
        return C["Square"](side=rng.choice([2, 7]), label=rng.choice([label, lambda: None])(), tags=[rng.choice(["t1", "t2"]) for _ in range(rng.randint(0, 2))])

    def tri():
        return C["Tri"](a=rng.choice([1, 4]), b=rng.choice([True, False, None]), inner=rng.choice([label, lambda: None])())

    def mid():
        return C["Mid"](m1=rng.choice([5, None]), part=rng.choice([circle, square])(), m2=rng.choice(["z", None]))

    makers = {
        "title": lambda: rng.choice(["t", "a b"]), "n": lambda: rng.choice([0, 42]), "shape": lambda: rng.choice([circle, square])(),
        "shapes": lambda: [rng.choice([circle, square, tri])() for _ in range(rng.randint(1, 3))], "mid": mid, "kid": label,
        "flag": lambda: rng.random() < 0.5,
    }
    kw = {}
    for f in desc_fields(uni.desc, "Root"):
        if rng.random() < 0.9 or f["name"] in ("shape", "shapes", "mid"):
            kw[f["name"]] = makers[f["name"]]()
    return C["Root"](**kw)


def union_occurrences(uni: B.Universe, obj):
    """class names of the values of union-typed fields, in document (= field) order"""
    out = []
    cname = type(obj).__name__
    for f in desc_fields(uni.desc, cname):
        v = getattr(obj, f["name"], None)
        is_union = isinstance(_strip_type(f["type"]), dict) and "union" in _strip_type(f["type"])
        for x in v if isinstance(v, (list, tuple)) else [v]:
            if x is None or not is_dataclass(x):
                continue
            if is_union:
                out.append(type(x).__name__)  # union candidates hold no union fields themselves
            else:
                out += union_occurrences(uni, x)
    return out


def resolve_union_labels(uni: B.Universe, clazz: str, tree, union_classes):
    """label_elements, with every subtree bound by a UnionNode labelled the way the class
    that the document was written from binds it; returns (labels, paths inside unions)"""
    from xsdata.utils.namespaces import target_uri

    labels = label_elements(uni, clazz, tree)
    todo = list(union_classes)
    inside = set()
    for path, node in G.tree_paths(tree):
        path = tuple(path)
        if labels.get(path) == ("union",) and path not in inside:
            if not todo:
                break
            c = todo.pop(0)
            sub = label_elements(uni, c, node, parent_ns=target_uri(node["q"]) or "")
            for sp, lab in sub.items():
                labels[path + tuple(sp)] = lab
                inside.add(path + tuple(sp))
    return labels, inside


def real_unioncfg(config, doc="plain"):
    """flags of the ParserConfig of every parser UnionNode.bind creates for its candidates while
    a small document with a union field is parsed, and the caller's flags afterwards"""
    from typing import Union

    from xsdata.formats.dataclass.context import XmlContext
    from xsdata.formats.dataclass.parsers import XmlParser
    from xsdata.formats.dataclass.parsers.config import ParserConfig
    from xsdata.formats.dataclass.parsers.nodes import union as U

    A = make_dataclass("C10UA", [("x", Optional[int], field(default=None, metadata={"type": "Attribute"}))])
    Bc = make_dataclass("C10UB", [("y", Optional[int], field(default=None, metadata={"type": "Attribute"}))])
    R = make_dataclass("C10UR", [("u", Optional[Union[A, Bc]], field(default=None, metadata={"type": "Element"}))])
    seen = []

    class Rec(U.NodeParser):
        def parse(self, source, clazz=None, ns_map=None):
            seen.append([getattr(self.config, k) for k in FLAGS])
            return super().parse(source, clazz, ns_map)

    dflt = ParserConfig()
    cfg = ParserConfig(**{k: config.get(k, getattr(dflt, k)) for k in FLAGS})
    text = {"plain": '<C10UR><u x="1"/></C10UR>', "unknown-attr": '<C10UR><u x="1" zz="2"/></C10UR>', "bad-value": '<C10UR><u x="1x"/></C10UR>'}[doc]
    orig = U.NodeParser
    U.NodeParser = Rec
    try:
        with warnings.catch_warnings():
            warnings.simplefilter("ignore")
            try:
                XmlParser(context=XmlContext(), config=cfg).from_string(text, R)
            except Exception:  # noqa: BLE001, S110
                pass
    finally:
        U.NodeParser = orig
    uniq = [list(x) for x in dict.fromkeys(tuple(x) for x in seen)]
    return {"ok": {"replay": uniq, "after": [getattr(cfg, k) for k in FLAGS]}}


# --------------------------------------------------------------------------
# which node binds which element, decided from the class DESCRIPTION alone (no xsdata code):
# the oracles judge with these labels; `label_elements` (real parser) only spreads the samples
# --------------------------------------------------------------------------
XS = "http://www.w3.org/2001/XMLSchema"


def _by_name(desc):
    return {c["name"]: c for c in desc["classes"]}


def _is_sub(desc, c, base):
    if c == base:
        return True
    return any(_is_sub(desc, b, base) for b in _by_name(desc)[c].get("bases", []))


def _qn(ns, local):
    return "{%s}%s" % (ns, local) if ns else local


def _default_type(fields):
    undefined = sum(1 for f in fields if not f.get("metadata", {}).get("type"))
    texts = sum(1 for f in fields if f.get("metadata", {}).get("type") == "Text")
    return "Text" if undefined == 1 and texts == 0 else "Element"


def _local(q):
    return q.split("}")[-1]


def desc_labels(desc, clazz, tree, union_classes=None, root_ns=None):
    """labels as `label_elements` gives them, computed from the description; an element the
    description does not settle (xsi:type that does not name a known subclass, anyType content that
    may be a known root element, ...) gets no label, i.e. no claim.  Returns (labels, inside-union paths)"""
    by = _by_name(desc)
    labels, inside, todo = {}, set(), list(union_classes or [])
    roots = {(c.get("meta") or {}).get("name", c["name"]) for c in desc["classes"]}

    def mark(path, node, lab):
        labels[path] = lab
        for i, c in enumerate(node["c"]):
            mark(path + (i,), c, lab)

    def xsi_type(node):
        for k, v in node["a"]:
            if k == "{%s}type" % XSI:
                return v
        return None

    def resolve_class(node, declared):
        """class that binds an element declared with class type `declared`; None = not settled"""
        xt = xsi_type(node)
        if not xt:
            return declared
        pfx, _, local = xt.rpartition(":")
        uri = dict((p, u) for p, u in node["ns"]).get(pfx or None)
        if uri == XS:
            return None
        hits = [c["name"] for c in desc["classes"] if (c.get("meta") or {}).get("name", c["name"]) == local and _is_sub(desc, c["name"], declared)]
        return hits[0] if len(hits) == 1 else None

    def element(path, node, cname, pns, in_union):
        own = (by[cname].get("meta") or {}).get("namespace")
        ns = own if own is not None else pns
        labels[path] = ("element", cname, ns)
        if in_union:
            inside.add(path)
        fields = desc_fields(desc, cname)
        for i, c in enumerate(node["c"]):
            child(path + (i,), c, cname, ns, fields, None, in_union)

    def child(path, node, cname, ns, fields, wrapper, in_union):
        if in_union:
            inside.add(path)
        q = node["q"]
        dflt = _default_type(fields)
        if wrapper is None:
            for f in fields:
                w = f.get("metadata", {}).get("wrapper")
                if w and _qn(f["metadata"].get("namespace", ns) or None, w) == q:
                    labels[path] = ("wrapper", cname, ns)
                    for j, g in enumerate(node["c"]):
                        child(path + (j,), g, cname, ns, fields, q, in_union)
                    return
        for f in fields:
            md = f.get("metadata", {})
            typ = md.get("type") or dflt
            if typ == "Element":
                fns = md.get("namespace", ns) or None
                if _qn(fns, md.get("name", f["name"])) != q:
                    continue
                if wrapper is not None and _qn(fns, md.get("wrapper", "")) != wrapper:
                    continue
                if wrapper is None and md.get("wrapper"):
                    continue
                return bind(path, node, cname, ns, f, f["type"], in_union)
            if typ == "Elements":
                for ch in md.get("choices", []):
                    if _qn(ch.get("namespace", ns) or None, ch["name"]) == q:
                        ct = {"list": ch["type"]} if isinstance(f["type"], dict) and ("list" in f["type"] or "tuple" in f["type"]) else ch["type"]
                        return bind(path, node, cname, ns, {**f, "metadata": {k: v for k, v in ch.items() if k != "type"}}, ct, in_union)
        for f in fields:
            md = f.get("metadata", {})
            if md.get("type") == "Wildcard":
                if _local(q) in roots or md.get("namespace", "##any") != "##any":
                    return  # may be bound as a known root element / may fall outside the namespace constraint: not settled here
                return mark(path, node, ("wildcard",))
        return mark(path, node, ("skip",))

    def bind(path, node, cname, ns, f, t, in_union):
        md = f.get("metadata", {})
        bt = _strip_type(t)
        is_list = isinstance(t, dict) and ("list" in t or "tuple" in t)
        if isinstance(bt, dict) and "union" in bt:
            if in_union or not todo:
                return
            c = todo.pop(0)
            return element(path, node, c, _target(node["q"]), True)
        if isinstance(bt, dict) and "cls" in bt:
            c = resolve_class(node, bt["cls"])
            if c is not None:
                element(path, node, c, ns, in_union)
            return
        if bt == "object":
            xt = xsi_type(node)
            if xt:
                pfx, _, local = xt.rpartition(":")
                uri = dict((p, u) for p, u in node["ns"]).get(pfx or None)
                if uri == XS:
                    labels[path] = ("standard",)
                return
            if _local(node["q"]) in roots:
                return
            return mark(path, node, ("wildcard",))
        labels[path] = ("primitive", f["name"], [bt], is_list and not md.get("tokens"), bool(md.get("tokens")), f.get("init") is not False, cname)
        for i, c in enumerate(node["c"]):
            mark(path + (i,), c, None)

    def _target(q):
        return q[1:].split("}")[0] if q.startswith("{") else None

    element((), tree, clazz, root_ns, False)
    return {p: l for p, l in labels.items() if l is not None}, inside


# --------------------------------------------------------------------------
# does a wildcard / any-attribute field of the class take this name?  From the description and
# the XSD meaning of the namespace constraint (##any, ##other, ##local, ##targetNamespace, a list
# of namespace names; NO constraint = the names without a namespace only, for a Wildcard field
# after inheriting the namespace of its class).  True / False / None = not settled here.
# --------------------------------------------------------------------------
def _ns_allows(constraint, class_ns, q):
    uri = q[1:].split("}")[0] if q.startswith("{") else None
    if not constraint:
        return uri is None
    res = False
    for tok in constraint.split():
        if tok == "##any":
            return True
        if tok == "##local":
            ok = uri is None
        elif tok == "##targetNamespace":
            if not class_ns:
                return True
            ok = uri == class_ns
        elif tok == "##other":
            if uri is None:
                return None  # XSD says no, the library says yes: no claim either way
            ok = uri != (class_ns or "")
        else:
            ok = uri == tok
        res = res or ok
    return res


def _field_takes(desc, cname, class_ns, q, kind):
    out = False
    for f in desc_fields(desc, cname):
        md = f.get("metadata", {})
        if md.get("type") != kind:
            continue
        constraint = md.get("namespace")
        if constraint is None and kind == "Wildcard":
            constraint = class_ns
        r = _ns_allows(constraint, class_ns, q)
        if r is True:
            return True
        if r is None:
            out = None
    return out


def wildcard_takes(desc, cname, class_ns, q):
    return _field_takes(desc, cname, class_ns, q, "Wildcard")


def attributes_take(desc, cname, class_ns, q):
    return _field_takes(desc, cname, class_ns, q, "Attributes")


def real_match_namespace(namespaces, qname):
    """the un-memoised XmlVar._match_namespace on a var that holds just this namespaces tuple"""
    from xsdata.formats.dataclass.models.elements import XmlVar

    v = XmlVar.__new__(XmlVar)
    v.namespaces = tuple(namespaces)
    return {"ok": bool(v._match_namespace(qname))}


# --------------------------------------------------------------------------
# conversion failures over the whole converter family (types and formats the binding-layer
# universes do not have): real dataclasses, one per value type
# --------------------------------------------------------------------------
def _conv_types():
    import enum
    from decimal import Decimal

    from xsdata.models.datatype import XmlDate, XmlDateTime, XmlDuration, XmlPeriod, XmlTime

    Color = enum.Enum("Color", {"RED": "red", "BLUE": "blue"})
    Level = enum.Enum("Level", {"LOW": 1, "HIGH": 2})
    junk = ["zz!", "é", "café", "12xé", "€€€€", "x\U0001f600", "٣x", "~"]
    return {
        # key: (python type, extra metadata, a good lexical value, definitely invalid lexical values)
        "hex": (bytes, {"format": "base16"}, "cafe", junk + ["abc", "0g", "éA", "café"]),
        "b64": (bytes, {"format": "base64"}, "YQ==", junk + ["a", "ab=c", "éA==", "YQ=é", "!!!!"]),
        "int": (int, {}, "7", junk + ["1.5", "1_0x", "--1"]),
        "float": (float, {}, "1.5", junk + ["1.2.3", "1,5", "e5"]),
        "decimal": (Decimal, {}, "2.50", junk + ["1,5", "1e", "..1"]),
        "bool": (bool, {}, "true", junk + ["yes", "truee", "2"]),
        "date": (XmlDate, {}, "2020-01-02", junk + ["2020-13-01", "20200102", "2020-02-30", "yesterday"]),
        "datetime": (XmlDateTime, {}, "2020-01-02T03:04:05", junk + ["2020-01-02", "2020-01-02T25:00:00", "2020-01-02 03:04:05x"]),
        "time": (XmlTime, {}, "03:04:05", junk + ["25:00:00", "3:4:5", "03:04"]),
        "duration": (XmlDuration, {}, "P1D", junk + ["1D", "P", "PT", "P1S"]),
        "gyear": (XmlPeriod, {}, "2020", junk + ["20", "--13", "2020-1"]),
        "enum": (Color, {}, "red", junk + ["green", "RED", "re d"]),
        "intenum": (Level, {}, "1", junk + ["3", "LOW", "1.0"]),
    }


_CONV = {}


def conv_classes(key):
    """(Root class, Txt class) for a value type: attribute, element, list element, tokens attribute, simple-content child"""
    if key not in _CONV:
        tp, extra, good, bad = _conv_types()[key]
        txt = make_dataclass(f"C10Txt_{key}", [
            ("value", Optional[tp], field(default=None, metadata={"type": "Text", **extra})),
            ("n", Optional[str], field(default=None, metadata={"type": "Attribute"}))])
        root = make_dataclass(f"C10Conv_{key}", [
            ("a", Optional[tp], field(default=None, metadata={"type": "Attribute", **extra})),
            ("e", Optional[tp], field(default=None, metadata={"type": "Element", **extra})),
            ("l", list[tp], field(default_factory=list, metadata={"type": "Element", **extra})),
            ("k", list[tp], field(default_factory=list, metadata={"type": "Attribute", "tokens": True, **extra})),
            ("c", Optional[txt], field(default=None, metadata={"type": "Element"})),
            ("s", Optional[str], field(default=None, metadata={"type": "Element"}))])
        for c in (txt, root):
            c.__module__ = __name__
            globals()[c.__name__] = c
        _CONV[key] = (root, txt, good, bad)
    return _CONV[key]


CONV_POSITIONS = ("a", "e", "l0", "l1", "k", "c")
CONV_ROUTES = ("xml-native", "xml-lxml", "xml-events", "dict", "json")


def conv_document(key, pos, bad):
    """(xml text, dict) of a document of the family with `bad` at `pos`, good values elsewhere"""
    from xml.sax.saxutils import escape, quoteattr

    root, txt, good, _ = conv_classes(key)
    v = {p: good for p in CONV_POSITIONS}
    v["k"] = f"{good} {good}"
    if pos == "k":
        v["k"] = f"{good} {bad}"
    else:
        v[pos] = bad
    name = root.__name__
    xml = (f"<{name} a={quoteattr(v['a'])} k={quoteattr(v['k'])}><e>{escape(v['e'])}</e><l>{escape(v['l0'])}</l><l>{escape(v['l1'])}</l>"
           f"<c n=\"x\">{escape(v['c'])}</c><s>plain</s></{name}>")
    data = {"a": v["a"], "e": v["e"], "l": [v["l0"], v["l1"]], "k": v["k"].split(" "), "c": {"value": v["c"], "n": "x"}, "s": "plain"}
    return xml, data


def conv_parse(key, pos, bad, config, route):
    """outcome of the real parse: {'err': name} or {'ok': {'at': value found at the position, 'warnings': n, 'rest_ok': bool}}"""
    from xsdata.exceptions import ConverterWarning
    from xsdata.formats.dataclass.context import XmlContext
    from xsdata.formats.dataclass.parsers import DictDecoder, JsonParser, XmlParser
    from xsdata.formats.dataclass.parsers.config import ParserConfig
    from xsdata.formats.dataclass.parsers.handlers import LxmlEventHandler, XmlEventHandler

    root, txt, good, _ = conv_classes(key)
    xml, data = conv_document(key, pos, bad)
    dflt = ParserConfig()
    cfg = ParserConfig(**{k: config.get(k, getattr(dflt, k)) for k in FLAGS})
    ctx = _CONV_CTX.setdefault(key, XmlContext())
    with warnings.catch_warnings(record=True) as w:
        warnings.simplefilter("always")
        try:
            if route == "xml-native":
                obj = XmlParser(context=ctx, config=cfg, handler=XmlEventHandler).from_bytes(xml.encode("utf-8"), root)
            elif route == "xml-lxml":
                obj = XmlParser(context=ctx, config=cfg, handler=LxmlEventHandler).from_string(xml, root)
            elif route == "xml-events":
                obj = XmlParser(context=ctx, config=cfg).from_string(xml, root)
            elif route == "dict":
                obj = DictDecoder(context=ctx, config=cfg).decode(copy.deepcopy(data), root)
            else:
                obj = JsonParser(context=ctx, config=cfg).from_string(json.dumps(data), root)
        except Exception as e:  # noqa: BLE001
            return B.classify_exc(e)
    n = sum(1 for x in w if issubclass(x.category, ConverterWarning))
    at = {"a": obj.a, "e": obj.e, "k": obj.k, "c": obj.c.value if obj.c is not None else None,
          "l0": obj.l[0] if len(obj.l) > 0 else None, "l1": obj.l[1] if len(obj.l) > 1 else None}[pos]
    ref = conv_reference(key)
    others = {p: x for p, x in (("a", obj.a), ("e", obj.e), ("l0", obj.l[0] if obj.l else None), ("l1", obj.l[1] if len(obj.l) > 1 else None),
                                ("k", obj.k), ("c", obj.c.value if obj.c else None)) if p != pos}
    rest_ok = all(others[p] == ref[p] for p in others) and obj.s == "plain"
    return {"ok": {"at": at if isinstance(at, (str, list)) else repr(at), "warnings": n, "rest_ok": rest_ok}}


_CONV_REF = {}
_CONV_CTX = {}


def conv_reference(key):
    """the values of the all-good document (what the other positions must still hold)"""
    if key not in _CONV_REF:
        from xsdata.formats.dataclass.parsers import XmlParser

        root, txt, good, _ = conv_classes(key)
        xml, _ = conv_document(key, "s_none", good)
        obj = XmlParser().from_string(xml, root)
        _CONV_REF[key] = {"a": obj.a, "e": obj.e, "l0": obj.l[0], "l1": obj.l[1], "k": obj.k, "c": obj.c.value}
    return _CONV_REF[key]
