"""Import shim: xsdata.codegen only needs ClickException and echo."""


class ClickException(Exception):
    def __init__(self, message):
        super().__init__(message)
        self.message = message


class Abort(RuntimeError):
    pass


def echo(message=None, **kwargs):
    pass
