/- Helper lemmas: white-space stripping of padded strings. -/
import XsdataModel.Conv.Basic

namespace Xs.Conv
open Py

/-- generic `strip` by a predicate -/
def stripBy (p : Char → Bool) (s : Str) : Str := ((s.dropWhile p).reverse.dropWhile p).reverse

theorem strip_eq_stripBy (e : Env) (s : Str) : e.strip s = stripBy e.isSpace s := rfl

theorem numStrip_eq_stripBy (e : Env) (s : Str) : numStrip e s = stripBy (numSpace e) s := rfl

theorem dropWhile_all_append (p : Char → Bool) (pre rest : Str) (h : ∀ c ∈ pre, p c = true) :
    (pre ++ rest).dropWhile p = rest.dropWhile p := by
  induction pre with
  | nil => rfl
  | cons c cs ih =>
    have hc : p c = true := h c (by simp)
    simp [hc]
    exact ih (fun d hd => h d (by simp [hd]))

theorem dropWhile_all (p : Char → Bool) (s : Str) (h : ∀ c ∈ s, p c = true) :
    s.dropWhile p = [] := by
  have := dropWhile_all_append p s [] h
  simpa using this

/-- a string is *tight* for `p` when it is empty or neither starts nor ends with a `p` character -/
def Tight (p : Char → Bool) (core : Str) : Prop :=
  core = [] ∨ (∃ a r, core = a :: r ∧ p a = false) ∧ (∃ r z, core = r ++ [z] ∧ p z = false)

theorem stripBy_pad (p : Char → Bool) (pre core post : Str)
    (hpre : ∀ c ∈ pre, p c = true) (hpost : ∀ c ∈ post, p c = true) (hc : Tight p core) :
    stripBy p (pre ++ core ++ post) = core := by
  unfold stripBy
  rw [List.append_assoc, dropWhile_all_append p pre _ hpre]
  rcases hc with rfl | ⟨⟨a, r, rfl, ha⟩, ⟨r', z, hz, hpz⟩⟩
  · simp [dropWhile_all p post hpost]
  · have h1 : ((a :: r) ++ post).dropWhile p = (a :: r) ++ post := by
      simp [ha]
    rw [h1, hz]
    have h2 : (r' ++ [z] ++ post).reverse = post.reverse ++ (z :: r'.reverse) := by simp
    rw [h2, dropWhile_all_append p post.reverse _ (by
      intro c hc; exact hpost c (by simpa using hc))]
    simp [List.dropWhile, hpz]

theorem dropWhile_head_false (p : Char → Bool) (l : Str) (x : Char) (xs : Str)
    (h : l.dropWhile p = x :: xs) : p x = false := by
  induction l with
  | nil => simp at h
  | cons a r ih =>
    by_cases ha : p a = true
    · simp only [List.dropWhile_cons, ha, if_true] at h
      exact ih h
    · have ha' : p a = false := by simpa using ha
      simp only [List.dropWhile_cons, ha', Bool.false_eq_true, if_false] at h
      injection h with h1 _
      rw [← h1]; exact ha'

/-- what `strip` returns has no strippable character at either end -/
theorem stripBy_isTight (p : Char → Bool) (s : Str) : Tight p (stripBy p s) := by
  unfold stripBy
  generalize ha : s.dropWhile p = a
  cases hb : a.reverse.dropWhile p with
  | nil => left; simp
  | cons z r =>
    right
    have hz : p z = false := dropWhile_head_false p _ z r hb
    have hsplit := List.takeWhile_append_dropWhile (p := p) (l := a.reverse)
    rw [hb] at hsplit
    -- a = (z :: r).reverse ++ (takeWhile …).reverse
    have ha' : a = (z :: r).reverse ++ (a.reverse.takeWhile p).reverse := by
      have := congrArg List.reverse hsplit
      simpa using this.symm
    constructor
    · -- the head of the result is the head of `a`, which `dropWhile` left unstrippable
      cases hr : (z :: r).reverse with
      | nil => simp at hr
      | cons x xs =>
        refine ⟨x, xs, rfl, ?_⟩
        rw [hr] at ha'
        cases a with
        | nil => simp at ha'
        | cons y ys =>
          have hy : p y = false := dropWhile_head_false p s y ys ha
          simp only [List.cons_append] at ha'
          injection ha' with h1 _
          rw [← h1]; exact hy
    · exact ⟨r.reverse, z, by simp, hz⟩

theorem stripBy_idem (p : Char → Bool) (s : Str) : stripBy p (stripBy p s) = stripBy p s := by
  unfold stripBy at *
  exact stripBy_tight' p _ (stripBy_isTight p s)
where
  stripBy_tight' (p : Char → Bool) (core : Str) (hc : Tight p core) : stripBy p core = core := by
    rcases hc with rfl | ⟨⟨a, r, rfl, ha⟩, ⟨r', z, hz, hpz⟩⟩
    · rfl
    · unfold stripBy
      have h1 : ((a :: r)).dropWhile p = (a :: r) := by simp [ha]
      rw [h1, hz]
      simp [hpz]

theorem stripBy_tight (p : Char → Bool) (core : Str) (hc : Tight p core) : stripBy p core = core := by
  have := stripBy_pad p [] core [] (by simp) (by simp) hc
  simpa using this

theorem isSpace_ascii (e : Env) (c : Char) (h : isAscii c = true) : e.isSpace c = isAsciiSpace c := by
  simp [Env.isSpace, h]

theorem numSpace_ascii (e : Env) (c : Char) (h : isAscii c = true) : numSpace e c = isCSpace c := by
  simp [numSpace, h]

theorem decVal_ascii (e : Env) (c : Char) (h : isAscii c = true) :
    e.decVal c = if isAsciiDigit c then some (c.toNat - 48) else none := by
  simp [Env.decVal, h]

/-- XSD white space is white space for every Python notion used by the converters -/
theorem xsdSpace_isSpace (e : Env) (c : Char) (h : isXsdSpace c = true) : e.isSpace c = true := by
  unfold isXsdSpace at h
  simp at h
  rcases h with ((rfl | rfl) | rfl) | rfl <;> (rw [isSpace_ascii e _ (by decide)]; decide)

theorem xsdSpace_numSpace (e : Env) (c : Char) (h : isXsdSpace c = true) : numSpace e c = true := by
  unfold isXsdSpace at h
  simp at h
  rcases h with ((rfl | rfl) | rfl) | rfl <;> (rw [numSpace_ascii e _ (by decide)]; decide)

/-- `s` consists of XSD white space only -/
def AllXsdSpace (s : Str) : Prop := ∀ c ∈ s, isXsdSpace c = true

theorem strip_xsd_pad (e : Env) (pre core post : Str) (hpre : AllXsdSpace pre) (hpost : AllXsdSpace post)
    (hc : Tight e.isSpace core) : e.strip (pre ++ core ++ post) = core :=
  stripBy_pad _ pre core post (fun c h => xsdSpace_isSpace e c (hpre c h))
    (fun c h => xsdSpace_isSpace e c (hpost c h)) hc

theorem numStrip_xsd_pad (e : Env) (pre core post : Str) (hpre : AllXsdSpace pre)
    (hpost : AllXsdSpace post) (hc : Tight (numSpace e) core) :
    numStrip e (pre ++ core ++ post) = core :=
  stripBy_pad _ pre core post (fun c h => xsdSpace_numSpace e c (hpre c h))
    (fun c h => xsdSpace_numSpace e c (hpost c h)) hc

end Xs.Conv
