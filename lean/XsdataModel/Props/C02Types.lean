/- C02 — "nothing … retyped": the python type of the field generated for a declaration of a builtin
or user simple type: property theorems (only). Model and Spec: `Gen/FieldType`; the live `DataType`
enumeration: `Tables.dataTypeMembers`; the converter registry of C05: `Conv/Factory` (`Ty`). -/
import XsdataModel.Gen.FieldType
import XsdataModel.Proofs.FieldType
import XsdataModel.Conv.Factory

namespace Props.C02Types
open Xs.Gen Py

/-- **field_type_faithful** (builtins): for EVERY member of the live `DataType` enumeration, the
field generated for an element or attribute declared with that builtin has exactly the python type
XML Schema part 2 gives the builtin's value space (`specPy`), and is a list of tokens exactly for
the list builtins (`xs:NMTOKENS`, `xs:IDREFS`, `xs:ENTITIES` — the last after the repair
`fix: xs:ENTITIES is a list type`). -/
theorem field_type_faithful :
    ∀ e ∈ Tables.dataTypeMembers,
      specPy e.1 = some ((pyNames (attrOf (.builtin e.1))).headD [], (attrOf (.builtin e.1)).tokens)
      ∧ (pyNames (attrOf (.builtin e.1))).length = 1 := by
  decide

/-- … and the spec table has an entry for exactly the builtins of the live table -/
theorem spec_covers_the_table :
    ∀ e ∈ Tables.dataTypeMembers, (specPy e.1).isSome := by
  decide

end Props.C02Types
