/-
`xsdata/formats/converter.py : ConverterFactory.sort_types` and
`xsdata/codegen/models.py : Attr.native_types` (`list(set(...))`).

Python types are represented by their `__name__`.  The priority table is
generated from the live `__PYTHON_TYPES_SORTED__` (Tables.lean).
-/
import XsdataModel.Codegen.Basic
import XsdataModel.Tables

namespace Xs.Codegen
open Py

/-- `__PYTHON_TYPES_SORTED__.get(tp, 0)` -/
def typePriorityIn (table : List (Str × Nat)) (t : Str) : Nat := (dget table t).getD 0

def typePriority (t : Str) : Nat := typePriorityIn Tables.pythonTypesSorted t

/-- the sort key of `sort_types`, `(__PYTHON_TYPES_SORTED__.get(tp, 0), tp is object)`,
as one number (the pair order is the order of `2 * priority + flag`): among the
types without table entry `object`, the catch-all, comes last -/
def typeKey (t : Str) : Nat :=
  2 * typePriority t + (if t = ['o', 'b', 'j', 'e', 'c', 't'] then 1 else 0)

/-- `ConverterFactory.sort_types(types)` for an arbitrary key function -/
def sortTypesBy (key : Str → Nat) (types : List Str) : List Str :=
  if types.length < 2 then types else pySortedByNat key types

/-- `ConverterFactory.sort_types(types)` -/
def sortTypes (types : List Str) : List Str := sortTypesBy typeKey types

/-- pairs of different names with equal value under `f` -/
def tiesBy (f : Str → Nat) (names : List Str) : List (Str × Str) :=
  names.flatMap (fun a => (names.filter (fun b => a != b && f a == f b)).map (fun b => (a, b)))

/-- the python types the XSD builtins map to that share their *table priority* with another one -/
def priorityTies (names : List Str) : List (Str × Str) := tiesBy typePriority names

/-- … and those that share their *sort key* -/
def keyTies (names : List Str) : List (Str × Str) := tiesBy typeKey names

end Xs.Codegen
