/- C05 — property theorems, part 4: `date` / `time` / `datetime` with a `format`
(`DateTimeBase`, `DateConverter`, `TimeConverter`, `DateTimeConverter`). -/
import XsdataModel.Props.C05
import XsdataModel.Proofs.StrptimeL
import XsdataModel.Proofs.StrptimeGenL
import XsdataModel.Proofs.DatesFormatParse

namespace Props.C05
open Py Xs.Conv Xs.Spec Xs.Dates

def fmtDate : Str := ['%', 'Y', '-', '%', 'm', '-', '%', 'd']
def fmtTime : Str := ['%', 'H', ':', '%', 'M', ':', '%', 'S']
def fmtTimeF : Str := fmtTime ++ ['.', '%', 'f']
def fmtDateTime : Str := fmtDate ++ 'T' :: fmtTime
def fmtDateTimeF : Str := fmtDate ++ 'T' :: fmtTimeF

/-- a real calendar date has a month in 1..12 and a day in 1..31 -/
theorem valid_date_bounds (y m d : Nat) (hv : validateDate y m d = true) :
    1 ≤ m ∧ m ≤ 12 ∧ 1 ≤ d ∧ d ≤ 31 := by
  obtain ⟨b1, b2, b3, _⟩ := Proofs.DatesFormatParse.validateDate_bounds _ _ _ hv
  refine ⟨by omega, by omega, by omega, ?_⟩
  have hv' := hv
  unfold validateDate at hv'
  have hmm : ((m : Int).toNat) = m := by omega
  simp only [hmm] at hv'
  have hcases : m = 1 ∨ m = 2 ∨ m = 3 ∨ m = 4 ∨ m = 5 ∨ m = 6 ∨ m = 7 ∨ m = 8 ∨ m = 9 ∨ m = 10 ∨ m = 11 ∨
      m = 12 := by omega
  rcases hcases with h | h | h | h | h | h | h | h | h | h | h | h <;> subst h <;>
    simp [monthlen, Tables.mdays] at hv' <;> (try split at hv') <;> omega

/-- **`datetime.date` with `%Y-%m-%d`, full strength** (was refuted by `date(999, 1, 2)` before
`DateTimeBase.serialize` padded the year): every date of the proleptic calendar that Python
can represent (years 1–9999) is written as `YYYY-MM-DD` and read back as the same date -/
theorem date_format_rt (e : CEnv) (y m d : Nat) (hy1 : 1 ≤ y) (hy2 : y ≤ 9999)
    (hv : validateDate y m d = true) :
    atomSerialize (.pyDate y m d) { format := some fmtDate } =
      .ok (zpadInt (y : Int) 4 ++ '-' :: (two m ++ '-' :: two d), none) ∧
    atomDeserialize e .pyDate (zpadInt (y : Int) 4 ++ '-' :: (two m ++ '-' :: two d)) { format := some fmtDate } =
      some (.pyDate y m d) := by
  obtain ⟨hm1, hm2, hd1, hd2⟩ := valid_date_bounds y m d hv
  obtain ⟨hdash, _, _⟩ := dash_colon_T_not_space e.toEnv
  obtain ⟨hyl, hyd, _⟩ := zpad_spec y 4 (by omega) (by omega)
  constructor
  · simp [atomSerialize, dtSerialize, fmtDate, strftime, zpadInt_two m (by omega), zpadInt_two d (by omega)]
  · have hc : compileFmt e.toEnv fmtDate false =
        .ok [.dir 'Y', .lit '-', .dir 'm', .lit '-', .dir 'd'] := by
      simp [fmtDate, compileFmt, numDirectives, hdash, Except.map]
    have hfirst : firstMatch e.toEnv [.dir 'Y', .lit '-', .dir 'm', .lit '-', .dir 'd']
        (zpadInt (y : Int) 4 ++ '-' :: (two m ++ '-' :: two d)) {} =
        some (((({} : TmF).set e.toEnv 'Y' (zpadInt (y : Int) 4)).set e.toEnv 'm' (two m)).set e.toEnv 'd' (two d), []) := by
      apply firstMatch_year e.toEnv _ hyl hyd
      rw [firstMatch_lit]
      apply firstMatch_two e.toEnv 'm' (by decide) m (by omega) (by simp [twoOk]; omega)
      rw [firstMatch_lit]
      have := firstMatch_two e.toEnv 'd' (by decide) d (by omega) (by simp [twoOk]; omega) [] []
        ((({} : TmF).set e.toEnv 'Y' (zpadInt (y : Int) 4)).set e.toEnv 'm' (two m)) _ (firstMatch_nil _ _ _)
      simpa using this
    have hstr := strptime_of_first e.toEnv _ fmtDate _ _ hc (by decide) hfirst
    simp only [TmF.set, pyIntC_zpad e.toEnv y 4 (by omega) (by omega), pyIntC_two e.toEnv m (by omega),
      pyIntC_two e.toEnv d (by omega)] at hstr
    simp only [atomDeserialize, dtParse, hstr]
    have hy0 : ¬ ((y : Int) < 1) := by omega
    simp [hy0, hv]

example : validateDate (999 : Nat) (2 : Nat) (28 : Nat) = true := by decide

/-- the earlier witness, now read back -/
theorem date_999_rt :
    atomSerialize (.pyDate 999 1 2) { format := some fmtDate } = .ok (['0','9','9','9','-','0','1','-','0','2'], none) ∧
    atomDeserialize asciiCEnv .pyDate ['0','9','9','9','-','0','1','-','0','2'] { format := some fmtDate } =
      some (.pyDate 999 1 2) := by
  have := date_format_rt asciiCEnv 999 1 2 (by decide) (by decide) (by decide)
  exact this

/-- **`datetime.time` with `%H:%M:%S.%f`, full strength**: hours, minutes, seconds and all six
digits of the microseconds -/
theorem time_format_rt (e : CEnv) (h mi sec us : Nat) (hh : h ≤ 23) (hmi : mi ≤ 59) (hs : sec ≤ 59)
    (hus : us < 1000000) :
    atomSerialize (.pyTime h mi sec us) { format := some fmtTimeF } =
      .ok (two h ++ ':' :: (two mi ++ ':' :: (two sec ++ '.' :: zpadInt (us : Int) 6)), none) ∧
    atomDeserialize e .pyTime (two h ++ ':' :: (two mi ++ ':' :: (two sec ++ '.' :: zpadInt (us : Int) 6)))
      { format := some fmtTimeF } = some (.pyTime h mi sec us) := by
  obtain ⟨_, hcolon, _⟩ := dash_colon_T_not_space e.toEnv
  have hdot : e.toEnv.isSpace '.' = false := by rw [isSpace_ascii e.toEnv _ (by decide)]; decide
  obtain ⟨hul, hud, _⟩ := zpad_spec us 6 (by omega) (by omega)
  constructor
  · simp [atomSerialize, dtSerialize, fmtTimeF, fmtTime, strftime, zpadInt_two h (by omega),
      zpadInt_two mi (by omega), zpadInt_two sec (by omega)]
  · have hc : compileFmt e.toEnv fmtTimeF false =
        .ok [.dir 'H', .lit ':', .dir 'M', .lit ':', .dir 'S', .lit '.', .dir 'f'] := by
      simp [fmtTimeF, fmtTime, compileFmt, numDirectives, hcolon, hdot, Except.map]
    have hfirst : firstMatch e.toEnv [.dir 'H', .lit ':', .dir 'M', .lit ':', .dir 'S', .lit '.', .dir 'f']
        (two h ++ ':' :: (two mi ++ ':' :: (two sec ++ '.' :: zpadInt (us : Int) 6))) {} =
        some ((((({} : TmF).set e.toEnv 'H' (two h)).set e.toEnv 'M' (two mi)).set e.toEnv 'S' (two sec)).set
          e.toEnv 'f' (zpadInt (us : Int) 6), []) := by
      apply firstMatch_two e.toEnv 'H' (by decide) h (by omega) (by simp [twoOk]; omega)
      rw [firstMatch_lit]
      apply firstMatch_two e.toEnv 'M' (by decide) mi (by omega) (by simp [twoOk]; omega)
      rw [firstMatch_lit]
      apply firstMatch_two e.toEnv 'S' (by decide) sec (by omega) (by simp [twoOk]; omega)
      rw [firstMatch_lit]
      have := firstMatch_frac e.toEnv _ hul hud [] []
        (((({} : TmF).set e.toEnv 'H' (two h)).set e.toEnv 'M' (two mi)).set e.toEnv 'S' (two sec)) _
        (firstMatch_nil _ _ _)
      simpa using this
    have hstr := strptime_of_first e.toEnv _ fmtTimeF _ _ hc (by decide) hfirst
    have hlj : ljust (zpadInt (us : Int) 6) 6 '0' = zpadInt (us : Int) 6 := by
      unfold ljust; simp [hul]
    simp only [TmF.set, pyIntC_two e.toEnv h (by omega), pyIntC_two e.toEnv mi (by omega),
      pyIntC_two e.toEnv sec (by omega), hlj, pyIntC_zpad e.toEnv us 6 (by omega) (by omega)] at hstr
    simp only [atomDeserialize, dtParse, hstr]
    have hs0 : ¬ ((sec : Int) > 59) := by omega
    have hvd : validateDate 1900 1 1 = true := by decide
    simp [hs0, hvd]

example : (23 : Nat) ≤ 23 ∧ (59 : Nat) ≤ 59 ∧ (999999 : Nat) < 1000000 := by decide

/-- **`datetime.datetime` with `%Y-%m-%dT%H:%M:%S.%f`, full strength**: every naive datetime -/
theorem datetime_format_rt (e : CEnv) (y m d h mi sec us : Nat) (hy1 : 1 ≤ y) (hy2 : y ≤ 9999)
    (hv : validateDate y m d = true) (hh : h ≤ 23) (hmi : mi ≤ 59) (hs : sec ≤ 59) (hus : us < 1000000) :
    atomSerialize (.pyDateTime ⟨y, m, d, h, mi, sec, us⟩) { format := some fmtDateTimeF } =
      .ok (zpadInt (y : Int) 4 ++ '-' :: (two m ++ '-' :: (two d ++ 'T' :: (two h ++ ':' :: (two mi ++ ':' ::
        (two sec ++ '.' :: zpadInt (us : Int) 6))))), none) ∧
    atomDeserialize e .pyDateTime
        (zpadInt (y : Int) 4 ++ '-' :: (two m ++ '-' :: (two d ++ 'T' :: (two h ++ ':' :: (two mi ++ ':' ::
          (two sec ++ '.' :: zpadInt (us : Int) 6))))))
        { format := some fmtDateTimeF } = some (.pyDateTime ⟨y, m, d, h, mi, sec, us⟩) := by
  obtain ⟨hm1, hm2, hd1, hd2⟩ := valid_date_bounds y m d hv
  obtain ⟨hdash, hcolon, hT⟩ := dash_colon_T_not_space e.toEnv
  have hdot : e.toEnv.isSpace '.' = false := by rw [isSpace_ascii e.toEnv _ (by decide)]; decide
  obtain ⟨hyl, hyd, _⟩ := zpad_spec y 4 (by omega) (by omega)
  obtain ⟨hul, hud, _⟩ := zpad_spec us 6 (by omega) (by omega)
  constructor
  · simp [atomSerialize, dtSerialize, fmtDateTimeF, fmtDate, fmtTimeF, fmtTime, strftime, zpadInt_two m (by omega),
      zpadInt_two d (by omega), zpadInt_two h (by omega), zpadInt_two mi (by omega), zpadInt_two sec (by omega)]
  · have hc : compileFmt e.toEnv fmtDateTimeF false =
        .ok [.dir 'Y', .lit '-', .dir 'm', .lit '-', .dir 'd', .lit 'T', .dir 'H', .lit ':', .dir 'M', .lit ':',
          .dir 'S', .lit '.', .dir 'f'] := by
      simp [fmtDateTimeF, fmtDate, fmtTimeF, fmtTime, compileFmt, numDirectives, hdash, hcolon, hT, hdot, Except.map]
    have hfirst : firstMatch e.toEnv [.dir 'Y', .lit '-', .dir 'm', .lit '-', .dir 'd', .lit 'T', .dir 'H', .lit ':',
          .dir 'M', .lit ':', .dir 'S', .lit '.', .dir 'f']
        (zpadInt (y : Int) 4 ++ '-' :: (two m ++ '-' :: (two d ++ 'T' :: (two h ++ ':' :: (two mi ++ ':' ::
          (two sec ++ '.' :: zpadInt (us : Int) 6)))))) {} =
        some (((((((({} : TmF).set e.toEnv 'Y' (zpadInt (y : Int) 4)).set e.toEnv 'm' (two m)).set e.toEnv 'd' (two d)).set
          e.toEnv 'H' (two h)).set e.toEnv 'M' (two mi)).set e.toEnv 'S' (two sec)).set e.toEnv 'f'
          (zpadInt (us : Int) 6), []) := by
      apply firstMatch_year e.toEnv _ hyl hyd
      rw [firstMatch_lit]
      apply firstMatch_two e.toEnv 'm' (by decide) m (by omega) (by simp [twoOk]; omega)
      rw [firstMatch_lit]
      apply firstMatch_two e.toEnv 'd' (by decide) d (by omega) (by simp [twoOk]; omega)
      rw [firstMatch_lit]
      apply firstMatch_two e.toEnv 'H' (by decide) h (by omega) (by simp [twoOk]; omega)
      rw [firstMatch_lit]
      apply firstMatch_two e.toEnv 'M' (by decide) mi (by omega) (by simp [twoOk]; omega)
      rw [firstMatch_lit]
      apply firstMatch_two e.toEnv 'S' (by decide) sec (by omega) (by simp [twoOk]; omega)
      rw [firstMatch_lit]
      have := firstMatch_frac e.toEnv _ hul hud [] []
        ((((((({} : TmF).set e.toEnv 'Y' (zpadInt (y : Int) 4)).set e.toEnv 'm' (two m)).set e.toEnv 'd' (two d)).set
          e.toEnv 'H' (two h)).set e.toEnv 'M' (two mi)).set e.toEnv 'S' (two sec)) _ (firstMatch_nil _ _ _)
      simpa using this
    have hstr := strptime_of_first e.toEnv _ fmtDateTimeF _ _ hc (by decide) hfirst
    have hlj : ljust (zpadInt (us : Int) 6) 6 '0' = zpadInt (us : Int) 6 := by
      unfold ljust; simp [hul]
    simp only [TmF.set, pyIntC_zpad e.toEnv y 4 (by omega) (by omega), pyIntC_two e.toEnv m (by omega),
      pyIntC_two e.toEnv d (by omega), pyIntC_two e.toEnv h (by omega), pyIntC_two e.toEnv mi (by omega),
      pyIntC_two e.toEnv sec (by omega), hlj, pyIntC_zpad e.toEnv us 6 (by omega) (by omega)] at hstr
    simp only [atomDeserialize, dtParse, hstr]
    have hy0 : ¬ ((y : Int) < 1) := by omega
    have hs0 : ¬ ((sec : Int) > 59) := by omega
    simp [hy0, hs0, hv]

/-- **any format string** made of the numeric directives `%Y %m %d %H %M %S %f` (each at most once —
`strptime` rejects a repeated directive), `%%` and literal characters other than white space, in any
order and also without separators (`%Y%m%d%H%M%S%f`, `%d.%m.%Y`, `%H%%%M`): every naive datetime
whose fields outside the format have the values `strptime` fills in (1900-01-01 00:00:00.0) is
written with the format and read back as the same datetime. Nothing is assumed about the order of
the directives: the proof shows that on zero-padded output the first match of `_strptime`'s regular
expression, in backtracking order, takes every field whole. -/
theorem datetime_any_format_rt (e : CEnv) (fmt : Str) (items : List FItem)
    (hc : compileFmt e.toEnv fmt false = .ok items) (hws : ∀ c ∈ fmt, e.toEnv.isSpace c = false)
    (hn : dirsNodup items = true)
    (y m d h mi sec us : Nat) (hy1 : 1 ≤ y) (hy2 : y ≤ 9999)
    (hv : validateDate y m d = true) (hh : h ≤ 23) (hmi : mi ≤ 59) (hs : sec ≤ 59) (hus : us < 1000000)
    (dY : FItem.dir 'Y' ∉ items → y = 1900) (dm : FItem.dir 'm' ∉ items → m = 1)
    (dd : FItem.dir 'd' ∉ items → d = 1) (dH : FItem.dir 'H' ∉ items → h = 0)
    (dM : FItem.dir 'M' ∉ items → mi = 0) (dS : FItem.dir 'S' ∉ items → sec = 0)
    (df : FItem.dir 'f' ∉ items → us = 0) :
    ∃ s, atomSerialize (.pyDateTime ⟨y, m, d, h, mi, sec, us⟩) { format := some fmt } = .ok (s, none) ∧
      atomDeserialize e .pyDateTime s { format := some fmt } = some (.pyDateTime ⟨y, m, d, h, mi, sec, us⟩) := by
  obtain ⟨hm1, hm2, hd1, hd2⟩ := valid_date_bounds y m d hv
  obtain ⟨hser, hok⟩ := compile_render e.toEnv ⟨y, m, d, h, mi, sec, us⟩ fmt.length fmt false items
    (Nat.le_refl _) hws hc
  refine ⟨render ⟨y, m, d, h, mi, sec, us⟩ items, by simp [atomSerialize, dtSerialize, hser], ?_⟩
  have hfirst := firstMatch_render e.toEnv y m d h mi sec us hy2 hm1 hm2 hd1 hd2 hh hmi hs hus items hok {} []
  rw [List.append_nil] at hfirst
  have hstr := strptime_of_first e.toEnv _ fmt _ _ hc hn hfirst
  obtain ⟨f1, f2, f3, f4, f5, f6, f7⟩ :=
    setAll_fields e.toEnv y m d h mi sec us hy2 hm2 hd2 hh hmi hs hus items hok {}
  have g1 : (setAll e.toEnv ⟨y, m, d, h, mi, sec, us⟩ {} items).year.getD 1900 = (y : Int) := by
    rw [f1]; split
    · rfl
    · rename_i hx; rw [dY hx]; rfl
  have g2 : (setAll e.toEnv ⟨y, m, d, h, mi, sec, us⟩ {} items).month.getD 1 = (m : Int) := by
    rw [f2]; split
    · rfl
    · rename_i hx; rw [dm hx]; rfl
  have g3 : (setAll e.toEnv ⟨y, m, d, h, mi, sec, us⟩ {} items).day.getD 1 = (d : Int) := by
    rw [f3]; split
    · rfl
    · rename_i hx; rw [dd hx]; rfl
  have g4 : (setAll e.toEnv ⟨y, m, d, h, mi, sec, us⟩ {} items).hour.getD 0 = (h : Int) := by
    rw [f4]; split
    · rfl
    · rename_i hx; rw [dH hx]; rfl
  have g5 : (setAll e.toEnv ⟨y, m, d, h, mi, sec, us⟩ {} items).minute.getD 0 = (mi : Int) := by
    rw [f5]; split
    · rfl
    · rename_i hx; rw [dM hx]; rfl
  have g6 : (setAll e.toEnv ⟨y, m, d, h, mi, sec, us⟩ {} items).second.getD 0 = (sec : Int) := by
    rw [f6]; split
    · rfl
    · rename_i hx; rw [dS hx]; rfl
  have g7 : (setAll e.toEnv ⟨y, m, d, h, mi, sec, us⟩ {} items).frac.getD 0 = (us : Int) := by
    rw [f7]; split
    · rfl
    · rename_i hx; rw [df hx]; rfl
  rw [g1, g2, g3, g4, g5, g6, g7] at hstr
  simp only [atomDeserialize, dtParse, hstr]
  have hy0 : ¬ ((y : Int) < 1) := by omega
  have hs0 : ¬ ((sec : Int) > 59) := by omega
  simp [hy0, hs0, hv]

/-- the hypotheses are met, e.g. by the compact format `%d%m%Y%H%M%S%f`, a format with a literal
percent sign, and one that has only a time -/
example (e : CEnv) : ∀ fmt ∈ [['%','d','%','m','%','Y','%','H','%','M','%','S','%','f'],
      ['%','H','%','%','%','M'], ['%','d','.','%','m','.','%','Y']],
    ∃ items, compileFmt e.toEnv fmt false = .ok items ∧ dirsNodup items = true := by
  have hdot : e.toEnv.isSpace '.' = false := by rw [isSpace_ascii e.toEnv _ (by decide)]; decide
  intro fmt hf
  simp only [List.mem_cons, List.mem_nil_iff, or_false] at hf
  rcases hf with rfl | rfl | rfl
  · exact ⟨[.dir 'd', .dir 'm', .dir 'Y', .dir 'H', .dir 'M', .dir 'S', .dir 'f'],
      by simp [compileFmt, numDirectives, Except.map], by decide⟩
  · exact ⟨[.dir 'H', .lit '%', .dir 'M'], by simp [compileFmt, numDirectives, Except.map], by decide⟩
  · exact ⟨[.dir 'd', .lit '.', .dir 'm', .lit '.', .dir 'Y'],
      by simp [compileFmt, numDirectives, Except.map, hdot], by decide⟩

/-- the format most often used with a blank, `%Y-%m-%d %H:%M:%S`: the white-space run of the format
(`\\s+` in `_strptime`'s regular expression) takes the written blank -/
def fmtDateTimeSp : Str := fmtDate ++ ' ' :: fmtTime

theorem datetime_space_format_rt (e : CEnv) (y m d h mi sec : Nat) (hy1 : 1 ≤ y) (hy2 : y ≤ 9999)
    (hv : validateDate y m d = true) (hh : h ≤ 23) (hmi : mi ≤ 59) (hs : sec ≤ 59) :
    atomSerialize (.pyDateTime ⟨y, m, d, h, mi, sec, 0⟩) { format := some fmtDateTimeSp } =
      .ok (zpadInt (y : Int) 4 ++ '-' :: (two m ++ '-' :: (two d ++ ' ' :: (two h ++ ':' :: (two mi ++ ':' ::
        two sec)))), none) ∧
    atomDeserialize e .pyDateTime
        (zpadInt (y : Int) 4 ++ '-' :: (two m ++ '-' :: (two d ++ ' ' :: (two h ++ ':' :: (two mi ++ ':' ::
          two sec)))))
        { format := some fmtDateTimeSp } = some (.pyDateTime ⟨y, m, d, h, mi, sec, 0⟩) := by
  obtain ⟨hm1, hm2, hd1, hd2⟩ := valid_date_bounds y m d hv
  obtain ⟨hdash, hcolon, _⟩ := dash_colon_T_not_space e.toEnv
  have hsp : e.toEnv.isSpace ' ' = true := by rw [isSpace_ascii e.toEnv _ (by decide)]; decide
  obtain ⟨hyl, hyd, _⟩ := zpad_spec y 4 (by omega) (by omega)
  constructor
  · simp [atomSerialize, dtSerialize, fmtDateTimeSp, fmtDate, fmtTime, strftime, zpadInt_two m (by omega),
      zpadInt_two d (by omega), zpadInt_two h (by omega), zpadInt_two mi (by omega), zpadInt_two sec (by omega)]
  · have hc : compileFmt e.toEnv fmtDateTimeSp false =
        .ok [.dir 'Y', .lit '-', .dir 'm', .lit '-', .dir 'd', .ws, .dir 'H', .lit ':', .dir 'M', .lit ':',
          .dir 'S'] := by
      simp [fmtDateTimeSp, fmtDate, fmtTime, compileFmt, numDirectives, hdash, hcolon, hsp, Except.map]
    have hfirst : firstMatch e.toEnv [.dir 'Y', .lit '-', .dir 'm', .lit '-', .dir 'd', .ws, .dir 'H', .lit ':',
          .dir 'M', .lit ':', .dir 'S']
        (zpadInt (y : Int) 4 ++ '-' :: (two m ++ '-' :: (two d ++ ' ' :: (two h ++ ':' :: (two mi ++ ':' ::
          two sec))))) {} =
        some ((((((({} : TmF).set e.toEnv 'Y' (zpadInt (y : Int) 4)).set e.toEnv 'm' (two m)).set e.toEnv 'd' (two d)).set
          e.toEnv 'H' (two h)).set e.toEnv 'M' (two mi)).set e.toEnv 'S' (two sec), []) := by
      apply firstMatch_year e.toEnv _ hyl hyd
      rw [firstMatch_lit]
      apply firstMatch_two e.toEnv 'm' (by decide) m (by omega) (by simp [twoOk]; omega)
      rw [firstMatch_lit]
      apply firstMatch_two e.toEnv 'd' (by decide) d (by omega) (by simp [twoOk]; omega)
      apply firstMatch_ws e.toEnv [' '] (by simp) (by intro c hc; simp at hc; subst hc; exact hsp)
      · intro c r' hcr
        simp only [two, List.cons_append, List.cons.injEq] at hcr
        rw [← hcr.1, isSpace_ascii e.toEnv _ (by rw [isAscii, digitChar_toNat _ (by omega)]; simp; omega)]
        simp [isAsciiSpace, digitChar_toNat _ (show h / 10 < 10 by omega)]; omega
      apply firstMatch_two e.toEnv 'H' (by decide) h (by omega) (by simp [twoOk]; omega)
      rw [firstMatch_lit]
      apply firstMatch_two e.toEnv 'M' (by decide) mi (by omega) (by simp [twoOk]; omega)
      rw [firstMatch_lit]
      have := firstMatch_two e.toEnv 'S' (by decide) sec (by omega) (by simp [twoOk]; omega) [] []
        (((((({} : TmF).set e.toEnv 'Y' (zpadInt (y : Int) 4)).set e.toEnv 'm' (two m)).set e.toEnv 'd' (two d)).set
          e.toEnv 'H' (two h)).set e.toEnv 'M' (two mi)) _ (firstMatch_nil _ _ _)
      simpa using this
    have hstr := strptime_of_first e.toEnv _ fmtDateTimeSp _ _ hc (by decide) hfirst
    simp only [TmF.set, pyIntC_zpad e.toEnv y 4 (by omega) (by omega), pyIntC_two e.toEnv m (by omega),
      pyIntC_two e.toEnv d (by omega), pyIntC_two e.toEnv h (by omega), pyIntC_two e.toEnv mi (by omega),
      pyIntC_two e.toEnv sec (by omega)] at hstr
    simp only [atomDeserialize, dtParse, hstr]
    have hy0 : ¬ ((y : Int) < 1) := by omega
    have hs0 : ¬ ((sec : Int) > 59) := by omega
    simp [hy0, hs0, hv]

example : validateDate 999 2 28 = true ∧ (23 : Nat) ≤ 23 := by decide

/-- a missing `format` is a `ConverterError` in both directions, for all three types -/
theorem datetime_needs_format (e : CEnv) (s : Str) (v : PyDT) :
    atomDeserialize e .pyDate s {} = none ∧ atomDeserialize e .pyTime s {} = none ∧
    atomDeserialize e .pyDateTime s {} = none ∧
    atomSerialize (.pyDateTime v) {} = .error .converterError := ⟨rfl, rfl, rfl, rfl⟩

end Props.C05
