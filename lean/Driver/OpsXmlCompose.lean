import Driver.Proto
import Driver.OpsBind
import Driver.OpsXml
import XsdataModel.Xml.Compose
import XsdataModel.Xml.TblNsEnv
import XsdataModel.Spec.Hyps
import XsdataModel.Proofs.EventsTree
import XsdataModel.Spec.BindLex
import XsdataModel.Proofs.Assembly
open Lean Proto Py

namespace OpsXmlCompose
open OpsBind (dCtx dVal field benv)

def run (op : String) (a : Json) : Option (Except String Json) :=
  match op with
  | "ser.compose" => some do
      -- XmlSerializer.render = EventGenerator (Bind/Gen) ∘ native writer (Xml/Writer), exact text
      let Γ ← dCtx (field a "ctx")
      let v ← dVal (field a "value")
      let m ← OpsXml.asNsMap (a.getObjValD "ns_map")
      let wcfg ← OpsXml.getCfg a
      let scfg : Xs.Bind.SerCfg :=
        { ignoreDefaultAttributes := (field a "ignore_default_attributes").getBool?.toOption.getD false }
      pure <| match Xs.Compose.render Xs.Ns.tblNsEnv benv Γ scfg wcfg m v with
        | .text s => ok (jStr s)
        | .genError e => OpsBind.jErr e
        | .writeError e => err e.name
        | .uncovered => jObj [("unsupported", Json.str "payload")]
  | "ser.hyps" => some do
      -- the decidable hypotheses of serialize_wellformed / serialize_says_metadata on the generated events
      let Γ ← dCtx (field a "ctx")
      let v ← dVal (field a "value")
      let m ← OpsXml.asNsMap (a.getObjValD "ns_map")
      let scfg : Xs.Bind.SerCfg :=
        { ignoreDefaultAttributes := (field a "ignore_default_attributes").getBool?.toOption.getD false }
      pure <| match Xs.Bind.generate benv Γ scfg v with
        | .error e => OpsBind.jErr e
        | .ok evs =>
          match Xs.Compose.convEvs evs with
          | none => jObj [("unsupported", Json.str "payload")]
          | some es =>
            let d := Spec.Hyps.userDefault m
            ok (jObj [("lex", jBool (es.all (Spec.Hyps.evLexOK Xs.Ns.tblNsEnv d))),
                      ("attrs_follow", jBool (Spec.Hyps.attrsFollow false es)),
                      ("late_ok", jBool (Spec.Hyps.lateOK false es)),
                      ("plain", jBool (es.all (fun ev => match ev with
                          | .start q => (Spec.XmlNs.clark q).isSome
                          | .attr q v => Proofs.EventsTree.plainAttr (q, v)
                          | .data v => (Spec.XmlNs.valText v).isSome
                          | _ => true))),
                      ("user_map", jBool (Spec.Hyps.userMapOK Xs.Ns.tblNsEnv m))])
  | "ser.frag" => some do
      -- the input-level hypotheses of serialize_*_FN_partial (C01's fragment predicates + the lexical ones)
      -- and what the composed model makes of the input
      let Γ ← dCtx (field a "ctx")
      let v ← dVal (field a "value")
      let c ← OpsBind.dStr (field a "clazz")
      let m ← OpsXml.asNsMap (a.getObjValD "ns_map")
      let wcfg ← OpsXml.getCfg a
      let f := field a "feat"
      let flag (k : String) : Bool := (field f k).getBool?.toOption.getD false
      let ft : Xs.Bind.FN.Feat := ⟨flag "nillable", flag "tokens", flag "wrapper", flag "sequence", flag "fixed", flag "anyAttrs", flag "inherit", flag "wildcard", flag "union", flag "qname"⟩
      let scfg : Xs.Bind.SerCfg :=
        { ignoreDefaultAttributes := (field a "ignore_default_attributes").getBool?.toOption.getD false }
      let out := match Xs.Compose.render Xs.Ns.tblNsEnv benv Γ scfg wcfg m v with
        | .text s => jObj [("text", jStr s)]
        | .genError e => OpsBind.jErr e
        | .writeError e => err e.name
        | .uncovered => jObj [("unsupported", Json.str "payload")]
      pure (ok (jObj [("ctx", jBool (Xs.Bind.FN.ctxOK ft Γ)), ("val", jBool (Xs.Bind.FN.valOKI ft.inherit benv Γ c v)),
        ("ctx_lex", jBool (Spec.BindLex.ctxLexOK Γ)), ("val_lex", jBool (Spec.BindLex.valLexOK Γ v)),
        ("exact", jBool (Spec.BindLex.valExactOK Γ v)),
        ("user_map", jBool (Spec.Hyps.userMapOK Xs.Ns.tblNsEnv m)),
        ("plain_cfg", jBool (Proofs.Assembly.plainCfg wcfg)),
        ("out", out)]))
  | _ => none

end OpsXmlCompose
