/- helper lemmas for Props/C10Union: the trials of a `UnionNode` -/
import XsdataModel.Bind.Union
import XsdataModel.Proofs.C10

namespace Proofs.C10Union
open Py Xs.Bind Proofs.C10

/-- `ElementNode.bind` fails when `bind_attrs` does (unless the element is nil and not nillable:
then the attributes are never looked at) -/
theorem elementFinish_attrs_error {e : BEnv} {Γ : Ctx} {cfg : ParserConfig} {m : XmlMeta}
    {attrs : List (QN × Str)} {ns : NsMap} {err : Err} (h : bindAttrs e cfg m attrs ns = .error err)
    (xsiNil : Option Bool) (hnil : xsiNil ≠ some true)
    (d : Bool) (xt : Option QN) (q : QN) (text tail : Option Str) (sub : Out) (st : ElState) :
    elementFinish e Γ cfg m attrs ns d xt xsiNil q text tail sub st = .error err := by
  have : decide (xsiNil = some true) = false := by simpa using hnil
  simp [elementFinish, h, this, bind, Except.bind]

/-- a list of trials that all came back empty has no winner -/
theorem pickBest_all_none : ∀ (rs : List Val), rs.all (fun r => match r with | .none => true | _ => false) = true →
    pickBest rs none .none = .none := by
  intro rs
  induction rs with
  | nil => intro _; rfl
  | cons r rs ih =>
    intro h
    simp only [List.all_cons, Bool.and_eq_true] at h
    cases r <;> simp at h
    simp only [pickBest, scoreVal, scoreGt]
    exact ih (by simpa using h)

end Proofs.C10Union

namespace Proofs.C10Union
open Py Xs.Bind Proofs.C10 Proofs.C10.Ex

/-! ### a universe with a union field: `R(u: T | S)`, `T(i: L element)`, `L(k attribute)`, `S(s attribute)` -/
namespace ExU

def varK : XmlVar :=
  mkVar { baseVar with
    name := ['k'], localName := ['k'], qname := ['k'], kind := .attribute }
def varS : XmlVar :=
  mkVar { baseVar with
    name := ['s'], localName := ['s'], qname := ['s'], kind := .attribute }
def varI : XmlVar :=
  mkVar { baseVar with
    name := ['i'], localName := ['i'], qname := ['i'], types := [.cls ['L']], clazz := some ['L'] }
def varU : XmlVar :=
  mkVar { baseVar with
    name := ['u'], localName := ['u'], qname := ['u'], types := [.cls ['T'], .cls ['S']], clazz := some ['T'],
    isClazzUnion := true }

def mk (c : ClassId) (els : List (QN × List XmlVar)) (atts : List (QN × XmlVar)) : XmlMeta :=
  { clazz := c, qname := c, targetQName := some c, nillable := false, text := none, choices := [],
    elements := els, wildcards := [], attributes := atts, anyAttributes := [], wrappers := [] }

def metaR : XmlMeta := mk ['R'] [(['u'], [varU])] []
def metaT : XmlMeta := mk ['T'] [(['i'], [varI])] []
def metaL : XmlMeta := mk ['L'] [] [(['k'], varK)]
def metaS : XmlMeta := mk ['S'] [] [(['s'], varS)]

def cls (c : ClassId) (m : XmlMeta) (f : Str) : ClassInfo :=
  { id := c, metas := [(none, m)], mro := [c], bases := [], fields := [⟨f, true, some .none⟩] }

def ctx : Ctx :=
  { classes := [cls ['R'] metaR ['u'], cls ['T'] metaT ['i'], cls ['L'] metaL ['k'], cls ['S'] metaS ['s']],
    xsiIndex := [(['R'], [['R']]), (['T'], [['T']]), (['L'], [['L']]), (['S'], [['S']])], datatypes := [] }

/-- `<R><u><i …attrs/></u></R>` -/
def docU (attrs : List (QN × Str)) : Tree :=
  .node ['R'] [] [] none [.node ['u'] [] [] none [.node ['i'] attrs [] none [] none] none] none

/-- `fail_on_unknown_attributes=True`, `fail_on_unknown_properties=False` -/
def strictAttrs : ParserConfig := { failOnUnknownProperties := false, failOnUnknownAttributes := true }

end ExU

end Proofs.C10Union
