/- C04 — fields outside `__init__` (fixed values) in `DictDecoder.bind_dataclass`: property theorems (only).

The value given for a fixed field is bound like any other value (`bind_value`: conversion by the
field's types, token lists, enumerations, …) and only then compared with the field default by
`ParserUtils.validate_fixed_value`; it never reaches the constructor. -/
import XsdataModel.Proofs.C04RoundTrip
import XsdataModel.Proofs.C04Witness

namespace Props.C04
open Py Xs.Bind Xs.Dict Proofs.C04 Proofs.C04Witness

/-- **fixed_bound_then_compared**: one step of the key loop for a var with `init = False`: the outcome
is that of `bind_value` on the given value followed by the comparison of the *bound* value with the
default; the parameters for the constructor stay as they are. -/
theorem fixed_bound_then_compared (e : DEnv) (rec : Rec) (Γ : Ctx) (cfg : ParserConfig) (m : XmlMeta)
    (vars : List XmlVar) (key : Str) (value value' : J) (rest : List (Str × J)) (P : Params) (var : XmlVar)
    (hf : findVar vars key value = some var) (hu : unwrapFor var key value = .ok value')
    (hn : (value'.isNull && var.listElement) = false) (hi : var.init = false) :
    bindPairsWith e rec Γ cfg m vars ((key, value) :: rest) P =
      ND.bind (bindValueWith e rec Γ cfg m var value') fun v =>
        match validateFixed e.py var.toVarCore v with
        | .error err => ND.fail err
        | .ok () => bindPairsWith e rec Γ cfg m vars rest P := by
  simp only [bindPairsWith, hf, hu, hn, hi, Bool.false_eq_true, if_false]
  rfl

/-- the fixed attributes `a: int = 3`, `b: bool = True` of the witness class `F` given as lexical
variants of their values: the document decodes (the raw literals `" 3 "` and `"1"` are not equal to
the defaults, the bound values are) -/
example : decode benv0 fixwCtx {} 3 (.cls "F".toList)
      (.obj [("s".toList, .str "x".toList), ("a".toList, .str " 3 ".toList), ("b".toList, .str "1".toList)])
    = ND.pure fixw_value := by rfl

/-- … and a value that differs after binding is rejected -/
example : decode benv0 fixwCtx {} 3 (.cls "F".toList) (.obj [("a".toList, .num 4)])
    = ND.fail (.parser "Fixed value mismatch") := by rfl

/-- the hypotheses of `fixed_bound_then_compared` on that document: the key is found, its var is
outside `__init__` -/
example : (match metaOf fixwCtx "F".toList with
    | .ok m => ((findVar (allVars m) "a".toList (.str " 3 ".toList)).map (·.init)) == some false
    | .error _ => false) = true := by rfl

end Props.C04
