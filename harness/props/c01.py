"""C01 — XML round-trip: parsing what was serialized gives back the same object."""
import json
import random

import bindgen as G
import bindlib as B
from framework import Corr, Oracle

PROP_ID = "C01"
DESIGN_REF = "6/C01"

from bindcases import *  # noqa: F401,F403
from bindcases import _UNIS  # noqa: F401

def _objects(v, out):
    """all `obj` values inside `v`, with the place (container, key) that holds them"""
    if isinstance(v, dict):
        if "obj" in v:
            for kv in v["fields"]:
                if isinstance(kv[1], dict) and "obj" in kv[1]:
                    out.append((kv, 1))
                _objects(kv[1], out)
        elif "list" in v:
            for n, y in enumerate(v["list"]):
                if isinstance(y, dict) and "obj" in y:
                    out.append((v["list"], n))
                _objects(y, out)
    return out


def faulty_value(rng, desc, value):
    """an instance the serializer must refuse or mishandle: an object of an unrelated class under a
    model-typed field (SerializerError: not derived), `None` in place of an Attributes map
    (AttributeError), a scalar in place of a token list (TypeError / one element per character)"""
    import copy

    v = copy.deepcopy(value)
    kind = rng.choice(["unrelated", "unrelated", "map-none", "token-scalar"])
    if kind == "unrelated":
        places = _objects(v, [])
        if not places:
            return None, None
        cont, key = rng.choice(places)
        other = [c for c in desc["classes"] if c["name"] != cont[key]["obj"] and c["name"] != "Root"]
        if not other:
            return None, None
        c = rng.choice(other)
        cont[key] = {"obj": c["name"], "fields": [[f["name"], None] for f in _all_fields(desc, c["name"])]}
        return kind, v
    by = {c["name"]: c for c in desc["classes"]}
    targets = []

    def walk(x):
        if isinstance(x, dict) and "obj" in x:
            for kv, f in zip(x["fields"], _all_fields(desc, x["obj"])):
                md = f.get("metadata", {})
                if kind == "map-none" and md.get("type") == "Attributes":
                    targets.append(kv)
                if kind == "token-scalar" and md.get("tokens") and isinstance(kv[1], dict) and "list" in kv[1]:
                    targets.append(kv)
                walk(kv[1])
        elif isinstance(x, dict) and "list" in x:
            for y in x["list"]:
                walk(y)

    _ = by
    walk(v)
    if not targets:
        return None, None
    kv = rng.choice(targets)
    kv[1] = None if kind == "map-none" else {"int": 7}
    return kind, v


def _all_fields(desc, name):
    c = next(c for c in desc["classes"] if c["name"] == name)
    out = []
    for b in c.get("bases", []):
        out += _all_fields(desc, b)
    return out + c["fields"]


def gen_generate_c01(rng, tier):
    """the shared generator plus instances the serializer refuses (every 4th case)"""
    # corpus: an instance of the base class where a subclass is declared, the base holding an
    # `init=False` attribute (the object holds its default, which is written): thorough seed 1
    u = B.Universe(_FAULT_FIXED_DESC)
    _UNIS[u.modname] = u
    yield {"ctx": u.export_ctx(), "value": u.to_val(u.from_val(_FAULT_FIXED_VALUE)), "desc": _FAULT_FIXED_DESC, "_uni": u.modname,
           "ignore_default_attributes": False, "_fault": "unrelated"}
    n = 0
    for a in gen_generate(rng, tier):
        yield a
        n += 1
        if n % 4 == 0:
            kind, v = faulty_value(rng, a["desc"], a["value"])
            if v is not None:
                # what the real object holds: an `init=False` field cannot be given, it holds its default
                u = uni_of(a)
                try:
                    v = u.to_val(u.from_val(v))
                except Exception:  # noqa: BLE001
                    continue
                yield {**a, "value": v, "_fault": kind}


_FAULT_FIXED_DESC = {"classes": [
    {"name": "Leaf0", "fields": [
        {"name": "c1", "type": "str", "metadata": {"type": "Attribute", "required": True}},
        {"name": "h", "type": "int", "metadata": {"type": "Attribute"}, "default": {"value": 3}, "init": False}],
     "meta": {"namespace": "urn:b"}},
    {"name": "Leaf0Ext", "bases": ["Leaf0"], "fields": [
        {"name": "extra", "type": {"opt": "str"}, "metadata": {"type": "Element"}, "default": {"value": None}}],
     "meta": {"namespace": "urn:b"}},
    {"name": "Root", "fields": [
        {"name": "g", "type": {"opt": {"cls": "Leaf0Ext"}}, "metadata": {"name": "bg", "type": "Element"}, "default": {"value": None}}],
     "meta": {"namespace": "urn:a"}}]}
_FAULT_FIXED_VALUE = {"obj": "Root", "fields": [["g", {"obj": "Leaf0", "fields": [["c1", None], ["h", None]]}]]}


def classify_generate(a, o):
    k = a.get("_fault", "generated")
    if isinstance(o, dict) and "ok" in o:
        n = len(o["ok"]) if isinstance(o["ok"], list) else 0
        return f"{k}:ok:{'<=10' if n <= 10 else '<=40' if n <= 40 else '>40'} events"
    return f"{k}:{o.get('err', 'unsupported') if isinstance(o, dict) else '?'}"


CORRS = [
    Corr("bind.generate", gen_generate_c01, impl_generate, compare=cmp_skip_unsupported, classify=classify_generate,
         describe="EventGenerator.generate vs model on generated class universes and instances, and on instances the "
                  "serializer refuses (unrelated class, None for an Attributes map, scalar for a token list)"),
    Corr("bind.parse", gen_parse, impl_parse, compare=cmp_parse, classify=classify_parse,
         describe="NodeParser(EventsHandler) vs model on real documents and single-point faults"),
    Corr("bind.roundtrip", gen_roundtrip, impl_roundtrip_scoped, compare=cmp_roundtrip, classify=classify_rt,
         describe="real serialize({native,lxml}) + parse({native,lxml}) vs model generate+write+parse"),
]


_CORR_RT = next(c for c in CORRS if c.op == "bind.roundtrip")


# ------------------------------------------------------------------ oracle
def oracle_roundtrip(a):
    u = uni_of(a)
    obj = u.from_val(a["value"])
    for writer in ("native", "lxml"):
        try:
            xml = G.real_serialize(u, obj, writer=writer, ignore_default_attributes=a.get("ignore_default_attributes", False))
        except Exception as e:  # noqa: BLE001
            return f"serialize ({writer}) raised {type(e).__name__}: {e}"
        for handler in ("native", "lxml"):
            r = G.real_parse_bytes(u, a["clazz"], xml.encode(), handler=handler)
            if "ok" not in r:
                return f"{writer}/{handler}: parse of own output failed with {r['err']}"
            if r["ok"]["value"] != a["value"]:
                return f"{writer}/{handler}: round trip changed the object"
    return None


# ------------------------------------------------------------------ fragment F1 (Props/C01.lean)
F1_FEATURES = {"attr", "elem", "child", "list", "text", "ns"}

CHAIN_DESC = {"classes": [
    {"name": "Leaf0", "fields": [{"name": "z", "type": {"opt": "str"}, "metadata": {"type": "Element"}, "default": {"value": None}}]},
    {"name": "Mid0", "meta": {"namespace": "urn:b"},
     "fields": [{"name": "y", "type": {"opt": {"cls": "Leaf0"}}, "metadata": {"type": "Element"}, "default": {"value": None}}]},
    {"name": "Root", "meta": {"namespace": "urn:a"},
     "fields": [{"name": "x", "type": {"opt": {"cls": "Mid0"}}, "metadata": {"type": "Element"}, "default": {"value": None}}]},
]}
CHAIN_VALUE = {"obj": "Root", "fields": [["x", {"obj": "Mid0", "fields": [["y", {"obj": "Leaf0", "fields": [["z", {"str": "t"}]]}]]}]]}
EMPTY_STR_DESC = {"classes": [{"name": "Root", "fields": [
    {"name": "a", "type": "str", "metadata": {"type": "Element"}, "default": {"value": "ed"}}]}]}
EMPTY_STR_VALUE = {"obj": "Root", "fields": [["a", {"str": ""}]]}
XS_STRING = "{http://www.w3.org/2001/XMLSchema}string"
ATTR_DT_DESC = {"classes": [{"name": "Root", "fields": [
    {"name": "a", "type": {"opt": "str"}, "metadata": {"type": "Attribute"}, "default": {"value": None}}]}]}
ATTR_DT_VALUE = {"obj": "Root", "fields": [["a", {"str": XS_STRING}]]}


def _target_uri(q):
    if q.startswith("{") and "}" in q:
        uri, _, tag = q[1:].partition("}")
        if uri and tag:
            return uri
    return None


def _meta_for(cls, pns):
    for p, m in cls["metas"]:
        if p == pns:
            return m
    return cls["metas"][0][1]


def _drop_q(m):
    return {k: v for k, v in m.items() if k != "qname"}


def _elem_vars(m):
    return [v for _, vs in m["elements"] for v in vs]


def ns_agree_everywhere(ctx, inherit=False):
    """`nsAgree` of Bind/F1.lean re-implemented on the exported JSON: for every model-typed element
    var `v` of every class meta `m`, the classes of the model-typed vars of `v`'s class have the same
    metadata (up to the class qname) under the namespace of `v.qname` and under the namespace of the
    class of `v`."""
    classes = {c["id"]: c for c in ctx["classes"]}

    def classes_for(c):
        """`classesFor` of Bind/FN.lean: the declared class and (with `inherit`) its proper subclasses"""
        if not inherit:
            return [c]
        return [c] + [k["id"] for k in ctx["classes"] if k["id"] != c and c in k["mro"]]

    for ci in ctx["classes"]:
        for _, m in ci["metas"]:
            for v in _elem_vars(m):
                if not v["clazz"]:
                    continue
                for k in classes_for(v["clazz"]):
                    m2 = _meta_for(classes[k], _target_uri(m["qname"]))
                    for w in _elem_vars(m2):
                        if not w["clazz"]:
                            continue
                        for k3 in classes_for(w["clazz"]):
                            c3 = classes[k3]
                            if _drop_q(_meta_for(c3, _target_uri(v["qname"]))) != _drop_q(_meta_for(c3, _target_uri(m2["qname"]))):
                                return False
    return True


def gen_ctxF1(rng, tier):
    for desc in (CHAIN_DESC, EMPTY_STR_DESC, ATTR_DT_DESC):
        u = B.Universe(desc)
        _UNIS[u.modname] = u
        yield {"ctx": u.export_ctx(), "desc": desc, "_uni": u.modname}
    for _ in range(n_cases(tier, 60, 400)):
        u, desc, ctx = new_universe(rng, F1_FEATURES)
        yield {"ctx": ctx, "desc": desc, "_uni": u.modname}


def impl_ctxF1(a):
    """exported real universes built from the F1 feature set are in fragment F1, except for the
    namespace chains of known finding C01-ns-chain"""
    return {"ok": ns_agree_everywhere(a["ctx"])}


CORRS.append(
    Corr("bind.ctxF1", gen_ctxF1, impl_ctxF1, classify=lambda a, o: f"ctxF1={o.get('ok')}",
         describe="hypothesis ctxF1 of bind_generate_F1 holds on exported real universes of the F1 feature set")
)


# ------------------------------------------------------------------ oracle: the property on the implementation
def desc_in_F1(desc):
    for c in desc["classes"]:
        if c.get("bases") or (c.get("meta") or {}).get("nillable"):
            return False
        for f in c["fields"]:
            md = f.get("metadata", {})
            if md.get("type", "Text" if not md else None) not in ("Attribute", "Element", "Text", None):
                return False
            if any(k in md for k in ("nillable", "tokens", "wrapper", "sequence", "mixed", "choices")) or f.get("init") is False:
                return False
            t = G._base(f["type"])
            if not (t in ("str", "int", "bool") or (isinstance(t, dict) and "cls" in t)):
                return False
    return True


TYPING_REGIONS = ("out-of-claim: None inside a list", "out-of-claim: None where the default is not None")


def regions(desc, value):
    """the known findings / out-of-claim regions an F1 instance falls under"""
    by = {c["name"]: c for c in desc["classes"]}
    out = []

    def walk(v):
        c = by[v["obj"]]
        for (name, x), f in zip(v["fields"], c["fields"]):
            md = f.get("metadata", {})
            typ = md.get("type") or "Text"
            dflt = f.get("default", {}).get("value", "<none>") if "default" in f else "<required>"
            is_list = isinstance(x, dict) and "list" in x
            for y in (x["list"] if is_list else [x]):
                if y is None and is_list:
                    out.append(TYPING_REGIONS[0])
                elif y is None and dflt is not None:
                    out.append(TYPING_REGIONS[1])
                if isinstance(y, dict) and "obj" in y:
                    walk(y)
                if isinstance(y, dict) and "str" in y:
                    if "\r" in y["str"]:
                        out.append("out-of-claim: carriage return (C08)")
                    if typ == "Attribute" and y["str"].startswith("{"):
                        from xsdata.models.enums import DataType

                        if DataType.from_qname(y["str"]):
                            out.append("C01-attr-datatype-clark-name")
                    if y["str"] == "" and typ == "Element" and not is_list and dflt not in (None, "", "<required>"):
                        out.append("C01-empty-str-element-default")
                    if y["str"] == "" and typ == "Text" and dflt != "":
                        out.append("out-of-claim: empty text vs None")

    walk(value)
    return out


def excluded_region(desc, value):
    r = regions(desc, value)
    return r[0] if r else None


def gen_oracle(rng, tier):
    """F1 instances as generated, and every fourth one pushed into the excluded regions as well (a
    failure there must be the one the region describes, `covered_oracle`)"""
    for n, a in enumerate(_gen_f1(rng, tier)):
        yield a
        if n % 4 == 3:
            yield {**a, "value": spoil_F1(rng, a["value"])}


def _gen_f1(rng, tier):
    for _ in range(n_cases(tier, 150, 900)):
        u, desc, ctx = new_universe(rng, F1_FEATURES)
        for _ in range(6):
            try:
                obj = G.gen_instance(rng, u, "Root")
            except Exception:  # noqa: BLE001
                continue
            yield {"value": u.to_val(obj), "clazz": "Root", "desc": desc, "_uni": u.modname, "ctx": ctx,
                   "ignore_default_attributes": rng.random() < 0.3}


def adapt_oracle(op, a):
    if not desc_in_F1(a["desc"]) or "value" not in a:
        return None
    return {**a, "clazz": a.get("clazz", "Root")}


def adapt_disagreement(d):
    """a `bind.roundtrip` case on which the model returns the object itself while the
    implementation answers something else: a candidate failing input whatever the fragment"""
    a = d.get("args") or {}
    if d.get("op") != "bind.roundtrip" or "value" not in a:
        return None
    m = (d.get("model") or {}).get("ok")
    if not m or m.get("value") != a["value"]:
        return None
    return {**a, "clazz": a.get("clazz", "Root"), "_model_roundtrips": True}


def as_unchanged_code(a):
    """A listed finding or an out-of-claim region describes what the UNCHANGED code does on certain
    instances, and the model reproduces that behaviour.  A failing instance is attributed to its region
    only while the implementation still answers on THIS instance, in all four writer x handler
    combinations, what the model answers (`cmp_roundtrip`: exact up to the names of generated
    prefixes); another kind of failure inside the region is reported.  None: the model does not cover
    the instance (unsupported shape, no driver): the input predicate alone decides."""
    from framework import behaves_as_modelled

    if _xsi_type_clark(a["value"]):
        return None
    u = uni_of(a)
    try:
        value = u.to_val(u.from_val(a["value"]))   # what the instance really holds (init=False fields)
    except Exception:  # noqa: BLE001
        return None
    base = {"ctx": a.get("ctx") or u.export_ctx(), "value": value, "clazz": a.get("clazz", "Root"), "config": {},
            "desc": a["desc"], "_uni": a["_uni"], "ignore_default_attributes": a.get("ignore_default_attributes", False),
            "indent": False, "xml_declaration": True, "writer": "native", "handler": "native"}
    variants = [{**base, "writer": w, "handler": h} for w in ("native", "lxml") for h in ("native", "lxml")]
    return behaves_as_modelled(_CORR_RT, base, variants)


def _xsi_type_clark(v):
    """the one shape on which the model is known not to follow the code: an `xsi:type` key in an
    `Attributes` map or among the attributes of a generic element whose value is a Clark name or looks
    like `prefix:local`.  The parser reads it as a QName: the writers turn a Clark name into a prefixed
    name and bind that prefix (`xs` or `ns<k>`), and a literal prefix may happen to be one they bind; the
    abstract writer of the model binds other names (`q<k>`), so its parser cannot resolve what the code
    resolves (prefix allocation is the writer layer, C03)"""
    if isinstance(v, dict):
        for key in ("attrs",):
            if key in v and isinstance(v[key], list) and any(
                    isinstance(kv, list) and len(kv) == 2 and kv[0] == "{http://www.w3.org/2001/XMLSchema-instance}type"
                    and isinstance(kv[1], str) and (kv[1].startswith("{") or ":" in kv[1]) for kv in v[key]):
                return True
        return any(_xsi_type_clark(x) for x in v.values())
    if isinstance(v, list):
        return any(_xsi_type_clark(x) for x in v)
    return False


def covered_oracle(a, msg):
    if a.get("_model_roundtrips"):
        return None  # the model of the unchanged code returns the object: no listed defect applies
    # (namespace chains are no excuse any more: repair c01g-01)
    r = excluded_region(a["desc"], a["value"])
    if r and as_unchanged_code(a) is False:
        return None  # inside a listed region, but not the behaviour of the unchanged code: report it
    return r


# ------------------------------------------------------------------ c01.valF1: the value hypothesis on real instances
def gen_valF1(rng, tier):
    for desc, value in ((CHAIN_DESC, CHAIN_VALUE), (EMPTY_STR_DESC, EMPTY_STR_VALUE), (ATTR_DT_DESC, ATTR_DT_VALUE)):
        u = B.Universe(desc)
        _UNIS[u.modname] = u
        yield {"ctx": u.export_ctx(), "value": value, "clazz": "Root", "desc": desc, "_uni": u.modname}
    n = 0
    for a in _gen_f1(rng, tier):
        yield {k: a[k] for k in ("ctx", "value", "clazz", "desc", "_uni")}
        n += 1
        if n % 3 == 0:
            # the excluded regions: empty strings, `None` in lists / under required fields, Clark names of datatypes
            yield {"ctx": a["ctx"], "value": spoil_F1(rng, a["value"]), "clazz": "Root", "desc": a["desc"], "_uni": a["_uni"]}


def spoil_F1(rng, value):
    import copy

    v = copy.deepcopy(value)

    def walk(x):
        if isinstance(x, dict) and "obj" in x:
            for kv in x["fields"]:
                if isinstance(kv[1], dict) and "str" in kv[1] and rng.random() < 0.4:
                    kv[1]["str"] = rng.choice(["", "", XS_STRING, "{http://www.w3.org/2001/XMLSchema}int", " "])
                elif kv[1] is not None and rng.random() < 0.1:
                    kv[1] = None
                else:
                    walk(kv[1])
        elif isinstance(x, dict) and "list" in x:
            for n, y in enumerate(x["list"]):
                if rng.random() < 0.15:
                    x["list"][n] = None
                elif isinstance(y, dict) and "str" in y and rng.random() < 0.3:
                    y["str"] = ""
                else:
                    walk(y)

    walk(v)
    return v


def impl_valF1(a):
    """`valF1` / `instF1` of Bind/F1.lean against the independent description of the excluded regions
    used by the oracle (`regions`)"""
    r = [x for x in regions(a["desc"], a["value"]) if "carriage return" not in x]
    return {"ok": {"ctxF1": ns_agree_everywhere(a["ctx"]), "valF1": not r, "instF1": not [x for x in r if x in TYPING_REGIONS]}}


CORRS.append(
    Corr("c01.valF1", gen_valF1, impl_valF1, classify=lambda a, o: json.dumps(o.get("ok"), sort_keys=True),
         describe="hypotheses valF1/instF1 of the C01 theorems on real instances vs the oracle's description of the excluded regions")
)

# ------------------------------------------------------------------ fragments F2… (Bind/FN.lean, Props/C01Wide.lean)
import c01_wide as W  # noqa: E402


def gen_wide(rng, tier):
    """universes of F1 + nillable + tokens + wrapper + sequence + Attributes maps + init=False fields + subclass instances + wildcards; instances as generated and with strings
    pushed into the excluded regions"""
    for desc, value in W.CORPUS:
        u = B.Universe(desc)
        _UNIS[u.modname] = u
        ctx = u.export_ctx()
        yield {"ctx": ctx, "value": value, "clazz": "Root", "desc": desc, "_uni": u.modname, "feat": W.FEAT, "frag": "F10"}
        for name, feat in sorted(W.FRAGMENTS.items()):
            if name != "F10":
                yield {"ctx": ctx, "value": value, "clazz": "Root", "desc": desc, "_uni": u.modname, "feat": feat, "frag": name}
    for k in range(n_cases(tier, 120, 800)):
        # half of the universes use every feature (hypotheses of F8), the others are drawn for one of the
        # smaller fragments, whose `ctxOK` / `valOK` are evaluated on them
        frag, feat = ("F10", dict(W.FEAT)) if k % 2 == 0 else W.pick_feat(rng)
        u, desc, ctx = new_universe(rng, W.WIDE_FEATURES if k % 2 == 0 else W.features_for(rng, feat))
        for _ in range(5):
            try:
                obj = G.gen_instance(rng, u, "Root")
            except Exception:  # noqa: BLE001
                continue
            val = u.to_val(obj)
            if '"any"' in json.dumps(val) and rng.random() < 0.6:
                val = W.normal_generic(val)
            if rng.random() < 0.3:
                val = W.spoil(rng, val)
            yield {"ctx": ctx, "value": val, "clazz": "Root", "desc": desc, "_uni": u.modname, "feat": feat, "frag": frag,
                   "ignore_default_attributes": rng.random() < 0.3}


def _ns_agree_wide(ctx):
    return ns_agree_everywhere(ctx, inherit=bool(W.FEAT.get("inherit")))


def impl_valFN(a):
    """`ctxOK` / `valOK` of Bind/FN.lean against the independent description of the excluded regions"""
    feat = a.get("feat", W.FEAT)
    return {"ok": {"ctx": W.ctx_expected(a["ctx"], _ns_agree_wide, feat),
                   "val": not W.regions(a["desc"], a["value"], a["ctx"], inherit=bool(feat.get("inherit")))}}


CORRS.append(
    Corr("c01.valFN", gen_wide, impl_valFN,
         classify=lambda a, o: a.get("frag", "F10") + " " + json.dumps(o.get("ok"), sort_keys=True)
         + (" +generic" if '"any"' in json.dumps(a["value"]) else ""),
         describe="hypotheses ctxOK/valOK of bind_generate_F2..F10 on exported real universes and instances vs the oracle's "
                  "description of the excluded regions")
)


def covered_wide(a, msg):
    if not W.ctx_expected(a["ctx"], _ns_agree_wide):
        if as_unchanged_code(a) is False:
            return None
        return "out-of-claim: text var with child elements / token-list or wrapped var inside a sequence group (excluded universes)"
    r = W.regions(a["desc"], a["value"], a["ctx"])
    if r and all(x == "C01-attributes-value-prefix-rewritten" for x in r) and not _prefix_bound(a):
        return None  # `prefix:rest` whose prefix is not bound where the attribute stands is left alone: no excuse
    if r and as_unchanged_code(a) is False:
        return None  # inside a listed region, but not the behaviour of the unchanged code: report it
    return r[0] if r else None


def _prefix_bound(a):
    """exactly when `ParserUtils.parse_any_attribute` rewrites a value of the shape prefix:rest: the
    prefix is bound where the attribute stands, in the document a real writer produces (the Lean
    hypothesis `anyAttrValOK` excludes the shape wholesale: the abstract writer of the model binds every
    prefix of `prefixMap (collectUris evs)` at the root, the real writers where a name first needs it)"""
    from lxml import etree

    u = uni_of(a)
    obj = u.from_val(a["value"])
    for writer in ("native", "lxml"):
        try:
            xml = G.real_serialize(u, obj, writer=writer)
        except Exception:  # noqa: BLE001
            return True
        for el in etree.fromstring(xml.encode()).iter():
            for v in el.attrib.values():
                left, sep, right = v.partition(":")
                if sep and left and right and not right.startswith("//") and (left == "xml" or left in el.nsmap):
                    return True
    return False


# ------------------------------------------------------------------ shared state: one context for many calls
def gen_shared(rng, tier):
    """several instances per universe, of the root class and of the classes nested in it (used once as
    a root and once nested, under different parent namespaces), to be pushed through ONE XmlContext /
    XmlSerializer / XmlParser in two orders"""
    for _ in range(n_cases(tier, 40, 300)):
        u, desc, ctx = new_universe(rng, W.WIDE_FEATURES)
        names = [c["name"] for c in desc["classes"]]
        items = []
        for _ in range(rng.randint(3, 6)):
            cname = "Root" if rng.random() < 0.5 else rng.choice(names)
            try:
                obj = G.gen_instance(rng, u, cname)
            except Exception:  # noqa: BLE001
                continue
            items.append([cname, u.to_val(obj)])
        if len(items) >= 2:
            yield {"desc": desc, "_uni": u.modname, "ctx": ctx, "items": items, "writer": rng.choice(["native", "lxml"]),
                   "handler": rng.choice(["native", "lxml"]), "value": items[0][1], "clazz": items[0][0]}


def oracle_shared(a):
    """history independence of the pipeline: serializing and parsing through one shared context, in the
    given order and in the reverse order, gives for every instance what fresh objects give"""
    if "items" not in a:
        return None
    from xsdata.formats.dataclass.context import XmlContext
    from xsdata.formats.dataclass.parsers import XmlParser
    from xsdata.formats.dataclass.parsers.handlers import LxmlEventHandler, XmlEventHandler
    from xsdata.formats.dataclass.serializers import XmlSerializer
    from xsdata.formats.dataclass.serializers.writers import LxmlEventWriter, XmlEventWriter

    u = uni_of(a)
    w = XmlEventWriter if a["writer"] == "native" else LxmlEventWriter
    h = XmlEventHandler if a["handler"] == "native" else LxmlEventHandler

    def run(items, ser, par):
        out = []
        for cname, val in items:
            s_ = ser() if callable(ser) else ser
            p_ = par() if callable(par) else par
            try:
                xml = s_.render(u.from_val(val))
            except Exception as e:  # noqa: BLE001
                out.append(("ser:" + type(e).__name__, None))
                continue
            try:
                back = u.to_val(p_.from_string(xml, u.classes[cname]))
            except Exception as e:  # noqa: BLE001
                back = "parse:" + type(e).__name__
            out.append((xml, back))
        return out

    fresh = run(a["items"], lambda: XmlSerializer(context=XmlContext(models_package=u.modname), writer=w),
                lambda: XmlParser(context=XmlContext(models_package=u.modname), handler=h))
    for order in (list(range(len(a["items"]))), list(reversed(range(len(a["items"]))))):
        ctx = XmlContext(models_package=u.modname)
        shared = run([a["items"][i] for i in order], XmlSerializer(context=ctx, writer=w), XmlParser(context=ctx, handler=h))
        for k, i in enumerate(order):
            if shared[k] != fresh[i]:
                what = "document" if shared[k][0] != fresh[i][0] else "parsed object"
                return (f"shared context, order {order}: the {what} of item {i} ({a['items'][i][0]}) differs from the one "
                        f"fresh objects give: {str(shared[k][0 if what == 'document' else 1])[:160]} vs "
                        f"{str(fresh[i][0 if what == 'document' else 1])[:160]}")
    return None


# ------------------------------------------------------------------ namespace scopes below wrapper elements
def gen_scoped(rng, tier):
    """universes in which a value needs a prefix (QName items, QName attributes of items, `xsi:type` of
    instances of a subclass in a namespace, prefixed values of an Attributes map) under a list field,
    wrapped or not; the namespaces of the values are sometimes those of the ancestors (prefix declared
    above) and sometimes new (prefix declared on the item itself, or on the wrapper's first item)"""
    f = W._f
    NONE, LIST = {"value": None}, {"factory": "list"}
    for desc, value in (W.WRAP_QNAME, W.WRAP_SUB_NS, W.WRAP_ITEM_QNAME_ATTR):
        u = B.Universe(desc)
        _UNIS[u.modname] = u
        yield {"ctx": u.export_ctx(), "value": value, "clazz": "Root", "desc": desc, "_uni": u.modname, "feat": W.FEAT}
    for _ in range(n_cases(tier, 40, 500)):
        root_ns = rng.choice([None, None, "urn:a", "urn:r"])
        nss = ["urn:a", "urn:q", "urn:colors"] + ([root_ns] if root_ns else [])

        def qn():
            ns = rng.choice(nss + [None])
            return {"qname": ("{%s}" % ns if ns else "") + rng.choice(["n1", "n2", "red"])}

        md = {"type": "Element"}
        if rng.random() < 0.75:
            md["wrapper"] = "items"
        if rng.random() < 0.3:
            md["name"] = "it"
        if rng.random() < 0.25:
            md["namespace"] = rng.choice(["urn:a", "urn:f"])
        kind = rng.choice(["qname-items", "sub-items", "item-qname-attr", "item-map", "same-item-name"])
        if kind == "same-item-name":
            # two wrapped lists whose items share one element name: the parser tells them apart by the
            # wrapper it met them under (`ElementNode.wrappers`, a queue per item name)
            desc = {"classes": [{"name": "Root", "fields": [
                f("a", {"list": "int"}, LIST, type="Element", name="item", wrapper="as"),
                f("b", {"list": "str"}, LIST, type="Element", name="item", wrapper="bs"),
                f("c", {"list": "int"}, LIST, type="Element", name="item", wrapper="cs")]}]}
            value = {"obj": "Root", "fields": [
                ["a", {"list": [{"int": rng.randint(0, 9)} for _ in range(rng.randint(0, 3))]}],
                ["b", {"list": [{"str": rng.choice(["x", "7", "y z"])} for _ in range(rng.randint(0, 3))]}],
                ["c", {"list": [{"int": rng.randint(0, 9)} for _ in range(rng.randint(0, 2))]}]]}
            u = B.Universe(desc)
            _UNIS[u.modname] = u
            yield {"ctx": u.export_ctx(), "value": value, "clazz": "Root", "desc": desc, "_uni": u.modname, "feat": W.FEAT}
            continue
        rootf = []
        if rng.random() < 0.3:   # a QName attribute on the root may already declare the prefix above
            rootf.append(f("p", {"opt": "qname"}, NONE, type="Attribute"))
        classes = []
        n = rng.randint(0, 3)
        if kind == "qname-items":
            rootf.append(f("refs", {"list": "qname"}, LIST, **md))
            val = {"list": [qn() for _ in range(n)]}
        elif kind == "sub-items":
            sub_ns = rng.choice([None, "urn:s", root_ns])
            classes = [{"name": "Base", "fields": [f("z", {"opt": "str"}, NONE, type="Element")]},
                       {"name": "Sub", "bases": ["Base"], "fields": [f("extra", {"opt": "int"}, NONE, type="Element")],
                        **({"meta": {"namespace": sub_ns}} if sub_ns else {})}]
            rootf.append(f("refs", {"list": {"cls": "Base"}}, LIST, **md))
            val = {"list": [rng.choice([
                {"obj": "Base", "fields": [["z", {"str": "a"}]]},
                {"obj": "Sub", "fields": [["z", rng.choice([None, {"str": "b"}])], ["extra", {"int": rng.randint(0, 9)}]]}])
                for _ in range(n)]}
        elif kind == "item-qname-attr":
            classes = [{"name": "Leaf", "fields": [f("q", {"opt": "qname"}, NONE, type="Attribute"),
                                                    f("z", {"opt": "str"}, NONE, type="Element")]}]
            rootf.append(f("refs", {"list": {"cls": "Leaf"}}, LIST, **md))
            val = {"list": [{"obj": "Leaf", "fields": [["q", rng.choice([None, qn()])], ["z", rng.choice([None, {"str": "x"}])]]}
                            for _ in range(n)]}
        else:
            classes = [{"name": "Leaf", "fields": [f("m", {"dict": 1}, {"factory": "dict"}, type="Attributes", namespace="##any"),
                                                    f("z", {"opt": "str"}, NONE, type="Element")]}]
            rootf.append(f("refs", {"list": {"cls": "Leaf"}}, LIST, **md))
            val = {"list": [{"obj": "Leaf", "fields": [["m", {"attrs": rng.choice([[], [["{urn:q}k", "v"]], [["k", "a b"]]])}],
                                                         ["z", rng.choice([None, {"str": "x"}])]]} for _ in range(n)]}
        root = {"name": "Root", "fields": rootf}
        if root_ns:
            root["meta"] = {"namespace": root_ns}
        desc = {"classes": classes + [root]}
        fields = ([["p", rng.choice([None, qn()])]] if len(rootf) == 2 else []) + [["refs", val]]
        u = B.Universe(desc)
        _UNIS[u.modname] = u
        yield {"ctx": u.export_ctx(), "value": {"obj": "Root", "fields": fields}, "clazz": "Root", "desc": desc, "_uni": u.modname,
               "feat": W.FEAT, "ignore_default_attributes": rng.random() < 0.3}


ORACLES = [
    Oracle("roundtrip", gen_oracle, oracle_roundtrip, covered=covered_oracle,
           from_ops=("bind.roundtrip", "bind.generate"), adapt=adapt_oracle, adapt_disagreement=adapt_disagreement),
    Oracle("roundtrip-wide", gen_wide, oracle_roundtrip, covered=covered_wide),
    # prefixes declared on wrapped items (in and outside the fragments; a failure must be what the model does)
    Oracle("roundtrip-scoped", gen_scoped, oracle_roundtrip, covered=covered_wide),
    Oracle("shared-context", gen_shared, oracle_shared),
    # the shapes of the repaired defects (corpus/C01/roundtrip-repaired-*.json) must round-trip: no excuse
    Oracle("roundtrip-repaired", lambda rng, tier: corpus_roundtrip("roundtrip-repaired-*.json"), oracle_roundtrip),
]


# ------------------------------------------------------------------ known findings (replayed on the real code)
def _replay(desc, value, expect):
    u = B.Universe(desc)
    obj = u.from_val(value)
    seen = []
    for writer in ("native", "lxml"):
        xml = G.real_serialize(u, obj, writer=writer)
        for handler in ("native", "lxml"):
            r = G.real_parse_bytes(u, "Root", xml.encode(), handler=handler)
            seen.append(r.get("err") or ("same" if r["ok"]["value"] == value else json.dumps(r["ok"]["value"])))
    return all(expect(x) for x in seen), f"{xml.split('?>')[-1].strip()} -> {sorted(set(seen))}"


FINDINGS = {
    "C01-empty-str-element-default": lambda: _replay(EMPTY_STR_DESC, EMPTY_STR_VALUE, lambda x: '"ed"' in x),
    "C01-attr-datatype-clark-name": lambda: _replay(ATTR_DT_DESC, ATTR_DT_VALUE, lambda x: "xs:string" in x),
    **W.FINDINGS,
}
TRUSTED = [
    "metadata (XmlMeta/XmlVar) is exported from the real XmlContext.build and is an input of the model (builders.py is not modelled here)",
    "primitive converters restricted to str/int/bool/QName in this layer",
    "expat/lxml tokenisers and writers only through the end-to-end op bind.roundtrip",
]
ASSUMPTIONS = []
LEVEL_TEXT = (
    "Partial. generate -> abstract writer -> parseRoot is the identity, with no converter warning, for every parser config, both "
    "settings of ignore_default_attributes and every Unicode Env: bind_generate_F1 / bind_generate_anyNamespaces (Props/C01.lean: "
    "attributes, primitive- and model-typed elements optional/required/list, a text var, every combination of class and field "
    "namespaces) and bind_generate_F2..F10 / bind_generate_FN (Props/C01Wide.lean: + nillable vars and classes, token lists, wrapper "
    "lists, sequence groups, one Attributes map per class, init=False fields, instances of proper subclasses with xsi:type resolved "
    "through the prefix map, one wildcard per class (a list, or a single generic element) holding generic elements in the parser's normal form, element vars whose type is a union of str/int/bool, QName-typed element vars), under decidable hypotheses ctxOK (universe) and valOK/valOKI (instance) that the driver evaluates on "
    "exported real universes; each remaining value-level exclusion that is a defect has a machine-checked witness replayed on the "
    "real code, the eight defects repaired by repo-patches c01g-01..08 have *_repaired theorems. Outside these fragments ("
    "tails of generic elements, mixed wildcards, anyType, compound fields, unions with classes or in attributes, QName-typed attributes and text, non str/int/bool/QName values, DerivedElements, a text var next to "
    "child elements) the executable model is compared with the real generator, parser and the four writer x handler combinations, "
    "but no round-trip theorem is claimed yet."
)
LEVEL_NOTE = (
    "Trusted: Lean kernel; metadata exported from the real XmlContext.build is input of the model (builders.py not modelled); "
    "the concrete writers (prefix bookkeeping, escaping, indentation) are the subject of C03/C08 and enter here only through the "
    "correspondence op bind.roundtrip; expat/lxml tokenisers."
)
