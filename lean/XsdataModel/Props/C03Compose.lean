/- C03 — property theorems (only), continued: `XmlSerializer.render` as the composition of the
event generator of the binding layer (`Bind/Gen.lean`, EventGenerator) with the native writer
(`Xml/Writer.lean` + `Xml/Sax.lean`), for EVERY class universe `Γ` and EVERY instance `v`
(not only the fragments of C01): whatever `generate` yields is well nested
(`generate_well_nested`), and when its names and values pass the flat, decidable check
`eventsOK` the written document is namespace-well-formed (`serialize_wellformed`) and denotes the
event tree of the generated events (`serialize_says_metadata`).
-/
import XsdataModel.Props.C03
import XsdataModel.Proofs.ComposeBridge
import XsdataModel.Props.C01

namespace Props.C03
open Py Xs.Ns Xs.Sax Xs.Writer Spec.XmlNs Spec.EventTree Spec.Hyps Xs.Compose
open Proofs.TreeWriter Proofs.Assembly Proofs.EventsTree Proofs.GenForest Proofs.ComposeBridge

/-- **generate_well_nested**: for every universe, configuration and value, a successful
`EventGenerator.generate` yields `START q, <well-nested items>, END q`: START/END pairs are
properly nested, DATA/ATTR events are items.  (No hypothesis on `Γ` or `v`.) -/
theorem generate_well_nested (e : Xs.Bind.BEnv) (Γ : Xs.Bind.Ctx) (scfg : Xs.Bind.SerCfg) (v : Xs.Bind.Val)
    (evs : List Xs.Bind.Ev) (h : Xs.Bind.generate e Γ scfg v = .ok evs) :
    ∃ q kids, evs = Xs.Bind.Ev.start q :: (kids ++ [Xs.Bind.Ev.end q]) ∧ BForest kids :=
  generate_root e Γ scfg v evs h

/-- **serialize_wellformed (partial)**: for every universe `Γ`, instance `v`, serializer
configuration and user prefix map in `userMapOK`: if the event generator succeeds and the
generated events pass `eventsOK` (names in Clark notation with NCName local parts and declarable
namespaces, XML characters only, attributes with a value, ATTR events directly after their START,
QName values with a namespace only in attributes or as the first content of an element), then the
native writer raises nothing and the document is namespace-well-formed. -/
theorem serialize_wellformed_partial (e : Xs.Bind.BEnv) (Γ : Xs.Bind.Ctx) (scfg : Xs.Bind.SerCfg)
    (v : Xs.Bind.Val) (cfg : Cfg) (hcfg : plainCfg cfg = true)
    (m : List (Pfx × Str)) (hm : userMapOK tblNsEnv m = true)
    (evs : List Xs.Bind.Ev) (es : List Ev)
    (hg : Xs.Bind.generate e Γ scfg v = .ok evs) (hc : convEvs evs = some es)
    (hok : eventsOK tblNsEnv (userDefault m) es = true) :
    ∃ toks, nativeWrite tblNsEnv cfg m es = .ok toks ∧ nsWellFormed toks = true := by
  obtain ⟨q, attrs, kids, hdoc, hcont, hshape⟩ := generated_document tblNsEnv (userDefault m) e Γ scfg v evs es hg hc hok
  rw [hdoc]
  exact write_wellformed_partial cfg hcfg m hm q attrs kids hcont hshape

/-- **serialize_says_sax (partial)**: under the same hypotheses the document denotes exactly the
tree of the SAX calls the handler issued for the generated events (QName values included). -/
theorem serialize_denotes_sax_tree_partial (e : Xs.Bind.BEnv) (Γ : Xs.Bind.Ctx) (scfg : Xs.Bind.SerCfg)
    (v : Xs.Bind.Val) (cfg : Cfg) (hcfg : plainCfg cfg = true)
    (m : List (Pfx × Str)) (hm : userMapOK tblNsEnv m = true)
    (evs : List Xs.Bind.Ev) (es : List Ev)
    (hg : Xs.Bind.generate e Γ scfg v = .ok evs) (hc : convEvs evs = some es)
    (hok : eventsOK tblNsEnv (userDefault m) es = true) :
    ∃ toks calls t, nativeWrite tblNsEnv cfg m es = .ok toks
      ∧ handlerRun tblNsEnv cfg true m es = (calls, none)
      ∧ infoset toks = some t ∧ saxTree calls = some t := by
  obtain ⟨q, attrs, kids, hdoc, hcont, hshape⟩ := generated_document tblNsEnv (userDefault m) e Γ scfg v evs es hg hc hok
  rw [hdoc]
  exact write_denotes_sax_tree_partial cfg hcfg m hm q attrs kids hcont hshape

/-- **serializers_denote_same_tree (partial)**: under the same hypotheses and the explicit assumption
about lxml (`LxmlBuildsSaxTree`), `XmlSerializer(writer=XmlEventWriter)` and
`XmlSerializer(writer=LxmlEventWriter)` write documents that denote the same tree. -/
theorem serializers_denote_same_tree_partial (lxmlRead : List Call → Option Node) (hl : LxmlBuildsSaxTree lxmlRead)
    (e : Xs.Bind.BEnv) (Γ : Xs.Bind.Ctx) (scfg : Xs.Bind.SerCfg)
    (v : Xs.Bind.Val) (cfg : Cfg) (hcfg : plainCfg cfg = true)
    (m : List (Pfx × Str)) (hm : userMapOK tblNsEnv m = true)
    (evs : List Xs.Bind.Ev) (es : List Ev)
    (hg : Xs.Bind.generate e Γ scfg v = .ok evs) (hc : convEvs evs = some es)
    (hok : eventsOK tblNsEnv (userDefault m) es = true) :
    ∃ toks calls t, nativeWrite tblNsEnv cfg m es = .ok toks
      ∧ handlerRun tblNsEnv cfg false m es = (calls, none)
      ∧ infoset toks = some t ∧ lxmlRead calls = some t := by
  obtain ⟨q, attrs, kids, hdoc, hcont, hshape⟩ := generated_document tblNsEnv (userDefault m) e Γ scfg v evs es hg hc hok
  rw [hdoc]
  exact writers_denote_same_tree_partial lxmlRead hl cfg hcfg m hm q attrs kids hcont hshape

/-- values that need no namespace context (no QName values, no `{…}` attribute strings) -/
def eventsPlain (es : List Ev) : Bool :=
  es.all (fun ev => match ev with
    | .start q => (clark q).isSome
    | .attr q v => plainAttr (q, v)
    | .data v => (valText v).isSome
    | _ => true)

/-- **serialize_says_metadata (partial)**: if moreover the generated values need no namespace
context, the document the parser reads is exactly the tree the independent reader `eventsTree`
assigns to the generated events: element and attribute names with the namespaces the metadata
prescribes, nesting, order, `xsi:nil` only on elements without content, values. -/
theorem serialize_says_metadata_partial (e : Xs.Bind.BEnv) (Γ : Xs.Bind.Ctx) (scfg : Xs.Bind.SerCfg)
    (v : Xs.Bind.Val) (cfg : Cfg) (hcfg : plainCfg cfg = true)
    (m : List (Pfx × Str)) (hm : userMapOK tblNsEnv m = true)
    (evs : List Xs.Bind.Ev) (es : List Ev)
    (hg : Xs.Bind.generate e Γ scfg v = .ok evs) (hc : convEvs evs = some es)
    (hok : eventsOK tblNsEnv (userDefault m) es = true) (hplain : eventsPlain es = true) :
    ∃ toks t, nativeWrite tblNsEnv cfg m es = .ok toks
      ∧ infoset toks = some t ∧ eventsTree tblNsEnv cfg es = some t := by
  obtain ⟨q, attrs, kids, hdoc, hcont, hshape⟩ := generated_document tblNsEnv (userDefault m) e Γ scfg v evs es hg hc hok
  have hp : plainContent (.child q attrs kids .nil) = true := by
    rw [← plain_flatten]
    have : flatten (.child q attrs kids .nil) = es := by rw [hdoc]; rfl
    rw [this]
    exact hplain
  rw [hdoc]
  exact write_infoset_partial cfg hcfg m hm q attrs kids hcont hp hshape

/-- **render_is_text**: in that region `Compose.render` (= `XmlSerializer.render` with the native
writer) returns the text of a namespace-well-formed token list -/
theorem render_wellformed_partial (e : Xs.Bind.BEnv) (Γ : Xs.Bind.Ctx) (scfg : Xs.Bind.SerCfg)
    (v : Xs.Bind.Val) (cfg : Cfg) (hcfg : plainCfg cfg = true)
    (m : List (Pfx × Str)) (hm : userMapOK tblNsEnv m = true)
    (evs : List Xs.Bind.Ev) (es : List Ev)
    (hg : Xs.Bind.generate e Γ scfg v = .ok evs) (hc : convEvs evs = some es)
    (hok : eventsOK tblNsEnv (userDefault m) es = true) :
    ∃ toks, Xs.Compose.render tblNsEnv e Γ scfg cfg m v
        = .text ((if cfg.xmlDeclaration then xmlDecl else []) ++ Xs.Sax.render toks)
      ∧ nsWellFormed toks = true := by
  obtain ⟨toks, h1, h2⟩ := serialize_wellformed_partial e Γ scfg v cfg hcfg m hm evs es hg hc hok
  refine ⟨toks, ?_, h2⟩
  simp [Xs.Compose.render, hg, hc, nativeText, h1, Proofs.UserMap.userMapOK_valid tblNsEnv m hm]

/-! ### the hypotheses are satisfiable -/

/-- C01's example universe (`Root` in `urn:a` with attributes, a primitive list, nested `Leaf`
objects in a list, an optional child, a boolean element) and an instance of it -/
private def vEx : Xs.Bind.Val := .obj (Props.C01.s "Root")
  [(Props.C01.s "title", .prim (.str (Props.C01.s "a < b"))), (Props.C01.s "lang", .prim (.str (Props.C01.s "en"))),
   (Props.C01.s "n", .prim (.int 7)),
   (Props.C01.s "tags", .list [.prim (.int 1), .prim (.int (-20))]),
   (Props.C01.s "item", .list [Props.C01.leafVal 1 " x y ", Props.C01.leafVal (-2) ""]), (Props.C01.s "opt", .none),
   (Props.C01.s "flag", .prim (.bool false))]

/-- the hypotheses of `serialize_wellformed_partial` … `serialize_says_metadata_partial` hold for it
under a user map with a default namespace and a `ns<k>` prefix -/
example : ∃ evs es, Xs.Bind.generate Props.C01.e0 Props.C01.Γ2 {} vEx = .ok evs ∧ convEvs evs = some es
    ∧ userMapOK tblNsEnv [(none, ['u', 'r', 'n', ':', 'a']), (some ['n', 's', '0'], ['u', 'r', 'n', ':', 'z'])] = true
    ∧ eventsOK tblNsEnv (userDefault [(none, ['u', 'r', 'n', ':', 'a']), (some ['n', 's', '0'], ['u', 'r', 'n', ':', 'z'])]) es = true
    ∧ eventsPlain es = true := by
  refine ⟨_, _, rfl, rfl, ?_, ?_, ?_⟩ <;> decide +kernel

/-- and the conclusion evaluated: the composed model renders it to a namespace-well-formed document -/
example : (match Xs.Compose.render tblNsEnv Props.C01.e0 Props.C01.Γ2 {} {} [(none, ['u', 'r', 'n', ':', 'a'])] vEx with
    | .text _ => true
    | _ => false) = true := by
  decide +kernel

/-- repaired (PENDING-c03d-01): `XmlSerializer.render` with a prefix map that cannot be declared
raises `XmlWriterError`, for every universe and value -/
theorem render_rejects_invalid_prefixes (e : Xs.Bind.BEnv) (Γ : Xs.Bind.Ctx) (scfg : Xs.Bind.SerCfg)
    (v : Xs.Bind.Val) (cfg : Cfg) (m : List (Pfx × Str))
    (h : prefixesValid tblNsEnv (serializerNsMap m) = false) :
    Xs.Compose.render tblNsEnv e Γ scfg cfg m v = .writeError .xmlWriterError := by
  simp [Xs.Compose.render, h]

example : prefixesValid tblNsEnv (serializerNsMap [(some ['x', 'm', 'l', 'n', 's'], ['u', 'r', 'n', ':', 'a'])]) = false := by
  decide +kernel

end Props.C03
