/- C17 — WSDL generation yields usable SOAP bindings: property theorems.

Reading guide (definitions in Wsdl/Defs.lean, Wsdl/Mapper.lean, Wsdl/Client.lean):
  `operationConfig b p o`   the dict `map_port`/`map_binding` hand to `map_binding_operation`
                            (attributes of the extension elements of binding, port, operation)
  `mapBindingOperation`     classes of one operation: [rpc message class,] envelope per
                            direction, then the service class
  `buildEnvelopeClass`      `Envelope` class with one inner class per extension element name
  `partsAttrs`              `build_parts_attributes`
  `prepareHeaders`, `send`  the client
  `resolveNamespace`        the late namespace decision for parts declared by type
-/
import XsdataModel.Proofs.Wsdl
import XsdataModel.Proofs.WsdlMapper

namespace Props.C17
open Py Xs.Wsdl

/-! ## Constants read off the code (re-checked against Tables.lean on every run) -/

/-- the mapper gives envelopes of SOAP-over-HTTP bindings the SOAP 1.1 envelope
namespace and no namespace to anything else; the client accepts exactly that
transport, sends `content-type: text/xml` and names the action header `SOAPAction`;
the marker of late-bound namespaces is `##lazy`; service constants are `xs:string`. -/
theorem protocol_constants :
    Tables.c17ClientSoapTransport = ws!"http://schemas.xmlsoap.org/soap/http" ∧
    Tables.c17EnvelopeNs = some ws!"http://schemas.xmlsoap.org/soap/envelope/" ∧
    Tables.c17EnvelopeNsOther = none ∧ Tables.c17EnvelopeNsAbsent = none ∧
    Tables.c17ClientBaseHeaders = [(ws!"content-type", ws!"text/xml")] ∧
    Tables.c17ActionHeader = ws!"SOAPAction" ∧
    Tables.c17LazyMarker = ws!"##lazy" ∧
    Tables.c17XsString = ws!"{http://www.w3.org/2001/XMLSchema}string" ∧
    Tables.c17XsUri = ws!"http://www.w3.org/2001/XMLSchema" ∧
    Tables.c17TagBindingOperation = ws!"BindingOperation" ∧
    Tables.c17ConfigFields = [ws!"style", ws!"location", ws!"transport", ws!"soap_action",
      ws!"input", ws!"output", ws!"encoding"] := by
  decide

/-! ## Service description: which binding value wins -/

/-- value of attribute `k` (by local name) on a list of extension elements:
the last element/attribute carrying it -/
def attrVal (exts : List Ext) (k : Str) : Option Str := lastVal (attrPairs exts) k

/-- **config_precedence**: for every key, the value the service description gets is
the one on the `soap:operation` (any extension of the binding operation), else on
the port (`soap:address`), else on the binding (`soap:binding`); within one level the
last occurrence wins. -/
theorem config_precedence (b p o : List Ext) (k : Str) :
    aget (operationConfig b p o) k
      = ((attrVal o k).or (attrVal p k)).or (attrVal b k) :=
  operationConfig_get b p o k

/-- **style_decision**: the operation style used for the envelopes is the
`style` of `soap:operation`, else of the port/binding level, else `document`. -/
theorem style_decision (b p o : List Ext) :
    (aget (operationConfig b p o) ws!"style").getD ws!"document"
      = match attrVal o ws!"style", attrVal p ws!"style", attrVal b ws!"style" with
        | some s, _, _ => s
        | none, some s, _ => s
        | none, none, some s => s
        | none, none, none => ws!"document" := by
  rw [config_precedence]
  cases attrVal o ws!"style" <;> cases attrVal p ws!"style" <;> cases attrVal b ws!"style" <;> rfl

/-- **envelope_namespace**: envelopes are in the SOAP 1.1 envelope namespace iff
the effective `transport` is SOAP over HTTP. -/
theorem envelope_namespace (cfg : Dict) :
    operationNamespace cfg = some ws!"http://schemas.xmlsoap.org/soap/envelope/"
      ↔ aget cfg ws!"transport" = some ws!"http://schemas.xmlsoap.org/soap/http" := by
  unfold operationNamespace
  have h := protocol_constants
  obtain ⟨h1, h2, h3, h4, _⟩ := h
  rw [h1, h2, h3, h4]
  cases hg : aget cfg ws!"transport" with
  | none => simp
  | some t =>
    by_cases ht : t = ws!"http://schemas.xmlsoap.org/soap/http"
    · subst ht; simp
    · have : (t == ws!"http://schemas.xmlsoap.org/soap/http") = false := by simpa using ht
      simp [this, ht]

/-- **service_constants**: the service class carries a string constant `k = v`
exactly for the keys of the configuration whose value is non-empty
(so `soapAction=""` yields no `soap_action`), each an `xs:string` with that default. -/
theorem service_constants (b p o : List Ext) (a : AttrM) :
    a ∈ constAttrs (operationConfig b p o) ↔
      ∃ k v, aget (operationConfig b p o) k = some v ∧ v ≠ [] ∧
        a = buildAttr k Tables.c17XsString (native := true) (default := some v) := by
  rw [mem_constAttrs]
  constructor
  · rintro ⟨k, v, hm, hv, rfl⟩
    exact ⟨k, v, (mem_iff_aget_of_nodup _ (operationConfig_nodup b p o) k v).1 hm, hv, rfl⟩
  · rintro ⟨k, v, hg, hv, rfl⟩
    exact ⟨k, v, (mem_iff_aget_of_nodup _ (operationConfig_nodup b p o) k v).2 hg, hv, rfl⟩

/-! ## Client -/

/-- **client_headers (SOAP transport)**: `content-type` is `text/xml` whatever the
caller passed; `SOAPAction` is the configured action iff that is a non-empty string,
otherwise the caller's own value (if any) goes through; every other header of the
caller is preserved. -/
theorem client_headers (cfg : ClientConfig) (h : Dict)
    (ht : cfg.transport = some ws!"http://schemas.xmlsoap.org/soap/http") :
    ∃ r, prepareHeaders cfg h = some r ∧
      aget r ws!"content-type" = some ws!"text/xml" ∧
      aget r ws!"SOAPAction" = (match cfg.soapAction with
        | some a => if a = [] then aget h ws!"SOAPAction" else some a
        | none => aget h ws!"SOAPAction") ∧
      ∀ k, k ≠ ws!"content-type" → k ≠ ws!"SOAPAction" → aget r k = aget h k := by
  obtain ⟨h1, _, _, _, h5, h6, _⟩ := protocol_constants
  unfold prepareHeaders
  rw [h1, h5, h6, ht]
  simp only [beq_self_eq_true, ↓reduceIte]
  have hbase : ∀ k, aget (aupdate h [(ws!"content-type", ws!"text/xml")]) k
      = if k == ws!"content-type" then some ws!"text/xml" else aget h k := by
    intro k
    simp only [aupdate, List.foldl_cons, List.foldl_nil]
    exact aget_aset h _ k _
  cases ha : cfg.soapAction with
  | none =>
    refine ⟨_, rfl, ?_, ?_, ?_⟩
    · rw [hbase]; rfl
    · rw [hbase]; rfl
    · intro k hk _
      rw [hbase]
      have : (k == ws!"content-type") = false := by simpa using hk
      simp [this]
  | some a =>
    by_cases hemp : a = []
    · subst hemp
      refine ⟨_, rfl, ?_, ?_, ?_⟩
      · rw [hbase]; rfl
      · rw [hbase]; rfl
      · intro k hk _
        rw [hbase]
        have : (k == ws!"content-type") = false := by simpa using hk
        simp [this]
    · have : a.isEmpty = false := by cases a <;> simp_all
      simp only [this]
      refine ⟨_, rfl, ?_, ?_, ?_⟩
      · rw [aget_aset, hbase]; rfl
      · rw [aget_aset]; simp [hemp]
      · intro k hk hk2
        rw [aget_aset, hbase]
        have h1 : (k == ws!"content-type") = false := by simpa using hk
        have h2 : (k == ws!"SOAPAction") = false := by simpa using hk2
        simp [h1, h2]

/-- **client_rejects_other_transports**: any other transport (also a missing one)
ends in `ClientValueError`. -/
theorem client_rejects_other_transports (cfg : ClientConfig) (h : Dict)
    (ht : cfg.transport ≠ some ws!"http://schemas.xmlsoap.org/soap/http") :
    prepareHeaders cfg h = none := by
  obtain ⟨h1, _⟩ := protocol_constants
  unfold prepareHeaders
  rw [h1]
  have : (cfg.transport == some ws!"http://schemas.xmlsoap.org/soap/http") = false := by
    simpa using ht
  simp [this]

/-- **client_send**: for a request of the configured input class (or a dict) over the
SOAP transport, `send` renders the request once, posts exactly that payload
(encoded iff an encoding is configured) once to the configured location with the
prepared headers, and returns what the parser makes of the response for the
configured output class. -/
theorem client_send (cfg : ClientConfig) (render : Str → Str) (req : Request) (h : Dict) (resp : Str)
    (ht : cfg.transport = some ws!"http://schemas.xmlsoap.org/soap/http")
    (hreq : match req with | .instance cls _ => some cls = cfg.input | .dict _ => True) :
    ∃ hdrs pre id, prepareHeaders cfg h = some hdrs ∧
      (match req with | .instance _ i => pre = [] ∧ id = i | .dict i => pre = [Event.decode i cfg.input] ∧ id = i) ∧
      send cfg render req h resp =
        ⟨pre ++ [.render id, .post cfg.location ⟨render id, encodingOf cfg⟩ hdrs, .parse resp cfg.output], true⟩ := by
  obtain ⟨r, hr, _⟩ := client_headers cfg h ht
  cases req with
  | dict i =>
    refine ⟨r, [Event.decode i cfg.input], i, hr, ⟨rfl, rfl⟩, ?_⟩
    simp [send, preparePayload, hr]
  | «instance» cls i =>
    simp only at hreq
    refine ⟨r, [], i, hr, ⟨rfl, rfl⟩, ?_⟩
    have : (some cls == cfg.input) = true := by simp [hreq]
    simp [send, preparePayload, hr, this]

/-- **client_never_posts_invalid**: a request of another class, or a transport that
is not SOAP over HTTP, raises without anything being posted. -/
theorem client_never_posts_invalid (cfg : ClientConfig) (render : Str → Str) (req : Request) (h : Dict) (resp : Str)
    (hbad : cfg.transport ≠ some ws!"http://schemas.xmlsoap.org/soap/http" ∨
      ∃ cls i, req = .instance cls i ∧ some cls ≠ cfg.input) :
    (send cfg render req h resp).ok = false ∧
      ∀ e ∈ (send cfg render req h resp).events, ∀ u d hh, e ≠ .post u d hh := by
  rcases hbad with ht | ⟨cls, i, rfl, hne⟩
  · have hn := client_rejects_other_transports cfg h ht
    cases req with
    | dict i => simp [send, preparePayload, hn]
    | «instance» cls i =>
      by_cases hc : (some cls == cfg.input) = true <;> simp [send, preparePayload, hn, hc]
  · have : (some cls == cfg.input) = false := by simpa using hne
    simp [send, preparePayload, this]

/-- **from_service_override**: every `Config` field is the keyword argument when one
is given (even `None`), else the attribute of the service class, else `None`; unknown
keywords are ignored. -/
theorem from_service_override (fields : List Str) (obj kw : List (Str × Val)) (f : Str) (hf : f ∈ fields) :
    (f, if ahas kw f then (aget kw f).join else (aget obj f).join) ∈ fromService fields obj kw ∧
    (fromService fields obj kw).map (·.1) = fields := by
  constructor
  · exact List.mem_map.2 ⟨f, hf, rfl⟩
  · simp [fromService, Function.comp_def]

/-- **fault_status_reaches_parser**: the default transport hands the body of a 200
and of a 500 response (SOAP faults) to the parser and raises for every other
4xx/5xx status. -/
theorem fault_status_reaches_parser (s : Nat) :
    (handleResponse 200 = true ∧ handleResponse 500 = true) ∧
    (400 ≤ s → s < 600 → s ≠ 500 → handleResponse s = false) := by
  refine ⟨⟨by decide, by decide⟩, ?_⟩
  intro h1 h2 h3
  unfold handleResponse raiseForStatus
  have : (s == 200) = false := by simp; omega
  have h5 : (s == 500) = false := by simpa using h3
  simp [this, h5, h1, h2]

/-! ## Late namespace decision for parts declared by type -/

/-- **lazy_decision**: when the part's type is a complex type, the marker is replaced
by the type's own namespace if it has one, else by "unqualified" when the class that
holds the field has a namespace (rpc message classes), else left to inheritance. -/
theorem lazy_decision (sourceNs targetNs : Option Str) :
    resolveNamespace .complex (some ws!"##lazy") sourceNs targetNs
      = some (match sourceNs, targetNs with
          | some (c :: s), _ => some (c :: s)
          | _, some (_ :: _) => some []
          | _, _ => none) := by
  obtain ⟨_, _, _, _, _, _, h7, _⟩ := protocol_constants
  simp only [resolveNamespace, detectLazyNamespace, h7, beq_self_eq_true, ↓reduceIte]
  cases sourceNs with
  | none =>
    cases targetNs with
    | none => simp [detectLazyNamespace.truthyNs]
    | some t => cases t <;> simp [detectLazyNamespace.truthyNs]
  | some s =>
    cases s with
    | nil =>
      cases targetNs with
      | none => simp [detectLazyNamespace.truthyNs]
      | some t => cases t <;> simp [detectLazyNamespace.truthyNs]
    | cons c s => simp [detectLazyNamespace.truthyNs]

/-- full-strength statement: no field keeps the internal marker as its XML namespace -/
def LazyAlwaysResolved : Prop :=
  ∀ (k : SourceKind) (sourceNs targetNs : Option Str),
    sourceNs ≠ some Tables.c17LazyMarker →
    resolveNamespace k (some Tables.c17LazyMarker) sourceNs targetNs ≠ some (some Tables.c17LazyMarker)

/-- **finding C17-lazy-namespace-simple-type**: a part whose type is a user-defined
simple type (or an enumeration, or is absent) keeps `##lazy`. -/
theorem lazy_not_always_resolved : ¬ LazyAlwaysResolved := by
  intro h
  exact h .simple none none (by decide) rfl

/-- the provable part: complex types (the only case the handler treats) -/
theorem lazy_resolved_partial (sourceNs targetNs : Option Str)
    (hs : sourceNs ≠ some Tables.c17LazyMarker) :
    resolveNamespace .complex (some Tables.c17LazyMarker) sourceNs targetNs ≠ some (some Tables.c17LazyMarker) := by
  obtain ⟨_, _, _, _, _, _, h7, _⟩ := protocol_constants
  rw [h7] at hs ⊢
  rw [lazy_decision]
  cases sourceNs with
  | none => cases targetNs with
    | none => simp
    | some t => cases t <;> simp
  | some s => cases s with
    | nil => cases targetNs with
      | none => simp
      | some t => cases t <;> simp
    | cons c s => simpa using hs

example : (some ws!"urn:types" : Option Str) ≠ some Tables.c17LazyMarker := by decide

end Props.C17
