/- C06 — "format then parse" round trip for XmlDate / XmlTime / XmlDateTime.
   Helper lemmas live in `XsdataModel.Proofs.DatesFormatParse`. -/
import XsdataModel.Proofs.DatesFormatParse

namespace Props.C06
open Py Xs.Dates Proofs.DatesFormatParse

/-- |offset| ≤ 14:00 -/
def validOffset (o : Option Int) : Prop := ∀ x, o = some x → -840 ≤ x ∧ x ≤ 840

def validDate (v : XmlDate) : Prop :=
  validateDate v.year v.month v.day = true ∧ validOffset v.offset

def validTime (v : XmlTime) : Prop :=
  validateTime v.hour v.minute v.second v.frac = true ∧ validOffset v.offset

def validDateTime (v : XmlDateTime) : Prop :=
  validateDate v.year v.month v.day = true ∧
  validateTime v.hour v.minute v.second v.frac = true ∧ validOffset v.offset

private theorem toNat_of_nonneg {a : Int} (h : 0 ≤ a) : a = ((a.toNat : Nat) : Int) := by omega

/-- **format_parse (date)**: for every environment, every valid `XmlDate`
(any year — negative, zero, more than four digits) is recovered exactly by
parsing its printed form. -/
theorem date_format_parse (e : Env) (v : XmlDate) (h : validDate v) :
    XmlDate.fromString e v.str = some v := by
  obtain ⟨year, month, day, o⟩ := v
  obtain ⟨hv, ho⟩ := h
  simp only at hv ho
  obtain ⟨hm1, hm2, hd1, hd2⟩ := validateDate_bounds _ _ _ hv
  rw [toNat_of_nonneg (a := month) (by omega), toNat_of_nonneg (a := day) (by omega)] at hv ⊢
  exact date_roundtrip_nat e year _ _ o (by omega) (by omega) ho hv

/-- **format_parse (time)**: likewise for `XmlTime`, including `24:00:00`,
fractional seconds printed with 3, 6 or 9 digits, and every offset form. -/
theorem time_format_parse (e : Env) (v : XmlTime) (h : validTime v) :
    XmlTime.fromString e v.str = some v := by
  obtain ⟨hour, minute, second, frac, o⟩ := v
  obtain ⟨hv, ho⟩ := h
  simp only at hv ho
  obtain ⟨b1, b2, b3, b4, b5, b6, b7, b8⟩ := validateTime_bounds _ _ _ _ hv
  rw [toNat_of_nonneg b1, toNat_of_nonneg b3, toNat_of_nonneg b5, toNat_of_nonneg b7] at hv ⊢
  exact time_roundtrip_nat e _ _ _ _ o (by omega) (by omega) (by omega) (by omega)
    ho hv

/-- **format_parse (dateTime)** -/
theorem datetime_format_parse (e : Env) (v : XmlDateTime) (h : validDateTime v) :
    XmlDateTime.fromString e v.str = some v := by
  obtain ⟨year, month, day, hour, minute, second, frac, o⟩ := v
  obtain ⟨hvd, hvt, ho⟩ := h
  simp only at hvd hvt ho
  obtain ⟨hm1, hm2, hd1, hd2⟩ := validateDate_bounds _ _ _ hvd
  obtain ⟨b1, b2, b3, b4, b5, b6, b7, b8⟩ := validateTime_bounds _ _ _ _ hvt
  rw [toNat_of_nonneg (a := month) (by omega), toNat_of_nonneg (a := day) (by omega)] at hvd ⊢
  rw [toNat_of_nonneg b1, toNat_of_nonneg b3, toNat_of_nonneg b5, toNat_of_nonneg b7] at hvt ⊢
  exact dateTime_roundtrip_nat e year _ _ _ _ _ _ o (by omega) (by omega) (by omega) (by omega)
    (by omega) (by omega) ho hvd hvt

/-! concrete non-trivial values satisfy the hypotheses -/

example : validDate ⟨-12345, 2, 29 - 1, some (-840)⟩ := by
  refine ⟨by decide, ?_⟩
  intro x hx; cases hx; omega

example : validTime ⟨23, 59, 59, 123456000, some 330⟩ := by
  refine ⟨by decide, ?_⟩
  intro x hx; cases hx; omega

example : validDateTime ⟨0, 2, 29, 24, 0, 0, 0, some 0⟩ := by
  refine ⟨by decide, by decide, ?_⟩
  intro x hx; cases hx; omega

end Props.C06
