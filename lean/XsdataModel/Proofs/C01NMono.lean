/-
C01 (fragments F2…): the hypothesis `ctxOK ft` is monotone in the feature set (for a fixed
`inherit` flag, which also *adds* a condition: no declared attribute named `xsi:type`).
-/
import XsdataModel.Bind.FN

namespace Proofs.C01
open Py Xs.Bind Xs.Bind.F1 Xs.Bind.FN

/-- `a ≤ b` on `Bool` -/
def BLe (a b : Bool) : Prop := a = true → b = true

theorem BLe.refl (a : Bool) : BLe a a := fun h => h
theorem BLe.and {a a' b b' : Bool} (h1 : BLe a a') (h2 : BLe b b') : BLe (a && b) (a' && b') := by
  intro h; simp only [Bool.and_eq_true] at h ⊢; exact ⟨h1 h.1, h2 h.2⟩
theorem BLe.or {a a' b b' : Bool} (h1 : BLe a a') (h2 : BLe b b') : BLe (a || b) (a' || b') := by
  intro h; simp only [Bool.or_eq_true] at h ⊢; exact h.imp h1 h2
theorem BLe.all {α : Type} {f g : α → Bool} (l : List α) (h : ∀ x, BLe (f x) (g x)) : BLe (l.all f) (l.all g) := by
  intro hl; simp only [List.all_eq_true] at hl ⊢; exact fun x hx => h x (hl x hx)

/-- one feature set allows what the other allows (the `inherit` flag aside) -/
structure FeatLe0 (ft ft' : Feat) : Prop where
  nillable : BLe ft.nillable ft'.nillable
  tokens : BLe ft.tokens ft'.tokens
  wrapper : BLe ft.wrapper ft'.wrapper
  sequence : BLe ft.sequence ft'.sequence
  fixed : BLe ft.fixed ft'.fixed
  anyAttrs : BLe ft.anyAttrs ft'.anyAttrs
  wildcard : BLe ft.wildcard ft'.wildcard
  union : BLe ft.union ft'.union
  qname : BLe ft.qname ft'.qname

/-- one feature set allows what the other allows, with the same `inherit` flag -/
structure FeatLe (ft ft' : Feat) : Prop where
  nillable : BLe ft.nillable ft'.nillable
  tokens : BLe ft.tokens ft'.tokens
  wrapper : BLe ft.wrapper ft'.wrapper
  sequence : BLe ft.sequence ft'.sequence
  fixed : BLe ft.fixed ft'.fixed
  anyAttrs : BLe ft.anyAttrs ft'.anyAttrs
  wildcard : BLe ft.wildcard ft'.wildcard
  union : BLe ft.union ft'.union
  qname : BLe ft.qname ft'.qname
  inherit : ft.inherit = ft'.inherit

theorem FeatLe.to0 {ft ft' : Feat} (h : FeatLe ft ft') : FeatLe0 ft ft' :=
  ⟨h.nillable, h.tokens, h.wrapper, h.sequence, h.fixed, h.anyAttrs, h.wildcard, h.union, h.qname⟩

/- follow the syntax tree of a Boolean formula (`hb`, `ha`, `he`, `ht`, `hm`: the monotonicity of the
sub-predicates, when in scope) -/
set_option hygiene false in
macro "bmono" : tactic =>
  `(tactic| repeat (first | exact BLe.refl _ | assumption | exact hb | exact ha _ | exact he _ | exact ht _ | exact hm _ _ | apply BLe.and | apply BLe.or | (apply BLe.all; intro _)))

theorem varBase_mono {ft ft' : Feat} (h : FeatLe0 ft ft') (v : XmlVar) : BLe (FN.varBase ft v) (FN.varBase ft' v) := by
  have h1 := h.nillable; have h2 := h.tokens; have h3 := h.wrapper; have h4 := h.sequence; have h5 := h.fixed
  unfold FN.varBase
  bmono

attribute [local irreducible] FN.varBase

theorem attrVarOK_mono {ft ft' : Feat} (h : FeatLe0 ft ft') (m : XmlMeta) (ci : ClassInfo) (v : XmlVar) :
    BLe (FN.attrVarOK ft m ci v) (FN.attrVarOK ft' m ci v) := by
  have hb := varBase_mono h v
  unfold FN.attrVarOK
  bmono

theorem textVarOK_mono {ft ft' : Feat} (h : FeatLe0 ft ft') (ci : ClassInfo) (v : XmlVar) :
    BLe (FN.textVarOK ft ci v) (FN.textVarOK ft' ci v) := by
  have hb := varBase_mono h v
  unfold FN.textVarOK
  bmono

theorem elemVarOK_mono {ft ft' : Feat} (h : FeatLe0 ft ft') (Γ : Ctx) (m : XmlMeta) (ci : ClassInfo) (v : XmlVar) :
    BLe (FN.elemVarOK ft Γ m ci v) (FN.elemVarOK ft' Γ m ci v) := by
  have hb := varBase_mono h v
  have h1 := h.union; have h2 := h.qname
  unfold FN.elemVarOK
  cases v.clazz <;> cases FN.primTypeOf v <;> dsimp only <;> bmono

attribute [local irreducible] FN.attrVarOK FN.textVarOK FN.elemVarOK

theorem metaOK_mono {ft ft' : Feat} (h : FeatLe ft ft') (Γ : Ctx) (ci : ClassInfo) (m : XmlMeta) :
    BLe (FN.metaOK ft Γ ci m) (FN.metaOK ft' Γ ci m) := by
  have h1 := h.nillable; have h2 := h.wildcard; have h3 := h.anyAttrs
  have ha := attrVarOK_mono h.to0 m ci
  have he := elemVarOK_mono h.to0 Γ m ci
  have ht := textVarOK_mono h.to0 ci
  unfold FN.metaOK
  rw [← h.inherit]
  cases m.text <;> dsimp only <;> bmono

/-- switching `inherit` on needs the extra condition of `metaOK`: no attribute declared as `xsi:type` -/
theorem metaOK_mono_inh {ft ft' : Feat} (h : FeatLe0 ft ft') (Γ : Ctx) (ci : ClassInfo) (m : XmlMeta)
    (hD : m.findAttribute xsiType = none) : BLe (FN.metaOK ft Γ ci m) (FN.metaOK ft' Γ ci m) := by
  have h1 := h.nillable; have h2 := h.wildcard; have h3 := h.anyAttrs
  have ha := attrVarOK_mono h m ci
  have he := elemVarOK_mono h Γ m ci
  have ht := textVarOK_mono h ci
  have hi : BLe (!ft.inherit || decide (m.findAttribute xsiType = none))
      (!ft'.inherit || decide (m.findAttribute xsiType = none)) := fun _ => by simp [hD]
  unfold FN.metaOK
  cases m.text <;> dsimp only <;> bmono

/-- no class of the universe declares an attribute under the name `xsi:type` -/
def noTypeAttr (Γ : Ctx) : Bool :=
  Γ.classes.all fun ci => ci.metas.all fun pm => decide (pm.2.findAttribute xsiType = none)

theorem BLe.all_mem {α : Type} {f g : α → Bool} (l : List α) (h : ∀ x ∈ l, BLe (f x) (g x)) :
    BLe (l.all f) (l.all g) := by
  intro hl; simp only [List.all_eq_true] at hl ⊢; exact fun x hx => h x hx (hl x hx)

/-- monotonicity across the `inherit` flag, for universes without a declared `xsi:type` attribute -/
theorem ctxOK_mono_inh {ft ft' : Feat} (h : FeatLe0 ft ft') (Γ : Ctx) (hD : noTypeAttr Γ = true)
    (hΓ : FN.ctxOK ft Γ = true) : FN.ctxOK ft' Γ = true := by
  simp only [noTypeAttr, List.all_eq_true, decide_eq_true_eq] at hD
  have : BLe (FN.ctxOK ft Γ) (FN.ctxOK ft' Γ) := by
    unfold FN.ctxOK
    apply BLe.all_mem
    intro ci hci
    apply BLe.and (BLe.refl _)
    apply BLe.all_mem
    intro pm hpm
    exact metaOK_mono_inh h Γ ci pm.2 (hD ci hci pm hpm)
  exact this hΓ

attribute [local irreducible] FN.metaOK

/-- **monotonicity of the universe hypothesis** -/
theorem ctxOK_mono {ft ft' : Feat} (h : FeatLe ft ft') (Γ : Ctx) (hΓ : FN.ctxOK ft Γ = true) : FN.ctxOK ft' Γ = true := by
  have hm := metaOK_mono h Γ
  have : BLe (FN.ctxOK ft Γ) (FN.ctxOK ft' Γ) := by
    unfold FN.ctxOK
    bmono
  exact this hΓ

/-! ### the instance hypothesis is monotone in the `inherit` flag -/

theorem BLe.false_left (b : Bool) : BLe false b := fun h => by cases h

theorem objOK_mono (Γ : Ctx) (pns : Option Str) (c : ClassId) {rc rc' : ClassId → Option QN → Val → Bool}
    (h : ∀ c xt y, BLe (rc c xt y) (rc' c xt y)) (y : Val) :
    BLe (FN.objOK false Γ pns c rc y) (FN.objOK true Γ pns c rc' y) := by
  cases y with
  | obj cls fs =>
    unfold FN.objOK
    by_cases hcc : cls = c
    · simp only [hcc, if_true]; exact h _ _ _
    · simp only [hcc, if_false, Bool.false_and]; exact BLe.false_left _
  | _ => exact BLe.refl _

theorem clsItemOK_mono (var : XmlVar) (b : Bool) {f g : Val → Bool} (h : ∀ y, BLe (f y) (g y)) (y : Val) :
    BLe (FN.clsItemOK var b f y) (FN.clsItemOK var b g y) := by
  cases y <;> first | exact BLe.refl _ | exact h _

theorem elemValOK_mono (e : BEnv) (Γ : Ctx) (m : XmlMeta) (ci : ClassInfo) (var : XmlVar)
    {rc rc' : ClassId → Option QN → Val → Bool} (h : ∀ c xt y, BLe (rc c xt y) (rc' c xt y)) (x : Val) :
    BLe (FN.elemValOK false e Γ m ci var rc x) (FN.elemValOK true e Γ m ci var rc' x) := by
  unfold FN.elemValOK
  apply BLe.and (BLe.refl _)
  cases var.isWildcard
  · simp only [Bool.false_eq_true, if_false]
    cases var.clazz with
    | none => exact BLe.refl _
    | some c =>
      dsimp only
      cases metaOf Γ c (targetUri m.qname) with
      | none => exact BLe.refl _
      | some m' =>
        dsimp only
        cases var.listElement
        · simp only [Bool.false_eq_true, if_false]
          cases x with
          | obj cls fs => exact objOK_mono Γ _ c h _
          | _ => exact BLe.refl _
        · simp only [if_true]
          cases x with
          | list xs => exact BLe.all xs (clsItemOK_mono var _ (objOK_mono Γ _ c h))
          | _ => exact BLe.refl _
  · exact BLe.refl _

theorem valObjN_mono (e : BEnv) (Γ : Ctx) : ∀ (n : Nat) (pns : Option Str) (c : ClassId) (xt : Option QN) (v : Val),
    BLe (FN.valObjN false e Γ n pns c xt v) (FN.valObjN true e Γ n pns c xt v)
  | 0, _, _, _, _ => BLe.false_left _
  | n + 1, pns, c, xt, v => by
    cases v with
    | obj cls fields =>
      unfold FN.valObjN
      apply BLe.and
      · apply BLe.and (BLe.refl _)
        cases xt with
        | none => exact BLe.refl _
        | some t => exact BLe.false_left _
      · cases Γ.find c with
        | none => exact BLe.refl _
        | some ci =>
          dsimp only
          cases ci.metaFor pns with
          | none => exact BLe.refl _
          | some m =>
            dsimp only
            apply BLe.and (BLe.refl _)
            cases m.text with
            | some tv => exact BLe.refl _
            | none => exact BLe.all _ (fun var => elemValOK_mono e Γ m ci var (valObjN_mono e Γ n _) _)
    | _ => exact BLe.false_left _

/-- an instance of a fragment without inheritance is an instance of the fragments with it -/
theorem valOKI_mono (e : BEnv) (Γ : Ctx) (c : ClassId) (v : Val) (h : FN.valOKI false e Γ c v = true) :
    FN.valOKI true e Γ c v = true :=
  valObjN_mono e Γ v.size none c none v h

end Proofs.C01
