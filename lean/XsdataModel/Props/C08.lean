/- C08 — property theorems (only). -/
import XsdataModel.Proofs.C08Handler
import XsdataModel.Backends.Writer

namespace Props.C08
open Py Xs.Bind Xs.Backends

end Props.C08
