"""More sections for Tables.lean. Each function gets the line writer `w`."""
import extract_tables as T
from extract_tables import chars, extra, lean_bool, nats, strs  # noqa: F401


@extra
def _sys(w):
    import sys

    w("-- interpreter constants")
    w(f"def sysMaxsize : Nat := {sys.maxsize}")
    w("")
