/-
L6 — xsdata/formats/dataclass/parsers/dict.py : `DictDecoder`, and
`XmlContext.find_type_by_fields` / `local_names_match`.

Every recursive path of the decoder goes through `bind_dataclass`; the pieces
below take it as the argument `rec` and `bindDataclassF` ties the knot with a
fuel counter consumed once per nesting level of JSON objects.

`bind_best_dataclass` iterates a `set` of classes in three of its four uses and
keeps the first candidate of maximal score, so its result depends on the
iteration order: the model returns every admissible winner (`ND`).
-/
import XsdataModel.Dict.Basic

namespace Xs.Dict
open Py Xs.Bind

abbrev Rec := ParserConfig → ClassId → J → ND Val

/-! ### `find_var` -/

def varIsList (var : XmlVar) : Bool := var.listElement || var.tokens

/-- the test `DictDecoder.find_var` applies to one var -/
def varMatches (key : Str) (value : J) (var : XmlVar) : Bool :=
  if var.localName = key then value.isNull || value.isArr == varIsList var   -- `value is None or …`
  else if wrapperName var.toVarCore = some key then
    match value with
    | .obj kvs =>
      match kvGet kvs var.localName with
      | some val => val.isArr == varIsList var
      | none => false
    | _ => false
  else false

/-- `DictDecoder.find_var` -/
def findVar (vars : List XmlVar) (key : Str) (value : J) : Option XmlVar :=
  vars.find? (varMatches key value)

/-! ### `bind_text` -/

/-- a JSON value that is kept as it is (any_type / wildcard fields) -/
def rawScalar : J → Option Val
  | .null => some .none
  | .bool b => some (.prim (.bool b))
  | .num i => some (.prim (.int i))
  | .str s => some (.prim (.str s))
  | _ => none

def rawVal : J → Except Err Val
  | .arr xs =>
    match xs.mapM rawScalar with
    | some vs => .ok (.list vs)
    | none => .error (.unsupported "raw nested value")
  | .obj _ => .error (.unsupported "raw mapping")
  | j =>
    match rawScalar j with
    | some v => .ok v
    | none => .error (.unsupported "raw value")

/-- `converter.serialize(value)` for one loaded scalar -/
def serScalar : J → Except Err Str
  | .str s => .ok s
  | .num i => .ok (intStr i)
  | .bool b => .ok (if b then "true".toList else "false".toList)
  -- `" ".join` over a `None` item: `bind_text` reports the TypeError as ParserError
  | .null => .error (.parser "Failed to bind value: null item in a list of tokens")
  | _ => .error (.unsupported "serialize of a nested value")

/-- `converter.serialize(value)` on a loaded JSON value (`None` stays `None`) -/
def serializeJ : J → Except Err (Option Str)
  | .null => .ok none
  | .arr xs => (xs.mapM serScalar).map fun ss => some (" ".toList.intercalate ss)
  | j => (serScalar j).map some

/-- the Python type of a loaded scalar, as a member test against `element.types` -/
def scalarType : J → Option TypeRef
  | .str _ => some (.prim .str)
  | .num _ => some (.prim .int)
  | .bool _ => some (.prim .bool)
  | _ => none

/-- `converter.test(value, types)` (non strict) -/
def converterTest (e : DEnv) (value : J) (types : List TypeRef) : Bool :=
  match value with
  | .str s => (deserialize e.toBEnv s types []).isSome
  | _ => false

/-- `XmlVar.find_value_choice(value, is_class=False)` on a loaded value -/
def findValueChoice (e : DEnv) (var : XmlVar) (value : J) : Except Err (Option VarCore) :=
  let choices := var.elements.map (·.2)
  let isTokens := value.isArr
  let empty := match value with
    | .null => true
    | .arr [] => true
    | _ => false
  if empty then
    .ok (choices.find? fun el => el.nillable && isTokens == el.tokens)
  else
    let tp : Except Err (Option TypeRef) := match value with
      | .arr (x :: _) => .ok (scalarType x)
      | .obj _ => .error (.unsupported "choice for a mapping")
      | j => .ok (scalarType j)
    match tp with
    | .error err => .error err
    | .ok tp =>
      -- a choice of the value's exact type first, then the first one that converts it
      let cands := choices.filter fun el => !(el.anyType || el.clazz.isSome || el.tokens != isTokens)
      match cands.find? (fun el => match tp with | some t => el.types.contains t | none => false) with
      | some el => .ok (some el)
      | none =>
        .ok (cands.find? fun el =>
          if isTokens && (match value with | .arr xs => xs.all (converterTest e · el.types) | _ => false) then true
          else converterTest e value el.types)

/-- a field of a converter type outside this layer (`TypeRef.other name`) given a JSON string:
`parse_var` hands the string to that type's converter; the value is kept as its canonical lexical
form (`DEnv.other`).  `none` = not such a field / the converter raises (then `parse_var`'s usual
warning-or-error treatment applies through the general path, which knows no converter for `other`) -/
def leafOf (e : DEnv) (var : VarCore) (value : J) : Option Str :=
  match var.types, value with
  | [.other name], .str s => if var.tokens then none else e.other name s
  | _, _ => none

/-- `bind_text` for a var that is not a compound field -/
def bindTextPlain (e : DEnv) (cfg : ParserConfig) (var : VarCore) (value : J) : Except Err Val :=
  if var.anyType || var.isWildcard then rawVal value
  -- `if not var.tokens and type(value) in var.types: return value`
  else if !var.tokens && (match scalarType value with | some t => var.types.contains t | none => false) then
    rawVal value
  else
    match leafOf e var value with
    | some x => .ok (.prim (.str x))
    | none =>
      match serializeJ value with
      | .error err => .error err
      | .ok s => (parseVar e.toBEnv cfg var s []).map (·.val)

/-- `DictDecoder.bind_text` -/
def bindText (e : DEnv) (cfg : ParserConfig) (var : XmlVar) (value : J) : Except Err Val :=
  if var.isElements then
    match findValueChoice e var value with
    | .error err => .error err
    | .ok (some choice) => bindTextPlain e cfg choice value
    | .ok none =>
      if value.isNull then .ok .none
      else .error (.parser "Failed to bind value to compound field")
  else bindTextPlain e cfg var.toVarCore value

/-! ### `bind_best_dataclass` -/

/-- twice `ClassType.score_object` of a non-`None` candidate -/
def scoreVal (v : Val) : Nat :=
  match asObject v with
  | some (_, fs) =>
    (fs.map fun kv => match kv.2 with
      | .none => 0
      | .prim (.str _) => 2
      | _ => 3).sum
  | none => 3

def maxScore : List Nat → Option Nat
  | [] => none
  | x :: xs => some (xs.foldl max x)

/-- the keys a candidate class has to declare: with `fail_on_unknown_properties` off the keys
that none of the classes declares are unknown properties and do not count -/
def bestKeys (Γ : Ctx) (cfg : ParserConfig) (classes : List ClassId) (keys : List Str) : List Str :=
  if cfg.failOnUnknownProperties then keys
  else keys.filter fun k => classes.any (localNamesMatch Γ [k])

/-- `DictDecoder.find_best_dataclass` : the trial decodes of the classes that declare the keys,
scored; `none` = no class binds the data (every attempt raised), otherwise the admissible winners -/
def findBestWith (rec : Rec) (cfg : ParserConfig) (ordered : Bool) (matching : List ClassId) (data : J) :
    Except Err (Option (List Val)) :=
  -- `with suppress(Exception): candidate = self.bind_dataclass(data, clazz)`
  let outcomes := matching.map fun k => (rec cfg k data).run
  match outcomes.find? (fun o => match o with | .error (.unsupported _) => true | _ => false) with
  | some (.error err) => .error err
  | _ =>
    let cands : List (List Val) := outcomes.filterMap fun o => match o with
      | .ok vs => some vs
      | .error _ => none
    match maxScore (cands.flatten.map scoreVal) with
    | none => .ok none
    | some mx =>
      if ordered then
        match cands.find? (fun vs => vs.any (scoreVal · == mx)) with
        | some vs => .ok (some (vs.filter (scoreVal · == mx)))
        | none => .ok none
      else .ok (some (cands.flatten.filter (scoreVal · == mx)))

/-- `DictDecoder.bind_best_dataclass(data, classes)`; `ordered` = the iterable is a tuple
(`var.types`), otherwise a `set`.  The candidates are tried with strict conversions; when none
binds and the caller's `fail_on_converter_warnings` is off they are ranked again with the
caller's configuration (the winner bound again is the same value: warnings are not modelled) -/
def bindBestWith (rec : Rec) (Γ : Ctx) (cfg : ParserConfig) (ordered : Bool) (classes : List ClassId)
    (data : J) : ND Val :=
  match data with
  | .obj kvs =>
    let strict : ParserConfig := { cfg with failOnConverterWarnings := true }
    let matching := classes.filter (localNamesMatch Γ (bestKeys Γ cfg classes (kvKeys kvs)))
    match findBestWith rec strict ordered matching data with
    | .error err => ND.fail err
    | .ok (some vs) => ND.choose vs
    | .ok none =>
      if cfg.failOnConverterWarnings then ND.fail (.parser "Failed to bind object to any of the classes")
      else
        match findBestWith rec cfg ordered matching data with
        | .error err => ND.fail err
        | .ok (some vs) => ND.choose vs
        | .ok none => ND.fail (.parser "Failed to bind object to any of the classes")
  | _ => ND.fail (.leaked "AttributeError")

/-- `DictDecoder.bind_complex_type` -/
def bindComplexWith (rec : Rec) (Γ : Ctx) (cfg : ParserConfig) (m : XmlMeta) (var : XmlVar) (data : J) : ND Val :=
  if var.isClazzUnion then bindBestWith rec Γ cfg true (clsTypes var.types) data
  else if !var.elements.isEmpty then bindBestWith rec Γ cfg false (varElementTypes var) data
  else if var.anyType || var.isWildcard then bindBestWith rec Γ cfg false (metaElementTypes m) data
  else
    match var.clazz with
    | none => ND.fail (.parser "Failed to bind object to a field of primitive type")   -- `if var.clazz is None: raise ParserError`
    | some c =>
      let subs := subclassesOf Γ c
      if !subs.isEmpty then bindBestWith rec Γ cfg false (subs ++ [c]) data
      else rec cfg c data

/-! ### derived elements -/

/-- a choice of a compound field as a var -/
def choiceVar (c : VarCore) : XmlVar := c.toVar

/-- `DictDecoder.bind_derived_value` -/
def bindDerivedValueWith (e : DEnv) (rec : Rec) (Γ : Ctx) (cfg : ParserConfig) (m : XmlMeta) (var : XmlVar)
    (kvs : List (Str × J)) : ND Val :=
  -- `data["qname"]`, `data.get("type")`, `data["value"]`
  match kvGet kvs kQName, some ((kvGet kvs kType).getD J.null), kvGet kvs kValue with
  | some (.str qname), some xt, some params =>
    let xsiType : Except Err (Option Str) := match xt with
      | .null => .ok none
      | .str s => .ok (some s)
      | _ => .error (.unsupported "xsi type that is not a string")
    match xsiType with
    | .error err => ND.fail err
    | .ok xsiType =>
      -- `if var.elements: choice = var.find_choice(qname) …` (one hop: a choice has no choices)
      let target : Except Err XmlVar :=
        if !var.elements.isEmpty then
          match var.findChoice qname with
          | some c => .ok c
          | none => .error (.parser "Unable to locate compound element")
        else .ok var
      match target with
      | .error err => ND.fail err
      | .ok var =>
        let value : ND Val :=
          if !params.isObj then ND.ofExcept (bindText e cfg var params)
          else if xsiType.isSome && xsiType ≠ some [] then
            match Γ.findType (xsiType.getD []) with
            | none => ND.fail (.parser "Unable to locate xsi:type")
            | some c => rec cfg c params
          else if var.clazz.isSome then bindComplexWith rec Γ cfg m var params
          else bindBestWith rec Γ cfg false (metaElementTypes m) params
        ND.bind value fun v => ND.pure (.derived qname v xsiType)
  | some _, some _, some _ => ND.fail (.unsupported "derived qname that is not a string")
  | _, _, _ => ND.fail (.leaked "KeyError")

/-- `DictDecoder.bind_derived_dataclass` -/
def bindDerivedDataclassWith (rec : Rec) (Γ : Ctx) (cfg : ParserConfig) (clazz : ClassId)
    (kvs : List (Str × J)) : ND Val :=
  match kvGet kvs kQName, kvGet kvs kType, kvGet kvs kValue with
  | some (.str qname), some xt, some params =>
    let xsiType : Except Err (Option Str) := match xt with
      | .null => .ok none
      | .str s => .ok (some s)
      | _ => .error (.unsupported "xsi type that is not a string")
    match xsiType with
    | .error err => ND.fail err
    | .ok xsiType =>
      let value : ND Val :=
        if clazz = derivedId then
          match (if xsiType.isSome && xsiType ≠ some [] then Γ.findType (xsiType.getD []) else none) with
          | none =>
            -- the message formats `params.keys()`
            if params.isObj then ND.fail (.parser "Unable to locate derived model")
            else ND.fail (.leaked "AttributeError")
          | some c => rec cfg c params
        else rec cfg clazz params
      ND.bind value fun v => ND.pure (.derived qname v xsiType)
  | some _, some _, some _ => ND.fail (.unsupported "derived qname that is not a string")
  | _, _, _ => ND.fail (.leaked "KeyError")

/-! ### `bind_value` -/

/-- `dict(value)` for an `Attributes` field -/
def bindAttributes (value : J) : Except Err Val :=
  match value with
  | .obj kvs =>
    match kvs.mapM (fun kv => match kv.2 with | .str s => some (kv.1, s) | _ => none) with
    | some m => .ok (.attrs m)
    | none => .error (.unsupported "attributes with values that are not strings")
  | .arr [] => .ok (.attrs [])
  | .str [] => .ok (.attrs [])
  -- `except (TypeError, ValueError): raise ParserError` around `dict(value)`
  | .null | .num _ | .bool _ => .error (.parser "Failed to bind value to the attributes field")
  | .str _ => .error (.parser "Failed to bind value to the attributes field")
  | .arr _ => .error (.unsupported "attributes from a sequence")

/-- `bind_value(meta, var, value, recursive=True)` : one item of a repeating element -/
def bindItemWith (e : DEnv) (rec : Rec) (Γ : Ctx) (cfg : ParserConfig) (m : XmlMeta) (var : XmlVar)
    (value : J) : ND Val :=
  if var.isAttributes then ND.ofExcept (bindAttributes value)
  else
    match value with
    | .obj kvs =>
      if isGeneric kvs anyRequired anyKeys then rec cfg anyId value
      else if isGeneric kvs derivedRequired derivedKeys then bindDerivedValueWith e rec Γ cfg m var kvs
      else bindComplexWith rec Γ cfg m var value
    | _ => ND.ofExcept (bindText e cfg var value)

/-- `DictDecoder.bind_value(meta, var, value)` -/
def bindValueWith (e : DEnv) (rec : Rec) (Γ : Ctx) (cfg : ParserConfig) (m : XmlMeta) (var : XmlVar)
    (value : J) : ND Val :=
  if var.isAttributes then ND.ofExcept (bindAttributes value)
  else
    match value with
    | .arr xs =>
      if var.listElement then
        ND.bind (ND.mapM (bindItemWith e rec Γ cfg m var) xs) fun vs => ND.pure (.list vs)
      else bindItemWith e rec Γ cfg m var value
    | _ => bindItemWith e rec Γ cfg m var value

/-! ### `bind_dataclass` -/

/-- `value = value[var.local_name]` for a wrapped var -/
def unwrapValue (var : XmlVar) (value : J) : Except Err J :=
  match wrapperName var.toVarCore with
  | none => .ok value
  | some _ =>
    match value with
    | .obj kvs =>
      match kvGet kvs var.localName with
      | some x => .ok x
      | none => .error (.leaked "KeyError")
    | _ => .error (.leaked "TypeError")

/-- `if var.wrapper and var.local_name != key: value = value[var.local_name]` : the value is
only unwrapped when it was found under the wrapper key -/
def unwrapFor (var : XmlVar) (key : Str) (value : J) : Except Err J :=
  if var.localName = key then .ok value else unwrapValue var value

/-- the loop `for key, value in data.items()` of `bind_dataclass` -/
def bindPairsWith (e : DEnv) (rec : Rec) (Γ : Ctx) (cfg : ParserConfig) (m : XmlMeta) (vars : List XmlVar) :
    List (Str × J) → Params → ND Params
  | [], params => ND.pure params
  | (key, value) :: rest, params =>
    match findVar vars key value with
    | none =>
      if cfg.failOnUnknownProperties then ND.fail (.parser "Unknown property")
      else bindPairsWith e rec Γ cfg m vars rest params
    | some var =>
      match unwrapFor var key value with
      | .error err => ND.fail err
      | .ok value =>
        -- `if value is None and var.list_element: continue` : a null stands for no items
        if value.isNull && var.listElement then bindPairsWith e rec Γ cfg m vars rest params else
        ND.bind (bindValueWith e rec Γ cfg m var value) fun v =>
          if var.init then bindPairsWith e rec Γ cfg m vars rest (params.set var.name v)
          else
            match validateFixed e.py var.toVarCore v with
            | .error err => ND.fail err
            | .ok () => bindPairsWith e rec Γ cfg m vars rest params

/-- `DictDecoder.bind_dataclass(data, clazz)` -/
def bindDataclassWith (e : DEnv) (rec : Rec) (Γ : Ctx) (cfg : ParserConfig) (clazz : ClassId) (data : J) : ND Val :=
  match data with
  | .obj kvs =>
    if keysEq kvs derivedKeys then bindDerivedDataclassWith rec Γ cfg clazz kvs
    else
      match metaOf Γ clazz with
      | .error err => ND.fail err
      | .ok m =>
        ND.bind (bindPairsWith e rec Γ cfg m (allVars m) kvs []) fun params =>
          match classFactory Γ clazz params with
          | .error err => ND.fail err
          | .ok v => ND.ofExcept (genericView v)
  | _ => ND.fail (.parser "Expected an object")      -- `isinstance(data, dict)` guard

def bindDataclassF (e : DEnv) (Γ : Ctx) : Nat → Rec
  | 0 => fun _ _ _ => ND.fail (.unsupported "fuel")
  | n + 1 => fun cfg clazz data => bindDataclassWith e (bindDataclassF e Γ n) Γ cfg clazz data

/-! ### `decode` -/

/-- Python `str.__lt__` (code point order) -/
def strLt : Str → Str → Bool
  | [], [] => false
  | [], _ :: _ => true
  | _ :: _, [] => false
  | a :: as, b :: bs => if a.toNat < b.toNat then true else if a.toNat > b.toNat then false else strLt as bs

/-- `XmlContext.find_type_by_fields` : `choices.sort(key=(diff, __name__))`, first -/
def findTypeByFields (Γ : Ctx) (names : List Str) : Option ClassId :=
  let all := (Γ.xsiIndex.map (·.2)).flatten
  let choices := all.filterMap fun c =>
    if localNamesMatch Γ names c then
      (localNames Γ c).map fun ln => (c, (dedup ln).countP (fun n => !names.contains n))
    else none
  let better (a b : ClassId × Nat) : Bool := a.2 < b.2 || (a.2 == b.2 && strLt a.1 b.1)
  match choices with
  | [] => none
  | x :: xs => some (xs.foldl (fun best y => if better y best then y else best) x).1

/-- the `clazz` argument of `decode` -/
inductive Target
  | detect                    -- `None`
  | cls (c : ClassId)
  | listOf (c : ClassId)      -- `List[c]`
deriving Repr, DecidableEq

def jFalsy : J → Bool
  | .null => true
  | .bool b => !b
  | .num i => i == 0
  | .str s => s.isEmpty
  | .arr xs => xs.isEmpty
  | .obj kvs => kvs.isEmpty

/-- `DictDecoder.detect_type` -/
def detectType (Γ : Ctx) (data : J) : Except Err ClassId :=
  if jFalsy data then .error (.parser "Document is empty, can not detect type")
  else
    let keys : Except Err (List Str) := match data with
      | .arr (.obj kvs :: _) => .ok (kvKeys kvs)
      | .obj kvs => .ok (kvKeys kvs)
      | _ => .error (.parser "Document is not an object, can not detect type")
    match keys with
    | .error err => .error err
    | .ok keys =>
      match findTypeByFields Γ keys with
      | some c => .ok c
      | none => .error (.parser "Unable to locate model with properties")

/-- `DictDecoder.verify_type` -/
def verifyType (Γ : Ctx) (target : Target) (data : J) : Except Err ClassId :=
  match target with
  | .detect => detectType Γ data
  | .cls c => if data.isArr then .error (.parser "Document is array, expected object") else .ok c
  | .listOf c => if !data.isArr then .error (.parser "Document is object, expected array") else .ok c

/-- `DictDecoder.decode(data, clazz)`; a list document decodes to `Val.list` -/
def decode (e : DEnv) (Γ : Ctx) (cfg : ParserConfig) (fuel : Nat) (target : Target) (data : J) : ND Val :=
  match verifyType Γ target data with
  | .error err => ND.fail err
  | .ok tp =>
    match data with
    | .arr xs => ND.bind (ND.mapM (bindDataclassF e Γ fuel cfg tp) xs) fun vs => ND.pure (.list vs)
    | _ => bindDataclassF e Γ fuel cfg tp data

/-- `JsonParser.from_string` with `json.load` as a parameter -/
def parseText {Text} (lib : JsonLib Text) (e : DEnv) (Γ : Ctx) (cfg : ParserConfig) (fuel : Nat)
    (target : Target) (t : Text) : ND Val :=
  match lib.load t with
  | some j => decode e Γ cfg fuel target j
  | none => ND.fail (.leaked "JSONDecodeError")

end Xs.Dict
