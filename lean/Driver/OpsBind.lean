import Driver.Proto
import XsdataModel.Py.TblEnv
import XsdataModel.Bind.Write
import XsdataModel.Bind.F1
open Lean Proto Py Xs.Bind

namespace OpsBind

/-! ### decoders -/

def dStr (j : Json) : Except String Str := asStr j
def dOptStr (j : Json) : Except String (Option Str) :=
  match j with
  | .null => .ok none
  | _ => (asStr j).map some

def field (j : Json) (k : String) : Json := j.getObjValD k

def dBool (j : Json) : Except String Bool :=
  match j with
  | .bool b => .ok b
  | _ => .error "expected bool"

def dNat (j : Json) : Except String Nat :=
  match j.getNat? with
  | .ok n => .ok n
  | .error _ => .error "expected nat"

def dPVal (j : Json) : Except String PVal :=
  match j.getObjVal? "str", j.getObjVal? "int", j.getObjVal? "bool", j.getObjVal? "qname" with
  | .ok s, _, _, _ => (asStr s).map .str
  | _, .ok i, _, _ => (asInt i).map .int
  | _, _, .ok b, _ => (dBool b).map .bool
  | _, _, _, .ok q => (asStr q).map .qname
  | _, _, _, _ => .error s!"bad pval {j.compress}"

def dPT (s : String) : Except String PT :=
  match s with
  | "str" => .ok .str | "int" => .ok .int | "bool" => .ok .bool | "qname" => .ok .qname
  | _ => .error s!"bad prim type {s}"

def dTypeRef (j : Json) : Except String TypeRef :=
  match j with
  | .str "obj" => .ok .obj
  | _ =>
    match j.getObjVal? "prim", j.getObjVal? "cls", j.getObjVal? "other" with
    | .ok (.str p), _, _ => (dPT p).map .prim
    | _, .ok c, _ => (asStr c).map .cls
    | _, _, .ok o => (asStr o).map .other
    | _, _, _ => .error s!"bad typeref {j.compress}"

def dDefault (j : Json) : Except String DefaultV :=
  match j with
  | .null => .ok .none
  | .str "list" => .ok .listFactory
  | .str "dict" => .ok .dictFactory
  | .str "other" => .ok .other
  | _ => match j.getObjVal? "val" with
    | .ok v => (dPVal v).map .val
    | _ => .error "bad default"

def dKind (s : String) : Except String VarKind :=
  match s with
  | "text" => .ok .text | "element" => .ok .element | "elements" => .ok .elements
  | "wildcard" => .ok .wildcard | "attribute" => .ok .attribute | "attributes" => .ok .attributes
  | _ => .error s!"bad kind {s}"

def dList {α} (f : Json → Except String α) (j : Json) : Except String (List α) := do
  let a ← asArr j
  a.mapM f

def dPair {α β} (f : Json → Except String α) (g : Json → Except String β) (j : Json) : Except String (α × β) :=
  match j with
  | .arr #[a, b] => do pure (← f a, ← g b)
  | _ => .error "expected pair"

def dVarCore (j : Json) : Except String VarCore := do
  let kind ← match field j "kind" with
    | .str k => dKind k
    | _ => .error "kind"
  pure {
    index := ← dNat (field j "index")
    name := ← dStr (field j "name")
    localName := ← dStr (field j "local_name")
    qname := ← dStr (field j "qname")
    wrapperQName := ← dOptStr (field j "wrapper_qname")
    types := ← dList dTypeRef (field j "types")
    clazz := ← dOptStr (field j "clazz")
    init := ← dBool (field j "init")
    mixed := ← dBool (field j "mixed")
    tokens := ← dBool (field j "tokens")
    format := ← dOptStr (field j "format")
    anyType := ← dBool (field j "any_type")
    processContents := ← dStr (field j "process_contents")
    required := ← dBool (field j "required")
    nillable := ← dBool (field j "nillable")
    sequence := ← (match field j "sequence" with | .null => pure none | x => (dNat x).map some)
    listElement := ← dBool (field j "list_element")
    default := ← dDefault (field j "default")
    namespaces := ← dList dStr (field j "namespaces")
    kind := kind
    isClazzUnion := ← dBool (field j "is_clazz_union")
  }

def dVar (j : Json) : Except String XmlVar := do
  let core ← dVarCore j
  let els ← dList (dPair dStr dVarCore) (field j "elements")
  let wcs ← dList dVarCore (field j "wildcards")
  pure { core with elements := els, wildcards := wcs }

def dMeta (j : Json) : Except String XmlMeta := do
  pure {
    clazz := ← dStr (field j "clazz")
    qname := ← dStr (field j "qname")
    targetQName := ← dOptStr (field j "target_qname")
    nillable := ← dBool (field j "nillable")
    text := ← (match field j "text" with | .null => pure none | x => (dVar x).map some)
    choices := ← dList dVar (field j "choices")
    elements := ← dList (dPair dStr (dList dVar)) (field j "elements")
    wildcards := ← dList dVar (field j "wildcards")
    attributes := ← dList (dPair dStr dVar) (field j "attributes")
    anyAttributes := ← dList dVar (field j "any_attributes")
    wrappers := ← dList (dPair dStr dStr) (field j "wrappers")
  }

partial def dVal (j : Json) : Except String Val :=
  match j with
  | .null => .ok .none
  | _ =>
    match j.getObjVal? "list", j.getObjVal? "obj", j.getObjVal? "any", j.getObjVal? "derived", j.getObjVal? "attrs" with
    | .ok l, _, _, _, _ => do
      let xs ← asArr l
      let vs ← xs.mapM dVal
      pure (.list vs)
    | _, .ok c, _, _, _ => do
      let fs ← asArr (field j "fields")
      let fs ← fs.mapM (fun p => match p with
        | .arr #[k, v] => do pure (← asStr k, ← dVal v)
        | _ => .error "field pair")
      pure (.obj (← asStr c) fs)
    | _, _, .ok a, _, _ => do
      let kids ← asArr (field a "children")
      let kids ← kids.mapM dVal
      pure (.any (← dOptStr (field a "qname")) (← dOptStr (field a "text")) (← dOptStr (field a "tail"))
        (← dList (dPair dStr dStr) (field a "attrs")) kids)
    | _, _, _, .ok d, _ => do
      pure (.derived (← dStr (field d "qname")) (← dVal (field d "value")) (← dOptStr (field d "type")))
    | _, _, _, _, .ok m => do
      pure (.attrs (← dList (dPair dStr dStr) m))
    | _, _, _, _, _ => (dPVal j).map .prim

def dFieldInfo (j : Json) : Except String FieldInfo := do
  let d ← match j.getObjVal? "default" with
    | .ok v => (dVal v).map some
    | .error _ => pure none
  pure { name := ← dStr (field j "name"), init := ← dBool (field j "init"), default := d }

def dClass (j : Json) : Except String ClassInfo := do
  pure {
    id := ← dStr (field j "id")
    metas := ← dList (dPair dOptStr dMeta) (field j "metas")
    mro := ← dList dStr (field j "mro")
    bases := ← dList dStr (field j "bases")
    fields := ← dList dFieldInfo (field j "fields")
  }

def dCtx (j : Json) : Except String Ctx := do
  let dts ← dList (dPair dStr (fun x => match x with
      | .str p => (dPT p).map some
      | .null => pure none
      | _ => .error "datatype")) (field j "datatypes")
  pure {
    classes := ← dList dClass (field j "classes")
    xsiIndex := ← dList (dPair dStr (dList dStr)) (field j "xsi_index")
    datatypes := dts
  }

partial def dTree (j : Json) : Except String Tree := do
  let kids ← asArr (field j "c")
  let kids ← kids.mapM dTree
  let ns ← dList (dPair dOptStr dStr) (field j "ns")
  pure (.node (← dStr (field j "q")) (← dList (dPair dStr dStr) (field j "a")) ns (← dOptStr (field j "t")) kids
    (← dOptStr (field j "tl")))

def dCfg (j : Json) : ParserConfig :=
  { failOnUnknownProperties := (field j "fail_on_unknown_properties").getBool?.toOption.getD true
    failOnUnknownAttributes := (field j "fail_on_unknown_attributes").getBool?.toOption.getD false
    failOnConverterWarnings := (field j "fail_on_converter_warnings").getBool?.toOption.getD false }

/-! ### encoders -/

def jPVal : PVal → Json
  | .str s => jObj [("str", jStr s)]
  | .int i => jObj [("int", jInt i)]
  | .bool b => jObj [("bool", jBool b)]
  | .qname t => jObj [("qname", jStr t)]

def jPairs (kv : List (Str × Str)) : Json := jList (fun (k, v) => Json.arr #[jStr k, jStr v]) kv

partial def jVal : Val → Json
  | .none => Json.null
  | .prim p => jPVal p
  | .list xs => jObj [("list", jList jVal xs)]
  | .obj c fs => jObj [("obj", jStr c), ("fields", jList (fun (k, v) => Json.arr #[jStr k, jVal v]) fs)]
  | .any q t tl a cs => jObj [("any", jObj [("qname", jOpt jStr q), ("text", jOpt jStr t), ("tail", jOpt jStr tl),
      ("attrs", jPairs a), ("children", jList jVal cs)])]
  | .derived q v t => jObj [("derived", jObj [("qname", jStr q), ("value", jVal v), ("type", jOpt jStr t)])]
  | .attrs m => jObj [("attrs", jPairs m)]

partial def jData : Data → Json
  | .none => Json.null
  | .prim p => jPVal p
  | .list ds => jObj [("list", jList jData ds)]

def jEv : Ev → Json
  | .start q => Json.arr #[Json.str "start", jStr q]
  | .attr q d => Json.arr #[Json.str "attr", jStr q, jData d]
  | .data d => Json.arr #[Json.str "data", jData d]
  | .end q => Json.arr #[Json.str "end", jStr q]

partial def jTree : Tree → Json
  | .node q a ns t c tl => jObj [("q", jStr q), ("a", jPairs a),
      ("ns", jList (fun (p, u) => Json.arr #[jOpt jStr p, jStr u]) ns), ("t", jOpt jStr t),
      ("c", jList jTree c), ("tl", jOpt jStr tl)]

def jErr : Err → Json
  | .parser _ => err "ParserError"
  | .converter => err "ConverterError"
  | .context _ => err "XmlContextError"
  | .serializer _ => err "SerializerError"
  | .leaked t => err ("LEAK:" ++ t)
  | .unsupported w => jObj [("unsupported", Json.str w)]

/-- ASCII approximation of `is_ncname` / `is_uri` used by the driver (generators stay inside it) -/
def asciiNCName (s : Str) : Bool :=
  match s with
  | [] => false
  | c :: cs => (c.isAlpha || c = '_') && cs.all (fun d => d.isAlphanum || d = '.' || d = '-' || d = '_')

def asciiUri (s : Str) : Bool :=
  !s.isEmpty && s.all (fun c => c.isAlphanum || ";/?:@&=+$.-_!~*'()%#,".toList.contains c)

def benv : BEnv := ⟨tblEnv, asciiNCName, asciiUri⟩

def isDatatype (Γ : Ctx) (s : Str) : Bool := (Γ.datatypes.find? (·.1 = s)).isSome

def run (op : String) (a : Json) : Option (Except String Json) :=
  match op with
  | "bind.parse" => some do
      let Γ ← dCtx (field a "ctx")
      let t ← dTree (field a "tree")
      let c ← dStr (field a "clazz")
      pure <| match parseRoot benv Γ (dCfg (field a "config")) c t with
        | .ok (v, w) => ok (jObj [("value", jVal v), ("warnings", jNat w)])
        | .error e => jErr e
  | "bind.generate" => some do
      let Γ ← dCtx (field a "ctx")
      let v ← dVal (field a "value")
      let cfg : SerCfg := { ignoreDefaultAttributes := (field a "ignore_default_attributes").getBool?.toOption.getD false }
      pure <| match generate benv Γ cfg v with
        | .ok evs => ok (jList jEv evs)
        | .error e => jErr e
  | "bind.roundtrip" => some do
      let Γ ← dCtx (field a "ctx")
      let v ← dVal (field a "value")
      let c ← dStr (field a "clazz")
      let cfg : SerCfg := { ignoreDefaultAttributes := (field a "ignore_default_attributes").getBool?.toOption.getD false }
      -- `prefixes`: the namespaces the abstract writer binds to its prefixes `q0, q1, …` (the harness
      -- compares generic text that holds such a prefix by the name it denotes)
      let uris := match generate benv Γ cfg v with
        | .ok evs => collectUris evs
        | .error _ => []
      pure <| match (generate benv Γ cfg v).bind (eventsTree (isDatatype Γ)) with
        | .error e => jErr e
        | .ok t =>
          match parseRoot benv Γ (dCfg (field a "config")) c t with
          | .ok (v', w) => ok (jObj [("value", jVal v'), ("warnings", jNat w), ("prefixes", jList jStr uris)])
          | .error e => jErr e
  | "bind.ctxF1" => some do
      -- fragment F1 of C01 (`Xs.Bind.F1.ctxF1`) evaluated on an exported universe
      let Γ ← dCtx (field a "ctx")
      pure (ok (jBool (F1.ctxF1 Γ)))
  | _ => none

end OpsBind
