/- Helper lemmas for Props/C17.lean: dicts as association lists, qname
round trip, accessors of `Cls`, the loops of the mapper. -/
import XsdataModel.Wsdl.Mapper
import XsdataModel.Wsdl.Client

set_option linter.unusedSectionVars false

namespace Xs.Wsdl
open Py

/-! ## dicts -/

section Dict
variable {κ β : Type} [BEq κ] [LawfulBEq κ]

/-- the value a sequence of assignments leaves at `k` (`none`: not assigned) -/
def lastVal (kvs : List (κ × β)) (k : κ) : Option β :=
  kvs.foldl (fun acc kv => if kv.1 == k then some kv.2 else acc) none

theorem aget_aset (d : List (κ × β)) (k k' : κ) (v : β) :
    aget (aset d k v) k' = if k' == k then some v else aget d k' := by
  induction d with
  | nil =>
    simp only [aset, aget, List.lookup]
    by_cases h : k' == k <;> simp [h]
  | cons hd tl ih =>
    obtain ⟨a, b⟩ := hd
    simp only [aset]
    by_cases hk : k == a
    · have hka : k = a := eq_of_beq hk
      subst hka
      simp only [beq_self_eq_true, ↓reduceIte]
      simp only [aget, List.lookup]
      by_cases h : k' == k <;> simp [h]
    · have hk' : (k == a) = false := by simpa using hk
      simp only [hk', Bool.false_eq_true, ↓reduceIte]
      simp only [aget, List.lookup] at ih ⊢
      by_cases h : k' == a
      · have : k' = a := eq_of_beq h
        subst this
        have hne : (k' == k) = false := by
          cases hh : k' == k
          · rfl
          · have : k' = k := eq_of_beq hh
            subst this; simp at hk
        simp [hne]
      · simp only [h]
        exact ih

omit [LawfulBEq κ] in
private theorem foldl_last_acc (kvs : List (κ × β)) (k : κ) (acc : Option β) :
    kvs.foldl (fun acc kv => if kv.1 == k then some kv.2 else acc) acc
      = (lastVal kvs k).or acc := by
  induction kvs generalizing acc with
  | nil => simp [lastVal]
  | cons hd tl ih =>
    simp only [lastVal, List.foldl_cons]
    rw [ih, ih (if hd.1 == k then some hd.2 else none)]
    by_cases h : hd.1 == k <;> simp [h]

theorem lastVal_cons (kv : κ × β) (kvs : List (κ × β)) (k : κ) :
    lastVal (kv :: kvs) k = (lastVal kvs k).or (if kv.1 == k then some kv.2 else none) := by
  simp only [lastVal, List.foldl_cons]
  rw [foldl_last_acc]
  rfl

theorem lastVal_append (xs ys : List (κ × β)) (k : κ) :
    lastVal (xs ++ ys) k = (lastVal ys k).or (lastVal xs k) := by
  simp only [lastVal, List.foldl_append]
  rw [foldl_last_acc]
  rfl

theorem aget_foldl_aset (kvs d : List (κ × β)) (k : κ) :
    aget (kvs.foldl (fun acc kv => aset acc kv.1 kv.2) d) k = (lastVal kvs k).or (aget d k) := by
  induction kvs generalizing d with
  | nil => simp [lastVal]
  | cons hd tl ih =>
    simp only [List.foldl_cons]
    rw [ih, lastVal_cons, aget_aset]
    by_cases h : hd.1 == k
    · have : k = hd.1 := (eq_of_beq h).symm
      subst this
      simp
    · have h' : (k == hd.1) = false := by
        cases hh : k == hd.1
        · rfl
        · have : k = hd.1 := eq_of_beq hh
          subst this; simp at h
      simp [h, h']

/-- `d.update(other)` then `get`: the last assignment of `other` wins, else `d` -/
theorem aget_aupdate (d o : List (κ × β)) (k : κ) :
    aget (aupdate d o) k = (lastVal o k).or (aget d k) := by
  unfold aupdate
  exact aget_foldl_aset o d k

/-- keys of a dict built by assignments are distinct -/
theorem aset_keys_nodup (d : List (κ × β)) (k : κ) (v : β) (h : (d.map (·.1)).Nodup) :
    ((aset d k v).map (·.1)).Nodup := by
  induction d with
  | nil => simp [aset]
  | cons hd tl ih =>
    obtain ⟨a, b⟩ := hd
    simp only [aset]
    by_cases hk : k == a
    · simp only [hk, ↓reduceIte]
      simpa using h
    · have hk' : (k == a) = false := by simpa using hk
      simp only [hk', Bool.false_eq_true, ↓reduceIte]
      simp only [List.map_cons, List.nodup_cons] at h ⊢
      refine ⟨?_, ih h.2⟩
      intro hm
      have : ∀ d : List (κ × β), a ∈ (aset d k v).map (·.1) → a ∈ d.map (·.1) ∨ a = k := by
        intro d
        induction d with
        | nil => simp [aset]
        | cons hd2 tl2 ih2 =>
          obtain ⟨a2, b2⟩ := hd2
          simp only [aset]
          by_cases hk2 : k == a2
          · simp only [hk2, ↓reduceIte]; intro h; exact Or.inl (by simpa using h)
          · have hk2' : (k == a2) = false := by simpa using hk2
            simp only [hk2', Bool.false_eq_true, ↓reduceIte]
            simp only [List.map_cons, List.mem_cons]
            rintro (h | h)
            · exact Or.inl (Or.inl h)
            · rcases ih2 h with h | h
              · exact Or.inl (Or.inr h)
              · exact Or.inr h
      rcases this tl hm with h1 | h1
      · exact h.1 h1
      · subst h1; simp at hk

theorem foldl_aset_keys_nodup (kvs d : List (κ × β)) (h : (d.map (·.1)).Nodup) :
    ((kvs.foldl (fun acc kv => aset acc kv.1 kv.2) d).map (·.1)).Nodup := by
  induction kvs generalizing d with
  | nil => simpa using h
  | cons hd tl ih => exact ih _ (aset_keys_nodup d hd.1 hd.2 h)

theorem mem_iff_aget_of_nodup (d : List (κ × β)) (h : (d.map (·.1)).Nodup) (k : κ) (v : β) :
    (k, v) ∈ d ↔ aget d k = some v := by
  induction d with
  | nil => simp [aget]
  | cons hd tl ih =>
    obtain ⟨a, b⟩ := hd
    simp only [List.map_cons, List.nodup_cons] at h
    simp only [aget, List.lookup, List.mem_cons, Prod.mk.injEq]
    by_cases hk : k == a
    · have : k = a := eq_of_beq hk
      subst this
      simp only [beq_self_eq_true, true_and]
      constructor
      · rintro (h1 | h1)
        · simp [h1]
        · exact absurd (List.mem_map_of_mem (f := (·.1)) h1) h.1
      · intro h1; left; simpa using h1.symm
    · have hne : k ≠ a := by intro e; subst e; simp at hk
      simp only [hk]
      have := ih h.2
      simp only [aget] at this
      rw [← this]
      simp [hne]

end Dict

/-! ## accessors of `Cls` -/

@[simp] theorem Cls.setAttrs_qname (c : Cls) (a) : (c.setAttrs a).qname = c.qname := by cases c; rfl
@[simp] theorem Cls.setInner_qname (c : Cls) (a) : (c.setInner a).qname = c.qname := by cases c; rfl
@[simp] theorem Cls.setNsMap_qname (c : Cls) (a) : (c.setNsMap a).qname = c.qname := by cases c; rfl
@[simp] theorem Cls.setAttrs_name (c : Cls) (a) : (c.setAttrs a).name = c.name := by cases c; rfl
@[simp] theorem Cls.setInner_name (c : Cls) (a) : (c.setInner a).name = c.name := by cases c; rfl
@[simp] theorem Cls.setNsMap_name (c : Cls) (a) : (c.setNsMap a).name = c.name := by cases c; rfl
@[simp] theorem Cls.setAttrs_attrs (c : Cls) (a) : (c.setAttrs a).attrs = a := by cases c; rfl
@[simp] theorem Cls.setInner_attrs (c : Cls) (a) : (c.setInner a).attrs = c.attrs := by cases c; rfl
@[simp] theorem Cls.setNsMap_attrs (c : Cls) (a) : (c.setNsMap a).attrs = c.attrs := by cases c; rfl
@[simp] theorem Cls.setAttrs_inner (c : Cls) (a) : (c.setAttrs a).inner = c.inner := by cases c; rfl
@[simp] theorem Cls.setInner_inner (c : Cls) (a) : (c.setInner a).inner = a := by cases c; rfl
@[simp] theorem Cls.setNsMap_inner (c : Cls) (a) : (c.setNsMap a).inner = c.inner := by cases c; rfl
@[simp] theorem Cls.setAttrs_ns (c : Cls) (a) : (c.setAttrs a).ns = c.ns := by cases c; rfl
@[simp] theorem Cls.setInner_ns (c : Cls) (a) : (c.setInner a).ns = c.ns := by cases c; rfl
@[simp] theorem Cls.setNsMap_ns (c : Cls) (a) : (c.setNsMap a).ns = c.ns := by cases c; rfl
@[simp] theorem Cls.setAttrs_metaName (c : Cls) (a) : (c.setAttrs a).metaName = c.metaName := by cases c; rfl
@[simp] theorem Cls.setInner_metaName (c : Cls) (a) : (c.setInner a).metaName = c.metaName := by cases c; rfl
@[simp] theorem Cls.setNsMap_metaName (c : Cls) (a) : (c.setNsMap a).metaName = c.metaName := by cases c; rfl
@[simp] theorem Cls.setAttrs_tag (c : Cls) (a) : (c.setAttrs a).tag = c.tag := by cases c; rfl
@[simp] theorem Cls.setInner_tag (c : Cls) (a) : (c.setInner a).tag = c.tag := by cases c; rfl
@[simp] theorem Cls.setNsMap_tag (c : Cls) (a) : (c.setNsMap a).tag = c.tag := by cases c; rfl
@[simp] theorem Cls.setAttrs_targetNamespace (c : Cls) (a) : (c.setAttrs a).targetNamespace = c.targetNamespace := by cases c; rfl
@[simp] theorem Cls.setInner_targetNamespace (c : Cls) (a) : (c.setInner a).targetNamespace = c.targetNamespace := by cases c; rfl
@[simp] theorem Cls.setNsMap_targetNamespace (c : Cls) (a) : (c.setNsMap a).targetNamespace = c.targetNamespace := by cases c; rfl

end Xs.Wsdl
