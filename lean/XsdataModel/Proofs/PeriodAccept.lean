/-
Helper lemmas for C06: `XmlPeriod._parse_period` sends every XSD-valid
gYear / gYearMonth / gMonth / gMonthDay / gDay lexical form (`Spec/XsdDate.lean`)
to the right format and yields the components XSD assigns.  Core Lean only.
-/
import XsdataModel.Proofs.DatesAccept
import XsdataModel.Lex.Period

namespace Proofs.PeriodAccept
open Py Xs.Dates Xs.Spec Proofs.DatesFormatParse Proofs.DatesAccept
open Xs.Conv (AllDigits charVal AllXsdSpace Tight strip_xsd_pad)

/-! ### `find` / `rfind` -/

theorem findChar_isSome (s : Str) (c : Char) : (findChar s c).isSome = true ↔ c ∈ s := by
  unfold findChar
  rw [List.findIdx?_isSome]
  simp

theorem findChar_none (s : Str) (c : Char) (h : c ∉ s) : (findChar s c).isSome = false := by
  cases hh : (findChar s c).isSome with
  | false => rfl
  | true => exact absurd ((findChar_isSome s c).1 hh) h

theorem findIdx_skip (p : Char → Bool) (u : Str) (c : Char) (w : Str) (hu : ∀ x ∈ u, p x = false)
    (hc : p c = true) : (u ++ c :: w).findIdx? p = some u.length := by
  induction u with
  | nil => simp [List.findIdx?_cons, hc]
  | cons a u ih =>
    have ha : p a = false := hu a (by simp)
    have := ih (fun x hx => hu x (by simp [hx]))
    simp [List.findIdx?_cons, ha, this]

theorem rfindChar_split (p t : Str) (c : Char) (ht : c ∉ t) :
    rfindChar (p ++ c :: t) c = some p.length := by
  unfold rfindChar
  have hr : (p ++ c :: t).reverse = t.reverse ++ c :: p.reverse := by simp
  rw [hr, findIdx_skip (· = c) t.reverse c p.reverse (by
    intro x hx
    have : x ∈ t := by simpa using hx
    simp; intro h; subst h; exact ht this) (by simp)]
  simp

theorem rfindChar_none (s : Str) (c : Char) (h : c ∉ s) : rfindChar s c = none := by
  unfold rfindChar
  have : s.reverse.findIdx? (· = c) = none := by
    rw [List.findIdx?_eq_none_iff]
    intro x hx
    have : x ∈ s := by simpa using hx
    simp; intro h'; subst h'; exact h this
  rw [this]

/-! ### characters of the fragments -/

theorem digit_ne_dash {c : Char} (h : isAsciiDigit c = true) : c ≠ '-' := digit_ne h (by decide)
theorem digit_ne_colon {c : Char} (h : isAsciiDigit c = true) : c ≠ ':' := digit_ne h (by decide)

theorem dash_notin_digits {s : Str} (h : AllD s) : '-' ∉ s := fun hm => digit_ne_dash (h _ hm) rfl
theorem colon_notin_digits {s : Str} (h : AllD s) : ':' ∉ s := fun hm => digit_ne_colon (h _ hm) rfl

/-- what the dispatcher needs to know of a timezone fragment -/
theorem tz_facts {zs : Str} {o : Option Int} (h : TzFrag zs o) :
    (zs.length = 0 ∨ zs.length = 1 ∨ zs.length = 6) ∧ (':' ∈ zs ↔ zs.length = 6) ∧
    zs.take 2 ≠ ['-', '-'] ∧ ((':' ∉ zs) → '-' ∉ zs) := by
  rcases h with ⟨rfl, _⟩ | ⟨rfl, _⟩ | ⟨sg, hs, ms, hh, mm, hsg, ⟨a, b, rfl, ha, hb, _⟩, ⟨c, d, rfl, hc, hd, _⟩, _, rfl, _⟩
  · simp
  · simp
  · refine ⟨by simp, by simp, ?_, by simp⟩
    simp only [List.cons_append, List.nil_append, List.take_succ_cons, List.take_zero]
    intro h
    simp only [List.cons.injEq, and_true] at h
    exact digit_ne_dash ha h.2

/-- shape of a year fragment: optional `-`, at least four digits -/
theorem year_shape {ys : Str} {y : Int} (h : YearFrag ys y) :
    ∃ (neg : Bool) (ds : Str), ys = (if neg then ['-'] else []) ++ ds ∧ AllD ds ∧ 4 ≤ ds.length := by
  obtain ⟨neg, ds, rfl, hd, h4, _, _⟩ := h
  exact ⟨neg, ds, rfl, hd, h4⟩

theorem year_no_colon {ys : Str} {y : Int} (h : YearFrag ys y) : ':' ∉ ys := by
  obtain ⟨neg, ds, rfl, hd, _⟩ := year_shape h
  cases neg <;> simp [colon_notin_digits hd]

theorem year_not_dashdash {ys : Str} {y : Int} (h : YearFrag ys y) (r : Str) :
    startsWith (ys ++ r) ['-', '-'] = false := by
  obtain ⟨neg, ds, rfl, hd, h4⟩ := year_shape h
  cases ds with
  | nil => simp at h4
  | cons a t =>
    have ha : ¬ '-' = a := fun h => digit_ne_dash (hd a (by simp)) h.symm
    cases neg <;> simp [startsWith, List.isPrefixOf, ha]

theorem year_not_dashdashdash {ys : Str} {y : Int} (h : YearFrag ys y) (r : Str) :
    startsWith (ys ++ r) ['-', '-', '-'] = false := by
  obtain ⟨neg, ds, rfl, hd, h4⟩ := year_shape h
  cases ds with
  | nil => simp at h4
  | cons a t =>
    have ha : ¬ '-' = a := fun h => digit_ne_dash (hd a (by simp)) h.symm
    cases neg <;> simp [startsWith, List.isPrefixOf, ha]

/-- `rfind("-")` of a year fragment followed by dash-free text is at most 0 -/
theorem rfind_year {ys : Str} {y : Int} (h : YearFrag ys y) (t : Str) (ht : '-' ∉ t) :
    rfindChar (ys ++ t) '-' = none ∨ rfindChar (ys ++ t) '-' = some 0 := by
  obtain ⟨neg, ds, rfl, hd, _⟩ := year_shape h
  have hnot : '-' ∉ ds ++ t := by
    simp only [List.mem_append, not_or]; exact ⟨dash_notin_digits hd, ht⟩
  cases neg with
  | false => left; simpa using rfindChar_none (ds ++ t) '-' hnot
  | true =>
    right
    have := rfindChar_split [] (ds ++ t) '-' hnot
    simpa using this

theorem year_length {ys : Str} {y : Int} (h : YearFrag ys y) : 4 ≤ ys.length := by
  obtain ⟨neg, ds, rfl, _, h4⟩ := year_shape h
  cases neg <;> simp <;> omega

/-! ### the five formats along the scanner -/

theorem strip_tight (e : Env) {s : Str} (h : Tight e.isSpace s) : e.strip s = s := by
  have := strip_xsd_pad e [] s [] (by intro c hc; cases hc) (by intro c hc; cases hc) h
  simpa using this

theorem args_gDay (e : Env) (d : Nat) (zs : Str) (o : Option Int) (hd : d < 100) (hz : TzFrag zs o) :
    parseDateArgs e ('-' :: '-' :: '-' :: (zpad d 2 ++ zs)) Tables.fmtGDay = some [some (d : Int), o] := by
  have ht : Tight e.isSpace ('-' :: '-' :: '-' :: (zpad d 2 ++ zs)) :=
    tight_of e ⟨'-', _, rfl, Or.inr rfl⟩
      (((lastOK_with_tz (lastOK_zpad d 2) hz).cons '-').cons '-' |>.cons '-')
  unfold parseDateArgs
  rw [strip_tight e ht]
  have h0 := Sfx.start ('-' :: '-' :: '-' :: (zpad d 2 ++ zs))
  have h1 := h0.adv1
  have h2 := h1.adv1
  have h3 := h2.adv1
  have h4 := h3.adv_zpad2 hd
  simp [Tables.fmtGDay, parseLoop, skip_ok h0, skip_ok h1, skip_ok h2, parseVar_d,
    parseDigits_ok e hd h3, parseVar_z, parseOffset_frag e hz h4]

theorem args_gMonth (e : Env) (m : Nat) (zs : Str) (o : Option Int) (hm : m < 100) (hz : TzFrag zs o) :
    parseDateArgs e ('-' :: '-' :: (zpad m 2 ++ zs)) Tables.fmtGMonth = some [some (m : Int), o] := by
  have ht : Tight e.isSpace ('-' :: '-' :: (zpad m 2 ++ zs)) :=
    tight_of e ⟨'-', _, rfl, Or.inr rfl⟩ (((lastOK_with_tz (lastOK_zpad m 2) hz).cons '-').cons '-')
  unfold parseDateArgs
  rw [strip_tight e ht]
  have h0 := Sfx.start ('-' :: '-' :: (zpad m 2 ++ zs))
  have h1 := h0.adv1
  have h2 := h1.adv1
  have h3 := h2.adv_zpad2 hm
  simp [Tables.fmtGMonth, parseLoop, skip_ok h0, skip_ok h1, parseVar_m,
    parseDigits_ok e hm h2, parseVar_z, parseOffset_frag e hz h3]

theorem args_gMonthDay (e : Env) (m d : Nat) (zs : Str) (o : Option Int) (hm : m < 100) (hd : d < 100)
    (hz : TzFrag zs o) :
    parseDateArgs e ('-' :: '-' :: (zpad m 2 ++ '-' :: (zpad d 2 ++ zs))) Tables.fmtGMonthDay =
      some [some (m : Int), some (d : Int), o] := by
  have ht : Tight e.isSpace ('-' :: '-' :: (zpad m 2 ++ '-' :: (zpad d 2 ++ zs))) :=
    tight_of e ⟨'-', _, rfl, Or.inr rfl⟩
      ((((lastOK_with_tz (lastOK_zpad d 2) hz).cons '-').prepend (zpad m 2)).cons '-' |>.cons '-')
  unfold parseDateArgs
  rw [strip_tight e ht]
  have h0 := Sfx.start ('-' :: '-' :: (zpad m 2 ++ '-' :: (zpad d 2 ++ zs)))
  have h1 := h0.adv1
  have h2 := h1.adv1
  have h3 := h2.adv_zpad2 hm
  have h4 := h3.adv1
  have h5 := h4.adv_zpad2 hd
  simp [Tables.fmtGMonthDay, parseLoop, skip_ok h0, skip_ok h1, parseVar_m,
    parseDigits_ok e hm h2, skip_ok h3, parseVar_d, parseDigits_ok e hd h4, parseVar_z,
    parseOffset_frag e hz h5]

theorem args_gYear (e : Env) {ys : Str} {y : Int} (hy : YearFrag ys y) (zs : Str) (o : Option Int)
    (hz : TzFrag zs o) :
    parseDateArgs e (ys ++ zs) Tables.fmtGYear = some [some y, o] := by
  have ht : Tight e.isSpace (ys ++ zs) :=
    tight_of e ((headOK_year hy).append _) (lastOK_with_tz (lastOK_year hy) hz)
  unfold parseDateArgs
  rw [strip_tight e ht]
  have h0 := Sfx.start (ys ++ zs)
  have h1 : Sfx (ys ++ zs) ys.length zs := by simpa using h0.adv
  simp [Tables.fmtGYear, parseLoop, parseVar_Y, parseYear_frag e hy ((offHead_frag hz).noDigit e) h0,
    parseVar_z, parseOffset_frag e hz h1]

theorem args_gYearMonth (e : Env) {ys : Str} {y : Int} (hy : YearFrag ys y) (m : Nat) (zs : Str)
    (o : Option Int) (hm : m < 100) (hz : TzFrag zs o) :
    parseDateArgs e (ys ++ '-' :: (zpad m 2 ++ zs)) Tables.fmtGYearMonth =
      some [some y, some (m : Int), o] := by
  have ht : Tight e.isSpace (ys ++ '-' :: (zpad m 2 ++ zs)) :=
    tight_of e ((headOK_year hy).append _)
      (((lastOK_with_tz (lastOK_zpad m 2) hz).cons '-').prepend ys)
  unfold parseDateArgs
  rw [strip_tight e ht]
  have h0 := Sfx.start (ys ++ '-' :: (zpad m 2 ++ zs))
  have h1 : Sfx (ys ++ '-' :: (zpad m 2 ++ zs)) ys.length ('-' :: (zpad m 2 ++ zs)) := by
    simpa using h0.adv
  have h2 := h1.adv1
  have h3 := h2.adv_zpad2 hm
  simp [Tables.fmtGYearMonth, parseLoop, parseVar_Y,
    parseYear_frag e hy (noDigitHead_dash e _) h0, skip_ok h1, parseVar_m, parseDigits_ok e hm h2,
    parseVar_z, parseOffset_frag e hz h3]

/-! ### the head that `rfind("-")` inspects -/

/-- `value[:end]` with `end = len(value) - 6` when the value contains a colon:
the timezone `±hh:mm` is cut off; otherwise the whole value -/
theorem period_head (p zs : Str) (o : Option Int) (hz : TzFrag zs o) (hp : ':' ∉ p) :
    ∃ t, '-' ∉ t ∧
      sliceTo (p ++ zs) (if (findChar (p ++ zs) ':').isSome then Int.ofNat (p ++ zs).length - 6
        else Int.ofNat (p ++ zs).length) = p ++ t := by
  obtain ⟨hlen, hcol, _, hnd⟩ := tz_facts hz
  by_cases hc : ':' ∈ zs
  · have h6 := hcol.1 hc
    have hsome : (findChar (p ++ zs) ':').isSome = true := (findChar_isSome _ _).2 (by simp [hc])
    refine ⟨[], by simp, ?_⟩
    rw [if_pos hsome]
    unfold sliceTo
    have hge : Int.ofNat (p ++ zs).length - 6 ≥ 0 := by simp; omega
    rw [if_pos hge]
    have : (Int.ofNat (p ++ zs).length - 6).toNat = p.length := by simp; omega
    rw [this, List.take_left' rfl]; simp
  · have hnone : (findChar (p ++ zs) ':').isSome = false :=
      findChar_none _ _ (by simp [hp, hc])
    refine ⟨zs, hnd hc, ?_⟩
    rw [hnone]
    simp only [Bool.false_eq_true, if_false]
    unfold sliceTo
    rw [if_pos (by simp; omega)]
    have : (Int.ofNat (p ++ zs).length).toNat = (p ++ zs).length := Int.toNat_natCast _
    rw [this, List.take_length]

theorem daysInMonth_pos (y : Int) (m : Nat) : 1 ≤ daysInMonth y m := by
  unfold daysInMonth
  split
  · split <;> omega
  · split <;> omega

theorem ofString_tight (e : Env) (pre post s : Str) (hpre : AllXsdSpace pre)
    (hpost : AllXsdSpace post) (ht : Xs.Conv.Tight e.isSpace s) (p : TimePeriod)
    (h : parsePeriod e s = some p) : XmlPeriod.ofString e (pre ++ s ++ post) = some (s, p) := by
  unfold XmlPeriod.ofString
  simp only []
  rw [strip_xsd_pad e pre s post hpre hpost ht, h]; rfl

end Proofs.PeriodAccept
