/-
L8 — substitution groups (C02): `AddAttributeSubstitutions.process_attribute` on an element attr
whose type is the head of a substitution group (it runs in the FLATTEN step after
`CalculateAttributePaths`, so `min`/`max` are already the products over the path).

For every member of the group (transitively: the handler recurses into the clones) a clone of a
reference attr is added with the restrictions of the original merged in, `min_occurs = 0` and the
original's `max_occurs`; the original gets `min_occurs = 0` and, if it is not yet in a choice, its
own choice `("c", id(attr), 1, 1)` at the end of its path (`prepare_substituted`), which the clones
share. (Where in the class the clones are inserted is not modelled: fields are compared by name.)
-/
import XsdataModel.Gen.Occurs

namespace Xs.Gen
open Py

/-- the members of the substitution group of `head`: the global elements whose `substitutionGroup`
chain reaches it; `pairs` = (member, its head) in document order -/
def membersOf (pairs : List (Str × Str)) : Nat → Str → List Str
  | 0, _ => []
  | fuel + 1, head =>
    let direct := (pairs.filter (·.2 = head)).map (·.1)
    direct ++ direct.flatMap (membersOf pairs fuel)

/-- `prepare_substituted` -/
def prepareSubstituted (fresh : Nat) (s : Site) : Site :=
  match s.choice with
  | some _ => { s with min := 0 }
  | none => { s with min := 0, choice := some (Int.ofNat fresh), path := s.path ++ [⟨.c, fresh, 1, 1⟩] }

/-- the attrs that replace `s` (the original first); `fresh` stands for `id(attr)` -/
def substituteSite (members : List Str) (fresh : Nat) (s : Site) : List Site :=
  if members.isEmpty then [s] else
  let head := prepareSubstituted fresh s
  head :: members.map fun m => { head with name := m }

/-- the handler over a class, `mem n` = the members of the group headed by the element the attr `n`
refers to (`[]` for a local element or a head without members) -/
def substituteWith (mem : Str → List Str) (ss : List Site) : List Site :=
  ss.flatMap fun s => substituteSite (mem s.name) (1000 + s.index) s

/-- the handler over a class: `refs` = the attrs that are references to global elements (only those
have a user type that can head a substitution group) -/
def substituteAll (pairs : List (Str × Str)) (refs : List Str) (ss : List Site) : List Site :=
  substituteWith (fun n => if refs.contains n then membersOf pairs (pairs.length + 1) n else []) ss

/-- the FLATTEN handlers that touch occurrences, in container order: `CalculateAttributePaths`,
`UpdateAttributesEffectiveChoice`, `AddAttributeSubstitutions`, `MergeAttributes` -/
def occursSubst (mem : Str → List Str) (ss : List Site) : List Site :=
  mergeDuplicates (substituteWith mem (effectiveChoice (calculatePaths ss)))

/-! ### Spec: the content model a schema with substitution groups stands for -/

mutual
/-- every element reference whose element heads a group with members is the choice between the
head and the members, with the reference's occurrence range (XSD part 1, 3.9.4 / 3.3.6: wherever
the head may appear, a member may appear instead) -/
def substP (mem : Str → List Str) : Particle → Particle
  | .elem n mn mx =>
    if (mem n).isEmpty then .elem n mn mx else .choice mn mx ((n :: mem n).map (.elem · 1 1))
  | .seq mn mx ps => .seq mn mx (substPList mem ps)
  | .choice mn mx ps => .choice mn mx (substPList mem ps)
def substPList (mem : Str → List Str) : List Particle → List Particle
  | [] => []
  | p :: ps => substP mem p :: substPList mem ps
end

end Xs.Gen
