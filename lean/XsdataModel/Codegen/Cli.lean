/-
Invocation routes.

* `xsdata/cli.py : generate` — `uris = sorted(resolve_source(...))`, then
  `ResourceTransformer.process_sources` buckets the URIs by resource type and
  processes the buckets in a fixed order.
* configuration: `GeneratorOutput(...)` (API and config-file route: the
  dataclass constructors run `__post_init__` → `validate`) versus
  `config.output.update(**params)` (CLI flags: `objects.update` =
  `setattr` along the dotted key, then only `self.format.validate()`).
-/
import XsdataModel.Codegen.Basic
import XsdataModel.Tables

namespace Xs.Codegen
open Py

/-! ### source order -/

/-- `TYPE_*` constants of transformer.py in the order `process_sources` handles them -/
inductive ResType where
  | definition | schema | dtd | xml | json | unknown
deriving Repr, DecidableEq

/-- `cli.generate` + `process_sources`: sort, bucket by type, process buckets in
the fixed order wsdl, xsd, dtd, xml, json (unknown resources are dropped). -/
def processOrder (classify : Str → ResType) (uris : List Str) : List Str :=
  let sorted := pySorted uris
  [ResType.definition, .schema, .dtd, .xml, .json].flatMap
    (fun t => sorted.filter (fun u => classify u == t))

/-! ### configuration -/

structure OutFormat where
  value : Str
  repr : Bool
  eq : Bool
  order : Bool
  unsafeHash : Bool
  frozen : Bool
  slots : Bool
deriving Repr, DecidableEq

/-- the CLI-settable part of `GeneratorOutput` -/
structure GenOutput where
  package : Str
  format : OutFormat
  structureStyle : Str
  docstringStyle : Str
  relativeImports : Bool
  compoundFields : Bool
  wrapperFields : Bool
  maxLineLength : Int
  genericCollections : Bool
  unnestClasses : Bool
  ignorePatterns : Bool
  includeHeader : Bool
deriving Repr, DecidableEq

inductive OptVal where
  | str (s : Str)
  | bool (b : Bool)
  | int (i : Int)
deriving Repr, DecidableEq

/-- `OutputFormat.validate` -/
def formatValidate (f : OutFormat) : OutFormat :=
  if f.order && !f.eq then { f with eq := true } else f

/-- `GeneratorOutput.validate` -/
def outputValidate (o : GenOutput) : GenOutput :=
  if o.genericCollections && o.format.frozen then { o with genericCollections := false } else o

/-- `GeneratorOutput(format=OutputFormat(...), ...)`: both `__post_init__` run -/
def construct (o : GenOutput) : GenOutput :=
  outputValidate { o with format := formatValidate o.format }

def s (x : String) : Str := x.toList

/-- `objects.update`'s `attrsetter(obj, key, value)` for the dotted keys that
`cli.generate` produces (`dest.replace("__", ".")`); the key is given in its
`__` form. `none` = `AttributeError` / a value of the wrong kind. -/
def setField (o : GenOutput) (dest : Str) (v : OptVal) : Option GenOutput :=
  match v with
  | .str x =>
    if dest = s "package" then some { o with package := x }
    else if dest = s "format__value" then some { o with format := { o.format with value := x } }
    else if dest = s "structure_style" then some { o with structureStyle := x }
    else if dest = s "docstring_style" then some { o with docstringStyle := x }
    else none
  | .int x =>
    if dest = s "max_line_length" then some { o with maxLineLength := x } else none
  | .bool x =>
    if dest = s "format__repr" then some { o with format := { o.format with repr := x } }
    else if dest = s "format__eq" then some { o with format := { o.format with eq := x } }
    else if dest = s "format__order" then some { o with format := { o.format with order := x } }
    else if dest = s "format__unsafe_hash" then some { o with format := { o.format with unsafeHash := x } }
    else if dest = s "format__frozen" then some { o with format := { o.format with frozen := x } }
    else if dest = s "format__slots" then some { o with format := { o.format with slots := x } }
    else if dest = s "relative_imports" then some { o with relativeImports := x }
    else if dest = s "compound_fields__enabled" then some { o with compoundFields := x }
    else if dest = s "wrapper_fields" then some { o with wrapperFields := x }
    else if dest = s "generic_collections" then some { o with genericCollections := x }
    else if dest = s "unnest_classes" then some { o with unnestClasses := x }
    else if dest = s "ignore_patterns" then some { o with ignorePatterns := x }
    else if dest = s "include_header" then some { o with includeHeader := x }
    else none

/-- `GeneratorOutput.update(**kwargs)`: set every key, then `self.format.validate()` only -/
def update (o : GenOutput) (params : List (Str × OptVal)) : Option GenOutput :=
  (params.foldlM (fun o kv => setField o kv.1 kv.2) o).map
    (fun o => { o with format := formatValidate o.format })

/-- `cli.generate`: `params = {k: v for k, v in kwargs.items() if v is not None}`;
`config = GeneratorConfig.read(config_file)`; `config.output.update(**params)` -/
def cliGenerate (fileConfig : GenOutput) (kwargs : List (Str × Option OptVal)) : Option GenOutput :=
  update fileConfig (kwargs.filterMap (fun kv => kv.2.map (fun v => (kv.1, v))))

/-- the option destinations in declaration order with the kind of value they take -/
def optionDests : List (Str × Str) :=
  [ (s "package", s "str"), (s "format__value", s "str"), (s "format__repr", s "bool"),
    (s "format__eq", s "bool"), (s "format__order", s "bool"), (s "format__unsafe_hash", s "bool"),
    (s "format__frozen", s "bool"), (s "format__slots", s "bool"), (s "structure_style", s "str"),
    (s "docstring_style", s "str"), (s "relative_imports", s "bool"),
    (s "compound_fields__enabled", s "bool"), (s "wrapper_fields", s "bool"),
    (s "max_line_length", s "int"), (s "generic_collections", s "bool"),
    (s "unnest_classes", s "bool"), (s "ignore_patterns", s "bool"), (s "include_header", s "bool") ]

/-- the kwargs click hands to `generate` when every option is given explicitly for `o` -/
def flagsOf (o : GenOutput) : List (Str × Option OptVal) :=
  [ (s "package", some (.str o.package)), (s "format__value", some (.str o.format.value)),
    (s "format__repr", some (.bool o.format.repr)), (s "format__eq", some (.bool o.format.eq)),
    (s "format__order", some (.bool o.format.order)),
    (s "format__unsafe_hash", some (.bool o.format.unsafeHash)),
    (s "format__frozen", some (.bool o.format.frozen)), (s "format__slots", some (.bool o.format.slots)),
    (s "structure_style", some (.str o.structureStyle)),
    (s "docstring_style", some (.str o.docstringStyle)),
    (s "relative_imports", some (.bool o.relativeImports)),
    (s "compound_fields__enabled", some (.bool o.compoundFields)),
    (s "wrapper_fields", some (.bool o.wrapperFields)),
    (s "max_line_length", some (.int o.maxLineLength)),
    (s "generic_collections", some (.bool o.genericCollections)),
    (s "unnest_classes", some (.bool o.unnestClasses)),
    (s "ignore_patterns", some (.bool o.ignorePatterns)),
    (s "include_header", some (.bool o.includeHeader)) ]

/-- `GeneratorOutput()` -/
def defaultOutput : GenOutput :=
  { package := s "generated"
    format := { value := s "dataclasses", repr := true, eq := true, order := false,
                unsafeHash := false, frozen := false, slots := false }
    structureStyle := s "filenames", docstringStyle := s "reStructuredText"
    relativeImports := false, compoundFields := false, wrapperFields := false
    maxLineLength := 79, genericCollections := false, unnestClasses := false
    ignorePatterns := false, includeHeader := false }

/-- `str(value)` of every CLI-settable field, keyed by destination (to be compared with `Tables.cliDefaults`) -/
def describe (o : GenOutput) : List (Str × Str) :=
  let b (x : Bool) : Str := if x then s "True" else s "False"
  [ (s "package", o.package), (s "format__value", o.format.value), (s "format__repr", b o.format.repr),
    (s "format__eq", b o.format.eq), (s "format__order", b o.format.order),
    (s "format__unsafe_hash", b o.format.unsafeHash), (s "format__frozen", b o.format.frozen),
    (s "format__slots", b o.format.slots), (s "structure_style", o.structureStyle),
    (s "docstring_style", o.docstringStyle), (s "relative_imports", b o.relativeImports),
    (s "compound_fields__enabled", b o.compoundFields), (s "wrapper_fields", b o.wrapperFields),
    (s "max_line_length", intStr o.maxLineLength), (s "generic_collections", b o.genericCollections),
    (s "unnest_classes", b o.unnestClasses), (s "ignore_patterns", b o.ignorePatterns),
    (s "include_header", b o.includeHeader) ]

end Xs.Codegen
