/-
C01 helper definitions: a direct reading of an F1 value as a document tree
(`treeOfN`), used to state the intermediate lemmas of the round-trip proof.
Nothing here is part of the model; `Props/C01.lean` only speaks about
`generate`, `eventsTree` and `parseRoot`.
-/
import XsdataModel.Proofs.C01Write

namespace Proofs.C01
open Py Xs.Bind Xs.Bind.F1

/-- the value an attribute var contributes to the start tag (if any) -/
def attrOf (cfg : SerCfg) (fields : List (Str × Val)) (var : XmlVar) : Option PVal :=
  match look fields var.name with
  | .prim p =>
    if cfg.ignoreDefaultAttributes && !var.required && defaultEq var.default (.prim p) then none
    else some p
  | _ => none

def attrPairs (cfg : SerCfg) (vars : List XmlVar) (fields : List (Str × Val)) : List (QN × Str) :=
  vars.filterMap fun var => (attrOf cfg fields var).map fun p => (var.qname, serPrim p)

def attrParams (cfg : SerCfg) (vars : List XmlVar) (fields : List (Str × Val)) : Params :=
  vars.filterMap fun var => (attrOf cfg fields var).map fun p => (var.name, Val.prim p)

/-- the text of an element holding `p` as an ElementTree builder sees it -/
def primText (p : PVal) : Option Str := if (serPrim p).isEmpty then none else some (serPrim p)

def textOf : Val → Option Str
  | .prim p => primText p
  | _ => none

/-- the child elements a field value is written as -/
def itemsOf : Val → List Val
  | .none => []
  | .list xs => xs
  | y => [y]

def itemTree (M : NsMap) (rec : QN → Val → Tree) (var : XmlVar) (y : Val) : Tree :=
  match y with
  | .prim p => .node var.qname [] M (primText p) [] none
  | y => rec var.qname y

def emptyTree (M : NsMap) (q : QN) : Tree := .node q [] M none [] none

/-- the document tree of an F1 value (metadata taken along the parser's chain of parent
namespaces, like `valObjN`) -/
def treeOfN (Γ : Ctx) (cfg : SerCfg) (M : NsMap) : Nat → Option Str → QN → Val → Tree
  | n + 1, pns, q, .obj c fields =>
    match metaOf Γ c pns with
    | none => emptyTree M q
    | some m =>
      match m.text with
      | some tv =>
        .node q (attrPairs cfg m.attributeVars fields) M (textOf (look fields tv.name)) [] none
      | none =>
        .node q (attrPairs cfg m.attributeVars fields) M none
          (m.elementVars.flatMap fun var =>
            (itemsOf (look fields var.name)).map
              (itemTree M (treeOfN Γ cfg M n (targetUri m.qname)) var)) none
  | _, _, q, _ => emptyTree M q

end Proofs.C01
