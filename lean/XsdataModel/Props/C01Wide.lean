/- C01 — property theorems (only), continued: the round trip beyond fragment F1.

One family of decidable side conditions (`Bind/FN.lean`), indexed by the features a universe may
use; each theorem is the round trip `generate → abstract writer → parseRoot` for one feature set:

* `bind_generate_F2` : F1 + `nillable` (nillable element vars, `None` items in nillable lists,
                       nillable classes; `xsi:nil`)
* `bind_generate_F3` : F2 + `tokens` (token lists in element, attribute and text vars)
* `bind_generate_F4` : F3 + `wrapper` (wrapped list elements)
* `bind_generate_F5` : F4 + `sequence` groups (every interleaving `next_value` rolls out is read back:
                       the parser binds by name, so the instances need not have lists of equal length)
* `bind_generate_F6` : F5 + `Attributes` maps and `init=False` fields with a primitive default
* `bind_generate_F7` : F6 + inheritance: an element var of declared class `C` holds an instance of a
                       proper subclass, written with `xsi:type` and found again by `find_subclass`
* `bind_generate_FN` : any subset of these features

No hypothesis restricts the namespaces of classes and fields (repair `c01g-01`).  The value-level
exclusions of `FN.valOK` that are genuine defects of the code have machine-checked witnesses below,
replayed on the real code (`known_findings.json`); the former witnesses of the defects repaired by
`repo-patches/c01g-02 … c01g-08` are now `…_repaired` theorems (instances of the round trip).
-/
import XsdataModel.Props.C01
import XsdataModel.Proofs.C01NInduct

namespace Props.C01
open Py Xs.Bind Xs.Bind.F1 Xs.Bind.FN

/-- **C01, any feature set.** -/
theorem bind_generate_FN (ft : Feat) (e : BEnv) (Γ : Ctx) (cfg : SerCfg) (pcfg : ParserConfig)
    (c : ClassId) (v : Val) (hΓ : ctxOK ft Γ = true) (hv : valOKI ft.inherit e Γ c v = true) :
    ∃ evs t, generate e Γ cfg v = .ok evs ∧ eventsTree (isDatatype Γ) evs = .ok t ∧
      parseRoot e Γ pcfg c t = .ok (v, 0) :=
  Proofs.C01.roundtrip_FN ft e Γ cfg pcfg c v hΓ hv

/-- **C01, the provable part in one statement** (the full-strength statements `bind_generate_anyInstance`
of `Props/C01.lean` is false): an instance round-trips when it lies in *some* fragment, F1 with any
combination of namespaces or a feature-indexed one. -/
theorem bind_generate_partial (e : BEnv) (Γ : Ctx) (cfg : SerCfg) (pcfg : ParserConfig) (c : ClassId) (v : Val)
    (h : (ctxF1G false Γ = true ∧ valF1 e Γ c v = true) ∨
      ∃ ft : Feat, ctxOK ft Γ = true ∧ valOKI ft.inherit e Γ c v = true) :
    ∃ evs t, generate e Γ cfg v = .ok evs ∧ eventsTree (isDatatype Γ) evs = .ok t ∧
      parseRoot e Γ pcfg c t = .ok (v, 0) := by
  rcases h with ⟨hΓ, hv⟩ | ⟨ft, hΓ, hv⟩
  · exact bind_generate_anyNamespaces e Γ cfg pcfg c v hΓ hv
  · exact bind_generate_FN ft e Γ cfg pcfg c v hΓ hv

def featF2 : Feat := { nillable := true }
def featF3 : Feat := { nillable := true, tokens := true }
def featF4 : Feat := { nillable := true, tokens := true, wrapper := true }

/-- **C01, fragment F2** = F1 + nillable element vars / classes. -/
theorem bind_generate_F2 (e : BEnv) (Γ : Ctx) (cfg : SerCfg) (pcfg : ParserConfig) (c : ClassId) (v : Val)
    (hΓ : ctxOK featF2 Γ = true) (hv : valOK e Γ c v = true) :
    ∃ evs t, generate e Γ cfg v = .ok evs ∧ eventsTree (isDatatype Γ) evs = .ok t ∧
      parseRoot e Γ pcfg c t = .ok (v, 0) :=
  bind_generate_FN featF2 e Γ cfg pcfg c v hΓ hv

/-- **C01, fragment F3** = F2 + token lists. -/
theorem bind_generate_F3 (e : BEnv) (Γ : Ctx) (cfg : SerCfg) (pcfg : ParserConfig) (c : ClassId) (v : Val)
    (hΓ : ctxOK featF3 Γ = true) (hv : valOK e Γ c v = true) :
    ∃ evs t, generate e Γ cfg v = .ok evs ∧ eventsTree (isDatatype Γ) evs = .ok t ∧
      parseRoot e Γ pcfg c t = .ok (v, 0) :=
  bind_generate_FN featF3 e Γ cfg pcfg c v hΓ hv

/-- **C01, fragment F4** = F3 + wrapped lists. -/
theorem bind_generate_F4 (e : BEnv) (Γ : Ctx) (cfg : SerCfg) (pcfg : ParserConfig) (c : ClassId) (v : Val)
    (hΓ : ctxOK featF4 Γ = true) (hv : valOK e Γ c v = true) :
    ∃ evs t, generate e Γ cfg v = .ok evs ∧ eventsTree (isDatatype Γ) evs = .ok t ∧
      parseRoot e Γ pcfg c t = .ok (v, 0) :=
  bind_generate_FN featF4 e Γ cfg pcfg c v hΓ hv

def featF5 : Feat := { nillable := true, tokens := true, wrapper := true, sequence := true }

/-- **C01, fragment F5** = F4 + `sequence` groups. -/
theorem bind_generate_F5 (e : BEnv) (Γ : Ctx) (cfg : SerCfg) (pcfg : ParserConfig) (c : ClassId) (v : Val)
    (hΓ : ctxOK featF5 Γ = true) (hv : valOK e Γ c v = true) :
    ∃ evs t, generate e Γ cfg v = .ok evs ∧ eventsTree (isDatatype Γ) evs = .ok t ∧
      parseRoot e Γ pcfg c t = .ok (v, 0) :=
  bind_generate_FN featF5 e Γ cfg pcfg c v hΓ hv

/-! #### a concrete universe and instance using all three features -/

def mkVarN (index : Nat) (name qname : String) (kind : VarKind) (types : List TypeRef)
    (clazz : Option ClassId := none) (listElement : Bool := false) (default : DefaultV := .none)
    (nillable : Bool := false) (tokens : Bool := false) (wrapper : Option String := none) : XmlVar :=
  { mkVar index name qname kind types clazz false listElement default with
    nillable := nillable, tokens := tokens, wrapperQName := wrapper.map s }

def nLeafK : XmlVar := mkVarN 1 "k" "k" .attribute [.prim .str] (listElement := false)
  (default := .listFactory) (tokens := true)
def nLeafV : XmlVar := mkVarN 2 "v" "v" .text [.prim .int] (default := .listFactory) (tokens := true)
def nLeafMeta : XmlMeta := { mkMeta "Leaf" "Leaf" (some nLeafV) [] [nLeafK] with nillable := true }
def nLeafInfo : ClassInfo :=
  { id := s "Leaf", metas := [(none, nLeafMeta)], mro := [s "Leaf"], bases := [],
    fields := [⟨s "k", true, some (.list [])⟩, ⟨s "v", true, some (.list [])⟩] }

def nRootA : XmlVar := mkVarN 1 "a" "a" .element [.prim .str] (nillable := true)
def nRootB : XmlVar := mkVarN 2 "b" "b" .element [.prim .int] (listElement := true)
  (default := .listFactory) (nillable := true) (wrapper := some "bs")
def nRootC : XmlVar := mkVarN 3 "c" "c" .element [.cls (s "Leaf")] (clazz := some (s "Leaf"))
  (listElement := true) (default := .listFactory)
def nRootT : XmlVar := mkVarN 4 "t" "t" .element [.prim .bool] (default := .listFactory) (tokens := true)
def nRootL : XmlVar := mkVarN 5 "l" "l" .element [.prim .int] (listElement := true)
  (default := .listFactory) (tokens := true)
def nRootMeta : XmlMeta :=
  { mkMeta "Root" "Root" none [nRootA, nRootB, nRootC, nRootT, nRootL] [] with wrappers := [(s "bs", s "b")] }
def nRootInfo : ClassInfo :=
  { id := s "Root", metas := [(none, nRootMeta)], mro := [s "Root"], bases := [],
    fields := [⟨s "a", true, none⟩, ⟨s "b", true, some (.list [])⟩, ⟨s "c", true, some (.list [])⟩,
      ⟨s "t", true, some (.list [])⟩, ⟨s "l", true, some (.list [])⟩] }

/-- `Root` with a required nillable `str` element, a wrapped nillable list of `int`, a list of the
nillable class `Leaf` (token-list attribute and token-list text), a `bool` token list and a list of
`int` token lists -/
def Γ3 : Ctx := { classes := [nLeafInfo, nRootInfo], xsiIndex := [], datatypes := [(s xsString, some .str)] }

def nLeaf (k : List String) (v : List Int) : Val :=
  .obj (s "Leaf") [(s "k", .list (k.map fun x => .prim (.str (s x)))), (s "v", .list (v.map fun i => .prim (.int i)))]

def v3 : Val := .obj (s "Root")
  [(s "a", .none), (s "b", .list [.prim (.int 1), .none, .prim (.int 0)]),
   (s "c", .list [nLeaf [] [7], nLeaf ["x", "y-z"] [0], nLeaf [] [3, -4]]),
   (s "t", .list [.prim (.bool true), .prim (.bool false)]),
   (s "l", .list [.list [.prim (.int 1), .prim (.int 2)], .list []])]

example : ctxOK featF4 Γ3 = true := by decide
example : valOK e0 Γ3 (s "Root") v3 = true := by decide
-- the smaller feature sets do not contain this universe
example : ctxOK featF2 Γ3 = false ∧ ctxOK featF3 Γ3 = false := by decide

example : ∃ evs t, generate e0 Γ3 ⟨true⟩ v3 = .ok evs ∧ eventsTree (isDatatype Γ3) evs = .ok t ∧
    parseRoot e0 Γ3 ⟨true, true, true⟩ (s "Root") t = .ok (v3, 0) :=
  bind_generate_F4 e0 Γ3 ⟨true⟩ ⟨true, true, true⟩ (s "Root") v3 (by decide) (by decide)

/-- the universe of fragment F1 (`Γ2`, `v2`) also lies in every wider fragment -/
example : ctxOK {} Γ2 = true ∧ valOK e0 Γ2 (s "Root") v2 = true := by decide


/-! ### excluded regions that are defects of the code: witnesses -/

def twoClasses (leaf root : ClassInfo) : Ctx :=
  { classes := [leaf, root], xsiIndex := [], datatypes := [(s xsString, some .str)] }
def classOf (name : String) (m : XmlMeta) (fields : List FieldInfo) : ClassInfo :=
  { id := s name, metas := [(none, m)], mro := [s name], bases := [], fields := fields }

/-- witness 5: `c: Optional[Leaf]` nillable, `Leaf` not nillable; `Root(c=Leaf(z=None))` -/
def w5Leaf : ClassInfo := classOf "Leaf" (mkMeta "Leaf" "Leaf" none [mkVarN 1 "z" "z" .element [.prim .str]] [])
  [⟨s "z", true, some .none⟩]
def w5Root : ClassInfo := classOf "Root" (mkMeta "Root" "Root" none
  [mkVarN 1 "c" "c" .element [.cls (s "Leaf")] (clazz := some (s "Leaf")) (nillable := true)] [])
  [⟨s "c", true, some .none⟩]
def Γw5 : Ctx := twoClasses w5Leaf w5Root
def w5 : Val := .obj (s "Root") [(s "c", .obj (s "Leaf") [(s "z", .none)])]

/-- repaired (`c01g-03`): the field being nillable is no reason for `xsi:nil`; the empty object is
written as `<c/>` and comes back (before: `<c xsi:nil="true"/>` → `Root(c=None)`) -/
theorem nillable_empty_object_repaired :
    ctxOK featF2 Γw5 = true ∧ valOK e0 Γw5 (s "Root") w5 = true ∧
    treeOf Γw5 w5 = .node (s "Root") [] [] none [.node (s "c") [] [] none [] none] none ∧
    ∃ evs t, generate e0 Γw5 {} w5 = .ok evs ∧ eventsTree (isDatatype Γw5) evs = .ok t ∧
      parseRoot e0 Γw5 {} (s "Root") t = .ok (w5, 0) :=
  ⟨by decide, by decide, rfl, bind_generate_F2 e0 Γw5 {} {} (s "Root") w5 (by decide) (by decide)⟩

/-- witness 6: `a: Optional[str]` nillable holding `""` -/
def Γw6 : Ctx := rootOnly [mkVarN 1 "a" "a" .element [.prim .str] (nillable := true)] [] none
  [⟨s "a", true, some .none⟩]
def w6 : Val := .obj (s "Root") [(s "a", .prim (.str []))]

/-- repaired (`c01g-06`): the empty element of a nillable `str` var without `xsi:nil` is `""`
(before: `None`) -/
theorem nillable_empty_str_repaired :
    ctxOK featF2 Γw6 = true ∧ valOK e0 Γw6 (s "Root") w6 = true ∧
    treeOf Γw6 w6 = .node (s "Root") [] [] none [.node (s "a") [] [] none [] none] none ∧
    ∃ evs t, generate e0 Γw6 {} w6 = .ok evs ∧ eventsTree (isDatatype Γw6) evs = .ok t ∧
      parseRoot e0 Γw6 {} (s "Root") t = .ok (w6, 0) :=
  ⟨by decide, by decide, rfl, bind_generate_F2 e0 Γw6 {} {} (s "Root") w6 (by decide) (by decide)⟩

/-- witness 7: a nillable list of token lists, empty -/
def Γw7 : Ctx := rootOnly [mkVarN 1 "a" "a" .element [.prim .int] (listElement := true)
  (default := .listFactory) (nillable := true) (tokens := true)] [] none [⟨s "a", true, some (.list [])⟩]
def w7 : Val := .obj (s "Root") [(s "a", .list [])]

/-- repaired (`c01g-05`): nothing is written for the empty list (before: one `xsi:nil` element that
came back as `[[]]`) -/
theorem nillable_token_lists_repaired :
    ctxOK featF4 Γw7 = true ∧ valOK e0 Γw7 (s "Root") w7 = true ∧
    treeOf Γw7 w7 = .node (s "Root") [] [] none [] none ∧
    ∃ evs t, generate e0 Γw7 {} w7 = .ok evs ∧ eventsTree (isDatatype Γw7) evs = .ok t ∧
      parseRoot e0 Γw7 {} (s "Root") t = .ok (w7, 0) :=
  ⟨by decide, by decide, rfl, bind_generate_F4 e0 Γw7 {} {} (s "Root") w7 (by decide) (by decide)⟩

/-- witness 8: a nillable class whose text var is an empty token list -/
def w8Leaf : ClassInfo := classOf "Leaf"
  { mkMeta "Leaf" "Leaf" (some (mkVarN 1 "v" "v" .text [.prim .int] (default := .listFactory) (tokens := true)))
      [] [] with nillable := true } [⟨s "v", true, some (.list [])⟩]
def w8Root : ClassInfo := classOf "Root" (mkMeta "Root" "Root" none
  [mkVarN 1 "c" "c" .element [.cls (s "Leaf")] (clazz := some (s "Leaf")) (listElement := true)
    (default := .listFactory)] []) [⟨s "c", true, some (.list [])⟩]
def Γw8 : Ctx := twoClasses w8Leaf w8Root
def w8 : Val := .obj (s "Root") [(s "c", .list [.obj (s "Leaf") [(s "v", .list [])]])]

/-- repaired (`c01g-08`): the element is `xsi:nil` and the parser leaves the token list to the
field default `[]` (before: `None` in a list-typed field) -/
theorem nillable_class_empty_tokens_repaired :
    ctxOK featF3 Γw8 = true ∧ valOK e0 Γw8 (s "Root") w8 = true ∧
    ∃ evs t, generate e0 Γw8 {} w8 = .ok evs ∧ eventsTree (isDatatype Γw8) evs = .ok t ∧
      parseRoot e0 Γw8 {} (s "Root") t = .ok (w8, 0) :=
  ⟨by decide, by decide, bind_generate_F3 e0 Γw8 {} {} (s "Root") w8 (by decide) (by decide)⟩


/-! #### `sequence` groups -/

def sA : XmlVar := { mkVarN 1 "a" "a" .element [.prim .int] (listElement := true) (default := .listFactory) with
  sequence := some 1 }
def sM : XmlVar := mkVarN 2 "m" "m" .element [.prim .str]
def sB : XmlVar := { mkVarN 3 "b" "b" .element [.cls (s "Leaf")] (clazz := some (s "Leaf")) (listElement := true)
  (default := .listFactory) (nillable := true) with sequence := some 1 }
def sT : XmlVar := mkVarN 4 "t" "t" .element [.prim .int] (default := .listFactory) (tokens := true)
def sRoot : ClassInfo := classOf "Root" (mkMeta "Root" "Root" none [sA, sM, sB, sT] [])
  [⟨s "a", true, some (.list [])⟩, ⟨s "m", true, some .none⟩, ⟨s "b", true, some (.list [])⟩,
   ⟨s "t", true, some (.list [])⟩]

/-- `a` and `b` form a `sequence` group, `m` lies between them and is rolled along, the token list
`t` comes after the group -/
def Γ5 : Ctx := twoClasses w5Leaf sRoot
def v5 : Val := .obj (s "Root")
  [(s "a", .list [.prim (.int 1), .prim (.int 2), .prim (.int 3)]), (s "m", .prim (.str (s "mid"))),
   (s "b", .list [.obj (s "Leaf") [(s "z", .prim (.str (s "x")))], .none]),
   (s "t", .list [.prim (.int 7), .prim (.int 8)])]

example : ctxOK featF5 Γ5 = true ∧ ctxOK featF4 Γ5 = false ∧ valOK e0 Γ5 (s "Root") v5 = true := by decide

/-- the interleaving the abstract writer sees: `a m b a b a t` -/
example : (match eventsTree (isDatatype Γ5) (evsOf Γ5 v5) with
    | .ok (.node _ _ _ _ kids _) => kids.map (fun k => match k with | .node q _ _ _ _ _ => q)
    | _ => []) = [s "a", s "m", s "b", s "a", s "b", s "a", s "t"] := by rfl

example : ∃ evs t, generate e0 Γ5 {} v5 = .ok evs ∧ eventsTree (isDatatype Γ5) evs = .ok t ∧
    parseRoot e0 Γ5 {} (s "Root") t = .ok (v5, 0) :=
  bind_generate_F5 e0 Γ5 {} {} (s "Root") v5 (by decide) (by decide)

/-- witness 9: a token-list var inside a `sequence` group -/
def w9Root : ClassInfo := classOf "Root" (mkMeta "Root" "Root" none
  [{ sT with index := 1, sequence := some 1 }, { sA with index := 2 }] [])
  [⟨s "t", true, some (.list [])⟩, ⟨s "a", true, some (.list [])⟩]
def Γw9 : Ctx := { classes := [w9Root], xsiIndex := [], datatypes := [] }
def w9 : Val := .obj (s "Root") [(s "t", .list [.prim (.int 1), .prim (.int 2)]), (s "a", .list [.prim (.int 3)])]

def t9 : Tree := .node (s "Root") [] [] none
  [.node (s "t") [] [] (some (s "1 2")) [] none, .node (s "a") [] [] (some (s "3")) [] none] none

/-- repaired (`c01g-04`): the roll hands a token list over whole (before: token by token, and
`convert_tokens` raised `TypeError`).  The universe is still outside `ctxOK` (`seqOK`); the round
trip of this instance holds by evaluation. -/
theorem tokens_in_sequence_repaired :
    ctxOK featF5 Γw9 = false ∧ generate e0 Γw9 {} w9 = .ok (evsOf Γw9 w9) ∧
    eventsTree (isDatatype Γw9) (evsOf Γw9 w9) = .ok t9 ∧
    parseRoot e0 Γw9 {} (s "Root") t9 = .ok (w9, 0) :=
  ⟨by decide, rfl, rfl, rfl⟩


/-! #### `Attributes` maps and `init=False` fields -/

def featF6 : Feat :=
  { nillable := true, tokens := true, wrapper := true, sequence := true, fixed := true, anyAttrs := true }

/-- **C01, fragment F6** = F5 + one `Attributes` map per class (any `namespace`) + `init=False` fields
with a primitive default.  The map's keys must match the namespaces of the var, be distinct from the declared
attributes and not in the `xsi` namespace; its values must not look like `prefix:rest`. -/
theorem bind_generate_F6 (e : BEnv) (Γ : Ctx) (cfg : SerCfg) (pcfg : ParserConfig) (c : ClassId) (v : Val)
    (hΓ : ctxOK featF6 Γ = true) (hv : valOK e Γ c v = true) :
    ∃ evs t, generate e Γ cfg v = .ok evs ∧ eventsTree (isDatatype Γ) evs = .ok t ∧
      parseRoot e Γ pcfg c t = .ok (v, 0) :=
  bind_generate_FN featF6 e Γ cfg pcfg c v hΓ hv

def aMap (index : Nat) (nss : List String) : XmlVar :=
  { mkVarN index "m" "m" .attributes [.prim .str] (default := .dictFactory) with namespaces := nss.map s }
def aK : XmlVar := mkVarN 2 "k" "k" .attribute [.prim .int]
def aFx : XmlVar := { mkVarN 3 "fx" "fx" .attribute [.prim .str] (default := .val (.str (s "v1"))) with init := false }
def aFe : XmlVar := { mkVarN 4 "fe" "fe" .element [.prim .int] (default := .val (.int 7)) with init := false }
def aC : XmlVar := mkVarN 5 "c" "c" .element [.cls (s "Leaf")] (clazz := some (s "Leaf")) (listElement := true)
  (default := .listFactory)

/-- `Leaf`: nillable class with a `##other`-free map (`##any`) and an optional `str` element -/
def aLeaf : ClassInfo := classOf "Leaf"
  { mkMeta "Leaf" "Leaf" none [mkVarN 2 "z" "z" .element [.prim .str]] [] with
      nillable := true, anyAttributes := [aMap 1 ["##any"]] }
  [⟨s "m", true, some (.attrs [])⟩, ⟨s "z", true, some .none⟩]
/-- `Root`: a map for unqualified and `urn:q` attributes, a declared `int` attribute, a fixed
attribute, a fixed element and a list of `Leaf` -/
def aRoot : ClassInfo := classOf "Root"
  { mkMeta "Root" "Root" none [aFe, aC] [aK, aFx] with anyAttributes := [aMap 1 ["", "urn:q"]] }
  [⟨s "m", true, some (.attrs [])⟩, ⟨s "k", true, some .none⟩, ⟨s "fx", false, some (.prim (.str (s "v1")))⟩,
   ⟨s "fe", false, some (.prim (.int 7))⟩, ⟨s "c", true, some (.list [])⟩]
def Γ6 : Ctx := twoClasses aLeaf aRoot

def aLeafV (m : List (String × String)) (z : Val) : Val :=
  .obj (s "Leaf") [(s "m", .attrs (m.map fun kv => (s kv.1, s kv.2))), (s "z", z)]
def v6 : Val := .obj (s "Root")
  [(s "m", .attrs [(s "x", s "1"), (s "{urn:q}y", s "a b"), (s "u", s "http://h/p")]), (s "k", .prim (.int 3)),
   (s "fx", .prim (.str (s "v1"))), (s "fe", .prim (.int 7)),
   (s "c", .list [aLeafV [("{urn:r}w", "")] (.prim (.str (s "zz"))), aLeafV [] (.prim (.str (s "q")))])]

example : ctxOK featF6 Γ6 = true ∧ ctxOK featF5 Γ6 = false ∧ valOK e0 Γ6 (s "Root") v6 = true := by decide

example : ∃ evs t, generate e0 Γ6 {} v6 = .ok evs ∧ eventsTree (isDatatype Γ6) evs = .ok t ∧
    parseRoot e0 Γ6 {} (s "Root") t = .ok (v6, 0) :=
  bind_generate_F6 e0 Γ6 {} {} (s "Root") v6 (by decide) (by decide)

/-- the fixed fields are written although they are not `__init__` parameters, and the attributes of
the map come before the declared ones (the map has the smaller index) -/
example : (match treeOf Γ6 v6 with | .node _ a _ _ _ _ => a.map (·.1)) =
    [s "x", s "{urn:q}y", s "u", s "k", s "fx"] := by rfl

/-- witness 10: a key of the map that is also a declared attribute: `Root(m={"k": "5"})` -/
def w10 : Val := .obj (s "Root")
  [(s "m", .attrs [(s "k", s "5")]), (s "k", .none), (s "fx", .prim (.str (s "v1"))), (s "fe", .prim (.int 7)),
   (s "c", .list [])]

/-- the declared attribute takes the value: the instance comes back as `Root(k=5, m={})` -/
theorem attributes_key_declared_witness :
    ctxOK featF6 Γ6 = true ∧ valOK e0 Γ6 (s "Root") w10 = false ∧
    generate e0 Γ6 {} w10 = .ok (evsOf Γ6 w10) ∧
    eventsTree (isDatatype Γ6) (evsOf Γ6 w10) = .ok (treeOf Γ6 w10) ∧
    parseRoot e0 Γ6 {} (s "Root") (treeOf Γ6 w10) = .ok (.obj (s "Root")
      [(s "m", .attrs []), (s "k", .prim (.int 5)), (s "fx", .prim (.str (s "v1"))), (s "fe", .prim (.int 7)),
       (s "c", .list [])], 0) :=
  ⟨by decide, by decide, rfl, rfl, rfl⟩

/-- witness 11: a nillable class with a map, without content: `Root(c=[Leaf()])` -/
def w11 : Val := .obj (s "Root")
  [(s "m", .attrs []), (s "k", .none), (s "fx", .prim (.str (s "v1"))), (s "fe", .prim (.int 7)),
   (s "c", .list [aLeafV [] .none])]

/-- repaired (`c01g-07`): `bind_attrs` keeps `xsi:nil` out of the map (before: `Leaf(m={xsi:nil: "true"})`) -/
theorem nillable_class_attributes_repaired :
    ctxOK featF6 Γ6 = true ∧ valOK e0 Γ6 (s "Root") w11 = true ∧
    treeOf Γ6 w11 = .node (s "Root") [(s "fx", s "v1")] [] none
      [.node (s "fe") [] [] (some (s "7")) [] none, .node (s "c") [(xsiNil, s "true")] [] none [] none] none ∧
    ∃ evs t, generate e0 Γ6 {} w11 = .ok evs ∧ eventsTree (isDatatype Γ6) evs = .ok t ∧
      parseRoot e0 Γ6 {} (s "Root") t = .ok (w11, 0) :=
  ⟨by decide, by decide, rfl, bind_generate_F6 e0 Γ6 {} {} (s "Root") w11 (by decide) (by decide)⟩

/-! #### inheritance: `xsi:type` -/

def featF7 : Feat :=
  { nillable := true, tokens := true, wrapper := true, sequence := true, fixed := true, anyAttrs := true,
    inherit := true }

/-- **C01, fragment F7** = F6 + instances of proper subclasses under element vars (`valOKI true`):
the subclass has a qualified name that is an NCName and is what `XmlContext.find_subclass` finds from
the declared class. -/
theorem bind_generate_F7 (e : BEnv) (Γ : Ctx) (cfg : SerCfg) (pcfg : ParserConfig) (c : ClassId) (v : Val)
    (hΓ : ctxOK featF7 Γ = true) (hv : valOKI true e Γ c v = true) :
    ∃ evs t, generate e Γ cfg v = .ok evs ∧ eventsTree (isDatatype Γ) evs = .ok t ∧
      parseRoot e Γ pcfg c t = .ok (v, 0) :=
  bind_generate_FN featF7 e Γ cfg pcfg c v hΓ hv

def hZ : XmlVar := mkVarN 1 "z" "z" .element [.prim .str]
def hX (q : String) : XmlVar := mkVarN 2 "extra" q .element [.prim .int]
def hBase : ClassInfo := classOf "Base" (mkMeta "Base" "Base" none [hZ] []) [⟨s "z", true, some .none⟩]
/-- `Sub(Base)` in the namespace `urn:s` -/
def hSub : ClassInfo :=
  { id := s "Sub", metas := [(none, mkMeta "Sub" "{urn:s}Sub" none [{ hZ with qname := s "{urn:s}z" }, hX "{urn:s}extra"] [])],
    mro := [s "Sub", s "Base"], bases := [s "Base"],
    fields := [⟨s "z", true, some .none⟩, ⟨s "extra", true, some .none⟩] }
/-- `SubSub(Sub)` without namespace of its own (the inherited field keeps its qualified name), nillable -/
def hSubSub : ClassInfo :=
  { id := s "SubSub", metas := [(none, { mkMeta "SubSub" "SubSub" none [hZ, hX "{urn:s}extra"] [] with nillable := true })],
    mro := [s "SubSub", s "Sub", s "Base"], bases := [s "Sub"],
    fields := [⟨s "z", true, some .none⟩, ⟨s "extra", true, some .none⟩] }
def hC : XmlVar := mkVarN 1 "c" "c" .element [.cls (s "Base")] (clazz := some (s "Base")) (listElement := true)
  (default := .listFactory)
def hD : XmlVar := mkVarN 2 "d" "d" .element [.cls (s "Sub")] (clazz := some (s "Sub")) (nillable := true)
def hRoot : ClassInfo := classOf "Root" (mkMeta "Root" "Root" none [hC, hD] [])
  [⟨s "c", true, some (.list [])⟩, ⟨s "d", true, some .none⟩]

/-- `Root` with `c: List[Base]` and a nillable `d: Optional[Sub]`; `Sub(Base)` lives in `urn:s`,
`SubSub(Sub)` has no namespace -/
def Γ7 : Ctx :=
  { classes := [hBase, hSub, hSubSub, hRoot],
    xsiIndex := [(s "Base", [s "Base"]), (s "{urn:s}Sub", [s "Sub"]), (s "SubSub", [s "SubSub"]), (s "Root", [s "Root"])],
    datatypes := [(s xsString, some .str)] }

def hObj (cls : String) (z : Val) (extra : Option Int) : Val :=
  .obj (s cls) ((s "z", z) :: (match extra with | some i => [(s "extra", Val.prim (.int i))] | none => []))

def v7 : Val := .obj (s "Root")
  [(s "c", .list [hObj "Base" (.prim (.str (s "a"))) none, hObj "Sub" .none (some 1),
      hObj "SubSub" (.prim (.str (s "b"))) (some 2), hObj "SubSub" .none (some 0)]),
   (s "d", hObj "SubSub" .none (some 3))]

example : ctxOK featF7 Γ7 = true ∧ valOKI true e0 Γ7 (s "Root") v7 = true ∧
    valOK e0 Γ7 (s "Root") v7 = false := by decide

/-- the `xsi:type` values the abstract writer stores: `q0` is bound to `urn:s` -/
example : (match treeOf Γ7 v7 with
    | .node _ _ _ _ kids _ => kids.map (fun k => match k with | .node _ a _ _ _ _ => a)) =
    [[], [(xsiType, s "q0:Sub")], [(xsiType, s "SubSub")], [(xsiType, s "SubSub")], [(xsiType, s "SubSub")]] := by
  rfl

example : ∃ evs t, generate e0 Γ7 {} v7 = .ok evs ∧ eventsTree (isDatatype Γ7) evs = .ok t ∧
    parseRoot e0 Γ7 {} (s "Root") t = .ok (v7, 0) :=
  bind_generate_F7 e0 Γ7 {} {} (s "Root") v7 (by decide) (by decide)

/-- witness 12: the element is named like the subclass: `c: Optional[Base]` with element name `Sub`,
holding `Sub(z="a", extra=1)` (`Sub(Base)` without namespace) -/
def w12Sub : ClassInfo :=
  { id := s "Sub", metas := [(none, mkMeta "Sub" "Sub" none [hZ, hX "extra"] [])],
    mro := [s "Sub", s "Base"], bases := [s "Base"],
    fields := [⟨s "z", true, some .none⟩, ⟨s "extra", true, some .none⟩] }
def w12Root : ClassInfo := classOf "Root" (mkMeta "Root" "Root" none
  [mkVarN 1 "c" "Sub" .element [.cls (s "Base")] (clazz := some (s "Base"))] []) [⟨s "c", true, some .none⟩]
def Γw12 : Ctx :=
  { classes := [hBase, w12Sub, w12Root],
    xsiIndex := [(s "Base", [s "Base"]), (s "Sub", [s "Sub"]), (s "Root", [s "Root"])],
    datatypes := [(s xsString, some .str)] }
def w12 : Val := .obj (s "Root") [(s "c", hObj "Sub" (.prim (.str (s "a"))) (some 1))]

/-- repaired (`c01g-02`): the `xsi:type` of a subclass instance is kept although the element is named
like the subclass (before: no `xsi:type`, the parser built a `Base` and rejected `extra`) -/
theorem derived_named_as_type_repaired :
    ctxOK featF7 Γw12 = true ∧ valOKI true e0 Γw12 (s "Root") w12 = true ∧
    treeOf Γw12 w12 = .node (s "Root") [] [] none [.node (s "Sub") [(xsiType, s "Sub")] [] none
      [.node (s "z") [] [] (some (s "a")) [] none, .node (s "extra") [] [] (some (s "1")) [] none] none] none ∧
    ∃ evs t, generate e0 Γw12 {} w12 = .ok evs ∧ eventsTree (isDatatype Γw12) evs = .ok t ∧
      parseRoot e0 Γw12 {} (s "Root") t = .ok (w12, 0) :=
  ⟨by decide, by decide, rfl, bind_generate_F7 e0 Γw12 {} {} (s "Root") w12 (by decide) (by decide)⟩

/-- witness 13: the subclass has an `Attributes` map: `Sub(Base)` with `m: Dict[str, str]` -/
def w13Sub : ClassInfo :=
  { id := s "Sub", metas := [(none, { mkMeta "Sub" "Sub" none [hZ] [] with anyAttributes := [aMap 2 ["##any"]] })],
    mro := [s "Sub", s "Base"], bases := [s "Base"],
    fields := [⟨s "z", true, some .none⟩, ⟨s "m", true, some (.attrs [])⟩] }
def w13Root : ClassInfo := classOf "Root" (mkMeta "Root" "Root" none
  [mkVarN 1 "c" "c" .element [.cls (s "Base")] (clazz := some (s "Base"))] []) [⟨s "c", true, some .none⟩]
def Γw13 : Ctx :=
  { classes := [hBase, w13Sub, w13Root],
    xsiIndex := [(s "Base", [s "Base"]), (s "Sub", [s "Sub"]), (s "Root", [s "Root"])],
    datatypes := [(s xsString, some .str)] }
def w13 : Val := .obj (s "Root")
  [(s "c", .obj (s "Sub") [(s "z", .prim (.str (s "a"))), (s "m", .attrs [])])]
/-- repaired (`c01g-07`): `bind_attrs` keeps `xsi:type` out of the map of the subclass -/
theorem derived_attributes_repaired :
    ctxOK featF7 Γw13 = true ∧ valOKI true e0 Γw13 (s "Root") w13 = true ∧
    treeOf Γw13 w13 = .node (s "Root") [] [] none
      [.node (s "c") [(xsiType, s "Sub")] [] none [.node (s "z") [] [] (some (s "a")) [] none] none] none ∧
    ∃ evs t, generate e0 Γw13 {} w13 = .ok evs ∧ eventsTree (isDatatype Γw13) evs = .ok t ∧
      parseRoot e0 Γw13 {} (s "Root") t = .ok (w13, 0) :=
  ⟨by decide, by decide, rfl, bind_generate_F7 e0 Γw13 {} {} (s "Root") w13 (by decide) (by decide)⟩

/-! #### a list wildcard: generic elements among the typed ones -/

def featF8 : Feat :=
  { nillable := true, tokens := true, wrapper := true, sequence := true, fixed := true, anyAttrs := true,
    inherit := true, wildcard := true }

/-- **C01, fragment F8** = F7 + one wildcard per class without text var (`List[object]`, or
`Optional[object]` holding one generic element or `None`, with `metadata={"type": "Wildcard"}`, any
`namespace` and `process_contents`), whose items are generic
elements (`AnyElement`) in the form the parser builds (`canonAny`: a name, text `""` rather than
`None`, no tail, attributes with distinct keys, children of the same form).  The name of an item must be
one that `ElementNode.child` hands to the wildcard: not a declared element or wrapper of the class, in
the namespaces of the wildcard, and (unless `process_contents="skip"`) not the qualified name of a
class of the context. -/
theorem bind_generate_F8 (e : BEnv) (Γ : Ctx) (cfg : SerCfg) (pcfg : ParserConfig) (c : ClassId) (v : Val)
    (hΓ : ctxOK featF8 Γ = true) (hv : valOKI true e Γ c v = true) :
    ∃ evs t, generate e Γ cfg v = .ok evs ∧ eventsTree (isDatatype Γ) evs = .ok t ∧
      parseRoot e Γ pcfg c t = .ok (v, 0) :=
  bind_generate_FN featF8 e Γ cfg pcfg c v hΓ hv

def gW (nss : List String) (pc : String := "strict") : XmlVar :=
  { mkVarN 2 "w" "w" .wildcard [.obj] (listElement := true) (default := .listFactory) with
    namespaces := nss.map s, processContents := s pc }
def gA : XmlVar := mkVarN 1 "a" "a" .element [.prim .str]
def gZ : XmlVar := mkVarN 3 "z" "z" .element [.prim .int] (listElement := true) (default := .listFactory)
/-- `Root`: `a: Optional[str]`, `w: List[object]` (wildcard for the namespaces `nss`), `z: List[int]` -/
def gRoot (nss : List String) (pc : String := "strict") : ClassInfo := classOf "Root"
  { mkMeta "Root" "Root" none [gA, gZ] [] with wildcards := [gW nss pc] }
  [⟨s "a", true, some .none⟩, ⟨s "w", true, some (.list [])⟩, ⟨s "z", true, some (.list [])⟩]
def Γ8 : Ctx :=
  { twoClasses w5Leaf (gRoot ["##any"]) with xsiIndex := [(s "Leaf", [s "Leaf"]), (s "Root", [s "Root"])] }

def anyEl (q text : String) (a : List (String × String)) (kids : List Val) : Val :=
  .any (some (s q)) (some (s text)) none (a.map fun kv => (s kv.1, s kv.2)) kids

def v8 : Val := .obj (s "Root")
  [(s "a", .prim (.str (s "x"))),
   (s "w", .list [anyEl "{urn:g}p" "t" [("k", "1"), ("{urn:h}l", "a b")] [],
                 anyEl "g" "" [] [anyEl "{urn:g}h" "u" [] [], anyEl "i" "" [("m", "")] []]]),
   (s "z", .list [.prim (.int 1), .prim (.int 2)])]

example : ctxOK featF8 Γ8 = true ∧ ctxOK featF7 Γ8 = false ∧ valOKI true e0 Γ8 (s "Root") v8 = true := by
  decide

example : ∃ evs t, generate e0 Γ8 {} v8 = .ok evs ∧ eventsTree (isDatatype Γ8) evs = .ok t ∧
    parseRoot e0 Γ8 {} (s "Root") t = .ok (v8, 0) :=
  bind_generate_F8 e0 Γ8 {} {} (s "Root") v8 (by decide) (by decide)

/-- the generic elements stand between the typed ones, in the order of the field indexes -/
example : (match treeOf Γ8 v8 with
    | .node _ _ _ _ kids _ => kids.map (fun k => match k with | .node q _ _ _ _ _ => q)) =
    [s "a", s "{urn:g}p", s "g", s "z", s "z"] := by rfl

/-- witness 14: a generic element named like a class of the context, `Root(w=[AnyElement(qname="Leaf")])`:
outside the fragment, since `build_node` instantiates the class for it … -/
def w14 : Val := .obj (s "Root") [(s "a", .none), (s "w", .list [anyEl "Leaf" "" [] []]), (s "z", .list [])]

/-- … and the instance comes back with a `Leaf` object in the wildcard list -/
theorem wildcard_item_named_as_class_witness :
    ctxOK featF8 Γ8 = true ∧ valOKI true e0 Γ8 (s "Root") w14 = false ∧
    generate e0 Γ8 {} w14 = .ok (evsOf Γ8 w14) ∧
    eventsTree (isDatatype Γ8) (evsOf Γ8 w14) = .ok (treeOf Γ8 w14) ∧
    parseRoot e0 Γ8 {} (s "Root") (treeOf Γ8 w14) = .ok (.obj (s "Root")
      [(s "a", .none), (s "w", .list [.obj (s "Leaf") [(s "z", .none)]]), (s "z", .list [])], 0) :=
  ⟨by decide, by decide, rfl, rfl, rfl⟩

/-- with `process_contents="skip"` the same value is in the fragment -/
def Γ8s : Ctx :=
  { twoClasses w5Leaf (gRoot ["##any"] "skip") with xsiIndex := [(s "Leaf", [s "Leaf"]), (s "Root", [s "Root"])] }
example : ctxOK featF8 Γ8s = true ∧ valOKI true e0 Γ8s (s "Root") w14 = true := by decide
example : ∃ evs t, generate e0 Γ8s {} w14 = .ok evs ∧ eventsTree (isDatatype Γ8s) evs = .ok t ∧
    parseRoot e0 Γ8s {} (s "Root") t = .ok (w14, 0) :=
  bind_generate_F8 e0 Γ8s {} {} (s "Root") w14 (by decide) (by decide)

/-- a generic element with a tail, `AnyElement(qname="g", tail="x")`, is outside the fragment (the
tail of a wildcard child is kept by `WildcardNode.bind`, so it does round-trip: `./check C01` compares
such values on code and model; the statement about tails is C11's) -/
def w15 : Val := .obj (s "Root")
  [(s "a", .none), (s "w", .list [.any (some (s "g")) (some []) (some (s "x")) [] []]), (s "z", .list [])]
example : valOKI true e0 Γ8 (s "Root") w15 = false := by decide

/-! #### positive instances of the smaller fragments -/

/-- F2: `a: Optional[str]` nillable holding `None` (written `<a xsi:nil="true"/>`) -/
def v2n : Val := .obj (s "Root") [(s "a", .none)]
example : ctxOK featF2 Γw6 = true ∧ ctxOK {} Γw6 = false ∧ valOK e0 Γw6 (s "Root") v2n = true := by decide
example : ∃ evs t, generate e0 Γw6 {} v2n = .ok evs ∧ eventsTree (isDatatype Γw6) evs = .ok t ∧
    parseRoot e0 Γw6 {} (s "Root") t = .ok (v2n, 0) :=
  bind_generate_F2 e0 Γw6 {} {} (s "Root") v2n (by decide) (by decide)
example : treeOf Γw6 v2n = .node (s "Root") [] [] none [.node (s "a") [(xsiNil, s "true")] [] none [] none] none := rfl

/-- F3: a nillable class whose text is a token list, `Root(c=[Leaf(v=[1, 2])])` -/
def v3t : Val := .obj (s "Root") [(s "c", .list [.obj (s "Leaf") [(s "v", .list [.prim (.int 1), .prim (.int 2)])]])]
example : ctxOK featF3 Γw8 = true ∧ ctxOK featF2 Γw8 = false ∧ valOK e0 Γw8 (s "Root") v3t = true := by decide
example : ∃ evs t, generate e0 Γw8 {} v3t = .ok evs ∧ eventsTree (isDatatype Γw8) evs = .ok t ∧
    parseRoot e0 Γw8 {} (s "Root") t = .ok (v3t, 0) :=
  bind_generate_F3 e0 Γw8 {} {} (s "Root") v3t (by decide) (by decide)

/-- the union statement on an instance of each kind -/
example : ∃ evs t, generate e0 Γw8 {} v3t = .ok evs ∧ eventsTree (isDatatype Γw8) evs = .ok t ∧
    parseRoot e0 Γw8 {} (s "Root") t = .ok (v3t, 0) :=
  bind_generate_partial e0 Γw8 {} {} (s "Root") v3t (Or.inr ⟨featF3, by decide, by decide⟩)
example : ∃ evs t, generate e0 Γ2 {} v2 = .ok evs ∧ eventsTree (isDatatype Γ2) evs = .ok t ∧
    parseRoot e0 Γ2 {} (s "Root") t = .ok (v2, 0) :=
  bind_generate_partial e0 Γ2 {} {} (s "Root") v2 (Or.inl ⟨by decide, by decide⟩)

/-! #### a single (non-list) wildcard -/

def gW1 : XmlVar :=
  { mkVarN 2 "w" "w" .wildcard [.obj] with namespaces := [s "##any"] }
/-- `Root`: `a: Optional[str]`, `w: Optional[object]` (wildcard), `z: List[int]` -/
def gRoot1 : ClassInfo := classOf "Root"
  { mkMeta "Root" "Root" none [gA, gZ] [] with wildcards := [gW1] }
  [⟨s "a", true, some .none⟩, ⟨s "w", true, some .none⟩, ⟨s "z", true, some (.list [])⟩]
def Γ8o : Ctx := twoClasses w5Leaf gRoot1

def v8o : Val := .obj (s "Root")
  [(s "a", .prim (.str (s "x"))),
   (s "w", anyEl "g" "" [("k", "1")] [anyEl "{urn:g}h" "u" [] [], anyEl "i" "" [] []]),
   (s "z", .list [.prim (.int 1)])]
def v8n : Val := .obj (s "Root") [(s "a", .none), (s "w", .none), (s "z", .list [])]

example : ctxOK featF8 Γ8o = true ∧ valOKI true e0 Γ8o (s "Root") v8o = true ∧
    valOKI true e0 Γ8o (s "Root") v8n = true := by decide
example : ∃ evs t, generate e0 Γ8o {} v8o = .ok evs ∧ eventsTree (isDatatype Γ8o) evs = .ok t ∧
    parseRoot e0 Γ8o {} (s "Root") t = .ok (v8o, 0) :=
  bind_generate_F8 e0 Γ8o {} {} (s "Root") v8o (by decide) (by decide)
example : ∃ evs t, generate e0 Γ8o {} v8n = .ok evs ∧ eventsTree (isDatatype Γ8o) evs = .ok t ∧
    parseRoot e0 Γ8o {} (s "Root") t = .ok (v8n, 0) :=
  bind_generate_F8 e0 Γ8o {} {} (s "Root") v8n (by decide) (by decide)
/-- a list in a single wildcard is outside the fragment -/
example : valOKI true e0 Γ8o (s "Root") (.obj (s "Root") [(s "a", .none), (s "w", .list []), (s "z", .list [])]) = false := by
  decide

/-! #### unions of primitives -/

def featF9 : Feat :=
  { nillable := true, tokens := true, wrapper := true, sequence := true, fixed := true, anyAttrs := true,
    inherit := true, wildcard := true, union := true }

/-- **C01, fragment F9** = F8 + element vars whose type is a union of `str` / `int` / `bool`
(`Optional[Union[..]]` with default `None`, or a list of them).  A value must be what
`converter.deserialize` makes of its own serialization: no type that the converter tries earlier
accepts the text (`unionItemOK`, evaluated with the model's converter). -/
theorem bind_generate_F9 (e : BEnv) (Γ : Ctx) (cfg : SerCfg) (pcfg : ParserConfig) (c : ClassId) (v : Val)
    (hΓ : ctxOK featF9 Γ = true) (hv : valOKI true e Γ c v = true) :
    ∃ evs t, generate e Γ cfg v = .ok evs ∧ eventsTree (isDatatype Γ) evs = .ok t ∧
      parseRoot e Γ pcfg c t = .ok (v, 0) :=
  bind_generate_FN featF9 e Γ cfg pcfg c v hΓ hv

/-- `a: Optional[Union[int, str]]`, `b: List[Union[bool, str]]` (the converter tries `int` before `str`,
`bool` before `str`) -/
def uA : XmlVar := mkVarN 1 "a" "a" .element [.prim .int, .prim .str]
def uB : XmlVar := mkVarN 2 "b" "b" .element [.prim .bool, .prim .str] (listElement := true) (default := .listFactory)
def Γ9 : Ctx := rootOnly [uA, uB] [] none [⟨s "a", true, some .none⟩, ⟨s "b", true, some (.list [])⟩]

def v9 : Val := .obj (s "Root")
  [(s "a", .prim (.str (s "abc"))), (s "b", .list [.prim (.bool true), .prim (.str (s "x")), .prim (.str [])])]
def v9i : Val := .obj (s "Root") [(s "a", .prim (.int 5)), (s "b", .list [])]

example : ctxOK featF9 Γ9 = true ∧ ctxOK featF8 Γ9 = false ∧ valOKI true e0 Γ9 (s "Root") v9 = true ∧
    valOKI true e0 Γ9 (s "Root") v9i = true := by decide
example : ∃ evs t, generate e0 Γ9 {} v9 = .ok evs ∧ eventsTree (isDatatype Γ9) evs = .ok t ∧
    parseRoot e0 Γ9 {} (s "Root") t = .ok (v9, 0) :=
  bind_generate_F9 e0 Γ9 {} {} (s "Root") v9 (by decide) (by decide)

/-- witness 16: a `str` that an earlier type of the union accepts, `Root(b=["true"])` with
`b: List[Union[bool, str]]` (likewise `"5"` under `Union[int, str]`) … -/
def w16 : Val := .obj (s "Root") [(s "a", .none), (s "b", .list [.prim (.str (s "true"))])]

/-- … comes back as the `bool` `True` -/
theorem union_str_reads_as_earlier_type_witness :
    ctxOK featF9 Γ9 = true ∧ valOKI true e0 Γ9 (s "Root") w16 = false ∧
    generate e0 Γ9 {} w16 = .ok (evsOf Γ9 w16) ∧
    eventsTree (isDatatype Γ9) (evsOf Γ9 w16) = .ok (treeOf Γ9 w16) ∧
    treeOf Γ9 w16 = .node (s "Root") [] [] none [.node (s "b") [] [] (some (s "true")) [] none] none ∧
    parseRoot e0 Γ9 {} (s "Root")
        (.node (s "Root") [] [] none [.node (s "b") [] [] (some (s "true")) [] none] none) =
      .ok (.obj (s "Root") [(s "a", .none), (s "b", .list [.prim (.bool true)])], 0) :=
  ⟨by decide, by decide, rfl, rfl, rfl, rfl⟩

/-! #### QName-typed elements -/

def featF10 : Feat :=
  { nillable := true, tokens := true, wrapper := true, sequence := true, fixed := true, anyAttrs := true,
    inherit := true, wildcard := true, union := true, qname := true }

/-- **C01, fragment F10** = F9 + element vars of type `QName` (`Optional[QName]` with default `None`, or
`List[QName]`).  The value must have an NCName local part (`typeNameOK`); its namespace gets a prefix of
the document's prefix map.  The hypothesis on the prefix map is exact and internal: the parser half of
the proof is stated under `TypesGood e M evs` (what the writer makes of every QName written in `evs`,
`qnameText M t`, is resolved back to `t` under `M`), which `prefixMap (collectUris evs)` satisfies
(`Proofs.C01.typesGood_prefixMap`). -/
theorem bind_generate_F10 (e : BEnv) (Γ : Ctx) (cfg : SerCfg) (pcfg : ParserConfig) (c : ClassId) (v : Val)
    (hΓ : ctxOK featF10 Γ = true) (hv : valOKI true e Γ c v = true) :
    ∃ evs t, generate e Γ cfg v = .ok evs ∧ eventsTree (isDatatype Γ) evs = .ok t ∧
      parseRoot e Γ pcfg c t = .ok (v, 0) :=
  bind_generate_FN featF10 e Γ cfg pcfg c v hΓ hv

def qA : XmlVar := mkVarN 1 "a" "a" .element [.prim .qname]
def qB : XmlVar := mkVarN 2 "b" "b" .element [.prim .qname] (listElement := true) (default := .listFactory)
def Γ10 : Ctx := rootOnly [qA, qB] [] none [⟨s "a", true, some .none⟩, ⟨s "b", true, some (.list [])⟩]

def v10 : Val := .obj (s "Root")
  [(s "a", .prim (.qname (s "{urn:a}n1"))),
   (s "b", .list [.prim (.qname (s "n2")), .prim (.qname (s "{urn:q}n1")), .prim (.qname (s "{urn:a}n2"))])]

example : ctxOK featF10 Γ10 = true ∧ ctxOK featF9 Γ10 = false ∧ valOKI true e0 Γ10 (s "Root") v10 = true := by
  decide
example : ∃ evs t, generate e0 Γ10 {} v10 = .ok evs ∧ eventsTree (isDatatype Γ10) evs = .ok t ∧
    parseRoot e0 Γ10 {} (s "Root") t = .ok (v10, 0) :=
  bind_generate_F10 e0 Γ10 {} {} (s "Root") v10 (by decide) (by decide)

/-- the document: one prefix per namespace, in order of first use -/
example : (match treeOf Γ10 v10 with
    | .node _ _ _ _ kids _ => kids.map (fun k => match k with | .node _ _ _ t _ _ => t)) =
    [some (s "q0:n1"), some (s "n2"), some (s "q1:n1"), some (s "q0:n2")] := by rfl

/-- a QName whose local part is no NCName is outside the fragment -/
example : valOKI true e0 Γ10 (s "Root")
    (.obj (s "Root") [(s "a", .prim (.qname (s "{urn:a}n 1"))), (s "b", .list [])]) = false := by decide

end Props.C01
