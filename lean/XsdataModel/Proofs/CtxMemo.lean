/- Helper lemmas for C14: memo dict and LRU transparency. -/
import XsdataModel.Ctx.Memo
import XsdataModel.Proofs.CtxInv

namespace Xs.Ctx
open Py

/-! ### match_namespace memo -/

def MemoInv (nss : List Str) (memo : NsMemo) : Prop :=
  ∀ q b, (memo.getD []).lookup q = some b → b = matchNamespacePure nss q

theorem MemoInv.none (nss : List Str) : MemoInv nss none := by
  intro q b h; simp [List.lookup] at h

theorem matchNamespace_spec {nss : List Str} {memo : NsMemo} (h : MemoInv nss memo) (q : Str) :
    (matchNamespace nss memo q).2 = matchNamespacePure nss q ∧ MemoInv nss (matchNamespace nss memo q).1 := by
  unfold matchNamespace
  dsimp only
  cases hl : (memo.getD []).lookup q with
  | some b =>
    dsimp only
    refine ⟨(h q b hl), ?_⟩
    intro q' b' h'
    exact h q' b' (by simpa using h')
  | none =>
    dsimp only
    refine ⟨rfl, ?_⟩
    intro q' b' h'
    simp only [Option.getD_some] at h'
    by_cases hq : q' = q
    · subst hq
      rw [lookup_dictSet_self] at h'
      exact (Option.some.inj h').symm
    · rw [lookup_dictSet_ne _ _ _ _ hq] at h'
      exact h q' b' h'

theorem matchRun_spec {nss : List Str} : ∀ (qs : List Str) (memo : NsMemo), MemoInv nss memo →
    matchRun nss memo qs = qs.map (matchNamespacePure nss)
  | [], _, _ => rfl
  | q :: qs, memo, h => by
    obtain ⟨h1, h2⟩ := matchNamespace_spec h q
    simp only [matchRun, List.map_cons, h1, matchRun_spec qs _ h2]

/-! ### lru_cache -/

def LruInv {κ ν} [BEq κ] [LawfulBEq κ] [DecidableEq κ] (f : κ → Option ν) (c : List (κ × ν)) : Prop :=
  ∀ k v, c.lookup k = some v → f k = some v

theorem lookup_filter_ne {κ ν} [BEq κ] [LawfulBEq κ] [DecidableEq κ] (c : List (κ × ν)) (k k' : κ) (h : k' ≠ k) :
    (c.filter (fun e => e.1 != k)).lookup k' = c.lookup k' := by
  induction c with
  | nil => rfl
  | cons hd tl ih =>
    obtain ⟨k0, v0⟩ := hd
    by_cases h0 : k0 = k
    · subst h0
      simp [List.filter, lookup_cons_if, h, ih]
    · have : (k0 != k) = true := by simp [h0]
      simp [List.filter, this, lookup_cons_if, ih]

theorem lookup_take_some {κ ν} [BEq κ] [LawfulBEq κ] [DecidableEq κ] : ∀ (n : Nat) (c : List (κ × ν)) (k : κ) (v : ν),
    (c.take n).lookup k = some v → c.lookup k = some v
  | 0, _, _, _, h => by simp [List.lookup] at h
  | _ + 1, [], _, _, h => by simp [List.lookup] at h
  | n + 1, (k0, v0) :: tl, k, v, h => by
    simp only [List.take_succ_cons, lookup_cons_if] at h ⊢
    by_cases hk : k = k0
    · simpa [hk] using h
    · simp only [hk, if_false] at h ⊢
      exact lookup_take_some n tl k v h

theorem lruCall_spec {κ ν} [BEq κ] [LawfulBEq κ] [DecidableEq κ] {f : κ → Option ν} {c : List (κ × ν)} (cap : Nat)
    (h : LruInv f c) (k : κ) :
    (lruCall f cap c k).2.1 = f k ∧ LruInv f (lruCall f cap c k).1 := by
  unfold lruCall
  cases hl : c.lookup k with
  | some v =>
    refine ⟨(h k v hl).symm, ?_⟩
    intro k' v' h'
    simp only [lookup_cons_if] at h'
    by_cases hk : k' = k
    · subst hk
      simp only [if_true] at h'
      rw [← Option.some.inj h']
      exact h k' v hl
    · simp only [hk, if_false] at h'
      rw [lookup_filter_ne _ _ _ hk] at h'
      exact h k' v' h'
  | none =>
    cases hf : f k with
    | none => exact ⟨rfl, h⟩
    | some v =>
      refine ⟨rfl, ?_⟩
      intro k' v' h'
      have h'' := lookup_take_some _ _ _ _ h'
      simp only [lookup_cons_if] at h''
      by_cases hk : k' = k
      · subst hk
        simp only [if_true] at h''
        rw [← Option.some.inj h'']
        exact hf
      · simp only [hk, if_false] at h''
        exact h k' v' h''

theorem lruRun_spec {κ ν} [BEq κ] [LawfulBEq κ] [DecidableEq κ] {f : κ → Option ν} (cap : Nat) :
    ∀ (ks : List κ) (c : List (κ × ν)), LruInv f c → (lruRun f cap c ks).map (·.1) = ks.map f
  | [], _, _ => rfl
  | k :: ks, c, h => by
    obtain ⟨h1, h2⟩ := lruCall_spec cap h k
    simp only [lruRun, List.map_cons, h1, lruRun_spec cap ks _ h2]

/-! ### the prefix recorder -/

theorem lookup_append {κ ν} [BEq κ] [LawfulBEq κ] [DecidableEq κ] (a b : List (κ × ν)) (k : κ) :
    (a ++ b).lookup k = match a.lookup k with
      | some v => some v
      | none => b.lookup k := by
  induction a with
  | nil => rfl
  | cons hd tl ih =>
    obtain ⟨k0, v0⟩ := hd
    simp only [List.cons_append, lookup_cons_if]
    by_cases h : k = k0
    · simp [h]
    · simp [h, ih]

/-- what the recorder answers for a prefix after a document's declarations have been
registered: what it answered before, otherwise the *first* binding in the document -/
theorem lookup_registerAll : ∀ (decls m : NsMap) (pfx : Option Str),
    (registerAll m decls).lookup pfx = match m.lookup pfx with
      | some u => some u
      | none => decls.lookup pfx
  | [], m, pfx => by
    simp only [registerAll, List.foldl_nil]
    cases m.lookup pfx <;> rfl
  | (p0, u0) :: rest, m, pfx => by
    have ih := lookup_registerAll rest (registerNs m p0 u0) pfx
    simp only [registerAll, List.foldl_cons] at ih ⊢
    rw [ih]
    unfold registerNs
    cases h0 : m.lookup p0 with
    | some v =>
      simp only
      cases hm : m.lookup pfx with
      | some u => rfl
      | none =>
        simp only [lookup_cons_if]
        by_cases hp : pfx = p0
        · subst hp; rw [h0] at hm; cases hm
        · simp [hp]
    | none =>
      simp only [lookup_append, lookup_cons_if]
      cases hm : m.lookup pfx with
      | some u => rfl
      | none =>
        by_cases hp : pfx = p0
        · simp [hp, List.lookup]
        · simp [hp, List.lookup]

/-- after a history of parses, the last of which was given no map by the caller, the
instance holds the recorder of that last document alone -/
theorem recRun_last {Doc R} (decls : Doc → NsMap) (bind : Doc → R) :
    ∀ (h : List (Doc × Option NsMap)) (p : ParserInst) (d : Doc),
      (recRun decls bind p (h ++ [(d, none)])).1 = ⟨registerAll [] (decls d)⟩
  | [], p, d => rfl
  | (d0, arg) :: rest, p, d => by
    simp only [List.cons_append, recRun]
    exact recRun_last decls bind rest _ d

end Xs.Ctx
