/-
C01 (fragments F2…): the children of an `ElementNode` with wrapper elements: `ElementNode.child`
with the `assigned` and `wrappers` bookkeeping, `WrapperNode`, and `bind_objects` / `pop_wrapper`.
-/
import XsdataModel.Proofs.C01NChunks

namespace Proofs.C01
open Py Xs.Bind Xs.Bind.F1 Xs.Bind.FN

/-! ### the `wrappers` dict as a finite map of queues -/

abbrev Ws := List (QN × List QN)

def wsGet (ws : Ws) (q : QN) : List QN := ((ws.find? (·.1 = q)).map (·.2)).getD []

/-- what `ElementNode.child(.., wrapper)` does to `self.wrappers` -/
def pushWs (ws : Ws) (q : QN) (wr : Option QN) : Ws :=
  match wr with
  | some w =>
    if ws.any (·.1 = q) then ws.map (fun (k, l) => if k = q then (k, l ++ [w]) else (k, l))
    else ws ++ [(q, [w])]
  | none => ws

theorem wsGet_cons (a : QN × List QN) (t : Ws) (q : QN) :
    wsGet (a :: t) q = if a.1 = q then a.2 else wsGet t q := by
  simp only [wsGet, List.find?_cons]
  by_cases h : a.1 = q <;> simp [h]

theorem wsGet_nil (q : QN) : wsGet [] q = [] := rfl

theorem wsGet_of_not_any {ws : Ws} {q : QN} (h : ws.any (·.1 = q) = false) : wsGet ws q = [] := by
  induction ws with
  | nil => rfl
  | cons a t ih =>
    simp only [List.any_cons, Bool.or_eq_false_iff, decide_eq_false_iff_not] at h
    rw [wsGet_cons]; simp [h.1, ih h.2]

theorem wsGet_upd_ne (ws : Ws) {q q' : QN} (f : List QN → List QN) (h : q' ≠ q) :
    wsGet (ws.map (fun (x : QN × List QN) => match x with
      | (k, l) => if k = q then (k, f l) else (k, l))) q' = wsGet ws q' := by
  induction ws with
  | nil => rfl
  | cons a t ih =>
    obtain ⟨k, l⟩ := a
    rw [List.map_cons, wsGet_cons, wsGet_cons, ih]
    by_cases h1 : k = q <;> by_cases h3 : k = q' <;> simp_all

theorem wsGet_upd_self (ws : Ws) {q : QN} (f : List QN → List QN) (h : ws.any (·.1 = q) = true) :
    wsGet (ws.map (fun (x : QN × List QN) => match x with
      | (k, l) => if k = q then (k, f l) else (k, l))) q = f (wsGet ws q) := by
  induction ws with
  | nil => simp at h
  | cons a t ih =>
    obtain ⟨k, l⟩ := a
    rw [List.map_cons, wsGet_cons, wsGet_cons]
    by_cases h1 : k = q
    · simp [h1]
    · have : t.any (·.1 = q) = true := by simpa [h1] using h
      simp [h1, ih this]

theorem wsGet_append_fresh (ws : Ws) {q : QN} (l : List QN) (q' : QN)
    (h : ws.any (·.1 = q) = false) :
    wsGet (ws ++ [(q, l)]) q' = if q' = q then l else wsGet ws q' := by
  induction ws with
  | nil =>
    rw [List.nil_append, wsGet_cons, wsGet_nil]
    simp only []
    by_cases h' : q = q'
    · simp [h']
    · have : ¬ q' = q := fun h'' => h' h''.symm
      simp [h', this]
  | cons a t ih =>
    simp only [List.any_cons, Bool.or_eq_false_iff, decide_eq_false_iff_not] at h
    rw [List.cons_append, wsGet_cons, wsGet_cons, ih h.2]
    by_cases h1 : a.1 = q'
    · have : ¬ q' = q := by rw [← h1]; exact h.1
      simp [h1, this]
    · simp [h1]

theorem wsGet_push (ws : Ws) (q q' : QN) (w : QN) :
    wsGet (pushWs ws q (some w)) q' = if q' = q then wsGet ws q ++ [w] else wsGet ws q' := by
  unfold pushWs
  by_cases hany : ws.any (·.1 = q) = true
  · simp only [hany, if_true]
    by_cases h : q' = q
    · subst h; simp [wsGet_upd_self ws (· ++ [w]) hany]
    · simp [h, wsGet_upd_ne ws (· ++ [w]) h]
  · have hany' : ws.any (·.1 = q) = false := by
      cases hb : ws.any (·.1 = q) with
      | true => exact absurd hb hany
      | false => rfl
    simp only [hany', Bool.false_eq_true, if_false]
    rw [wsGet_append_fresh ws [w] q' hany', wsGet_of_not_any hany']
    simp

/-- `pop_wrapper` in terms of the queues -/
theorem popWrapper_cons (ws : Ws) (q w : QN) (rest : List QN) (h : wsGet ws q = w :: rest) :
    (popWrapper ws (some q)).1 = some w ∧
      ∀ q', wsGet (popWrapper ws (some q)).2 q' = if q' = q then rest else wsGet ws q' := by
  have hfind : ∃ k, ws.find? (·.1 = q) = some (k, w :: rest) := by
    unfold wsGet at h
    cases hf : ws.find? (·.1 = q) with
    | none => simp [hf] at h
    | some kl => exact ⟨kl.1, by simp [hf] at h; rw [← h]⟩
  obtain ⟨k, hf⟩ := hfind
  have hany : ws.any (·.1 = q) = true := by
    have := List.mem_of_find?_eq_some hf
    have hk := List.find?_some hf
    simp only [decide_eq_true_eq] at hk
    simp only [List.any_eq_true, decide_eq_true_eq]
    exact ⟨_, this, hk⟩
  simp only [popWrapper, hf]
  refine ⟨trivial, fun q' => ?_⟩
  by_cases h' : q' = q
  · subst h'
    rw [wsGet_upd_self ws (fun _ => rest) hany]; simp
  · rw [wsGet_upd_ne ws (fun _ => rest) h']; simp [h']

theorem popWrapper_nil (ws : Ws) (q : QN) (h : wsGet ws q = []) :
    popWrapper ws (some q) = (none, ws) := by
  unfold wsGet at h
  simp only [popWrapper]
  cases hf : ws.find? (·.1 = q) with
  | none => rfl
  | some kl =>
    obtain ⟨k, l⟩ := kl
    simp [hf] at h
    subst h; rfl


/-! ### `ElementNode.child` and the children of one (possibly wrapped) var -/

/-- `find_children` yields the element var first (a wildcard that also takes the name comes after it) -/
theorem findChildren_cons {m : XmlMeta} {var : XmlVar} (hf : ElemFactsN m var)
    (hc : m.choices = []) : ∃ rest, m.findChildren var.qname = var :: rest := by
  exact ⟨(m.findWildcard var.qname).toList, by simp [XmlMeta.findChildren, hf.find, hc]⟩

/-- a var that takes any number of child elements: `ElementNode.child` records only the non-list
*element* vars in `assigned` (a wildcard, list or not, is never recorded) -/
def multi (var : XmlVar) : Bool := !var.isElement || var.listElement

theorem multi_elem {var : XmlVar} (h : var.kind = .element) : multi var = var.listElement := by
  simp [multi, VarCore.isElement, h]

theorem multi_false {var : XmlVar} (h : multi var = false) : var.kind = .element ∧ var.listElement = false := by
  simpa [multi, VarCore.isElement] using h

/-- `AssignedOK` / `assignedAfter` of the F1 proof, keyed on `multi` -/
def AssignedOKN : List Nat → List (XmlVar × Val) → Prop
  | _, [] => True
  | asg, (var, _) :: rest =>
    if multi var then AssignedOKN asg rest
    else var.index ∉ asg ∧ AssignedOKN (var.index :: asg) rest

def assignedAfterN : List Nat → List (XmlVar × Val) → List Nat
  | asg, [] => asg
  | asg, (var, _) :: rest => assignedAfterN (if multi var then asg else var.index :: asg) rest

/-- the node state after `child` found `var` under wrapper `wr` -/
def stStep (st : ElState) (wr : Option QN) (var : XmlVar) : ElState :=
  ⟨if multi var then st.assigned else var.index :: st.assigned,
   pushWs st.wrappers var.qname wr⟩

def stAfter (st : ElState) (wr : Option QN) : List (XmlVar × Val) → ElState
  | [] => st
  | en :: r => stAfter (stStep st wr en.1) wr r

theorem childNode_N (e : BEnv) (Γ : Ctx) (pcfg : ParserConfig) {m : XmlMeta} {var : XmlVar}
    (hf : ElemFactsN m var) (hc : m.choices = []) (st : ElState)
    (a : List (QN × Str)) (M : NsMap) {node : Node}
    (hb : buildNode e Γ m var.qname var a M = .ok (some node))
    (hasg : multi var = false → var.index ∉ st.assigned) :
    childNode e Γ pcfg m st var.qname a M var.wrapperQName = .ok (node, stStep st var.wrapperQName var) := by
  have hm := multi_elem hf.isElem
  have hidx : var.index ≠ 0 := by have := hf.index; omega
  obtain ⟨rest, hfc⟩ := findChildren_cons hf hc
  by_cases hl : var.listElement = true
  · cases hwq : var.wrapperQName <;>
      simp [childNode, childNode.go, hfc, hl, hb, stStep, hm, pushWs, hwq]
  · have hl' : var.listElement = false := by simpa using hl
    cases hwq : var.wrapperQName <;>
      simp [childNode, childNode.go, hfc, hl', hb, stStep, hm, pushWs, hwq,
        VarCore.isElement, hf.isElem, hidx, hasg (by rw [hm]; exact hl')]

/-- what the parser does with the child element `t` written for the entry `(var, y)`: the element
is not taken for a wrapper, `ElementNode.child` hands it to `var` (whatever was assigned before, as
long as a non-list var is still free), and the node gives `y` back under the qname of the var.
(For an element var the element is named like the var; for a wildcard it has its own name.) -/
def ItemK (e : BEnv) (Γ : Ctx) (pcfg : ParserConfig) (M : NsMap) (m : XmlMeta) (var : XmlVar)
    (y : Val) (t : Tree) : Prop :=
  ∃ q a text kids node, t = .node q a M text kids none ∧
    m.wrappers.any (·.1 = q) = false ∧
    (∀ st : ElState, (multi var = false → var.index ∉ st.assigned) →
      childNode e Γ pcfg m st q a M var.wrapperQName = .ok (node, stStep st var.wrapperQName var)) ∧
    parseNode e Γ pcfg node t = .ok ⟨[(some var.qname, y)], 0⟩

theorem itemK_of_itemP {e : BEnv} {Γ : Ctx} {pcfg : ParserConfig} {M : NsMap} {m : XmlMeta} {var : XmlVar}
    (hf : ElemFactsN m var) (hc : m.choices = []) {y : Val} {t : Tree}
    (h : ItemP e Γ pcfg M m var y t) : ItemK e Γ pcfg M m var y t := by
  obtain ⟨a, text, kids, node, ht, hb, hp⟩ := h
  exact ⟨var.qname, a, text, kids, node, ht, hf.notWrapperName,
    fun st hasg => childNode_N e Γ pcfg hf hc st a M hb hasg, hp⟩

theorem stAfter_assigned (wr : Option QN) : ∀ (entries : List (XmlVar × Val)) (st : ElState),
    (stAfter st wr entries).assigned = assignedAfterN st.assigned entries := by
  intro entries
  induction entries with
  | nil => intro st; rfl
  | cons en r ih => intro st; simp [stAfter, assignedAfterN, ih, stStep]

/-- the child elements of one var (all under the same wrapper `wr`, `none` = directly under the
element), followed by `rest` -/
theorem parseKids_itemsN (e : BEnv) (Γ : Ctx) (pcfg : ParserConfig) (M : NsMap) {m : XmlMeta}
    (wr : Option QN) (tr : XmlVar × Val → Tree)
    (rest : List Tree) :
    ∀ (entries : List (XmlVar × Val)) (st : ElState) (ro : Objs) (rw : Nat) (stf : ElState),
    (∀ en ∈ entries, en.1.wrapperQName = wr ∧ ItemK e Γ pcfg M m en.1 en.2 (tr en)) →
    AssignedOKN st.assigned entries →
    parseKids e Γ pcfg m (stAfter st wr entries) wr rest = .ok (⟨ro, rw⟩, stf) →
    parseKids e Γ pcfg m st wr (entries.map tr ++ rest) =
      .ok (⟨entries.map (fun en => (some en.1.qname, en.2)) ++ ro, rw⟩, stf) := by
  intro entries
  induction entries with
  | nil => intro st ro rw stf _ _ hrest; simpa [stAfter] using hrest
  | cons en r ih =>
    intro st ro rw stf h hasg hrest
    obtain ⟨var, y⟩ := en
    have hh := h (var, y) (by simp)
    have hwr : var.wrapperQName = wr := hh.1
    obtain ⟨q, a, text, kids, node, ht, hnwq, hch, hp⟩ : ItemK e Γ pcfg M m var y (tr (var, y)) := hh.2
    have hasg' : (multi var = false → var.index ∉ st.assigned) ∧
        AssignedOKN (stStep st wr var).assigned r := by
      by_cases hl : multi var = true
      · simp only [AssignedOKN, hl, if_true] at hasg
        exact ⟨fun h' => by simp [hl] at h', by simpa [stStep, hl] using hasg⟩
      · have hl' : multi var = false := by simpa using hl
        simp only [AssignedOKN, hl', Bool.false_eq_true, if_false] at hasg
        exact ⟨fun _ => hasg.1, by simpa [stStep, hl'] using hasg.2⟩
    have hchild := hch st hasg'.1
    rw [hwr] at hchild
    have hrec := ih (stStep st wr var) ro rw stf (fun en hen => h en (by simp [hen])) hasg'.2
      (by simpa [stAfter] using hrest)
    simp only [List.map_cons, List.cons_append, ht]
    rw [parseKids]
    have hnw : (wr.isNone && m.wrappers.any (·.1 = q)) = false := by
      rw [hnwq]; simp
    simp only [hnw, Bool.false_eq_true, if_false]
    rw [← ht]
    simp [hchild, hp, hrec, bind, Except.bind, pure, Except.pure]


/-! ### all children: a list of emitted `(var, value)` pairs -/

def chunkEntries (c : XmlVar × Val) : List (XmlVar × Val) := (itemsN c.1 c.2).map fun y => (c.1, y)

def stAfterChunks (st : ElState) : List (XmlVar × Val) → ElState
  | [] => st
  | c :: r => stAfterChunks (stAfter st c.1.wrapperQName (chunkEntries c)) r

theorem AssignedOKN_append (a b : List (XmlVar × Val)) : ∀ asg : List Nat,
    AssignedOKN asg (a ++ b) ↔ AssignedOKN asg a ∧ AssignedOKN (assignedAfterN asg a) b := by
  induction a with
  | nil => intro asg; simp [AssignedOKN, assignedAfterN]
  | cons en r ih =>
    intro asg
    obtain ⟨var, y⟩ := en
    by_cases hl : multi var = true
    · simp [AssignedOKN, assignedAfterN, hl, ih]
    · have hl' : multi var = false := by simpa using hl
      simp [AssignedOKN, assignedAfterN, hl', ih, and_assoc]

theorem chunkTrees_none {M : NsMap} {tr : Val → Tree} {var : XmlVar} {x : Val}
    (h : var.wrapperQName = none) : chunkTrees M tr var x = (itemsN var x).map tr := by
  simp [chunkTrees, h]

theorem chunkTrees_some {M : NsMap} {tr : Val → Tree} {var : XmlVar} {x : Val} {w : QN}
    (h : var.wrapperQName = some w) :
    chunkTrees M tr var x = [.node w [] M none ((itemsN var x).map tr) none] := by
  simp [chunkTrees, h]

theorem parseKids_chunks (e : BEnv) (Γ : Ctx) (pcfg : ParserConfig) (M : NsMap) {m : XmlMeta}
    (tr : XmlVar × Val → Tree) :
    ∀ (chunks : List (XmlVar × Val)) (st : ElState),
    (∀ c ∈ chunks, (∀ w, c.1.wrapperQName = some w → m.wrappers.any (·.1 = w) = true) ∧
      ∀ en ∈ chunkEntries c, ItemK e Γ pcfg M m en.1 en.2 (tr en)) →
    AssignedOKN st.assigned (chunks.flatMap chunkEntries) →
    parseKids e Γ pcfg m st none
        (chunks.flatMap fun c => chunkTrees M (fun y => tr (c.1, y)) c.1 c.2) =
      .ok (⟨(chunks.flatMap chunkEntries).map (fun en => (some en.1.qname, en.2)), 0⟩,
        stAfterChunks st chunks) := by
  intro chunks
  induction chunks with
  | nil => intro st _ _; simp [parseKids, stAfterChunks]
  | cons c r ih =>
    intro st h hasg
    obtain ⟨var, x⟩ := c
    have hc1 := h (var, x) (by simp)
    have hwrapOK := hc1.1
    simp only [List.flatMap_cons] at hasg ⊢
    rw [AssignedOKN_append] at hasg
    have hentries : ∀ en ∈ chunkEntries (var, x),
        en.1.wrapperQName = var.wrapperQName ∧ ItemK e Γ pcfg M m en.1 en.2 (tr en) := by
      intro en hen
      have hv : en.1 = var := by
        simp only [chunkEntries, List.mem_map] at hen
        obtain ⟨y, _, rfl⟩ := hen; rfl
      exact ⟨by rw [hv], hc1.2 en hen⟩
    have hrest := ih (stAfter st var.wrapperQName (chunkEntries (var, x)))
      (fun c hc' => h c (by simp [hc'])) (by rw [stAfter_assigned]; exact hasg.2)
    have htrees : (itemsN var x).map (fun y => tr (var, y)) = (chunkEntries (var, x)).map tr := by
      simp [chunkEntries]
    cases hwq : var.wrapperQName with
    | none =>
      rw [hwq] at hentries hrest
      rw [chunkTrees_none hwq]
      simp only [htrees, stAfterChunks, List.map_append, hwq]
      exact parseKids_itemsN e Γ pcfg M none tr _ _ st _ 0 _ hentries hasg.1 hrest
    | some w =>
      rw [hwq] at hentries hrest
      rw [chunkTrees_some hwq]
      simp only [htrees, stAfterChunks, List.map_append, List.cons_append, List.nil_append, hwq]
      rw [parseKids]
      have hcond : ((none : Option QN).isNone && m.wrappers.any (·.1 = w)) = true := by
        simp [hwrapOK w hwq]
      simp only [hcond, if_true]
      have hinner := parseKids_itemsN e Γ pcfg M (some w) tr [] (chunkEntries (var, x)) st [] 0
        (stAfter st (some w) (chunkEntries (var, x))) hentries hasg.1 (by simp [parseKids])
      simp only [List.append_nil] at hinner
      simp [hinner, hrest, bind, Except.bind, pure, Except.pure]

/-! ### `pop_wrapper` along `bind_objects` -/

/-- the queue of wrappers recorded for qname `q` by the `child` calls of the entries -/
def queueOf (E : List (XmlVar × Val)) (q : QN) : List QN :=
  (E.filter (fun en => en.1.qname = q)).filterMap (·.1.wrapperQName)

theorem queueOf_append (a b : List (XmlVar × Val)) (q : QN) :
    queueOf (a ++ b) q = queueOf a q ++ queueOf b q := by
  simp [queueOf, List.filter_append, List.filterMap_append]

theorem wsGet_stAfter (wr : Option QN) (q : QN) : ∀ (entries : List (XmlVar × Val)) (st : ElState),
    (∀ en ∈ entries, en.1.wrapperQName = wr) →
    wsGet (stAfter st wr entries).wrappers q = wsGet st.wrappers q ++ queueOf entries q := by
  intro entries
  induction entries with
  | nil => intro st _; simp [stAfter, queueOf]
  | cons en r ih =>
    intro st h
    have hen := h en (by simp)
    rw [stAfter, ih _ (fun en' he => h en' (by simp [he]))]
    have hq : queueOf (en :: r) q = queueOf [en] q ++ queueOf r q := queueOf_append [en] r q
    rw [hq, ← List.append_assoc]
    congr 1
    cases wr with
    | none =>
      by_cases h' : en.1.qname = q <;> simp [stStep, pushWs, queueOf, h', hen]
    | some w =>
      have hpush : (stStep st (some w) en.1).wrappers = pushWs st.wrappers en.1.qname (some w) := rfl
      rw [hpush, wsGet_push]
      by_cases h' : en.1.qname = q
      · have hq' : q = en.1.qname := h'.symm
        have : queueOf [en] q = [w] := by
          simp only [queueOf, List.filter_cons, h', decide_true, if_true, List.filter_nil,
            List.filterMap_cons, hen, List.filterMap_nil]
        rw [this, if_pos hq', hq']
      · have hq' : ¬ q = en.1.qname := fun h'' => h' h''.symm
        have : queueOf [en] q = [] := by
          simp only [queueOf, List.filter_cons, h', decide_false, Bool.false_eq_true, if_false,
            List.filter_nil, List.filterMap_nil]
        rw [this, if_neg hq', List.append_nil]

theorem wsGet_stAfterChunks (q : QN) : ∀ (chunks : List (XmlVar × Val)) (st : ElState),
    wsGet (stAfterChunks st chunks).wrappers q =
      wsGet st.wrappers q ++ queueOf (chunks.flatMap chunkEntries) q := by
  intro chunks
  induction chunks with
  | nil => intro st; simp [stAfterChunks, queueOf]
  | cons c r ih =>
    intro st
    rw [stAfterChunks, ih, wsGet_stAfter]
    · simp [List.flatMap_cons, queueOf_append]
    · intro en hen
      simp only [chunkEntries, List.mem_map] at hen
      obtain ⟨y, _, rfl⟩ := hen; rfl

/-- `pop_wrapper` hands every entry the wrapper of its var -/
def WsOK : Ws → List (XmlVar × Val) → Prop
  | _, [] => True
  | ws, (var, _) :: r =>
    (popWrapper ws (some var.qname)).1 = var.wrapperQName ∧ WsOK (popWrapper ws (some var.qname)).2 r

theorem WsOK_of_queues : ∀ (E : List (XmlVar × Val)) (ws : Ws),
    (∀ q, wsGet ws q = queueOf E q) →
    (∀ en ∈ E, ∀ en' ∈ E, en.1.qname = en'.1.qname → en.1.wrapperQName = en'.1.wrapperQName) →
    WsOK ws E := by
  intro E
  induction E with
  | nil => intro _ _ _; trivial
  | cons en r ih =>
    intro ws hq hcons
    obtain ⟨var, y⟩ := en
    have hcr : ∀ en ∈ r, ∀ en' ∈ r, en.1.qname = en'.1.qname → en.1.wrapperQName = en'.1.wrapperQName :=
      fun a ha b hb => hcons a (by simp [ha]) b (by simp [hb])
    have hsplit : ∀ q, queueOf ((var, y) :: r) q =
        (if var.qname = q then var.wrapperQName.toList else []) ++ queueOf r q := by
      intro q
      rw [show (var, y) :: r = [(var, y)] ++ r from rfl, queueOf_append]
      congr 1
      by_cases h : var.qname = q
      · simp only [queueOf, List.filter_cons, h, decide_true, if_true, List.filter_nil,
          List.filterMap_cons, List.filterMap_nil]
        cases var.wrapperQName <;> rfl
      · simp only [queueOf, List.filter_cons, h, decide_false, Bool.false_eq_true, if_false,
          List.filter_nil, List.filterMap_nil]
    cases hwq : var.wrapperQName with
    | some w =>
      have hg : wsGet ws var.qname = w :: queueOf r var.qname := by
        rw [hq, hsplit]; simp [hwq]
      obtain ⟨h1, h2⟩ := popWrapper_cons ws var.qname w _ hg
      refine ⟨by rw [hwq]; exact h1, ih _ ?_ hcr⟩
      intro q
      rw [h2 q]
      by_cases h : q = var.qname
      · simp [h]
      · have : ¬ var.qname = q := fun h' => h h'.symm
        simp [h, hq, hsplit, this]
    | none =>
      have hr0 : queueOf r var.qname = [] := by
        simp only [queueOf, List.filterMap_eq_nil_iff, List.mem_filter, decide_eq_true_eq]
        intro en ⟨hen, hqe⟩
        have := hcons en (by simp [hen]) (var, y) (by simp) hqe
        rw [this, hwq]
      have hg : wsGet ws var.qname = [] := by rw [hq, hsplit]; simp [hwq, hr0]
      rw [WsOK, popWrapper_nil ws var.qname hg]
      refine ⟨hwq.symm ▸ rfl, ih ws ?_ hcr⟩
      intro q
      rw [hq, hsplit]
      by_cases h : var.qname = q <;> simp [h, hwq]

/-- `bind_var` takes the value: the var is a list, or has `init=False`, or is not bound yet -/
theorem bindVar_true {P : Params} {var : XmlVar} (y : Val)
    (h : var.listElement = true ∨ var.init = false ∨ P.has var.name = false) :
    (bindVar P var y).1 = true := by
  unfold bindVar
  cases hi : var.init with
  | false => simp
  | true =>
    cases hl : var.listElement with
    | true => simp only [if_true]; split <;> rfl
    | false =>
      rcases h with h | h | h
      · rw [hl] at h; cases h
      · rw [hi] at h; cases h
      · simp [h]

theorem bindObject_N {m : XmlMeta} {var : XmlVar} (hf : ElemFactsN m var)
    (hc : m.choices = []) (ws : Ws) (P : Params) (y : Val)
    (hpop : (popWrapper ws (some var.qname)).1 = var.wrapperQName)
    (hfresh : var.listElement = true ∨ var.init = false ∨ P.has var.name = false) :
    bindObject m ws P (some var.qname) y =
      .ok (true, (bindVar P var y).2, (popWrapper ws (some var.qname)).2) := by
  obtain ⟨rest, hfc⟩ := findChildren_cons hf hc
  cases hpw : popWrapper ws (some var.qname) with
  | mk wrp ws' =>
    rw [hpw] at hpop
    simp only at hpop
    subst hpop
    have hskip : (var.wrapperQName.isSome && decide (var.wrapperQName ≠ var.wrapperQName)) = false := by
      simp
    have ht := bindVar_true y hfresh
    cases hb : bindVar P var y with
    | mk okk p =>
      rw [hb] at ht
      simp only at ht
      subst ht
      simp [bindObject, hpw, bindObject.go, hfc, VarCore.isWildcard, hf.isElem, hb, bind, Except.bind,
        pure, Except.pure]

/-- every entry is taken by `bind_var`: non-list vars with `init` are met unbound -/
def FreshOK : Params → List (XmlVar × Val) → Prop
  | _, [] => True
  | P, (var, y) :: r =>
    (var.listElement = true ∨ var.init = false ∨ P.has var.name = false) ∧ FreshOK (bindVar P var y).2 r

/-- the `wrappers` dict after `bind_objects` -/
def wsFinal (ws : Ws) (entries : List (XmlVar × Val)) : Ws :=
  entries.foldl (fun ws en => (popWrapper ws (some en.1.qname)).2) ws

theorem bindObjects_genN {m : XmlMeta} (KF : XmlVar → Val → Prop)
    (step : Params × Ws → Option QN × Val → Except Err (Params × Ws))
    (hstep : ∀ (P : Params) (ws : Ws) (var : XmlVar) (y : Val), KF var y →
      (popWrapper ws (some var.qname)).1 = var.wrapperQName →
      (var.listElement = true ∨ var.init = false ∨ P.has var.name = false) →
      step (P, ws) (some var.qname, y) =
        .ok ((bindVar P var y).2, (popWrapper ws (some var.qname)).2)) :
    ∀ (entries : List (XmlVar × Val)) (P : Params) (ws : Ws), (∀ en ∈ entries, KF en.1 en.2) →
      WsOK ws entries → FreshOK P entries →
      (entries.map fun en => (some en.1.qname, en.2)).foldlM step (P, ws) =
        .ok (bindEntries P entries, wsFinal ws entries) := by
  intro entries
  induction entries with
  | nil => intro P ws _ _ _; rfl
  | cons en t ih =>
    intro P ws h hws hfr
    obtain ⟨var, y⟩ := en
    simp only [List.map_cons, List.foldlM_cons, hstep P ws var y (h (var, y) (by simp)) hws.1 hfr.1]
    exact ih (bindVar P var y).2 (popWrapper ws (some var.qname)).2
      (fun en' he => h en' (by simp [he])) hws.2 hfr.2

end Proofs.C01
