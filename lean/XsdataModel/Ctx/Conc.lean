/-
L7 — interleaved semantics of threads sharing one `XmlContext` (C19).

Atomic step = one operation on a shared container or slot (`in`, `[]`, `[]=`,
`clear`, `append`, reading / writing `sys_modules`) — the granularity the GIL
guarantees.  Everything a thread computes between two such operations
(`XmlMetaBuilder.build`, walking `object.__subclasses__()`) is thread-local and
is folded into the step that precedes it.  A thread's state names the shared
operation it is about to perform.
-/
import XsdataModel.Ctx.Spec

namespace Xs.Ctx
open Py

/-- what a thread was asked to do -/
inductive Prog
  | build (c : ClassId) (pns : Option Str)
  | findTypes (q : Str)
  deriving DecidableEq, Repr

inductive TState
  /-- `if clazz not in self.cache` -/
  | bCheck (c : ClassId) (p : Option Str)
  /-- the meta has been built (thread-local); `self.cache[clazz] = meta` is pending -/
  | bWrite (c : ClassId) (m : Meta)
  /-- `return self.cache[clazz]` -/
  | bRead (c : ClassId)
  /-- `if len(sys.modules) == self.sys_modules: return` -/
  | xCheck (q : Str)
  /-- `self.xsi_cache.clear()` -/
  | xClear (q : Str)
  /-- `self.xsi_cache[key].append(clazz)` for the head of `todo` -/
  | xFill (q : Str) (todo : List (Str × ClassId))
  /-- `self.sys_modules = len(sys.modules)` -/
  | xStamp (q : Str)
  /-- `if qname in self.xsi_cache` -/
  | xContains (q : Str)
  /-- `return self.xsi_cache[qname]` (a `defaultdict`: a missing key is inserted) -/
  | xGet (q : Str)
  | done (o : Out)
  deriving DecidableEq, Repr

/-- the state after the thread ran up to its first shared operation -/
def Prog.start : Prog → TState
  | .build c p => .bCheck c p
  | .findTypes q => if isDataType q then .done (.gotTypes []) else .xCheck q

def afterFill (q : Str) : List (Str × ClassId) → TState
  | [] => .xStamp q
  | todo => .xFill q todo

/-- perform the pending shared operation, then run to the next one -/
def stepT (U : Universe) (w : World) (s : State) : TState → State × TState
  | .bCheck c p =>
    match s.cache.lookup c with
    | some _ => (s, .bRead c)
    | none =>
      match pureBuild U c p with
      | .ok m => (s, .bWrite c m)
      | .error e => (s, .done (.raised e))
  | .bWrite c m => ({ s with cache := dictSet s.cache c m }, .bRead c)
  | .bRead c =>
    match s.cache.lookup c with
    | some m => (s, .done (.gotMeta m))
    | none => (s, .done (.raised .index))
  | .xCheck q => if w.mods + 1 = s.sysModules then (s, .xContains q) else (s, .xClear q)
  | .xClear q => ({ s with xsi := [] }, afterFill q (indexEntries U w.loaded))
  | .xFill q [] => (s, .xStamp q)
  | .xFill q ((k, c) :: rest) => ({ s with xsi := dictAppend s.xsi k c }, afterFill q rest)
  | .xStamp q => ({ s with sysModules := w.mods + 1 }, .xContains q)
  | .xContains q =>
    match s.xsi.lookup q with
    | some _ => (s, .xGet q)
    | none => (s, .done (.gotTypes []))
  | .xGet q =>
    match s.xsi.lookup q with
    | some l => (s, .done (.gotTypes l))
    | none => ({ s with xsi := s.xsi ++ [(q, [])] }, .done (.gotTypes []))
  | .done o => (s, .done o)

/-- an upper bound on the number of shared operations the thread still has to
perform (`n` = number of index entries a rebuild appends) -/
def TState.remaining (n : Nat) : TState → Nat
  | .bCheck _ _ => 3
  | .bWrite _ _ => 2
  | .bRead _ => 1
  | .xCheck _ => n + 6
  | .xClear _ => n + 5
  | .xFill _ todo => todo.length + 4
  | .xStamp _ => 3
  | .xContains _ => 2
  | .xGet _ => 1
  | .done _ => 0

structure Thread where
  prog : Prog
  st : TState
  deriving DecidableEq, Repr

structure Sys where
  shared : State
  threads : List Thread
  deriving DecidableEq, Repr

def Sys.start (s : State) (progs : List Prog) : Sys := ⟨s, progs.map fun p => ⟨p, p.start⟩⟩

/-- let thread `i` perform one atomic step (no-op if it does not exist or is finished) -/
def sched (U : Universe) (w : World) (sys : Sys) (i : Nat) : Sys :=
  match sys.threads[i]? with
  | none => sys
  | some th =>
    let (s', st') := stepT U w sys.shared th.st
    ⟨s', sys.threads.set i ⟨th.prog, st'⟩⟩

def runSched (U : Universe) (w : World) : Sys → List Nat → Sys
  | sys, [] => sys
  | sys, i :: rest => runSched U w (sched U w sys i) rest

/-- the thread is inside `XmlContext.build` -/
def TState.isB : TState → Bool
  | .bCheck _ _ => true
  | .bWrite _ _ => true
  | .bRead _ => true
  | _ => false

/-- the thread is inside `build_xsi_cache` / `find_types` -/
def TState.isX : TState → Bool
  | .xCheck _ => true
  | .xClear _ => true
  | .xFill _ _ => true
  | .xStamp _ => true
  | .xContains _ => true
  | .xGet _ => true
  | _ => false

def TState.isDone : TState → Bool
  | .done _ => true
  | _ => false

/-- after the prescribed schedule: let the threads finish one after the other -/
def drainThread (U : Universe) (w : World) (i : Nat) : Nat → Sys → Sys
  | 0, sys => sys
  | fuel + 1, sys =>
    match sys.threads[i]? with
    | some th => if th.st.isDone then sys else drainThread U w i fuel (sched U w sys i)
    | none => sys

def drain (U : Universe) (w : World) (sys : Sys) : Sys :=
  (List.range sys.threads.length).foldl
    (fun acc i => drainThread U w i ((indexEntries U w.loaded).length + 8) acc) sys

def Sys.results (sys : Sys) : List (Option Out) :=
  sys.threads.map fun th =>
    match th.st with
    | .done o => some o
    | _ => none

/-- the requests of the build threads -/
def progUses : List Prog → List Use
  | [] => []
  | .build c p :: rest => (c, p) :: progUses rest
  | .findTypes _ :: rest => progUses rest

/-- what the thread returns when it runs alone on a fresh context -/
def Prog.alone (U : Universe) (w : World) : Prog → Out
  | .build c p => outMeta (pureBuild U c p)
  | .findTypes q => .gotTypes (pureTypes U w q)

end Xs.Ctx
