/- `DetectCircularReferences`: a reference is only flagged when it closes a cycle;
on an acyclic reference graph nothing is flagged, whatever the visiting order. -/
import XsdataModel.Codegen.Circular

set_option linter.unusedSimpArgs false
set_option linter.unusedVariables false

namespace Xs.Codegen
open Py List

/-- `a` holds a type that refers to `b` (flagged or not) -/
def CEdge (g : CGraph) (a b : Nat) : Prop := ∃ tp, tp ∈ g.typesOf a ∧ tp.target = b

inductive CReach (g : CGraph) : Nat → Nat → Prop
  | refl (x : Nat) : CReach g x x
  | tail {x y z : Nat} : CReach g x y → CEdge g y z → CReach g x z

theorem CReach.head {g : CGraph} {x y z : Nat} (e : CEdge g x y) (h : CReach g y z) : CReach g x z := by
  induction h with
  | refl => exact CReach.tail (CReach.refl x) e
  | tail _ e' ih => exact CReach.tail ih e'

/-- no reference cycle (self references included) -/
def Acyclic (g : CGraph) : Prop := ∀ a b, CEdge g a b → ¬ CReach g b a

/-- soundness of the search: `True` is only returned when `stop` is reachable -/
theorem isCircularLoop_sound (g : CGraph) (start stop : Nat) :
    ∀ (fuel : Nat) (stack path : List Nat),
      (∀ x ∈ stack, CReach g start x) → (∀ x ∈ path, CReach g start x) →
      isCircularLoop g stop fuel stack path = some true → CReach g start stop
  | 0, _, _, _, _, h => by simp [isCircularLoop] at h
  | fuel + 1, [], path, _, hp, h => by
    simp only [isCircularLoop, Option.some.injEq] at h
    exact hp stop (by simpa using h)
  | fuel + 1, r :: rest, path, hs, hp, h => by
    simp only [isCircularLoop] at h
    by_cases hstop : path.contains stop = true
    · exact hp stop (by simpa using hstop)
    · rw [if_neg hstop] at h
      have hr : CReach g start r := hs r List.mem_cons_self
      refine isCircularLoop_sound g start stop fuel _ _ ?_ ?_ h
      · intro x hx
        rcases List.mem_append.1 hx with h1 | h1
        · rw [List.mem_reverse, List.mem_filterMap] at h1
          obtain ⟨tp, htp, hsome⟩ := h1
          by_cases hc : (!tp.circular && !(if path.contains r then path else r :: path).contains tp.target) = true
          · rw [if_pos hc] at hsome
            simp only [Option.some.injEq] at hsome
            subst hsome
            exact CReach.tail hr ⟨tp, htp, rfl⟩
          · rw [if_neg hc] at hsome
            cases hsome
        · exact hs x (List.mem_cons_of_mem _ h1)
      · intro x hx
        split at hx
        · exact hp x hx
        · rcases List.mem_cons.1 hx with rfl | h1
          · exact hr
          · exact hp x h1

theorem isCircular_sound (g : CGraph) (start stop : Nat) (h : isCircular g start stop = some true) :
    CReach g start stop := by
  unfold isCircular at h
  refine isCircularLoop_sound g start stop _ _ _ ?_ ?_ h
  · intro x hx
    simp only [List.mem_singleton] at hx
    subst hx; exact CReach.refl _
  · intro x hx; cases hx

/-- no reference is flagged -/
def NoFlags (g : CGraph) : Prop := ∀ c ∈ g, ∀ tp ∈ c.types, tp.circular = false

theorem zipIdx_map_unflag (i : Nat) : ∀ (l : List CType) (k : Nat), (∀ tp ∈ l, tp.circular = false) →
    (l.zipIdx k).map (fun p => if p.2 == i then { p.1 with circular := false } else p.1) = l
  | [], _, _ => rfl
  | t :: ts, k, hall => by
    simp only [List.zipIdx_cons, List.map_cons]
    rw [zipIdx_map_unflag i ts (k + 1) (fun tp htp => hall tp (List.mem_cons_of_mem _ htp))]
    have ht := hall t List.mem_cons_self
    congr 1
    split
    · cases t; simp_all
    · rfl

theorem setFlag_false_id {g : CGraph} (h : NoFlags g) (r i : Nat) : setFlag g r i false = g := by
  unfold setFlag
  conv => rhs; rw [← List.map_id g]
  apply List.map_congr_left
  intro c hc
  split
  · rw [zipIdx_map_unflag i c.types 0 (h c hc)]; rfl
  · rfl

theorem typesOf_mem {g : CGraph} {r : Nat} {tp : CType} (h : tp ∈ g.typesOf r) :
    ∃ c ∈ g, tp ∈ c.types := by
  unfold CGraph.typesOf at h
  cases hf : g.find? (·.ref == r) with
  | none => rw [hf] at h; cases h
  | some c => rw [hf] at h; exact ⟨c, List.mem_of_find?_eq_some hf, h⟩

/-- on an acyclic, unflagged graph processing a class changes nothing -/
theorem processClass_acyclic {g : CGraph} (ha : Acyclic g) (hn : NoFlags g) (r : Nat) {g' : CGraph}
    (h : processClass g r = some g') : g' = g := by
  unfold processClass at h
  -- generalise the list that is folded over: all its types come from `g.typesOf r`
  have key : ∀ (l : List (CType × Nat)), (∀ p ∈ l, p.1 ∈ g.typesOf r) → ∀ g'',
      l.foldlM (fun g p =>
        if p.1.own && !p.1.circular then
          (isCircular g p.1.target r).map (fun b => setFlag g r p.2 b)
        else some g) g = some g'' → g'' = g := by
    intro l
    induction l with
    | nil => intro _ g'' h; simpa using h.symm
    | cons p ps ih =>
      intro hl g'' h
      simp only [List.foldlM_cons] at h
      have hp := hl p List.mem_cons_self
      by_cases hc : (p.1.own && !p.1.circular) = true
      · simp only [hc, if_true] at h
        cases hic : isCircular g p.1.target r with
        | none => simp [hic] at h
        | some b =>
          have hb : b = false := by
            cases b with
            | false => rfl
            | true =>
              -- a flagged reference would close a cycle
              have hreach := isCircular_sound g p.1.target r hic
              exact absurd hreach (ha r p.1.target ⟨p.1, hp, rfl⟩)
          subst hb
          simp only [hic, Option.map_some, setFlag_false_id hn, Option.bind_eq_bind, Option.bind_some] at h
          exact ih (fun q hq => hl q (List.mem_cons_of_mem _ hq)) g'' h
      · simp only [hc, Bool.false_eq_true, if_false, Option.bind_eq_bind, Option.bind_some] at h
        exact ih (fun q hq => hl q (List.mem_cons_of_mem _ hq)) g'' h
  refine key _ ?_ g' h
  intro p hp
  obtain ⟨_, hlt, heq⟩ := List.mem_zipIdx hp
  rw [heq]; exact List.getElem_mem _

theorem detectCircular_acyclic {g : CGraph} (ha : Acyclic g) (hn : NoFlags g) :
    ∀ (order : List Nat) {g' : CGraph}, detectCircular g order = some g' → g' = g
  | [], g', h => by simpa [detectCircular] using h.symm
  | r :: rest, g', h => by
    unfold detectCircular at h
    simp only [List.foldlM_cons] at h
    cases hp : processClass g r with
    | none => simp [hp] at h
    | some g1 =>
      have := processClass_acyclic ha hn r hp
      subst this
      simp only [hp, Option.bind_eq_bind, Option.bind_some] at h
      exact detectCircular_acyclic ha hn rest h

end Xs.Codegen
