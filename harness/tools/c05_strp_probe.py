import json,subprocess,random,itertools,sys
from datetime import datetime
rng=random.Random(int(sys.argv[1]) if len(sys.argv)>1 else 0)
DIRS=["%Y","%m","%d","%H","%M","%S","%f","%%"]
LITS=["-",":","T"," ","/",".","  ","\t","", "","x","1","(",")","+","*","[","\\","Z","t","T"]
def rfmt():
    n=rng.randint(0,6); out=""
    ds=DIRS[:]; rng.shuffle(ds)
    for i in range(n):
        out+=rng.choice(LITS)
        out+= ds[i] if rng.random()<0.9 else rng.choice(DIRS+["%Q","%","% ","%."])
    return out+rng.choice(LITS)
def mut(s):
    if not s: return rng.choice("0 1")
    i=rng.randrange(len(s)); r=rng.random(); a="0123456789 -:T٣t.x"
    if r<0.3: return s[:i]+s[i+1:]
    if r<0.6: return s[:i]+rng.choice(a)+s[i:]
    return s[:i]+rng.choice(a)+s[i+1:]
cases=[]
for _ in range(20000):
    f=rfmt()
    v=datetime(rng.choice([1,5,99,999,1000,1900,2000,2024,9999]),rng.randint(1,12),rng.randint(1,28),rng.randint(0,23),rng.randint(0,59),rng.randint(0,59),rng.choice([0,1,4500,999999,123456,100000]))
    try: s=v.strftime(f)
    except Exception: s="2000"
    r=rng.random()
    if r<0.4:
        for _ in range(rng.randint(1,2)): s=mut(s)
    elif r<0.5: s=s.replace("0","",1)
    cases.append((s,f,v))
reqs=[]
for s,f,v in cases:
    reqs.append({"op":"conv.strptime","args":{"s":s,"fmt":f}})
    reqs.append({"op":"conv.strftime","args":{"v":[v.year,v.month,v.day,v.hour,v.minute,v.second,v.microsecond],"fmt":f}})
inp="\n".join(json.dumps(r,ensure_ascii=False) for r in reqs)+"\n"
out=[json.loads(l) for l in subprocess.run(["/tmp/vw/c05d/lean/.lake/build/bin/driver"],input=inp.encode(),capture_output=True).stdout.decode().split("\n") if l.strip()]
bad=0; ok=0; errs=0; uns=0
for i,(s,f,v) in enumerate(cases):
    mp,mf=out[2*i],out[2*i+1]
    try:
        d=datetime.strptime(s,f); ip={"ok":[d.year,d.month,d.day,d.hour,d.minute,d.second,d.microsecond]}
        if d.tzinfo is not None: ip=None
    except Exception as e: ip={"err":"ValueError"}
    try: i_f={"ok":v.strftime(f)}
    except Exception: i_f={"err":"ValueError"}
    if "fail" in mp: uns+=1
    elif mp!=ip:
        bad+=1
        if bad<12: print("PARSE",repr(s),repr(f),ip,mp)
    else:
        ok+= "ok" in mp; errs+= "err" in mp
    if "fail" not in mf and mf!=i_f:
        bad+=1
        if bad<12: print("FMT",v,repr(f),i_f,mf)
print(len(cases),"bad",bad,"ok",ok,"err",errs,"unsupported",uns)
