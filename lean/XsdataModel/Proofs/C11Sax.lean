/- C11 helper lemmas, part 4: the SAX calls of generic subtrees rebuild the normal form. -/
import XsdataModel.Proofs.C11Write

namespace Proofs.C11
open Py Xs.Bind Xs.Generic

theorem normList_eq_map (e : Env) (m : NsMap) (ts : List Tree) :
    normList e m ts = ts.map (normTree e m) := by
  induction ts with
  | nil => simp [normList]
  | cons t ts ih => simp [normList, ih]

theorem normText_nonempty (e : Env) (k : Bool) (t : Option Str) (s : Str)
    (h : normText e k t = some s) : s.isEmpty = false := by
  cases k with
  | true => exact normalizeContent_nonempty e t s (by simpa [normText] using h)
  | false =>
    cases t with
    | none => simp [normText] at h
    | some x =>
      cases x with
      | nil => simp [normText] at h
      | cons c cs => simp [normText] at h; subst h; simp

/-- text calls right after `open`: they fill the text slot of the new frame -/
theorem sax_text (m : NsMap) (q : QN) (a : List (QN × Str)) (t : Option Str)
    (ht : ∀ s, t = some s → s.isEmpty = false) (rest : List Sax) (stack : List Frame) :
    saxTree m (textSax t ++ rest) (⟨q, a, none, []⟩ :: stack) none
      = saxTree m rest (⟨q, a, t, []⟩ :: stack) none := by
  cases t with
  | none => simp [textSax]
  | some s =>
    have := ht s rfl
    simp [textSax, this, saxTree, appendText]

/-- text calls right after `close`: they become the tail of the last finished child -/
theorem sax_tail (m : NsMap) (f : Frame) (q : QN) (a : List (QN × Str)) (n : NsMap) (tx : Option Str)
    (c : List Tree) (kids : List Tree) (t : Option Str)
    (ht : ∀ s, t = some s → s.isEmpty = false) (rest : List Sax) (stack : List Frame)
    (hk : f.kids = .node q a n tx c none :: kids) :
    saxTree m (textSax t ++ rest) (f :: stack) none
      = saxTree m rest ({ f with kids := .node q a n tx c t :: kids } :: stack) none := by
  cases t with
  | none =>
    obtain ⟨fq, fa, ft, fk⟩ := f
    simp at hk; subst hk
    simp [textSax]
  | some s =>
    have := ht s rfl
    obtain ⟨fq, fa, ft, fk⟩ := f
    simp at hk; subst hk
    simp [textSax, this, saxTree, setLastTail, appendText]

mutual
theorem sax_tree (e : Env) (m : NsMap) :
    ∀ (t : Tree) (rest : List Sax) (f : Frame) (stack : List Frame),
      saxTree m (treeSax e t ++ rest) (f :: stack) none
        = saxTree m rest ({ f with kids := normTree e m t :: f.kids } :: stack) none
  | .node q a n tx c tl, rest, f, stack => by
    have ih := sax_forest e m c ([Sax.close q] ++ textSax (normalizeContent e tl) ++ rest)
      ⟨q, a, normText e (!c.isEmpty) tx, []⟩ (f :: stack)
    simp only [treeSax, List.append_assoc, List.cons_append, List.nil_append]
    rw [saxTree]
    simp only [Option.isSome_none, Bool.false_eq_true, if_false]
    rw [sax_text m q a _ (normText_nonempty e _ tx)]
    simp only [List.cons_append, List.nil_append] at ih
    rw [ih]
    rw [saxTree]
    simp only [ne_eq, not_true_eq_false, if_false, List.append_nil, List.reverse_reverse]
    rw [sax_tail m _ q a m _ _ f.kids _ (normalizeContent_nonempty e tl) rest stack rfl]
    simp [normTree]
theorem sax_forest (e : Env) (m : NsMap) :
    ∀ (ts : List Tree) (rest : List Sax) (f : Frame) (stack : List Frame),
      saxTree m (forestSax e ts ++ rest) (f :: stack) none
        = saxTree m rest ({ f with kids := (normList e m ts).reverse ++ f.kids } :: stack) none
  | [], rest, f, stack => by simp [forestSax, normList]
  | t :: ts, rest, f, stack => by
    have h1 := sax_tree e m t (forestSax e ts ++ rest) f stack
    have h2 := sax_forest e m ts rest { f with kids := normTree e m t :: f.kids } stack
    simp only [forestSax, List.append_assoc]
    rw [h1, h2]
    simp [normList]
end

end Proofs.C11
