"""C09 — parsing depends only on the XML infoset.

Correspondence: documents are *respelled* (harness/c09_rewrite.py: other
prefixes, default namespace, attribute order, ignorable white space, comments,
PIs, CDATA / character references, encodings, padded non-string values, empty
element tags, quotes, DOCTYPE, XInclude parts) and parsed from BYTES by the
real XmlParser with both handlers; the model (`bind.parse`) is run on the
infoset of the respelled document.

Oracle: the property itself on the real parsers only: original spelling and
respelling must give equal objects (Python equality: dict order ignored) with
both handlers.
"""
import base64
import io
import copy
import json
import os
import pathlib
import random
import re
import shutil
import tempfile
import warnings

import bindgen as G
import bindlib as B
import c09_rewrite as R
from framework import Corr, Oracle

PROP_ID = "C09"
DESIGN_REF = "6/C09"

from bindcases import *  # noqa: F401,F403,E402
from bindcases import _UNIS, CONFIGS, documents, n_cases, new_universe, uni_of, unsupported  # noqa: F401,E402


def b64(b: bytes) -> str:
    return base64.b64encode(b).decode("ascii")


def unb64(s: str) -> bytes:
    return base64.b64decode(s)


# ------------------------------------------------------------------ running the real parsers
class ChunkedSource(io.RawIOBase):
    """a byte source whose `read()` hands the document out in the given pieces: the read chunks of
    the tokenisers (16 KiB / 32 KiB in practice) end exactly where the test wants them to"""

    def __init__(self, data: bytes, cuts):
        pos = [0] + sorted(c for c in set(cuts) if 0 < c < len(data)) + [len(data)]
        self.pieces = [data[i:j] for i, j in zip(pos, pos[1:])]

    def readable(self):
        return True

    def read(self, n=-1):
        return self.pieces.pop(0) if self.pieces else b""


_SHARED_PARSERS: dict = {}


def real_parse(uni, clazz, data: bytes, handler: str, config=None, files=None, xinclude=False, cuts=None, shared=False):
    """XmlParser(handler).from_bytes, or .from_path on a scratch directory when the
    document is split with XInclude, or .parse of a source that is read in the pieces given
    by `cuts`.  Returns the canonical {"ok"| "err"} shape."""
    from xsdata.exceptions import ConverterWarning
    from xsdata.formats.dataclass.context import XmlContext
    from xsdata.formats.dataclass.parsers import XmlParser
    from xsdata.formats.dataclass.parsers.config import ParserConfig
    from xsdata.formats.dataclass.parsers.handlers import LxmlEventHandler, XmlEventHandler

    h = XmlEventHandler if handler == "native" else LxmlEventHandler
    cfg = dict(config or {})
    if xinclude:
        cfg["process_xinclude"] = True
    if shared:
        # one parser (context, metadata and xsi caches, recorder map) for all documents of a universe:
        # a result must not depend on what was parsed before
        key = (uni.modname, handler, json.dumps(cfg, sort_keys=True))
        if key not in _SHARED_PARSERS:
            _SHARED_PARSERS[key] = XmlParser(context=XmlContext(models_package=uni.modname), config=ParserConfig(**cfg), handler=h)
        p = _SHARED_PARSERS[key]
    else:
        p = XmlParser(context=XmlContext(models_package=uni.modname), config=ParserConfig(**cfg), handler=h)
    d = None
    try:
        with warnings.catch_warnings(record=True) as w:
            warnings.simplefilter("always")
            try:
                if xinclude:
                    d = tempfile.mkdtemp(prefix="c09-xi-")
                    with open(os.path.join(d, "main.xml"), "wb") as f:
                        f.write(data)
                    for name, content in (files or {}).items():
                        os.makedirs(os.path.dirname(os.path.join(d, name)), exist_ok=True)
                        with open(os.path.join(d, name), "wb") as f:
                            f.write(content)
                    obj = p.from_path(pathlib.Path(d) / "main.xml", uni.classes[clazz])
                elif cuts:
                    obj = p.parse(ChunkedSource(data, cuts), uni.classes[clazz])
                else:
                    obj = p.from_bytes(data, uni.classes[clazz])
            except Exception as e:  # noqa: BLE001
                return B.classify_exc(e)
        n = sum(1 for x in w if issubclass(x.category, ConverterWarning))
        return {"ok": {"value": uni.to_val(obj), "warnings": n}}
    finally:
        if d is not None:
            shutil.rmtree(d, ignore_errors=True)


def py_eq_canon(v):
    """Python equality of the parsed objects: dicts compare without order"""
    if isinstance(v, dict):
        out = {}
        for k, x in v.items():
            if k == "attrs" and isinstance(x, list):
                out[k] = sorted(([a, b] for a, b in x), key=lambda kv: kv[0])
            else:
                out[k] = py_eq_canon(x)
        return out
    if isinstance(v, list):
        return [py_eq_canon(x) for x in v]
    return v


# ------------------------------------------------------------------ which respellings stay clear of the listed findings
def prefix_sensitive(t, ann, path=()):
    a = ann.get(path, {})
    for k, v in t["a"]:
        if k == R.XSI_TYPE or ":" in v or k in a.get("qattrs", ()):
            return True
    if a.get("qtext") and (t["t"] or "").strip():
        return True
    return any(prefix_sensitive(c, ann, path + (i,)) for i, c in enumerate(t["c"]))


def any_attr_colon(t):
    return any(":" in v for _, v in t["a"]) or any(any_attr_colon(c) for c in t["c"])


SAFE_KINDS = [k for k in R.ALL_KINDS if k not in ("bigpad", "pi_text", "comment_text", "xinclude", "xinclude_subdir", "unused_decl")]
XML_BASE = "{http://www.w3.org/XML/1998/namespace}base"


def with_xml_base(t, add):
    """the respelled infoset as each handler's XInclude leaves it: libxml2 adds `xml:base` to a root element
    included from another directory (base URI fixup), ElementInclude does not"""
    out = {k: v for k, v in t.items() if k not in ("c", "_xml_base")}
    out["a"] = list(t["a"]) + ([[XML_BASE, t["_xml_base"]]] if add and t.get("_xml_base") else [])
    out["c"] = [with_xml_base(c, add) for c in t["c"]]
    return out


def has_xml_base(t):
    return bool(t.get("_xml_base")) or any(has_xml_base(c) for c in t["c"])


def pick_kinds(rng, tree, ann):
    kinds = [k for k in SAFE_KINDS if rng.random() < 0.35]
    r = rng.random()
    if r < 0.12:
        kinds.append("xinclude")
        if rng.random() < 0.4:
            kinds.append("xinclude_subdir")
    elif r < 0.2:
        kinds.append("pi_text")
    elif r < 0.3:
        kinds.append("comment_text")
    if rng.random() < 0.08:
        kinds.append("bigpad")
    if rng.random() < 0.15:
        kinds.append("unused_decl")
    # (documents with wildcard attribute values `p:rest` are respelled like all others: the model reproduces
    # finding c09-any-attr-prefix, so model and code must agree on them too)
    return kinds


def pick_cuts(rng, data: bytes):
    """where the read chunks of the tokeniser end: preferably right after a tag or inside the
    character data that follows it"""
    if len(data) < 2 or rng.random() < 0.45:
        return []
    ends = [i + 1 for i, b in enumerate(data) if b == 0x3E and i + 1 < len(data)]
    cuts = []
    for _ in range(rng.randint(1, 3)):
        if ends and rng.random() < 0.7:
            cuts.append(min(len(data) - 1, rng.choice(ends) + rng.choice([0, 0, 1, 2, 3])))
        else:
            cuts.append(rng.randint(1, len(data) - 1))
    return sorted(set(cuts))


def handlers_for(kinds, info, tree, ann, new_tree):
    hs = ["native", "lxml"]
    if info["xinclude"] and prefix_sensitive(tree, ann):
        hs.remove("native")  # finding c09-native-xinclude-prefixes
    return hs


def _nodes(t):
    yield t
    for c in t["c"]:
        yield from _nodes(c)


def norm_tree(t):
    return {"q": t["q"], "a": t["a"], "ns": sorted(([p or "", u] for p, u in t["ns"])), "t": t["t"] or None,
            "c": [norm_tree(c) for c in t["c"]], "tl": t["tl"] or None}


# ------------------------------------------------------------------ bind.parse on respelled documents
def gen_respelled(rng, tier):
    for u, ctx, desc, tree, kind in documents(rng, tier, n_cases(tier, 110, 800), 3, mutate=True):
        if kind not in ("valid", "ws", "corrupt_text", "corrupt_attr", "unknown_attr", "drop_attr", "bad_xsi_nil", "reorder", "delete", "duplicate"):
            continue
        if kind != "valid" and rng.random() < 0.5:
            continue
        try:
            orig = G.tree_xml(tree)
            tree = R.infoset(orig)  # what the original spelling says, read independently
        except Exception:  # noqa: BLE001
            continue
        ann = R.annotate(u, tree)
        if kind == "valid":
            padded = pad_ctrl(tree, ann, rng)
            if padded is not None:
                yield {
                    "ctx": ctx, "tree": padded, "clazz": "Root", "config": rng.choice(CONFIGS), "desc": desc, "_uni": u.modname,
                    "_kind": kind, "_kinds": ["ctrl_pad"], "_doc": "", "_files": {}, "_handlers": ["events"], "_orig": b64(orig),
                    "_xinclude": False, "_encoding": "utf-8",
                }
        for _ in range(3 if kind == "valid" else 1):
            kinds = pick_kinds(rng, tree, ann)
            try:
                data, files, new_tree, info = R.respell(tree, ann, rng, kinds)
            except R.Skip:
                continue
            hs = handlers_for(kinds, info, tree, ann, new_tree)
            if not hs:
                continue
            if not info["xinclude"] and norm_tree(R.infoset(data)) != norm_tree(new_tree):
                # self-test of the harness: the respeller's own account of what it wrote
                # against an independent (expat) reading of the bytes
                raise RuntimeError("c09_rewrite: respelled document does not have the reported infoset: %r" % data[:400])
            cuts = [] if info["xinclude"] else pick_cuts(rng, data)
            config = rng.choice(CONFIGS)
            feat = ("Q" if prefix_sensitive(tree, ann) else "") + ("W" if any(v.get("wrapper") for v in ann.values()) else "") + \
                   ("M" if any((n_.get("tl") or "").strip() for n_ in _nodes(tree)) else "") + \
                   ("O" if any(v.get("opaque") for v in ann.values()) else "")
            # the two handlers leave different trees behind when a part comes from another directory (xml:base)
            groups = [[h] for h in hs] if has_xml_base(new_tree) else [hs]
            for group in groups:
                yield {
                    "ctx": ctx, "tree": with_xml_base(new_tree, group == ["lxml"]), "clazz": "Root", "config": config, "desc": desc,
                    "_uni": u.modname, "_kind": kind, "_kinds": info["kinds"] + (["chunks"] if cuts else []), "_doc": b64(data),
                    "_files": {k: b64(v) for k, v in files.items()},
                    "_handlers": group, "_orig": b64(orig), "_xinclude": info["xinclude"], "_encoding": info["encoding"], "_cuts": cuts,
                    "_feat": feat or "-", "_shared": rng.random() < 0.5,
                }


CTRL_PADS = ["\x1c", "\x1f", "\x1d ", " \x1e", "\x1c\x1f"]


def pad_ctrl(tree, ann, rng):
    """Pad int / bool / QName / token values with the ASCII separators FS..US: `str.isspace()` accepts
    them (bool, QName, `str.split()` ignore them) but `int()` does not.  They are not XML characters,
    so these cases go to the real NodeParser as events (no document), never to the oracle."""
    t = copy.deepcopy(tree)
    n_padded = [0]

    def pad(v):
        n_padded[0] += 1
        return rng.choice(CTRL_PADS) * rng.randint(0, 1) + v + rng.choice(CTRL_PADS)

    def go(n, path):
        a = ann.get(path, {})
        for kv in n["a"]:
            if kv[0] in a.get("padattrs", ()) and kv[1].strip() and rng.random() < 0.7:
                kv[1] = pad(kv[1])
        if a.get("padtext") and n["t"] and n["t"].strip() and rng.random() < 0.7:
            n["t"] = pad(n["t"])
        for i, c in enumerate(n["c"]):
            go(c, path + (i,))

    go(t, ())
    return t if n_padded[0] else None


def impl_respelled(a):
    u = uni_of(a)
    if a["_handlers"] == ["events"]:
        return B.real_parse_tree(u, a["clazz"], a["tree"], a["config"])
    outs = []
    for h in a["_handlers"]:
        outs.append(real_parse(u, a["clazz"], unb64(a["_doc"]), h, a["config"], {k: unb64(v) for k, v in a["_files"].items()},
                               a["_xinclude"], a.get("_cuts"), bool(a.get("_shared"))))
    if all(o == outs[0] for o in outs):
        return outs[0]
    return {"err": "HANDLERS-DISAGREE", "outs": outs}


def cmp_respelled(mo, io, a):
    if unsupported(mo):
        return True
    return mo == io


def classify_respelled(a, o):
    r = "ok" if "ok" in o else o.get("err", "unsupported")
    ks = a.get("_kinds", [])
    tag = "ctrlpad" if "ctrl_pad" in ks else "xinclude" if "xinclude" in ks else "encoding" if "encoding" in ks else "prefix" if ("prefix" in ks or "default" in ks) else "other"
    return f"{a.get('_kind', '?')}:{tag}:{a.get('_feat', '')}:{'+'.join(a.get('_handlers', []))}:{r}"


# ------------------------------------------------------------------ c09.tails: the tails the handlers pass, per read chunk layout
_TAILS_DESC = {"classes": [{"name": "Root", "fields": [
    {"name": "content", "type": {"list": "object"}, "metadata": {"type": "Wildcard", "namespace": "##any", "mixed": True},
     "default": {"factory": "list"}}]}]}
_TAILS_UNI = []


def gen_tails(rng, tier):
    """token streams of small mixed-content documents, cut into read chunks at token boundaries and inside
    character data"""
    texts = ["TAIL", "x", " ", "a&b", "é", "\n  ", "0"]

    def element(depth):
        q = rng.choice(["t", "u", "v"])
        toks = [["s", q]]
        for _ in range(rng.randint(0, 3)):
            r = rng.random()
            if r < 0.45:
                toks.append(["c", rng.choice(texts)])
            elif depth < 3:
                toks += element(depth + 1)
        toks.append(["e", q])
        return toks

    if tier == "thorough":
        # bounded-exhaustive: every way of cutting these token streams into read chunks (at token boundaries)
        fixed = [
            [["s", "Root"], ["s", "t"], ["c", "x"], ["e", "t"], ["c", "TAIL"], ["s", "t"], ["e", "t"], ["c", "end"], ["e", "Root"]],
            [["s", "Root"], ["c", "a"], ["c", "b"], ["s", "t"], ["s", "u"], ["e", "u"], ["c", "p"], ["c", "q"], ["e", "t"], ["c", "z"], ["e", "Root"]],
            [["s", "Root"], ["s", "t"], ["e", "t"], ["s", "t"], ["e", "t"], ["c", " "], ["s", "t"], ["c", "1"], ["e", "t"], ["e", "Root"]],
        ]
        for toks in fixed:
            m = len(toks) - 1
            for mask in range(1 << m):
                pos = [0] + [i + 1 for i in range(m) if mask >> i & 1] + [len(toks)]
                yield {"chunks": [toks[i:j] for i, j in zip(pos, pos[1:]) if i < j]}
    for _ in range(n_cases(tier, 400, 5000)):
        toks = [["s", "Root"]]
        for _ in range(rng.randint(1, 4)):
            toks += element(1) if rng.random() < 0.7 else [["c", rng.choice(texts)]]
        toks.append(["e", "Root"])
        # split some character runs so that a chunk can end in the middle of a tail
        split = []
        for t in toks:
            if t[0] == "c" and len(t[1]) > 1 and rng.random() < 0.5:
                i = rng.randint(1, len(t[1]) - 1)
                split += [["c", t[1][:i]], ["c", t[1][i:]]]
            else:
                split.append(t)
        cuts = sorted({rng.randint(1, len(split) - 1) for _ in range(rng.randint(0, 4))}) if len(split) > 2 else []
        pos = [0] + cuts + [len(split)]
        yield {"chunks": [split[i:j] for i, j in zip(pos, pos[1:]) if i < j]}


def _tok_bytes(t):
    if t[0] == "s":
        return ("<%s>" % t[1]).encode()
    if t[0] == "e":
        return ("</%s>" % t[1]).encode()
    return t[1].replace("&", "&amp;").replace("<", "&lt;").encode()


def impl_tails(a):
    from xsdata.formats.dataclass.context import XmlContext
    from xsdata.formats.dataclass.parsers.bases import RecordParser
    from xsdata.formats.dataclass.parsers.handlers import LxmlEventHandler, XmlEventHandler

    if not _TAILS_UNI:
        _TAILS_UNI.append(B.Universe(_TAILS_DESC))
    u = _TAILS_UNI[0]
    pieces = [b"".join(_tok_bytes(t) for t in c) for c in a["chunks"]]
    data = b"".join(pieces)
    cuts, n = [], 0
    for pc in pieces[:-1]:
        n += len(pc)
        cuts.append(n)
    outs = []
    for h in (XmlEventHandler, LxmlEventHandler):
        p = RecordParser(context=XmlContext(models_package=u.modname), handler=h)
        try:
            p.parse(ChunkedSource(data, cuts), u.classes["Root"])
        except Exception as e:  # noqa: BLE001
            outs.append(B.classify_exc(e))
            continue
        outs.append({"ok": [ev[3] for ev in p.events if ev[0] == "end"]})
    if outs[0] == outs[1]:
        return outs[0]
    return {"err": "HANDLERS-DISAGREE", "outs": outs}


def classify_tails(a, o):
    return f"{min(len(a['chunks']), 4)} chunks:{'ok' if 'ok' in o else o.get('err')}"


# ------------------------------------------------------------------ the tokeniser contract: events of the infoset
def gen_contract(rng, tier):
    """respelled documents with the tree of their declarations, read in random pieces"""
    for u, ctx, desc, tree, kind in documents(rng, tier, n_cases(tier, 60, 450), 3, mutate=False):
        try:
            orig = G.tree_xml(tree)
            tree = R.infoset(orig)
        except Exception:  # noqa: BLE001
            continue
        ann = R.annotate(u, tree)
        for _ in range(3):
            kinds = [k for k in R.ALL_KINDS if k != "xinclude" and rng.random() < 0.3]
            try:
                data, files, _new_tree, info = R.respell(tree, ann, rng, kinds)
            except R.Skip:
                continue
            if info["xtree"] is None:
                continue
            cuts = pick_cuts(rng, data)
            yield {"doc": info["xtree"], "_doc": b64(data), "_cuts": cuts, "_kinds": info["kinds"] + (["chunks"] if cuts else [])}


class _StubNode:
    def __init__(self, ns_map):
        self.ns_map = ns_map


class _StubParser:
    """what a handler needs from a parser; records the calls"""

    def __init__(self):
        self.calls = []
        self.config = type("C", (), {"process_xinclude": False, "base_url": None, "load_dtd": False})()

    def start(self, clazz, queue, objects, qname, attrs, ns_map):
        self.calls.append(["start", qname, [[k, v] for k, v in attrs.items()], [[p, u] for p, u in ns_map.items()]])
        queue.append(_StubNode(ns_map))

    def end(self, queue, objects, qname, text, tail):
        queue.pop()
        self.calls.append(["end", qname, text, tail])
        return False

    def register_namespace(self, ns_map, prefix, uri):
        self.calls.append(["start-ns", prefix, uri])
        if prefix not in ns_map:
            ns_map[prefix] = uri


def impl_contract_native(a):
    """XmlEventHandler on a recording parser: expat + TreeBuilder + process_context vs the model's
    `pump (toks infoset)`"""
    from xsdata.formats.dataclass.parsers.handlers import XmlEventHandler

    stub = _StubParser()
    ns_map: dict = {}
    try:
        XmlEventHandler(parser=stub, clazz=None).parse(ChunkedSource(unb64(a["_doc"]), a["_cuts"]), ns_map)
    except Exception as e:  # noqa: BLE001
        return {"err": "LEAK:" + type(e).__name__}
    return {"ok": {"events": stub.calls, "ns_map": [[p, u] for p, u in ns_map.items()]}}


def impl_contract_lxml(a):
    """LxmlEventHandler on a recording parser: libxml2 + element.nsmap + get_text/get_tail vs the model's
    `spec` (in-scope namespaces as lookups over the prefixes of the document)"""
    from xsdata.formats.dataclass.parsers.handlers import LxmlEventHandler

    cands = [None]

    def coll(n):
        for p, _ in n["d"]:
            p = p or None
            if p not in cands:
                cands.append(p)
        for c in n["c"]:
            coll(c)

    coll(a["doc"])
    stub = _StubParser()
    try:
        LxmlEventHandler(parser=stub, clazz=None).parse(ChunkedSource(unb64(a["_doc"]), a["_cuts"]), {})
    except Exception as e:  # noqa: BLE001
        return {"err": "LEAK:" + type(e).__name__}
    out = []
    for c in stub.calls:
        if c[0] == "start":
            m = {p: u for p, u in c[3]}
            extra = [p for p in m if p not in cands and p != "xml"]
            if extra:
                return {"err": f"unexpected prefixes {extra}"}
            out.append(["start", c[1], c[2], [[p, m.get(p)] for p in cands]])
        else:
            out.append(c)
    return {"ok": out}


def classify_contract(a, o):
    ks = a.get("_kinds", [])
    tag = "+".join(k for k in ("encoding", "cdata", "charref", "comment_text", "pi_text", "default", "prefix", "chunks") if k in ks) or "plain"
    return f"{tag}:{'ok' if 'ok' in o else o.get('err')}"


# ------------------------------------------------------------------ c09.xinclude: process_xinclude of the native handler
XI_NS = "http://www.w3.org/2001/XInclude"
_XI_TEXTS = [None, None, "t", "a:x", "x y", "7"]


def _xi_print(n, scope=None):
    """one canonical spelling of an XTree with its declarations (no white space added)"""
    scope = dict(scope or {})
    for p_, u in n["d"]:
        scope[p_] = u

    def name(q, is_attr):
        u, l = R.split_clark(q)
        if u is None:
            return l
        if not is_attr and scope.get("") == u:
            return l
        return next(p_ for p_, w in scope.items() if w == u and p_) + ":" + l

    s = "<" + name(n["q"], False)
    for p_, u in n["d"]:
        s += " xmlns%s=\"%s\"" % (":" + p_ if p_ else "", u)
    for k, v in n["a"]:
        s += " %s=\"%s\"" % (name(k, True), v.replace("&", "&amp;").replace("<", "&lt;").replace('"', "&quot;"))
    inner = (n["t"] or "").replace("&", "&amp;").replace("<", "&lt;") + "".join(_xi_print(c, scope) for c in n["c"])
    s += ">" + inner + "</" + name(n["q"], False) + ">" if inner or n["t"] == "" else "/>"
    return s + (n["tl"] or "").replace("&", "&amp;").replace("<", "&lt;")


def gen_xinclude(rng, tier):
    """small documents split over several files (sub directories, nested includes, tails behind the
    include element, declarations inside and outside the parts, missing files, recursive includes),
    parsed from a path or from a stream with / without a configured base url"""
    import c08_docs as D

    wk = D.well_known()
    for _ in range(n_cases(tier, 250, 2500)):
        files = {}
        counter = [0]

        def el(depth, fname, allow_inc=True):
            ns = rng.choice([None, None, "urn:a", "urn:b"])
            d = []
            q = rng.choice(["e", "f", "item"])
            if ns:
                pf = rng.choice(["a", "b", "c"])
                d.append([pf, ns])
                q = "{%s}%s" % (ns, q)
            if rng.random() < 0.2:
                d.append([rng.choice(["a", "z"]), rng.choice(["urn:a", "urn:z"])])
            d = [x for i, x in enumerate(d) if x[0] not in [y[0] for y in d[:i]]]
            kids = []
            if depth < 3:
                for _ in range(rng.randint(0, 2)):
                    if allow_inc and rng.random() < 0.45 and counter[0] < 5:
                        kids.append(include(depth, fname))
                    else:
                        kids.append(el(depth + 1, fname, allow_inc))
            attrs = [["k", rng.choice(["v", "a:v", "1"])]] if rng.random() < 0.3 else []
            return {"d": d, "q": q, "a": attrs, "s": "passed", "t": rng.choice(_XI_TEXTS) if not kids or rng.random() < 0.3 else None,
                    "c": kids, "tl": rng.choice([None, None, None, "tl"]) if depth else None}

        def include(depth, fname):
            counter[0] += 1
            r = rng.random()
            here = fname.rsplit("/", 1)[0] + "/"
            if r < 0.08:
                target, href = here + "missing.xml", "missing.xml"          # no such file
            elif r < 0.14:
                href = fname.rsplit("/", 1)[1]                                # includes itself
                target = None
            else:
                sub = rng.choice(["", "", "sub/"])
                href = "%sp%d.xml" % (sub, counter[0])
                target = here + href
                files[target] = None
                part = el(depth + 1, target)
                part["tl"] = None
                files[target] = part
            attrs = [["href", href]]
            if rng.random() < 0.1:
                attrs.append(["parse", "xml"])
            return {"d": [["xi", XI_NS]], "q": "{%s}include" % XI_NS, "a": attrs, "s": "passed", "t": None, "c": [],
                    "tl": rng.choice([None, None, "after", " "])}

        main = "/d/main.xml"
        files[main] = None
        if rng.random() < 0.08:
            # a chain of includes around DEFAULT_MAX_INCLUSION_DEPTH = 6
            n = rng.choice([5, 6, 7, 8])
            for i in range(1, n + 1):
                inner = [{"d": [["xi", XI_NS]], "q": "{%s}include" % XI_NS, "a": [["href", "c%d.xml" % (i + 1)]], "s": "passed",
                          "t": None, "c": [], "tl": None}] if i < n else []
                files["/d/c%d.xml" % i] = {"d": [], "q": "e", "a": [], "s": "passed", "t": None if inner else "end", "c": inner, "tl": None}
            files[main] = {"d": [], "q": "e", "a": [], "s": "passed", "t": None, "c": [
                {"d": [["xi", XI_NS]], "q": "{%s}include" % XI_NS, "a": [["href", "c1.xml"]], "s": "passed", "t": None, "c": [], "tl": None}], "tl": None}
            yield {"files": [[k, v] for k, v in files.items()], "main": main, "base": None, "path_source": True, "well_known": wk,
                   "_mode": "chain%d" % n}
            continue
        root = el(0, main)
        if not any(c["q"].endswith("}include") for c in root["c"]) and rng.random() < 0.8:
            root["c"].append(include(0, main))
            root["t"] = None if root["t"] is None else root["t"]
        files[main] = root
        mode = rng.choice(["path", "path", "stream_base_file", "stream_base_dir", "stream_nobase", "path_base_empty"])
        yield {"files": [[k, v] for k, v in files.items() if v is not None], "main": main,
               "base": {"stream_base_file": main, "stream_base_dir": "/d/", "path_base_empty": ""}.get(mode),
               "path_source": mode.startswith("path"), "well_known": wk, "_mode": mode}


def impl_xinclude(a):
    from xsdata.formats.dataclass.parsers.handlers import XmlEventHandler

    d = tempfile.mkdtemp(prefix="c09-xi-")
    cwd = os.getcwd()
    try:
        def real(name):
            return d + name[2:]          # "/d/x" -> "<tmp>/x"

        for name, tree in a["files"]:
            os.makedirs(os.path.dirname(real(name)), exist_ok=True)
            with open(real(name), "w", encoding="utf-8") as f:
                f.write(_xi_print(tree))
        stub = _StubParser()
        stub.config.process_xinclude = True
        stub.config.base_url = None if a["base"] is None else ("" if a["base"] == "" else real(a["base"]))
        ns_map: dict = {}
        os.chdir(d)                       # relative hrefs without a base are looked up here: nothing is
        os.mkdir("empty"); os.chdir("empty")
        try:
            source = real(a["main"]) if a["path_source"] else io.BytesIO(open(real(a["main"]), "rb").read())
            XmlEventHandler(parser=stub, clazz=None).parse(source, ns_map)
        except Exception as e:  # noqa: BLE001
            return {"err": type(e).__name__}
        return {"ok": {"events": stub.calls, "ns_map": [[p_, u] for p_, u in ns_map.items()]}}
    finally:
        os.chdir(cwd)
        shutil.rmtree(d, ignore_errors=True)


def classify_xinclude(a, o):
    n_inc = json.dumps(a["files"]).count("}include")
    return f"{a['_mode']}:{min(n_inc, 3)} includes:{'ok' if 'ok' in o else o.get('err', 'unsupported')}"


CORRS = [
    Corr("c09.xinclude", gen_xinclude, impl_xinclude, compare=cmp_respelled, classify=classify_xinclude,
         describe="XmlEventHandler with process_xinclude on documents split over files (recording parser) vs get_base_url / "
                  "xinclude_loader / ElementInclude / iterwalk of the model"),
    Corr("c08.pump", gen_contract, impl_contract_native, classify=classify_contract,
         describe="TokeniserContract (native): XmlEventHandler's calls on a recording parser for respelled documents (all rewrite "
                  "kinds but XInclude, read in pieces) vs pump (toks infoset)"),
    Corr("c08.inscope", gen_contract, impl_contract_lxml, classify=classify_contract,
         describe="the same for LxmlEventHandler vs the in-scope specification (element.nsmap, get_text / get_tail)"),
    Corr("c09.tails", gen_tails, impl_tails, classify=classify_tails,
         describe="the tail passed to parser.end for every element by XmlEventHandler and LxmlEventHandler reading a source in given pieces "
                  "vs the model's deferredReads"),
    Corr("bind.parse", gen_respelled, impl_respelled, compare=cmp_respelled, classify=classify_respelled,
         describe="XmlParser.from_bytes/from_path with XmlEventHandler and LxmlEventHandler on respelled documents vs the model on the respelled infoset"),
]


# ------------------------------------------------------------------ the property on the implementation alone
# hand-written documents inside the region of c09-native-xinclude-prefixes (QName content whose prefix the ElementTree
# walk forgets, or happens to re-invent): what the native handler does there with process_xinclude must stay exactly
# what the finding describes (oracle_covered replays it independently)
XI_DESC = {"classes": [
    {"name": "Leaf", "meta": {"namespace": "urn:a"}, "fields": [
        {"name": "q", "type": {"opt": "qname"}, "metadata": {"type": "Element"}, "default": {"value": None}},
        {"name": "r", "type": {"opt": "qname"}, "metadata": {"type": "Attribute"}, "default": {"value": None}}]},
    {"name": "Root", "meta": {"namespace": "urn:a"}, "fields": [
        {"name": "item", "type": {"list": {"cls": "Leaf"}}, "metadata": {"type": "Element"}, "default": {"factory": "list"}}]},
]}
_XI_ITEMS = [
    '<ns0:item xmlns:ns0="urn:a" xmlns:ns1="urn:q"><ns0:q>ns1:n2</ns0:q></ns0:item>',
    '<ns0:item xmlns:ns0="urn:a"><ns0:q>ns0:n1</ns0:q></ns0:item>',
    '<ns0:item xmlns:ns0="urn:a" xmlns:ns1="urn:q" xmlns:ns2="urn:r" r="ns2:k"><ns0:q>ns1:n2</ns0:q></ns0:item>',
    '<p:item xmlns:p="urn:a" xmlns:xs="urn:q"><p:q>xs:n3</p:q></p:item>',
]


def gen_xi_corpus():
    u = uni_of({"desc": XI_DESC})
    for item in _XI_ITEMS:
        orig = ('<ns0:Root xmlns:ns0="urn:a">%s%s</ns0:Root>' % (item, item)).encode()
        main = ('<ns0:Root xmlns:ns0="urn:a" xmlns:xi="http://www.w3.org/2001/XInclude"><xi:include href="part0.xml"/>'
                '<xi:include href="part0.xml"/></ns0:Root>').encode()
        for doc, files in ((main, {"part0.xml": item.encode()}), (orig, {})):
            yield {"desc": XI_DESC, "_uni": u.modname, "clazz": "Root", "config": {}, "orig": b64(orig), "doc": b64(doc),
                   "files": {k: b64(v) for k, v in files.items()}, "xinclude": True, "kinds": ["corpus", "xinclude"],
                   "encoding": "utf-8", "cuts": []}


def gen_oracle(rng, tier):
    yield from gen_xi_corpus()
    for u, ctx, desc, tree, kind in documents(rng, tier, n_cases(tier, 60, 600), 3, mutate=False):
        try:
            orig = G.tree_xml(tree)
            tree = R.infoset(orig)
        except Exception:  # noqa: BLE001
            continue
        ann = R.annotate(u, tree)
        sens = prefix_sensitive(tree, ann)
        for i in range(4):
            kinds = [k for k in R.ALL_KINDS if rng.random() < 0.3]
            if sens and i == 0 and "xinclude" not in kinds:
                # the region of c09-native-xinclude-prefixes is visited for every document that has one: what happens
                # there must stay what the finding describes (oracle_covered replays it), nothing else
                kinds.append("xinclude")
            try:
                data, files, _new_tree, info = R.respell(tree, ann, rng, kinds)
            except R.Skip:
                continue
            cuts = [] if info["xinclude"] else pick_cuts(rng, data)
            yield {
                "desc": desc, "_uni": u.modname, "clazz": "Root", "config": {}, "orig": b64(orig), "doc": b64(data),
                "files": {k: b64(v) for k, v in files.items()}, "xinclude": info["xinclude"],
                "kinds": info["kinds"] + (["chunks"] if cuts else []), "encoding": info["encoding"], "cuts": cuts,
                "shared": rng.random() < 0.5,
            }


def adapt_corr_case(op, a):
    if a.get("_handlers") == ["events"]:
        return None  # control-character padding is not a respelling of an XML document
    return {
        "desc": a["desc"], "_uni": a.get("_uni"), "clazz": a["clazz"], "config": a.get("config", {}), "orig": a["_orig"],
        "doc": a["_doc"], "files": a["_files"], "xinclude": a["_xinclude"], "kinds": a["_kinds"], "encoding": a["_encoding"],
        "cuts": a.get("_cuts") or [], "shared": bool(a.get("_shared")),
    }


def four_results(a):
    u = uni_of(a)
    files = {k: unb64(v) for k, v in a["files"].items()}
    out = {}
    for h in ("native", "lxml"):
        out["orig/" + h] = py_eq_canon(real_parse(u, a["clazz"], unb64(a["orig"]), h, a["config"]))
        out["new/" + h] = py_eq_canon(real_parse(u, a["clazz"], unb64(a["doc"]), h, a["config"], files, a["xinclude"], a.get("cuts"),
                                                 bool(a.get("shared"))))
    return out


def oracle_check(a):
    r = four_results(a)
    ref = r["orig/native"]
    bad = [k for k, v in r.items() if v != ref]
    if not bad:
        return None
    if "value_ws" in a["kinds"] and not all("ok" in r[k] and r[k]["ok"]["warnings"] == 0 for k in ("orig/native", "orig/lxml")):
        # padding is a respelling of a *valid* lexical value only: a value that does not convert is kept
        # as the raw string, padding included (the property quantifies over documents valid for the model)
        return None
    k = bad[0]
    return (f"respelling {a['kinds']}: {k} differs from orig/native: "
            f"{json.dumps(r[k], ensure_ascii=False)[:300]} vs {json.dumps(ref, ensure_ascii=False)[:300]}")


def any_attr_outcomes(docs):
    """What the unchanged `ParserUtils.parse_any_attribute` makes of the attribute values of these documents (finding
    c09-any-attr-prefix), read off an independent (expat) infoset: the Clark names it produces from `p:rest` values
    whose prefix is in scope where the attribute stands, and the `p:rest` values it leaves alone.  `docs[0]` is the
    main document; the others are XInclude parts: where they end up, the declarations of the including document are
    in scope as well for a handler that works on the merged tree (lxml), and are not for one that does not, so for a
    prefix declared only there both outcomes are the finding's."""
    rewritten, kept = set(), set()
    outer = {}

    def go(n, part):
        ns = {p: u for p, u in n["ns"]}
        if not part:
            outer.update({p: u for p, u in ns.items() if p and u})
        for _, v in n["a"]:
            left, sep, right = v.partition(":")
            if sep and left and right and not right.startswith("//"):
                if ns.get(left):
                    rewritten.add("{%s}%s" % (ns[left], right))
                else:
                    kept.add(v)
                    if part and outer.get(left):
                        rewritten.add("{%s}%s" % (outer[left], right))
            elif sep and left and right:
                kept.add(v)
        for c in n["c"]:
            go(c, part)

    for i, data in enumerate(docs):
        go(R.infoset(data), i > 0)
    return rewritten, kept


def _local(b):
    return b.split("}", 1)[1] if b.startswith("{") and "}" in b else b.split(":", 1)[1] if ":" in b else b


def mask_any_attrs(v, outcomes=None):
    """forget WHICH name a wildcard attribute value spells, where the listed finding explains the spelling: a Clark
    name the unchanged code produces from a prefixed value of this very document, or a prefixed value it leaves alone
    there (`outcomes`); the part after the prefix / namespace is kept.  Without `outcomes` (infoset not available)
    every name-like value is forgotten."""
    if isinstance(v, dict):
        out = {}
        for k, x in v.items():
            if k == "attrs" and isinstance(x, list):
                row = []
                for a, b in x:
                    if outcomes is None:
                        b = "<name>" if (":" in b or b.startswith("{") or a == R.XSI_TYPE) else b
                    elif a == R.XSI_TYPE:
                        # a captured xsi:type is a QName the respeller may spell with another prefix or through the
                        # default namespace; the rewriting turns only the prefixed spellings into Clark names
                        b = "<name>:" + _local(b)
                    elif b in outcomes[0]:
                        b = "<name>:" + b.split("}", 1)[1]
                    elif b in outcomes[1]:
                        b = "<name>:" + b.split(":", 1)[1]
                    row.append([a, b])
                out[k] = row
            else:
                out[k] = mask_any_attrs(x, outcomes)
        return out
    if isinstance(v, list):
        return [mask_any_attrs(x, outcomes) for x in v]
    return v


# ---- finding c09-native-xinclude-prefixes, stated independently of XmlEventHandler.parse / iterwalk
_STD_PREFIX = None


def _std_prefix(uri):
    global _STD_PREFIX
    if _STD_PREFIX is None:
        from xsdata.models.enums import Namespace

        _STD_PREFIX = {ns.uri: ns.prefix for ns in Namespace}
    return _STD_PREFIX.get(uri)


def merged_with_xml_base(main: bytes, files: dict) -> bytes:
    """The document the finding says the lxml handler effectively reads with process_xinclude=True: every xi:include
    element replaced by the root element of the named part (its tail kept), and `xml:base="<href>"` added to that root
    when the part lies in another directory than the including document.  Put together as text (every document is
    printed by itself, with all its declarations, and pasted in place of the include element) so that nothing is
    cleaned up on the way."""
    from lxml import etree

    inc = "{%s}include" % XI_NS
    counter = [0]

    def text_of(data, here, xml_base, ctx_default):
        """`ctx_default`: the default namespace in scope where this document is pasted.  An included element
        keeps its own name: a root in no namespace (and not declaring a default itself) undeclares the
        default of the including context."""
        root = etree.fromstring(data)
        undeclare = bool(ctx_default) and None not in root.nsmap
        doc_default = "" if undeclare else ctx_default
        if xml_base is not None:
            root.set("{http://www.w3.org/XML/1998/namespace}base", xml_base)
        subs = {}
        for el in list(root.iter(inc)):
            href = el.get("href")
            name = here + href
            sub_dir = name.rsplit("/", 1)[0] + "/" if "/" in name else ""
            counter[0] += 1
            mark = "c09-include-%d" % counter[0]
            subs[mark] = text_of(files[name], sub_dir, href if "/" in href else None, el.nsmap.get(None, doc_default))
            ph = etree.Element(mark)
            ph.tail = el.tail
            el.getparent().replace(el, ph)
        out = etree.tostring(root, encoding="unicode")
        if undeclare:
            k = 1
            while out[k] not in " \t\r\n/>":
                k += 1
            out = out[:k] + ' xmlns=""' + out[k:]
        for mark, sub in subs.items():
            out = out.replace("<%s/>" % mark, sub)
        return out

    return text_of(main, "", None, "").encode("utf-8")


def prefixes_forgotten(main: bytes, files: dict) -> bytes:
    """The document the finding says the native handler effectively reads with process_xinclude=True: the includes
    resolved by the standard library (ElementTree + ElementInclude, which keep no prefix declarations, comments or
    PIs), every namespaced ELEMENT declaring a prefix for its own namespace on itself (one prefix per namespace for the
    whole document: the conventional one of a well-known namespace if free, else ns<number of prefixes so far>), and
    nothing else in scope.  Attribute namespaces get private prefixes no content can refer to."""
    import xml.etree.ElementInclude as EI
    import xml.etree.ElementTree as ET
    from xml.sax.saxutils import escape, quoteattr

    d = tempfile.mkdtemp(prefix="c09-xr-")
    try:
        with open(os.path.join(d, "main.xml"), "wb") as f:
            f.write(main)
        for name, content in files.items():
            os.makedirs(os.path.dirname(os.path.join(d, name)), exist_ok=True)
            with open(os.path.join(d, name), "wb") as f:
                f.write(content)
        root = ET.parse(os.path.join(d, "main.xml")).getroot()
        EI.include(root, base_url=os.path.join(d, "main.xml"))
    finally:
        shutil.rmtree(d, ignore_errors=True)
    alloc = {}      # prefix -> uri, document wide, in allocation order
    out = []

    def prefix_for(uri):
        for p, u in alloc.items():
            if u == uri:
                return p
        p = _std_prefix(uri)
        n = len(alloc)
        while p is None or p in alloc:
            p = "ns%d" % n
            n += 1
        alloc[p] = uri
        return p

    def walk(el):
        uri, local = R.split_clark(el.tag)
        decls, name = [], local
        if uri:
            p = prefix_for(uri)
            decls.append(' xmlns:%s=%s' % (p, quoteattr(uri)))
            name = p + ":" + local
        attrs, k = [], 0
        for an, av in el.attrib.items():
            au, al = R.split_clark(an)
            if au == R.XML_NS:
                an2 = "xml:" + al
            elif au:
                ap = "zzc09a%d" % k
                k += 1
                decls.append(' xmlns:%s=%s' % (ap, quoteattr(au)))
                an2 = ap + ":" + al
            else:
                an2 = al
            attrs.append(" %s=%s" % (an2, quoteattr(av, {"\n": "&#10;", "\r": "&#13;", "\t": "&#9;"})))
        out.append("<" + name + "".join(decls) + "".join(attrs) + ">")
        if el.text:
            out.append(escape(el.text, {"\r": "&#13;"}))
        for c in el:
            walk(c)
            if c.tail:
                out.append(escape(c.tail, {"\r": "&#13;"}))
        out.append("</" + name + ">")

    walk(root)
    return "".join(out).encode("utf-8")


def oracle_covered(a, msg):
    """Attribute a failing input to the listed findings, result by result; every differing result
    needs an explanation; the first finding id is returned."""
    u = uni_of(a)
    r = four_results(a)
    found = []
    if r["orig/native"] != r["orig/lxml"]:
        return None  # the two handlers disagree on the original spelling: nothing listed explains that
    ref = r["orig/native"]
    files = {k: unb64(v) for k, v in a["files"].items()}
    try:
        out_orig = any_attr_outcomes([unb64(a["orig"])])
        out_new = any_attr_outcomes([unb64(a["doc"])] + list(files.values()))
    except Exception:  # noqa: BLE001
        out_orig = out_new = None

    def m(k, v):
        return mask_any_attrs(v, out_orig if k.startswith("orig/") else out_new)

    bad_plain = {k for k, v in r.items() if v != ref}
    bad = {k for k in bad_plain if m(k, r[k]) != m("orig/native", ref)}
    if bad_plain - bad:
        found.append("c09-any-attr-prefix")

    def explain(k):
        if k == "new/lxml" and a["xinclude"] and any("/" in name for name in a["files"]):
            # libxml2's base URI fixup: the finding covers the result only if it is what the lxml handler makes of the
            # merged document with exactly that attribute added (xml:base = the href) to every root element that was
            # included from another directory — put together here with plain lxml tree operations, no xinclude()
            try:
                want = py_eq_canon(real_parse(u, a["clazz"], merged_with_xml_base(unb64(a["doc"]), files), "lxml", a["config"]))
                if want == r[k]:
                    return "c09-lxml-xinclude-xml-base"
            except Exception:  # noqa: BLE001
                pass
        if k == "new/native" and a["xinclude"]:
            # with process_xinclude the native handler walks an ElementTree and invents the prefixes: documents whose
            # content uses prefixes (QName values, xsi:type, name-like wildcard attribute values) are affected, also
            # without any include in them.  The finding covers the result only if it is what the parser makes of the
            # document with the prefixes forgotten in exactly that way (read the ordinary way, no XInclude processing)
            try:
                t = R.infoset(unb64(a["orig"]))
                if not prefix_sensitive(t, R.annotate(u, t)):
                    return None
                flat = prefixes_forgotten(unb64(a["doc"]), files)
                want = py_eq_canon(real_parse(u, a["clazz"], flat, "native", a["config"]))
                if want == r[k]:
                    return "c09-native-xinclude-prefixes"
            except Exception:  # noqa: BLE001
                pass
        return None

    for k in sorted(bad):
        e = explain(k)
        if e is None:
            return None
        found.append(e)
    return found[0] if found else None


def oracle_chunking(a):
    """the same document read in one piece and in the given pieces: same tails, both handlers"""
    whole = impl_tails({"chunks": [[t for c in a["chunks"] for t in c]]})
    cut = impl_tails(a)
    if "ok" not in whole:
        return f"reading the document in one piece: {whole}"
    if cut != whole:
        return f"read in {len(a['chunks'])} pieces the tails are {json.dumps(cut, ensure_ascii=False)[:300]}, in one piece {json.dumps(whole, ensure_ascii=False)[:300]}"
    return None


def _xi_expand_independent(files, name, parents=()):
    """the merged document, put together here from the generated files (no xsdata, no ElementInclude)"""
    tree = files.get(name)
    if tree is None or name in parents or len(parents) > 5:
        return None

    def go(n, here):
        kids = []
        for c in n["c"]:
            if c["q"] == "{%s}include" % XI_NS:
                href = dict(c["a"]).get("href")
                target = here.rsplit("/", 1)[0] + "/" + href
                sub = _xi_expand_independent(files, target, parents + (name,))
                if sub is None:
                    raise LookupError(target)
                sub = dict(sub)
                sub["tl"] = ((sub["tl"] or "") + (c["tl"] or "")) or None
                kids.append(sub)
            else:
                kids.append(go(c, here))
        out = dict(n)
        out["c"] = kids
        return out

    try:
        return go(tree, name)
    except LookupError:
        return None


def _xi_calls(handler_name, files, main, mode):
    from xsdata.formats.dataclass.parsers.handlers import LxmlEventHandler, XmlEventHandler

    h = XmlEventHandler if handler_name == "native" else LxmlEventHandler
    d = tempfile.mkdtemp(prefix="c09-xi-")
    cwd = os.getcwd()
    try:
        for name, tree in files.items():
            os.makedirs(os.path.dirname(d + name[2:]), exist_ok=True)
            with open(d + name[2:], "w", encoding="utf-8") as f:
                f.write(_xi_print(tree))
        stub = _StubParser()
        stub.config.process_xinclude = True
        stub.config.base_url = {"stream_base_file": d + main[2:], "stream_base_dir": d + "/", "path_base_empty": ""}.get(mode)
        os.mkdir(d + "/empty")
        os.chdir(d + "/empty")
        try:
            source = d + main[2:] if mode.startswith("path") or mode.startswith("chain") else io.BytesIO(open(d + main[2:], "rb").read())
            h(parser=stub, clazz=None).parse(source, {})
        except Exception as e:  # noqa: BLE001
            return {"err": type(e).__name__}
        calls = stub.calls
        if handler_name == "lxml":
            # the prefix maps of the two spellings differ by construction (declarations of the include
            # elements); names, attributes, text and tails are what is compared
            calls = [c[:3] if c[0] == "start" else c for c in calls if c[0] != "start-ns"]
        return {"ok": calls}
    finally:
        os.chdir(cwd)
        shutil.rmtree(d, ignore_errors=True)


def oracle_xinclude(a):
    """a document split over files, read from a path or from a stream with a base url, makes the handler
    call the parser like the merged document does"""
    files = {k: v for k, v in a["files"]}
    merged = _xi_expand_independent(files, a["main"])
    mode = a["_mode"]
    if merged is None or mode == "stream_nobase":
        return None  # nothing to merge (missing / recursive parts), or no base to resolve against
    for hname in ("native", "lxml"):
        if hname == "lxml" and mode == "path_base_empty":
            continue  # lxml takes base_url="" literally (no document URL), get_base_url treats it as not given
        ref = _xi_calls(hname, {a["main"]: merged}, a["main"], "path")
        got = _xi_calls(hname, files, a["main"], mode)
        if got != ref:
            return f"{hname}, {mode}: split {json.dumps(got, ensure_ascii=False)[:300]} vs merged {json.dumps(ref, ensure_ascii=False)[:300]}"
    return None


def covered_xinclude(a, msg):
    """the listed libxml2 behaviour: only the lxml handler, only with a part from another directory, and the
    only difference is the xml:base attribute on included roots"""
    if not (msg.startswith("lxml") and any("/sub/" in name for name, _ in a["files"])):
        return None
    files = {k: v for k, v in a["files"]}
    merged = _xi_expand_independent(files, a["main"])
    ref = _xi_calls("lxml", {a["main"]: merged}, a["main"], "path")
    got = _xi_calls("lxml", files, a["main"], a["_mode"])
    if "ok" in got:
        got = {"ok": [[c[0], c[1], [kv for kv in c[2] if kv[0] != XML_BASE]] if c[0] == "start" else c for c in got["ok"]]}
    return "c09-lxml-xinclude-xml-base" if got == ref else None


# ------------------------------------------------------------------ enumerations of names: prefixes rebound between siblings / documents
# The binding-layer model has no enumerations; this is the property on the implementation alone.  A field typed with an Enum
# is parsed through `EnumConverter`, which gets the element's prefix map (`ns_map`) for QName valued members: the member
# found for a lexical value must depend on what the prefix is bound to *at that element*, not on what the same spelling
# meant at a sibling, in an earlier document, or for another parser of the same process.
_ENUM_NS = ["urn:a", "urn:b", "urn:c"]
_ENUM_FORMS = ["element", "text", "attribute", "tokens_element", "tokens_attribute", "optional_element"]
_ENUM_CLASSES: dict = {}


def _enum_classes(members, form):
    """(Root, Item, Kind) for an enumeration given as [[member name, kind, value]]"""
    import enum as _enum
    from dataclasses import dataclass, field
    from typing import List, Optional
    from xml.etree.ElementTree import QName

    key = json.dumps([members, form])
    if key in _ENUM_CLASSES:
        return _ENUM_CLASSES[key]
    Kind = _enum.Enum("Kind", {n: (QName(v) if k == "qname" else tuple(QName(x) for x in v) if k == "qname_list" else v)
                               for n, k, v in members})
    if form == "element":
        fields = {"kind": (List[Kind], field(default_factory=list, metadata={"type": "Element"}))}
    elif form == "optional_element":
        fields = {"kind": (Optional[Kind], field(default=None, metadata={"type": "Element"}))}
    elif form == "text":
        fields = {"kind": (Optional[Kind], field(default=None))}
    elif form == "attribute":
        fields = {"kind": (Optional[Kind], field(default=None, metadata={"type": "Attribute"}))}
    elif form == "tokens_element":
        fields = {"kind": (List[Kind], field(default_factory=list, metadata={"type": "Element", "tokens": True}))}
    else:
        fields = {"kind": (List[Kind], field(default_factory=list, metadata={"type": "Attribute", "tokens": True}))}
    ns = {"__annotations__": {k: t for k, (t, _) in fields.items()}}
    ns.update({k: f for k, (_, f) in fields.items()})
    Item = dataclass(type("Item", (), ns))
    Root = dataclass(type("Root", (), {
        "__annotations__": {"item": List[Item]},
        "item": field(default_factory=list, metadata={"type": "Element"}),
    }))
    _ENUM_CLASSES[key] = (Root, Item, Kind)
    return _ENUM_CLASSES[key]


def gen_enum(rng, tier):
    """enumerations whose members are names (the same local name in several namespaces, different local names, a name
    in no namespace), strings that look like prefixed names, or integers; a field of every form (element list, optional
    element, text, attribute, token lists); several documents per case in which the prefixes are declared once on the
    root, rebound on every item, or rebound from one document to the next; one parser for all documents or one each"""
    for _ in range(n_cases(tier, 150, 3000)):
        flavour = rng.choice(["qname", "qname", "qname", "qname_list", "str", "int"])
        members = []
        if flavour == "qname":
            locals_ = rng.sample(["item", "other", "x1"], rng.randint(1, 2))
            for ns_i, ns in enumerate(rng.sample(_ENUM_NS, rng.randint(2, 3))):
                for l in locals_:
                    members.append(["M%d_%s" % (ns_i, l.upper()), "qname", "{%s}%s" % (ns, l)])
            if rng.random() < 0.3:
                members.append(["PLAIN", "qname", "plain"])
        elif flavour == "qname_list":
            # an enumeration of xs:list values: every member is a list of names
            names_ = ["{%s}%s" % (ns, l) for ns in rng.sample(_ENUM_NS, 2) for l in ("item", "other")]
            seen = []
            for i in range(rng.randint(2, 4)):
                v = rng.sample(names_, 2)
                if v not in seen:
                    seen.append(v)
                    members.append(["L%d" % i, "qname_list", v])
        elif flavour == "str":
            members = [["S%d" % i, "str", v] for i, v in enumerate(rng.sample(["p:item", "q:item", "item", "a b", "x"], 3))]
        else:
            members = [["I%d" % i, "int", v] for i, v in enumerate(rng.sample([0, 1, 2, 10, -3], 3))]
        form = rng.choice(_ENUM_FORMS if flavour != "qname_list" else ["element", "text", "attribute", "optional_element"])
        docs, expected = [], []
        for _d in range(rng.randint(1, 3)):
            style = rng.choice(["root_decls", "rebind_per_item", "one_prefix_per_doc"])
            n_items = rng.randint(1, 4)
            items, exp = [], []
            root_decls = {}
            for _i in range(n_items):
                n_vals = rng.randint(1, 3) if form.startswith("tokens") else 1
                decls, lex, names = {}, [], []
                for _v in range(n_vals):
                    name, kind, value = rng.choice(members)
                    names.append(name)
                    if kind in ("qname", "qname_list") and (kind == "qname_list" or value.startswith("{")):
                        pieces = []
                        for comp in (value if kind == "qname_list" else [value]):
                            uri, local = comp[1:].split("}")
                            if style == "root_decls":
                                p_ = "n" + str(_ENUM_NS.index(uri))
                                root_decls[p_] = uri
                            else:
                                # the same prefix for whatever namespace comes first here: rebound at the next item / document
                                free = [c for c in ("p", "q", "r") if decls.get(c, uri) == uri]
                                p_ = free[0]
                                decls[p_] = uri
                            pieces.append(p_ + ":" + local)
                        lex.append(" ".join(pieces))
                    elif kind == "int":
                        lex.append(rng.choice(["%d", " %d", "%d "]) % value)
                    else:
                        lex.append(value)
                if kind == "str" and form.startswith("tokens") and any(" " in x for x in lex):
                    lex = [x for x in lex if " " not in x] or ["x"]
                    names = [next(n for n, _k, v in members if v == x) if any(v == x for _n, _k, v in members) else None for x in lex]
                    if None in names:
                        continue
                d_attr = "".join(' xmlns:%s="%s"' % (k, v) for k, v in decls.items())
                text = " ".join(lex).replace("&", "&amp;").replace("<", "&lt;")
                if form in ("element", "optional_element", "tokens_element"):
                    if form == "tokens_element" or form == "optional_element":
                        items.append("<item><kind%s>%s</kind></item>" % (d_attr, text))
                        exp.append(names if form == "tokens_element" else names[0])
                    else:
                        items.append("<item%s><kind>%s</kind></item>" % (d_attr, text))
                        exp.append(names)
                elif form == "text":
                    items.append("<item%s>%s</item>" % (d_attr, text))
                    exp.append(names[0])
                else:
                    items.append('<item%s kind="%s"/>' % (d_attr, text.replace('"', "&quot;")))
                    exp.append(names if form == "tokens_attribute" else names[0])
            r_attr = "".join(' xmlns:%s="%s"' % (k, v) for k, v in root_decls.items())
            docs.append("<Root%s>%s</Root>" % (r_attr, "".join(items)))
            expected.append(exp)
        yield {"members": members, "form": form, "docs": docs, "expected": expected, "one_parser": rng.random() < 0.5}


def oracle_enum(a):
    from xsdata.formats.dataclass.context import XmlContext
    from xsdata.formats.dataclass.parsers import XmlParser
    from xsdata.formats.dataclass.parsers.handlers import LxmlEventHandler, XmlEventHandler

    Root, _Item, _Kind = _enum_classes(a["members"], a["form"])
    for hname, h in (("native", XmlEventHandler), ("lxml", LxmlEventHandler)):
        shared = XmlParser(context=XmlContext(), handler=h)
        for doc, exp in zip(a["docs"], a["expected"]):
            p = shared if a["one_parser"] else XmlParser(context=XmlContext(), handler=h)
            with warnings.catch_warnings():
                warnings.simplefilter("ignore")
                try:
                    obj = p.from_string(doc, Root)
                except Exception as e:  # noqa: BLE001
                    return f"{hname}: {doc} raised {type(e).__name__}: {e}"
            got = []
            for it in obj.item:
                v = it.kind
                got.append([getattr(x, "name", repr(x)) for x in v] if isinstance(v, list) else getattr(v, "name", repr(v)))
            if got != exp:
                return f"{hname}: {doc} gives {got}, the document says {exp}"
    return None


ORACLES = [
    Oracle("enum-members-by-namespace", gen_enum, oracle_enum),
    Oracle("xinclude-split-equals-merged", gen_xinclude, oracle_xinclude, covered=covered_xinclude, from_ops=("c09.xinclude",)),
    Oracle("respelling-invariance", gen_oracle, oracle_check, covered=oracle_covered, from_ops=("bind.parse",), adapt=adapt_corr_case),
    Oracle("chunking-invariance", gen_tails, oracle_chunking, from_ops=("c09.tails",)),
]


# ------------------------------------------------------------------ known findings: fixed replays on the real code
def _mini(fields, extra_classes=()):
    return {"classes": list(extra_classes) + [{"name": "Root", "fields": fields}]}


_ATTRS = {"name": "attrs", "type": {"dict": 1}, "metadata": {"type": "Attributes", "namespace": "##any"}, "default": {"factory": "dict"}}
_Q = {"name": "q", "type": {"opt": "qname"}, "metadata": {"type": "Element"}, "default": {"value": None}}


def _vals(desc, docs, handler, xinclude=False):
    u = B.Universe(desc)
    try:
        return [real_parse(u, "Root", d, handler, {}, {}, xinclude) for d in docs]
    finally:
        u.close()


def finding_any_attr_prefix():
    outs = []
    for h in ("native", "lxml"):
        a, b = _vals(_mini([_ATTRS]), [b'<Root xmlns:p="urn:p" k="p:bar"/>', b'<Root xmlns:pp="urn:p" k="p:bar"/>'], h)
        outs.append((a, b))
    still = all(a != b for a, b in outs)
    return still, f"{json.dumps(outs[0][0])} vs {json.dumps(outs[0][1])}"


def finding_native_xinclude():
    doc = b'<Root xmlns:z="urn:z"><q>z:n1</q></Root>'
    a = _vals(_mini([_Q]), [doc], "native")[0]
    b = _vals(_mini([_Q]), [doc], "native", xinclude=True)[0]
    return a != b, f"process_xinclude off: {json.dumps(a)}; on (same file, no include in it): {json.dumps(b)}"


def finding_lxml_xml_base():
    desc = _mini([{"name": "mid", "type": {"opt": {"cls": "Mid"}}, "metadata": {"type": "Element"}, "default": {"value": None}}],
                 [{"name": "Mid", "fields": [{"name": "v", "type": {"opt": "str"}, "metadata": {"type": "Element"}, "default": {"value": None}}]}])
    main = b'<Root xmlns:xi="http://www.w3.org/2001/XInclude"><xi:include href="sub/mid.xml"/></Root>'
    u = B.Universe(desc)
    try:
        cfg = {"fail_on_unknown_attributes": True}
        merged = real_parse(u, "Root", b"<Root><mid><v>x</v></mid></Root>", "lxml", cfg)
        split = {h: real_parse(u, "Root", main, h, cfg, {"sub/mid.xml": b"<mid><v>x</v></mid>"}, True) for h in ("native", "lxml")}
    finally:
        u.close()
    return split["lxml"] != merged and split["native"] == merged, f"merged {json.dumps(merged)}; split: {json.dumps(split)}"


FINDINGS = {
    "c09-lxml-xinclude-xml-base": finding_lxml_xml_base,
    "c09-any-attr-prefix": finding_any_attr_prefix,
    "c09-native-xinclude-prefixes": finding_native_xinclude,
}

TRUSTED = [
    "metadata (XmlMeta/XmlVar) is exported from the real XmlContext.build and is an input of the model",
    "the tokenisers (expat via xml.etree, libxml2 via lxml) are not modelled: comments, PIs, CDATA, character references, encodings, "
    "attribute-value normalisation and XInclude are resolved before the event stream the model starts from; they are covered by the "
    "byte-level correspondence (both handlers on respelled documents vs the model on the respelled infoset) only",
    "harness/c09_rewrite.py (the respeller and its expat-based infoset reader) is trusted to produce documents with the infoset it reports; "
    "the two are cross-checked against each other on every generated case",
    "primitive converters restricted to str/int/bool/QName in this layer",
]
ASSUMPTIONS = [
    "class universes keep every class under one parent namespace (the metadata cache is the subject of C14)",
    "union-typed class fields are outside the modelled fragment (model answers `unsupported`, not compared)",
]
LEVEL_TEXT = "proof (model: attribute order, ignorable white space, padded values, prefix maps for every universe, read chunks, XInclude merging; bytes given the tokeniser contract) + correspondence (the tokeniser contract on generated respellings)"
LEVEL_NOTE = (
    "Theorems in Props/C09.lean are about the Lean model of NodeParser on the infoset Tree; the respellings that the tokenisers resolve "
    "(comments, PIs, CDATA, character references, encodings, XInclude) are invisible to that interface by construction and are checked by "
    "sampling: section 7 states what is assumed of them as a contract (Backends/Infoset.lean) and lifts the theorems to bytes, the contract is checked by c08.pump / c08.inscope on respelled documents. Read chunks (section 6) and XInclude merging (section 8) are modelled. Three listed findings are excluded regions."
)
