/-
Helper lemmas for C16: DTD attribute declarations (`Gen/DtdAttrs`), case analyses.
-/
import XsdataModel.Gen.DtdAttrs

namespace Xs.Gen
open Py

theorem dtd_attribute_faithful_core (d : DtdAttrDecl) (hwf : d.wf = true) (x : Option Str) (hx : d.allows x) :
    readAttr (dtdAttrField d) x = some (d.normalized x) := by
  obtain ⟨k, v, t⟩ := d
  cases k <;> cases v <;> cases t <;> cases x <;>
    simp_all [DtdAttrDecl.wf, DtdAttrDecl.allows, DtdAttrDecl.normalized, dtdAttrField, dtdAttr, fieldOf, sanitize,
      shouldResetRequired, shouldResetDefault, GAttr.isList, readAttr]

theorem dtd_attribute_required_core (d : DtdAttrDecl) (hwf : d.wf = true) (f : Field)
    (h : dtdAttrField d = some f)
    (hm : f.default = .missing) : d.default = .required ∧ ¬ d.allows none := by
  obtain ⟨k, v, t⟩ := d
  cases k <;> cases v <;> cases t <;>
    simp_all [DtdAttrDecl.wf, DtdAttrDecl.allows, dtdAttrField, dtdAttr, fieldOf, sanitize,
      shouldResetRequired, shouldResetDefault, GAttr.isList] <;> (subst h; simp at hm)

end Xs.Gen
