/- C13 helper lemmas: the classes `ElementMapper.map` / `DictMapper.map` produce have no
   duplicate attrs (the hypothesis of the reduction theorems is met by construction). -/
import XsdataModel.Proofs.SamplesOccur

namespace Xs.Samples
open Py

theorem buildAttr_nodup (attrs : List Attr) (qname : Str) (ty : AType) (pns : Option Str) (tag : Tag) (sq : Nat)
    (vn : Bool) (h : NodupKeys attrs) : NodupKeys (buildAttr attrs qname ty pns tag sq vn) := by
  simp only [buildAttr]
  exact addAttribute_nodup _ h

theorem buildAttributes_nodup (e : SEnv) (ns : Option Str) (kvs : List (Str × Str)) :
    NodupKeys (buildAttributes e ns kvs).2 := by
  simp only [buildAttributes]
  suffices h : ∀ (st : Bool × List Attr), NodupKeys st.2 →
      NodupKeys (kvs.foldl (fun (st : Bool × List Attr) kv =>
        if kv.1 = Tables.qnXsiNil then
          let v := e.py.strip kv.2
          (v = "true".toList || v = ['1'], st.2)
        else
          let ty : AType := { qname := buildAttrType e kv.1 (.str kv.2), native := true }
          (st.1, buildAttr st.2 kv.1 ty ns .attribute 0 false)) st).2 by
    exact h (false, []) (by simp [NodupKeys])
  induction kvs with
  | nil => intro st h; simpa using h
  | cons kv kvs ih =>
    intro st h
    simp only [List.foldl_cons]
    apply ih
    split
    · exact h
    · exact buildAttr_nodup _ _ _ _ _ _ _ h

theorem nodupKeys_map (g : Attr → Attr) (hg : ∀ a, (g a).tag = a.tag ∧ (g a).name = a.name ∧ (g a).ns = a.ns)
    {l : List Attr} (h : NodupKeys l) : NodupKeys (l.map g) := by
  simp only [NodupKeys] at *
  rw [List.pairwise_map]
  refine h.imp ?_
  intro a b hab
  simpa [Attr.same, (hg a).1, (hg a).2.1, (hg a).2.2, (hg b).1, (hg b).2.1, (hg b).2.2] using hab

theorem buildClass_nodup (e : SEnv) (el : El) (pns : Option Str) : ∀ c ∈ buildClass e el pns, NodupKeys c.attrs := by
  refine buildClass.induct e
    (motive_1 := fun el pns => ∀ c ∈ buildClass e el pns, NodupKeys c.attrs)
    (motive_2 := fun ns groups kids idx attrs mixed inner =>
      NodupKeys attrs → (∀ c ∈ inner, NodupKeys c.attrs) →
        NodupKeys (buildElements e ns groups kids idx attrs mixed inner).1 ∧
        ∀ c ∈ (buildElements e ns groups kids idx attrs mixed inner).2.2, NodupKeys c.attrs)
    ?_ ?_ ?_ ?_ el pns
  · intro parentNs a a_1 a_2 a_3 a_4 cq ns hci nillable as0 hba names groups as1 mixed1 inner hbe txt as2 mixed2 hif ih
    have has0 : NodupKeys as0 := by
      have := buildAttributes_nodup e ns a_3
      rw [hba] at this; exact this
    have ih' := ih has0 (by simp)
    rw [hbe] at ih'
    have has2 : NodupKeys as2 := by
      split at hif
      · cases hif; exact ih'.1
      · cases hif; exact buildAttr_nodup _ _ _ _ _ _ _ ih'.1
    intro c hc
    simp only [buildClass, hci, hba] at hc
    simp only [names, groups] at hbe
    rw [hbe] at hc
    simp only [txt] at hif
    rw [hif] at hc
    simp only [List.mem_append, List.mem_singleton] at hc
    rcases hc with hc | rfl
    · exact ih'.2 c hc
    · exact nodupKeys_map
        (fun a => { a with types := (uniqueByQName a.types).map fun t => { t with forward := false } })
        (fun a => ⟨rfl, rfl, rfl⟩) has2
  · intro ns groups x attrs mixed inner h1 h2
    simp only [buildElements]
    exact ⟨h1, h2⟩
  · intro ns groups rest index attrs mixed inner a a_1 a_2 a_3 a_4 mixed_1 sq hcond sub ty ih1 ih2 h1 h2
    simp only [buildElements, hcond, if_true]
    apply ih2
    · exact buildAttr_nodup _ _ _ _ _ _ _ h1
    · intro c hc
      simp only [List.mem_append] at hc
      rcases hc with hc | hc
      · exact ih1 c hc
      · exact h2 c hc
  · intro ns groups rest index attrs mixed inner a a_1 a_2 a_3 a_4 mixed_1 sq hcond txt ty ih h1 h2
    simp only [buildElements, hcond, if_false]
    apply ih
    · exact buildAttr_nodup _ _ _ _ _ _ _ h1
    · exact h2

/-- every class `ElementMapper.map` yields has pairwise different attr keys -/
theorem mapElement_nodup (e : SEnv) (root : El) : ∀ c ∈ mapElement e root, NodupKeys c.attrs :=
  buildClass_nodup e root _


/-! ### the same for `DictMapper` -/

theorem setLastMax_nodup {attrs r : List Attr} (h : setLastMax attrs = some r) (hn : NodupKeys attrs) : NodupKeys r := by
  simp only [setLastMax] at h
  cases hl : attrs.getLast? with
  | none => simp [hl] at h
  | some l =>
    simp only [hl, Option.some.injEq] at h
    subst h
    obtain ⟨ys, rfl⟩ := List.getLast?_eq_some_iff.1 hl
    simp only [List.dropLast_concat]
    rw [nodupKeys_append] at hn ⊢
    refine ⟨hn.1, by simp [NodupKeys], ?_⟩
    intro x hx y hy
    simp only [List.mem_singleton] at hy
    subst hy
    simpa [Attr.same] using hn.2.2 x hx l (by simp)

theorem dictClass_nodup (e : SEnv) (kvs : List (Str × JVal)) (name : Str) :
    ∀ r, dictClass e kvs name = some r → ∀ c ∈ r, NodupKeys c.attrs := by
  refine dictClass.induct e
    (motive1 := fun kvs name => ∀ r, dictClass e kvs name = some r → ∀ c ∈ r, NodupKeys c.attrs)
    (motive2 := fun kvs attrs inner => NodupKeys attrs → (∀ c ∈ inner, NodupKeys c.attrs) →
      ∀ r, dictAttrs e kvs attrs inner = some r → NodupKeys r.1 ∧ ∀ c ∈ r.2, NodupKeys c.attrs)
    (motive3 := fun name v attrs inner => NodupKeys attrs → (∀ c ∈ inner, NodupKeys c.attrs) →
      ∀ r, classAttribute e name v attrs inner = some r → NodupKeys r.1 ∧ ∀ c ∈ r.2, NodupKeys c.attrs)
    (motive4 := fun name xs attrs inner => NodupKeys attrs → (∀ c ∈ inner, NodupKeys c.attrs) →
      ∀ r, listAttribute e name xs attrs inner = some r → NodupKeys r.1 ∧ ∀ c ∈ r.2, NodupKeys c.attrs)
    ?_ ?_ ?_ ?_ ?_ ?_ ?_ ?_ ?_ ?_ ?_ ?_ ?_ ?_ ?_ kvs name
  · intro kvs name attrs inner hda ih r hr c hc
    have := ih (by simp [NodupKeys]) (by simp) _ hda
    simp only [dictClass, hda, Option.some.injEq] at hr
    subst hr
    simp only [List.mem_append, List.mem_singleton] at hc
    rcases hc with hc | rfl
    · exact this.2 c hc
    · exact nodupKeys_map
        (fun a => { a with types := (uniqueByQName a.types).map fun t => { t with forward := false } })
        (fun a => ⟨rfl, rfl, rfl⟩) this.1
  · intro kvs name hda _ r hr
    simp [dictClass, hda] at hr
  · intro attrs inner h1 h2 r hr
    simp only [dictAttrs, Option.some.injEq] at hr
    subst hr; exact ⟨h1, h2⟩
  · intro k v rest attrs inner attrs_1 inner_1 hca ih3 ih2 h1 h2 r hr
    have := ih3 h1 h2 _ hca
    simp only [dictAttrs, hca] at hr
    exact ih2 this.1 this.2 r hr
  · intro k v rest attrs inner hca _ _ _ r hr
    simp [dictAttrs, hca] at hr
  · intro name s attrs inner h1 h2 r hr
    simp only [classAttribute, Option.some.injEq] at hr
    subst hr
    exact ⟨buildAttr_nodup _ _ _ _ _ _ _ h1, h2⟩
  · intro name kvs attrs inner sub hdc ih1 h1 h2 r hr
    simp only [classAttribute, hdc, Option.some.injEq] at hr
    subst hr
    refine ⟨buildAttr_nodup _ _ _ _ _ _ _ h1, ?_⟩
    intro c hc
    simp only [List.mem_append] at hc
    rcases hc with hc | hc
    · exact ih1 sub hdc c hc
    · exact h2 c hc
  · intro name kvs attrs inner hdc _ _ _ r hr
    simp [classAttribute, hdc] at hr
  · intro name xs attrs inner hxs ty attrs_1 hsl h1 h2 r hr
    simp only [classAttribute, hxs, if_true] at hr
    simp only [ty] at hsl
    rw [hsl] at hr
    simp only [Option.some.injEq] at hr
    subst hr
    exact ⟨setLastMax_nodup hsl (buildAttr_nodup _ _ _ _ _ _ _ h1), h2⟩
  · intro name xs attrs inner hxs ty hsl _ _ r hr
    simp only [classAttribute, hxs, if_true] at hr
    simp only [ty] at hsl
    rw [hsl] at hr
    cases hr
  · intro name xs attrs inner hxs ih4 h1 h2 r hr
    simp only [classAttribute, hxs, Bool.false_eq_true, if_false] at hr
    exact ih4 h1 h2 r hr
  · intro name attrs inner h1 h2 r hr
    simp only [listAttribute, Option.some.injEq] at hr
    subst hr; exact ⟨h1, h2⟩
  · intro name x xs attrs inner attrs_1 inner_1 hca attrs_2 hsl ih3 ih4 h1 h2 r hr
    have := ih3 h1 h2 _ hca
    simp only [listAttribute, hca, hsl] at hr
    exact ih4 (setLastMax_nodup hsl this.1) this.2 r hr
  · intro name x xs attrs inner attrs_1 inner_1 hca hsl _ _ _ r hr
    simp [listAttribute, hca, hsl] at hr
  · intro name x xs attrs inner hca _ _ _ r hr
    simp [listAttribute, hca] at hr

/-- every class `DictMapper.map` yields has pairwise different attr keys -/
theorem mapDict_nodup (e : SEnv) (kvs : List (Str × JVal)) (name : Str) (r : List Cls)
    (h : mapDict e kvs name = some r) : ∀ c ∈ r, NodupKeys c.attrs :=
  dictClass_nodup e kvs name r h

theorem exceptMapM_mem {α β : Type} (f : α → Except String β) : ∀ (xs : List α) (rs : List β),
    xs.mapM f = .ok rs → ∀ r ∈ rs, ∃ x ∈ xs, f x = .ok r := by
  intro xs
  induction xs with
  | nil => intro rs h r hr; simp [List.mapM_nil, pure, Except.pure] at h; subst h; simp at hr
  | cons x xs ih =>
    intro rs h r hr
    simp only [List.mapM_cons, bind, Except.bind] at h
    cases hx : f x with
    | error e => simp [hx] at h
    | ok b =>
      simp only [hx] at h
      cases hxs : xs.mapM f with
      | error e => simp [hxs] at h
      | ok bs =>
        simp only [hxs, pure, Except.pure, Except.ok.injEq] at h
        subst h
        simp only [List.mem_cons] at hr
        rcases hr with rfl | hr
        · exact ⟨x, by simp, hx⟩
        · obtain ⟨y, hy, hfy⟩ := ih bs hxs r hr
          exact ⟨y, by simp [hy], hfy⟩

theorem mapJsonItem_nodup (e : SEnv) (name : Str) (x : JVal) (cs : List Cls)
    (h : mapJsonItem e name x = .ok cs) : ∀ c ∈ cs, NodupKeys c.attrs := by
  cases x with
  | dict kvs =>
    simp only [mapJsonItem] at h
    cases hm : mapDict e kvs name with
    | none => simp [hm] at h
    | some cs' =>
      simp only [hm, Except.ok.injEq] at h
      subst h
      exact mapDict_nodup e kvs name cs' hm
  | scalar _ => simp [mapJsonItem] at h
  | list _ => simp [mapJsonItem] at h

/-- every class `process_json_documents` maps from one document has pairwise different attr keys -/
theorem mapJsonDoc_nodup (e : SEnv) (doc : JVal) (name : Str) (r : List Cls)
    (h : mapJsonDoc e doc name = .ok r) : ∀ c ∈ r, NodupKeys c.attrs := by
  cases doc with
  | dict kvs => exact mapJsonItem_nodup e name (.dict kvs) r (by simpa [mapJsonDoc] using h)
  | list xs =>
    simp only [mapJsonDoc] at h
    split at h
    · cases hm : xs.mapM (mapJsonItem e name) with
      | error k => rw [hm] at h; cases h
      | ok css =>
        rw [hm] at h
        simp only [Except.ok.injEq] at h
        subst h
        intro c hc
        simp only [List.mem_flatten] at hc
        obtain ⟨cs, hcs, hccs⟩ := hc
        obtain ⟨x, _, hx⟩ := exceptMapM_mem _ xs css hm cs hcs
        exact mapJsonItem_nodup e name x cs hx c hccs
    · cases h
  | scalar sc => simp [mapJsonDoc] at h

end Xs.Samples
