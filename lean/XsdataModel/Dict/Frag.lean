/-
L6 — the decidable fragment on which the dictionary round trip is proved:
typed fields only (str / int / bool primitives, model classes, lists of both,
wrapped lists), no wildcard / compound / attributes-map / anyType / tokens /
union fields; every hypothesis is a `Bool`-valued function of the exported
metadata and the value.
-/
import XsdataModel.Dict.Encode
import XsdataModel.Dict.Decode
import XsdataModel.Bind.FN

namespace Xs.Dict
open Py Xs.Bind

def pvalType : PVal → PT
  | .str _ => .str
  | .int _ => .int
  | .bool _ => .bool
  | .qname _ => .qname

/-- `parse_value(None, default=var.default)` is `None` for this var -/
def defaultNone (var : XmlVar) : Bool :=
  match var.default with
  | .none => true
  | .listFactory => !var.tokens
  | .dictFactory => !var.tokens
  | _ => false

/-- a typed field: one primitive type (str / int / bool / QName) or one model class, single or a
list, possibly under a wrapper element -/
def varTyped (var : XmlVar) : Bool :=
  !var.isAttributes && !var.isWildcard && !var.isElements && !var.anyType && !var.isClazzUnion
  && var.elements.isEmpty && !var.tokens
  && (match var.clazz, var.types with
      | none, [.prim _] => true
      | none, [.other _] => true      -- a converter type of `DEnv.other`
      | some k, [.cls k'] => k == k'
      | _, _ => false)
  && (match wrapperName var.toVarCore with
      | some w => var.listElement && var.localName != w
      | none => true)

/-- an `xs:anyAttribute` map (`dict[str, str]`) -/
def varAttrs (var : XmlVar) : Bool :=
  var.isAttributes && !var.listElement && !var.tokens && (wrapperName var.toVarCore).isNone

/-- a wildcard field (`xs:any`), single or a list, mixed or not: it holds generic `AnyElement`
instances, primitive values (the text chunks of mixed content) and `None` -/
def varWild (var : XmlVar) : Bool :=
  var.isWildcard && !var.isAttributes && !var.isElements && !var.isClazzUnion && var.elements.isEmpty
  && !var.tokens && var.clazz.isNone && (wrapperName var.toVarCore).isNone

/-- a tokens field (`xs:list`): one value made of white space separated primitive items -/
def varTokens (var : XmlVar) : Bool :=
  var.tokens && !var.listElement && !var.isAttributes && !var.isWildcard && !var.isElements && !var.anyType
  && var.clazz.isNone && (wrapperName var.toVarCore).isNone
  && (match var.types with
      | [.prim t] => t != .qname
      | _ => false)

/-- a compound field (`Elements`): a list whose items are spread over several choices -/
def varComp (var : XmlVar) : Bool :=
  var.isElements && var.listElement && !var.isAttributes && !var.isWildcard && !var.tokens && !var.isClazzUnion
  && !var.elements.isEmpty && (wrapperName var.toVarCore).isNone

/-- the shapes of var the round-trip theorem covers -/
def varOKj (var : XmlVar) : Bool :=
  varTyped var || varAttrs var || varWild var || varTokens var || varComp var

/-- the key sets by which the decoder recognises generic elements must not be hit by accident:
a user class emits neither `qname` nor `children`; the generic class `AnyElement` itself emits only
its own keys and always emits the two keys that do not default to `None` (they belong to a list
and to a map field, whose values are never `None`) -/
def markersOK (c : ClassId) (vars : List XmlVar) : Bool :=
  let keys := vars.map (fun v => keyOf v.toVarCore)
  if c = anyId then
    keys.all (anyKeys.contains ·)
    && anyRequired.all (fun k => vars.any (fun v => keyOf v.toVarCore == k && (v.listElement || v.isAttributes)))
  else !keys.contains kQName && !keys.contains kChildren

/-- per class: every var is in the fragment, the keys under which the encoder emits the
fields are pairwise distinct and are not confused with any other var's local name or wrapper,
the marker keys of the generic key sets are respected, and vars and dataclass fields correspond -/
def classOKj (ci : ClassInfo) (m : XmlMeta) : Bool :=
  let vars := allVars m
  vars.all varOKj
  && decide ((vars.map (fun v => keyOf v.toVarCore)).Nodup)
  && vars.all (fun a => vars.all (fun b =>
      (b.localName != keyOf a.toVarCore && wrapperName b.toVarCore != some (keyOf a.toVarCore)) || decide (b = a)))
  && markersOK ci.id vars
  && decide ((vars.map (·.name)).Nodup)
  && decide ((ci.fields.map (·.name)).Nodup)
  && ci.fields.all (fun f => vars.any (fun v => v.name == f.name && v.init == f.init))

/-- every class of the universe but `DerivedElement` is inside the fragment;
`valOKj` checks `classOKj` for the classes an instance actually reaches -/
def ctxOKj (Γ : Ctx) : Bool :=
  Γ.classes.all fun ci =>
    ci.id == derivedId ||
    (match metaOf Γ ci.id with
     | .ok m => classOKj ci m
     | .error _ => false)

/-- whether the factory keeps a `(key, encode(value))` pair -/
def keptBy (fac : Factory) (x : Val) : Bool :=
  match fac, x with
  | .filterNone, .none => false
  | _, _ => true

/-- the keys of the dictionary a model instance (a generic `AnyElement` included) encodes to -/
def encKeys (Γ : Ctx) (fac : Factory) (v : Val) : List Str :=
  match asObject v with
  | some (c, fs) =>
    match metaOf Γ c with
    | .ok m => (allVars m).filterMap fun var =>
        match kvGet fs var.name with
        | some x => if keptBy fac x then some (keyOf var.toVarCore) else none
        | none => none
    | .error _ => []
  | none => []

/-- the candidate pool of `bind_complex_type` for a field of declared class `k` picks the
instance's own class: no loaded subclass at all, or exactly the own class matches the keys -/
def poolOKj (Γ : Ctx) (fac : Factory) (k : ClassId) (x : Val) : Bool :=
  match x with
  | .obj k' _ =>
    let subs := subclassesOf Γ k
    if subs.isEmpty then k' == k
    else (subs ++ [k]).filter (localNamesMatch Γ (encKeys Γ fac x)) == [k']
  | _ => false

/-- a `QName` is written as its text; it is read back by `QNameConverter.deserialize` without
prefix map, which accepts the Clark form of a valid URI / NCName pair (or a bare NCName) -/
def qnameBack (e : DEnv) (p : PVal) : Bool :=
  match p with
  | .qname t => deOne e.toBEnv t (.prim .qname) [] == some (.qname t)
  | _ => true

/-- a value of a converter type, held as its lexical form, is canonical: the converter reads it
and writes it back unchanged (what the `*_rt` theorems of the converter models give for
`serialize v`) -/
def leafBack (e : DEnv) (var : XmlVar) (p : PVal) : Bool :=
  match var.types, p with
  | [.other name], .str x => e.other name x == some x
  | _, _ => false

def itemOKj (e : DEnv) (ok : ClassId → Val → Bool) (Γ : Ctx) (fac : Factory) (var : XmlVar) (x : Val) : Bool :=
  match x with
  | .none => defaultNone var
  | .prim p => (var.types == [.prim (pvalType p)] && qnameBack e p) || leafBack e var p
  | .obj k' _ =>
    (match var.clazz with
     | some k => ok k' x && poolOKj Γ fac k x
     | none => false)
  | _ => false

/-- the value is a generic `AnyElement` -/
def isAnyV : Val → Bool
  | .any .. => true
  | _ => false

/-- one item of a wildcard field: `None`, a primitive kept as it is, or a generic element -/
def wildItemOKj (ok : ClassId → Val → Bool) (x : Val) : Bool :=
  match x with
  | .none => true
  | .prim p => pvalType p != .qname
  | .any .. => ok anyId x
  | _ => false

/-- one item of a compound field: a primitive for which `find_value_choice` finds a choice that
declares the primitive's own type (exact type first), or a model instance whose keys single out
its class among the classes of the choices -/
def compItemOKj (e : DEnv) (ok : ClassId → Val → Bool) (Γ : Ctx) (fac : Factory) (var : XmlVar) (x : Val) : Bool :=
  match x with
  | .prim p =>
    pvalType p != .qname &&
    (match findValueChoice e var (encPrim p) with
     | .ok (some el) => !el.tokens && !el.anyType && !el.isWildcard && el.types.contains (.prim (pvalType p))
     | _ => false)
  | .obj k' _ => ok k' x && (varElementTypes var).filter (localNamesMatch Γ (encKeys Γ fac x)) == [k']
  | _ => false

/-- the value of a compound field -/
def compValueOKj (e : DEnv) (ok : ClassId → Val → Bool) (Γ : Ctx) (fac : Factory) (var : XmlVar) (x : Val) : Bool :=
  match x with
  | .list items => items.all (compItemOKj e ok Γ fac var)
  | _ => false

/-- the value of a typed field -/
def typedValueOKj (e : DEnv) (ok : ClassId → Val → Bool) (Γ : Ctx) (fac : Factory) (var : XmlVar) (x : Val) : Bool :=
  if var.listElement then
    (match x with
     | .list items => items.all (itemOKj e ok Γ fac var)
     | _ => false)
  else
    (match x with
     | .list _ => false
     | _ => itemOKj e ok Γ fac var x)

/-- the value of a wildcard field -/
def wildValueOKj (ok : ClassId → Val → Bool) (var : XmlVar) (x : Val) : Bool :=
  if var.listElement then
    (match x with
     | .list items => items.all (wildItemOKj ok)
     | _ => false)
  else
    (match x with
     | .list _ => false
     | _ => wildItemOKj ok x)

/-- the value of a tokens field: a list of primitives of the item type, each of which survives
`" ".join` / `str.split()` (strings: not empty, no white space) -/
def tokensValueOKj (e : DEnv) (var : XmlVar) (x : Val) : Bool :=
  match var.types with
  | [.prim t] => Xs.Bind.FN.tokensOK e.toBEnv t x
  | _ => false

/-- the value of an `xs:anyAttribute` map: a mapping with pairwise distinct keys -/
def attrsValueOKj (x : Val) : Bool :=
  match x with
  | .attrs m => decide ((m.map (·.1)).Nodup)
  | _ => false

def valueOKj (e : DEnv) (ok : ClassId → Val → Bool) (Γ : Ctx) (fac : Factory) (var : XmlVar) (x : Val) : Bool :=
  if var.isAttributes then attrsValueOKj x
  else if var.isWildcard then wildValueOKj ok var x
  else if var.tokens then tokensValueOKj e var x
  else if var.isElements then compValueOKj e ok Γ fac var x
  else typedValueOKj e ok Γ fac var x

def fixedOK (e : DEnv) (var : XmlVar) (x : Val) : Bool :=
  match validateFixed e.py var.toVarCore x with
  | .ok _ => true
  | .error _ => false

/-- the field default is this (None or primitive) value -/
def defaultIs (f : FieldInfo) (x : Val) : Bool :=
  match f.default, x with
  | some .none, .none => true
  | some (.prim p), .prim q => p == q
  | _, _ => false

/-- `v` is an instance of `c` inside the fragment, with model instances nested at most `fuel`
deep: field values have the declared types, `None` only where decoding `None` (dict factory)
or a missing key (FILTER_NONE) gives `None` back, fields outside `__init__` hold their fixed
value, nested instances are unambiguous in their candidate pool -/
def valOKj (e : DEnv) (Γ : Ctx) (fac : Factory) : Nat → ClassId → Val → Bool
  | 0, _, _ => false
  | n + 1, c, v =>
    match asObject v with
    | some (c', fs) =>
      c' == c && c != derivedId
      -- an instance of the generic class is an `AnyElement` value, and the other way round
      && (isAnyV v == decide (c = anyId)) &&
      (match Γ.find c, metaOf Γ c with
       | some ci, .ok m =>
         classOKj ci m && ci.id == c
         && fs.map (·.1) == ci.fields.map (·.name)
         && (allVars m).all (fun var =>
              match kvGet fs var.name with
              | some x => valueOKj e (valOKj e Γ fac n) Γ fac var x && (var.init || fixedOK e var x)
              | none => false)
         && fs.all (fun kv => ci.fields.all (fun f => f.name != kv.1 ||
              (if f.init then keptBy fac kv.2 || defaultIs f .none else defaultIs f kv.2)))
       | _, _ => false)
    | none => false

/-! ### the same fragment with the ambiguity condition moved to the class universe -/

/-- a decidable condition on the class universe alone: no loaded class has a loaded subclass, so
`bind_complex_type` never builds a candidate pool.  A pool always holds a class together with a
subclass that inherits its keys, and the dictionary of a base-class instance then matches both:
the universes outside this condition are exactly those in which `C04-subclass-ambiguity` can
occur (there the per-instance condition `poolOKj` of `valOKj` decides). -/
def noSubclassPools (Γ : Ctx) : Bool :=
  Γ.classes.all fun ci => (subclassesOf Γ ci.id).isEmpty

/-- the instance's class is the declared (loaded) class or one of its loaded subclasses -/
def memPool (Γ : Ctx) (k : ClassId) (x : Val) : Bool :=
  match x with
  | .obj k' _ => (Γ.find k).isSome && (subclassesOf Γ k ++ [k]).contains k'
  | _ => false

def itemOKu (e : DEnv) (ok : ClassId → Val → Bool) (Γ : Ctx) (var : XmlVar) (x : Val) : Bool :=
  match x with
  | .none => defaultNone var
  | .prim p => (var.types == [.prim (pvalType p)] && qnameBack e p) || leafBack e var p
  | .obj k' _ =>
    (match var.clazz with
     | some k => ok k' x && memPool Γ k x
     | none => false)
  | _ => false

def typedValueOKu (e : DEnv) (ok : ClassId → Val → Bool) (Γ : Ctx) (var : XmlVar) (x : Val) : Bool :=
  if var.listElement then
    (match x with
     | .list items => items.all (itemOKu e ok Γ var)
     | _ => false)
  else
    (match x with
     | .list _ => false
     | _ => itemOKu e ok Γ var x)

def valueOKu (e : DEnv) (ok : ClassId → Val → Bool) (Γ : Ctx) (fac : Factory) (var : XmlVar) (x : Val) : Bool :=
  if var.isAttributes then attrsValueOKj x
  else if var.isWildcard then wildValueOKj ok var x
  else if var.tokens then tokensValueOKj e var x
  else if var.isElements then compValueOKj e ok Γ fac var x
  else typedValueOKu e ok Γ var x

/-- `valOKj` without its per-instance ambiguity condition: only typing -/
def valOKu (e : DEnv) (Γ : Ctx) (fac : Factory) : Nat → ClassId → Val → Bool
  | 0, _, _ => false
  | n + 1, c, v =>
    match asObject v with
    | some (c', fs) =>
      c' == c && c != derivedId
      && (isAnyV v == decide (c = anyId)) &&
      (match Γ.find c, metaOf Γ c with
       | some ci, .ok m =>
         classOKj ci m && ci.id == c
         && fs.map (·.1) == ci.fields.map (·.name)
         && (allVars m).all (fun var =>
              match kvGet fs var.name with
              | some x => valueOKu e (valOKu e Γ fac n) Γ fac var x && (var.init || fixedOK e var x)
              | none => false)
         && fs.all (fun kv => ci.fields.all (fun f => f.name != kv.1 ||
              (if f.init then keptBy fac kv.2 || defaultIs f .none else defaultIs f kv.2)))
       | _, _ => false)
    | none => false

end Xs.Dict
