/-
C01 (fragments F2…): helper lemmas of the induction step.
-/
import XsdataModel.Proofs.C01NMain

namespace Proofs.C01
open Py Xs.Bind Xs.Bind.F1 Xs.Bind.FN

theorem genObj_unfoldN (e : BEnv) (Γ : Ctx) (cfg : SerCfg) (f : Nat) (c : ClassId)
    (fields : List (Str × Val)) (pns : Option Str) (oq : Option QN) (m : XmlMeta) (nl : Bool)
    (hm : metaOf Γ c pns = some m) (xt : Option QN := none) :
    genObj e Γ cfg (f + 1) (.obj c fields) pns oq nl xt = (do
      let attrs ← nextAttribute cfg m fields (nl || m.nillable) xt
      let vals ← nextValue m fields
      let body ← vals.mapM (genField e Γ cfg f (targetUri m.qname))
      return [Ev.start (resolveQ oq m)] ++ attrs ++ body.flatten ++ [Ev.end (resolveQ oq m)]) := by
  have hfetch : Γ.fetch c pns none = .ok m := by
    simp only [metaOf] at hm
    simp [Ctx.fetch, hm]
  rw [genObj]
  simp only [hfetch, bind, Except.bind]
  rfl

/-! ### `xsi:nil` in the attribute list -/

theorem xsiNilOf_append (A : List (QN × Str)) (h : ∀ kv ∈ A, kv.1 ≠ xsiNil) (b : Bool) :
    xsiNilOf (A ++ nilAttr b) = if b then some true else none := by
  have hA : A.find? (fun x => decide (x.1 = xsiNil)) = none := by
    simp only [List.find?_eq_none, decide_eq_true_eq]; exact h
  cases b
  · simp [nilAttr, xsiNilOf, hA]
  · simp only [nilAttr, if_true, xsiNilOf, List.find?_append, hA, Option.none_or]
    decide

theorem noType_append (A : List (QN × Str)) (h : ∀ kv ∈ A, kv.1 ≠ xsiType) (b : Bool) :
    ∀ kv ∈ A ++ nilAttr b, kv.1 ≠ xsiType := by
  intro kv hkv
  rcases List.mem_append.1 hkv with h' | h'
  · exact h kv h'
  · exact nilAttr_noType b kv h'

/-! ### the params left by the attributes -/

theorem attrParamOf_name {cfg : SerCfg} {fields : List (Str × Val)} {var : XmlVar} {nv : Str × Val}
    (h : attrParamOf cfg fields var = some nv) : nv.1 = var.name := by
  unfold attrParamOf at h
  split at h
  · split at h
    · cases h
    · cases h; rfl
  · split at h
    · simp only [Option.map_eq_some_iff] at h
      obtain ⟨_, _, rfl⟩ := h; rfl
    · cases h

theorem attrParamsN_get_none (cfg : SerCfg) (fields : List (Str × Val)) {k : Str} :
    ∀ vars : List XmlVar, k ∉ vars.map (·.name) → (attrParamsN cfg vars fields).get k = none := by
  intro vars
  induction vars with
  | nil => intro _; rfl
  | cons v t ih =>
    intro hk
    simp only [List.map_cons, List.mem_cons, not_or] at hk
    simp only [attrParamsN, List.filterMap_cons]
    cases hp : attrParamOf cfg fields v with
    | none => exact ih hk.2
    | some nv =>
      simp only []
      rw [Params.get_cons, attrParamOf_name hp]
      simp only [Ne.symm hk.1, if_false]
      exact ih hk.2

theorem attrParamsN_get (cfg : SerCfg) (fields : List (Str × Val)) :
    ∀ vars : List XmlVar, (vars.map (·.name)).Nodup → ∀ var ∈ vars,
      (attrParamsN cfg vars fields).get var.name = (attrParamOf cfg fields var).map (·.2) := by
  intro vars
  induction vars with
  | nil => intro _ var hv; cases hv
  | cons v t ih =>
    intro hnd var hvar
    simp only [List.map_cons, List.nodup_cons] at hnd
    rcases List.mem_cons.1 hvar with rfl | hvt
    · simp only [attrParamsN, List.filterMap_cons]
      cases hp : attrParamOf cfg fields var with
      | none => simpa [attrParamsN] using attrParamsN_get_none cfg fields t hnd.1
      | some nv =>
        simp only []
        rw [Params.get_cons, attrParamOf_name hp]; simp
    · have hne : v.name ≠ var.name := by
        intro heq; exact hnd.1 (List.mem_map.2 ⟨var, hvt, heq.symm⟩)
      simp only [attrParamsN, List.filterMap_cons]
      cases hp : attrParamOf cfg fields v with
      | none => exact ih hnd.2 var hvt
      | some nv =>
        simp only []
        rw [Params.get_cons, attrParamOf_name hp]
        simp only [hne, if_false]
        exact ih hnd.2 var hvt

/-- what `class_factory` needs of one dataclass field -/
def FieldOK (P : Params) (fields : List (Str × Val)) (f : FieldInfo) : Prop :=
  (f.init = true ∧ (P.get f.name = some (look fields f.name) ∨
    (P.get f.name = none ∧ f.default = some (look fields f.name)))) ∨
  (f.init = false ∧ f.default = some (look fields f.name))

theorem classFactory_N (Γ : Ctx) {c : ClassId} {ci : ClassInfo} (hfind : Γ.find c = some ci)
    (fields : List (Str × Val)) (P : Params)
    (hnames : fields.map (·.1) = ci.fields.map (·.name)) (hnd : (ci.fields.map (·.name)).Nodup)
    (h : ∀ f ∈ ci.fields, FieldOK P fields f) :
    classFactory Γ c P = .ok (.obj c fields) := by
  unfold classFactory
  simp only [hfind]
  have key : ∀ g : FieldInfo → Option (Str × Val),
      (∀ f ∈ ci.fields, g f = some (f.name, look fields f.name)) →
      (if ((ci.fields.map g).all Option.isSome) = true
        then Except.ok (Val.obj c ((ci.fields.map g).filterMap id))
        else Except.error (Err.parser "Failed to create")) = Except.ok (Val.obj c fields) := by
    intro g hg
    have := map_some_filterMap (fields := fields) g hg
    rw [this.1, this.2, ← hnames, fields_eq_look (by rw [hnames]; exact hnd)]
    rfl
  apply key
  intro f hf
  rcases h f hf with ⟨hi, hc⟩ | ⟨hi, hd⟩
  · rcases hc with hc | ⟨hc, hd⟩
    · simp only [hi, hc, if_true]
    · simp only [hi, hc, hd, if_true]
  · simp only [hi, hd, Bool.false_eq_true, if_false]

theorem field_of_varN {ci : ClassInfo} {var : XmlVar} (hfa : fieldAgreesN ci var = true)
    (hnd : (ci.fields.map (·.name)).Nodup) {f : FieldInfo} (hf : f ∈ ci.fields)
    (hname : var.name = f.name) :
    ci.fields.find? (·.name = var.name) = some f ∧ f.init = var.init ∧
      defaultAgrees var.default f.default = true := by
  obtain ⟨f', hf', hi, hd⟩ := fieldAgreesN_iff.1 hfa
  have := find?_of_nodup hnd hf
  rw [← hname] at this
  rw [this] at hf'
  cases hf'
  exact ⟨this, hi, hd⟩

/-- the constructor argument of a field of `get_attribute_vars()` -/
theorem attr_field_okN {ft : Feat} {e : BEnv} {Γ : Ctx} {m : XmlMeta} {ci : ClassInfo}
    {fields : List (Str × Val)} (cfg : SerCfg) {var : XmlVar}
    (hv : FN.attrVarOK ft m ci var = true ∨ (m.anyAttributes = [var] ∧ mapVarOK ci var = true))
    (hx : FN.attrValOK e Γ m ci var (look fields var.name) = true)
    (hnd : (ci.fields.map (·.name)).Nodup) {f : FieldInfo} (hf : f ∈ ci.fields)
    (hname : var.name = f.name) {P : Params}
    (hP : P.get var.name = (attrParamOf cfg fields var).map (·.2)) :
    FieldOK P fields f := by
  rcases hv with hv | ⟨_, hmv⟩
  · simp only [FN.attrVarOK, Bool.and_eq_true, Bool.or_eq_true] at hv
    obtain ⟨⟨⟨hrest, hkind⟩, hfix⟩, hfa⟩ := hv
    have hA : var.isAttribute = true := hrest.1.1.1.1.1.1.1
    have hnm := isAttributes_false_of_attr hA
    obtain ⟨hfind, hfi, hd⟩ := field_of_varN hfa hnd hf hname
    unfold FN.attrValOK at hx
    simp only [hnm, Bool.false_eq_true, if_false, Bool.and_eq_true, Bool.or_eq_true] at hx
    obtain ⟨hfx, hx⟩ := hx
    cases hi : var.init with
    | false =>
      -- a fixed attribute: the field keeps its default, which is the value
      have hfv : fixedVal var (look fields var.name) = true := by
        rcases hfx with h | h
        · rw [hi] at h; cases h
        · exact h
      obtain ⟨p, hlook, hdef⟩ := fixedVal_iff.1 hfv
      rw [hdef] at hd
      exact Or.inr ⟨by rw [hfi, hi], by rw [← hname, hlook, defaultAgrees_val hd]⟩
    | true =>
      refine Or.inl ⟨by rw [hfi, hi], ?_⟩
      rw [← hname, hP]
      simp only [attrParamOf, hnm, Bool.false_eq_true, if_false, hi, if_true, Option.map_map]
      cases ha : attrOfN cfg fields var with
      | some ds => exact Or.inl rfl
      | none =>
        refine Or.inr ⟨rfl, ?_⟩
        cases hpt : primTypeOf var with
        | none => simp [hpt] at hx
        | some t =>
          simp only [hpt] at hx hkind
          by_cases htok : var.tokens = true
          · simp only [htok, if_true, decide_eq_true_eq] at hx hkind
            obtain ⟨ys, hys, _⟩ := toks_of hx
            cases ys with
            | nil =>
              rw [hkind] at hd
              rw [hys, defaultAgrees_list hd]
            | cons y l => simp [attrOfN, hys] at ha
          · have htok' : var.tokens = false := by simpa using htok
            simp only [htok', Bool.false_eq_true, if_false] at hx
            split at hx
            · rename_i hlook
              obtain ⟨f', hf', hdn⟩ := fdNone_iff.1 hx
              rw [hfind] at hf'; cases hf'
              rw [hlook, hdn]
            · rename_i p hlook
              simp only [attrOfN, hlook] at ha
              split at ha
              · rename_i hc
                simp only [Bool.and_eq_true] at hc
                have := defaultEq_prim hc.2
                rw [this] at hd
                rw [hlook, defaultAgrees_val hd]
              · cases ha
            · cases hx
  · simp only [mapVarOK, Bool.and_eq_true] at hmv
    obtain ⟨⟨hmap, _⟩, hfield⟩ := hmv
    have hff := find?_of_nodup hnd hf
    rw [← hname] at hff
    rw [hff] at hfield
    simp only [Bool.and_eq_true] at hfield
    obtain ⟨hfi, hfd⟩ := hfield
    have hdef : f.default = some (.attrs []) := by
      cases hd : f.default with
      | none => simp [hd] at hfd
      | some w =>
        cases w with
        | attrs l => cases l <;> simp [hd] at hfd ⊢
        | _ => simp [hd] at hfd
    unfold FN.attrValOK at hx
    simp only [hmap, if_true] at hx
    refine Or.inl ⟨hfi, ?_⟩
    rw [← hname, hP]
    cases hlook : look fields var.name with
    | attrs kv =>
      cases kv with
      | nil => exact Or.inr ⟨by simp [attrParamOf, hmap, mapEntries, hlook], by rw [hdef]⟩
      | cons a l => exact Or.inl (by simp [attrParamOf, hmap, mapEntries, hlook])
    | _ => rw [hlook] at hx; simp [mapValOK] at hx

/-! ### emitted pairs and their trees -/

theorem emitOfN_flatMap {β : Type} (var : XmlVar) (x : Val) (g : XmlVar × Val → List β) :
    (emitOfN var x).flatMap g = if (emitOfN var x).isEmpty then [] else g (var, x) := by
  unfold emitOfN
  split
  · split <;> simp
  · simp

theorem emitOfN_nonempty {var : XmlVar} {x : Val} :
    (emitOfN var x).isEmpty = false ↔ (x ≠ .none ∨ var.nillable = true) := by
  unfold emitOfN
  cases x <;> simp

theorem mem_emitOfN {var : XmlVar} {x : Val} {c : XmlVar × Val} (h : c ∈ emitOfN var x) :
    c = (var, x) ∧ (x ≠ .none ∨ var.nillable = true) := by
  unfold emitOfN at h
  split at h
  · split at h
    · rename_i hn; simp only [List.mem_singleton] at h; exact ⟨h, Or.inr hn⟩
    · cases h
  · rename_i hne; simp only [List.mem_singleton] at h; exact ⟨h, Or.inl (fun h' => hne h')⟩

theorem treeSax_ne_nil (t : Tree) : treeSax t ≠ [] := by
  cases t; simp [treeSax]

theorem treesSax_eq_nil {ts : List Tree} (h : treesSax ts = []) : ts = [] := by
  cases ts with
  | nil => rfl
  | cons t r =>
    simp only [treesSax, List.append_eq_nil_iff] at h
    exact absurd h.1 (treeSax_ne_nil t)

/-! ### all element vars of an object -/

theorem All2_flatten_nil {α β γ : Type} {R : α → List β → Prop} (T : α → List γ) {l : List α}
    {l' : List (List β)} (h : All2 (fun c evs => R c evs ∧ (T c = [] → evs = [])) l l')
    (hnil : l.flatMap T = []) : l'.flatten = [] := by
  induction h with
  | nil => rfl
  | cons h1 _ ih =>
    simp only [List.flatMap_cons, List.append_eq_nil_iff] at hnil
    simp [h1.2 hnil.1, ih hnil.2]

/-- generator + writer of all emitted pairs -/
theorem body_genN (e : BEnv) (Γ : Ctx) (cfg : SerCfg) (M : NsMap) (ns : Option Str)
    (rec : XmlVar → Val → Tree) {m : XmlMeta} (chunks : List (XmlVar × Val)) (f : Nat)
    (h : ∀ c ∈ chunks, ChunkEq e Γ cfg c.1 ∧ Shape c.1 c.2 ∧ (c.2 ≠ .none ∨ c.1.nillable = true) ∧
      ∀ y ∈ itemsN c.1 c.2, ∃ evs,
        itemGen e Γ cfg c.1 ns (chunkFuel c.2 f) y = .ok evs ∧
        SubW M (isDatatype Γ) evs (treeSax (itemTreeNN M rec c.1 y))) :
    ∃ body, chunks.mapM (genField e Γ cfg (f + 1) ns) = .ok body ∧
      BodyW M (isDatatype Γ) body.flatten
        (treesSax (chunks.flatMap fun c => chunkTrees M (itemTreeNN M rec c.1) c.1 c.2)) ∧
      ((chunks.flatMap fun c => chunkTrees M (itemTreeNN M rec c.1) c.1 c.2) = [] → body.flatten = []) := by
  obtain ⟨body, hb, hall⟩ := mapM_exists (genField e Γ cfg (f + 1) ns)
    (fun c evs => BodyW M (isDatatype Γ) evs (treesSax (chunkTrees M (itemTreeNN M rec c.1) c.1 c.2)) ∧
      (chunkTrees M (itemTreeNN M rec c.1) c.1 c.2 = [] → evs = []))
    chunks (fun c hc => by
      obtain ⟨hf, hs, hx, hit⟩ := h c hc
      exact varGN' e Γ cfg M ns _ f (hf _ hs hx ns f) hit)
  refine ⟨body, hb, ?_, ?_⟩
  · rw [treesSax_flatMap]
    exact BodyW_forall₂ _ chunks body (hall.mono (fun _ _ h => h.1))
  · intro hnil
    exact All2_flatten_nil _ hall hnil

theorem mem_blockEntries {items : XmlVar → List Val} {vars : List XmlVar} {en : XmlVar × Val}
    (h : en ∈ blockEntries items vars) : en.1 ∈ vars ∧ en.2 ∈ items en.1 := by
  simp only [blockEntries, List.mem_flatMap, List.mem_map] at h
  obtain ⟨var, hv, y, hy, rfl⟩ := h
  exact ⟨hv, hy⟩

end Proofs.C01
