/-
XML Schema 1.1 Part 2 lexical spaces and lexical mappings of the primitive
datatypes the converters handle — my transcription of the recommendation,
written as relations `Xsd… s v`: "`s` is a lexical form of the datatype and
denotes the value `v`".  White space handling (`whiteSpace = collapse`) is
stated separately by quantifying over XSD white space around the form.
-/
import XsdataModel.Proofs.Digits

namespace Xs.Spec
open Py Xs.Conv

/-- optional sign -/
inductive Sign | none | plus | minus
deriving DecidableEq, Repr

def Sign.str : Sign → Str
  | .none => []
  | .plus => ['+']
  | .minus => ['-']

def Sign.neg : Sign → Bool
  | .minus => true
  | _ => false

/-- value of a run of ASCII digits -/
def digitsNat (ds : Str) : Nat := digitsVal (ds.map charVal)

/-- xs:boolean, §3.3.2: `'true' | 'false' | '1' | '0'` -/
def boolLex : List (Str × Bool) :=
  [(['t', 'r', 'u', 'e'], true), (['f', 'a', 'l', 's', 'e'], false), (['1'], true), (['0'], false)]

def XsdBoolean (s : Str) (v : Bool) : Prop := (s, v) ∈ boolLex

/-- xs:integer, §3.4.13: `[\-+]?[0-9]+` -/
def XsdInteger (s : Str) (v : Int) : Prop :=
  ∃ (sg : Sign) (ds : Str), s = sg.str ++ ds ∧ ds ≠ [] ∧ AllDigits ds ∧
    v = if sg.neg then -(Int.ofNat (digitsNat ds)) else Int.ofNat (digitsNat ds)

/-- xs:decimal, §3.3.3: `(\+|-)?([0-9]+(\.[0-9]*)?|\.[0-9]+)`; the value is
`±coeff × 10^exp` -/
def XsdDecimal (s : Str) (neg : Bool) (coeff : Nat) (exp : Int) : Prop :=
  ∃ (sg : Sign) (ip fp : Str) (dot : Bool),
    s = sg.str ++ ip ++ (if dot then '.' :: fp else []) ∧
    AllDigits ip ∧ AllDigits fp ∧ (ip ≠ [] ∨ (dot = true ∧ fp ≠ [])) ∧ (dot = false → fp = []) ∧
    neg = sg.neg ∧ coeff = digitsNat (ip ++ fp) ∧ exp = -(fp.length : Int)

/-- hexadecimal digit (either case) and its value -/
def hexDigitVal (c : Char) : Option Nat :=
  if isAsciiDigit c then some (c.toNat - 48)
  else if 65 ≤ c.toNat ∧ c.toNat ≤ 70 then some (c.toNat - 55)
  else if 97 ≤ c.toNat ∧ c.toNat ≤ 102 then some (c.toNat - 87)
  else none

/-- xs:hexBinary, §3.3.15: `([0-9a-fA-F]{2})*`, each pair one octet -/
inductive XsdHexBinary : Str → List Nat → Prop
  | nil : XsdHexBinary [] []
  | pair (a b : Char) (x y : Nat) (rest : Str) (bs : List Nat) :
      hexDigitVal a = some x → hexDigitVal b = some y → XsdHexBinary rest bs →
      XsdHexBinary (a :: b :: rest) ((x * 16 + y) :: bs)

/-- the base64 alphabet, value → character (RFC 4648 table 1) -/
def b64Alphabet : Str :=
  ['A', 'B', 'C', 'D', 'E', 'F', 'G', 'H', 'I', 'J', 'K', 'L', 'M', 'N', 'O', 'P', 'Q', 'R', 'S', 'T', 'U', 'V', 'W', 'X', 'Y', 'Z', 'a', 'b', 'c', 'd', 'e', 'f', 'g', 'h', 'i', 'j', 'k', 'l', 'm', 'n', 'o', 'p', 'q', 'r', 's', 't', 'u', 'v', 'w', 'x', 'y', 'z', '0', '1', '2', '3', '4', '5', '6', '7', '8', '9', '+', '/']

/-- character for a 6-bit value -/
def b64AlphaChar (v : Nat) : Char := b64Alphabet.getD v 'A'

/-- canonical xs:base64Binary, §3.3.16 (no white space): groups of four
characters for three octets, with the `=`/`==` endings whose last character
carries only zero padding bits -/
inductive XsdBase64 : Str → List Nat → Prop
  | nil : XsdBase64 [] []
  | one (a : Nat) : a < 256 →
      XsdBase64 [b64AlphaChar (a / 4), b64AlphaChar (a % 4 * 16), '=', '='] [a]
  | two (a b : Nat) : a < 256 → b < 256 →
      XsdBase64 [b64AlphaChar (a / 4), b64AlphaChar (a % 4 * 16 + b / 16), b64AlphaChar (b % 16 * 4), '='] [a, b]
  | quad (a b c : Nat) (rest : Str) (bs : List Nat) : a < 256 → b < 256 → c < 256 →
      XsdBase64 rest bs →
      XsdBase64 (b64AlphaChar (a / 4) :: b64AlphaChar (a % 4 * 16 + b / 16)
        :: b64AlphaChar (b % 16 * 4 + c / 64) :: b64AlphaChar (c % 64) :: rest) (a :: b :: c :: bs)

/-- RFC 2396 characters of a URI reference other than the fragment separator:
alphanumerics, reserved `; / ? : @ & = + $ ,`, marks `- _ . ! ~ * ' ( )`, and `%` -/
def rfcUriChars : Str :=
  ['a','b','c','d','e','f','g','h','i','j','k','l','m','n','o','p','q','r','s','t','u','v','w','x','y','z',
   'A','B','C','D','E','F','G','H','I','J','K','L','M','N','O','P','Q','R','S','T','U','V','W','X','Y','Z',
   '0','1','2','3','4','5','6','7','8','9',
   ';','/','?',':','@','&','=','+','$',',','-','_','.','!','~','*',Char.ofNat 39,'(',')','%']

def rfcUriChar (c : Char) : Bool := rfcUriChars.contains c

/-- an (ASCII) URI reference: non-empty, RFC 2396 characters, at most one `#`
(the fragment after it may be empty, as in `http://www.w3.org/2000/09/xmldsig#`) -/
def isRfcUriRef (u : Str) : Bool :=
  !u.isEmpty && (partitionChar '#' u).1.all rfcUriChar && (partitionChar '#' u).2.2.all rfcUriChar

end Xs.Spec
