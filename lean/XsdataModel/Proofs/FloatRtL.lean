/- Helper lemmas: the binary64 rounding of `Conv/FloatRepr.lean` depends only on the
rational value, and is the identity on representable values. -/
import XsdataModel.Conv.FloatRepr
import XsdataModel.Proofs.Digits

namespace Xs.Conv
open Py

/-! ### scaling numerator and denominator -/

theorem divRoundHalfEven_scale (n d k : Nat) (hk : 0 < k) :
    divRoundHalfEven (n * k) (d * k) = divRoundHalfEven n d := by
  unfold divRoundHalfEven
  have h1 : n * k / (d * k) = n / d := Nat.mul_div_mul_right n d hk
  have h2 : n * k % (d * k) = n % d * k := Nat.mul_mod_mul_right k n d
  simp only [h1, h2]
  have e1 : (2 * (n % d * k) < d * k) ↔ (2 * (n % d) < d) := by
    rw [← Nat.mul_assoc]; exact Nat.mul_lt_mul_right hk
  have e2 : (2 * (n % d * k) > d * k) ↔ (2 * (n % d) > d) := by
    rw [← Nat.mul_assoc]; exact Nat.mul_lt_mul_right hk
  simp only [e1, e2]

theorem scaledRound_scale (n d k : Nat) (q : Int) (hk : 0 < k) :
    scaledRound (n * k) (d * k) q = scaledRound n d q := by
  unfold scaledRound
  split
  · have : d * k * 2 ^ q.toNat = d * 2 ^ q.toNat * k := by grind
    rw [this, divRoundHalfEven_scale _ _ _ hk]
  · have : n * k * 2 ^ (-q).toNat = n * 2 ^ (-q).toNat * k := by grind
    rw [this, divRoundHalfEven_scale _ _ _ hk]

/-- `2^e ≤ n / d`, cross-multiplied (one of the two exponents is zero) -/
def Pow2Le (e : Int) (n d : Nat) : Prop := d * 2 ^ e.toNat ≤ n * 2 ^ (-e).toNat

instance (e : Int) (n d : Nat) : Decidable (Pow2Le e n d) := by unfold Pow2Le; infer_instance

theorem pow2Le_scale (e : Int) (n d k : Nat) (hk : 0 < k) : Pow2Le e (n * k) (d * k) ↔ Pow2Le e n d := by
  unfold Pow2Le
  have h1 : d * k * 2 ^ e.toNat = d * 2 ^ e.toNat * k := by grind
  have h2 : n * k * 2 ^ (-e).toNat = n * 2 ^ (-e).toNat * k := by grind
  rw [h1, h2]
  exact Nat.mul_le_mul_right_iff hk

/-- `Pow2Le` is antitone in the exponent -/
theorem pow2Le_succ (e : Int) (n d : Nat) (h : Pow2Le (e + 1) n d) : Pow2Le e n d := by
  unfold Pow2Le at *
  by_cases he : e ≥ 0
  · have a1 : (e + 1).toNat = e.toNat + 1 := by omega
    have a2 : (-(e + 1)).toNat = 0 := by omega
    have a3 : (-e).toNat = 0 := by omega
    rw [a1, a2, Nat.pow_succ] at h
    rw [a3]
    have : d * 2 ^ e.toNat ≤ d * (2 ^ e.toNat * 2) := by
      have := Nat.le_mul_of_pos_right (d * 2 ^ e.toNat) (show 0 < 2 by omega)
      grind
    omega
  · have a1 : (e + 1).toNat = 0 := by omega
    have a2 : e.toNat = 0 := by omega
    have a3 : (-e).toNat = (-(e + 1)).toNat + 1 := by omega
    rw [a1] at h
    rw [a2, a3, Nat.pow_succ]
    have : n * 2 ^ (-(e + 1)).toNat ≤ n * (2 ^ (-(e + 1)).toNat * 2) := by
      have := Nat.le_mul_of_pos_right (n * 2 ^ (-(e + 1)).toNat) (show 0 < 2 by omega)
      grind
    omega

theorem pow2Le_mono (e e' : Int) (n d : Nat) (hle : e ≤ e') (h : Pow2Le e' n d) : Pow2Le e n d := by
  obtain ⟨j, hj⟩ : ∃ j : Nat, e' = e + j := ⟨(e' - e).toNat, by omega⟩
  subst hj
  clear hle
  induction j with
  | zero => simpa using h
  | succ j ih =>
    apply ih
    apply pow2Le_succ
    have : e + ((j + 1 : Nat) : Int) = e + (j : Int) + 1 := by omega
    rwa [this] at h

/-- the exponent `e` with `2^e ≤ n/d < 2^(e+1)` is unique -/
theorem pow2_floor_unique (e e' : Int) (n d : Nat) (h1 : Pow2Le e n d) (h2 : ¬ Pow2Le (e + 1) n d)
    (h1' : Pow2Le e' n d) (h2' : ¬ Pow2Le (e' + 1) n d) : e = e' := by
  by_cases hlt : e < e'
  · exact absurd (pow2Le_mono (e + 1) e' n d (by omega) h1') h2
  · by_cases hgt : e' < e
    · exact absurd (pow2Le_mono (e' + 1) e n d (by omega) h1) h2'
    · omega

/-! ### `floorLog2Ratio` is exact -/

theorem floorLog2Ratio_unfold (n d : Nat) :
    floorLog2Ratio n d =
      if Pow2Le ((n.log2 : Int) - (d.log2 : Int)) n d then (n.log2 : Int) - (d.log2 : Int)
      else (n.log2 : Int) - (d.log2 : Int) - 1 := by
  unfold floorLog2Ratio Pow2Le
  simp only
  by_cases h : (n.log2 : Int) - (d.log2 : Int) ≥ 0
  · have e2 : (-((n.log2 : Int) - (d.log2 : Int))).toNat = 0 := by omega
    simp only [h, if_true, e2, Nat.pow_zero, Nat.mul_one, ge_iff_le]
  · have e1 : ((n.log2 : Int) - (d.log2 : Int)).toNat = 0 := by omega
    simp only [h, if_false, e1, Nat.pow_zero, Nat.mul_one, ge_iff_le]

theorem floorLog2Ratio_spec (n d : Nat) (hn : 0 < n) (hd : 0 < d) :
    Pow2Le (floorLog2Ratio n d) n d ∧ ¬ Pow2Le (floorLog2Ratio n d + 1) n d := by
  rw [floorLog2Ratio_unfold]
  have ha1 : 2 ^ n.log2 ≤ n := Nat.log2_self_le (by omega)
  have ha2 : n < 2 ^ (n.log2 + 1) := Nat.lt_log2_self
  have hb1 : 2 ^ d.log2 ≤ d := Nat.log2_self_le (by omega)
  have hb2 : d < 2 ^ (d.log2 + 1) := Nat.lt_log2_self
  generalize n.log2 = a at *
  generalize d.log2 = b at *
  -- below: 2^(lg-1) ≤ n/d ; above: n/d < 2^(lg+1), with lg = a - b
  have hlow : Pow2Le ((a : Int) - (b : Int) - 1) n d := by
    unfold Pow2Le
    by_cases h : b + 1 ≤ a
    · have e1 : ((a : Int) - (b : Int) - 1).toNat = a - b - 1 := by omega
      have e2 : (-((a : Int) - (b : Int) - 1)).toNat = 0 := by omega
      rw [e1, e2]
      have : d * 2 ^ (a - b - 1) ≤ 2 ^ (b + 1) * 2 ^ (a - b - 1) :=
        Nat.mul_le_mul_right _ (Nat.le_of_lt hb2)
      have e3 : 2 ^ (b + 1) * 2 ^ (a - b - 1) = 2 ^ a := by
        rw [← Nat.pow_add]; congr 1; omega
      omega
    · have e1 : ((a : Int) - (b : Int) - 1).toNat = 0 := by omega
      have e2 : (-((a : Int) - (b : Int) - 1)).toNat = b + 1 - a := by omega
      rw [e1, e2]
      have : 2 ^ a * 2 ^ (b + 1 - a) ≤ n * 2 ^ (b + 1 - a) := Nat.mul_le_mul_right _ ha1
      have e3 : 2 ^ a * 2 ^ (b + 1 - a) = 2 ^ (b + 1) := by
        rw [← Nat.pow_add]; congr 1; omega
      omega
  have hhigh : ¬ Pow2Le ((a : Int) - (b : Int) + 1) n d := by
    unfold Pow2Le
    by_cases h : b ≤ a + 1
    · have e1 : ((a : Int) - (b : Int) + 1).toNat = a + 1 - b := by omega
      have e2 : (-((a : Int) - (b : Int) + 1)).toNat = 0 := by omega
      rw [e1, e2]
      have : 2 ^ b * 2 ^ (a + 1 - b) ≤ d * 2 ^ (a + 1 - b) := Nat.mul_le_mul_right _ hb1
      have e3 : 2 ^ b * 2 ^ (a + 1 - b) = 2 ^ (a + 1) := by
        rw [← Nat.pow_add]; congr 1; omega
      omega
    · have e1 : ((a : Int) - (b : Int) + 1).toNat = 0 := by omega
      have e2 : (-((a : Int) - (b : Int) + 1)).toNat = b - a - 1 := by omega
      rw [e1, e2]
      have hpos : 0 < 2 ^ (b - a - 1) := Nat.pow_pos (by omega)
      have : n * 2 ^ (b - a - 1) < 2 ^ (a + 1) * 2 ^ (b - a - 1) := Nat.mul_lt_mul_of_pos_right ha2 hpos
      have e3 : 2 ^ (a + 1) * 2 ^ (b - a - 1) = 2 ^ b := by
        rw [← Nat.pow_add]; congr 1; omega
      omega
  split
  · rename_i hc
    exact ⟨hc, hhigh⟩
  · rename_i hc
    refine ⟨hlow, ?_⟩
    have e : (a : Int) - (b : Int) - 1 + 1 = (a : Int) - (b : Int) := by omega
    rw [e]
    exact hc

theorem floorLog2Ratio_eq (n d : Nat) (hn : 0 < n) (hd : 0 < d) (e : Int)
    (h1 : Pow2Le e n d) (h2 : ¬ Pow2Le (e + 1) n d) : floorLog2Ratio n d = e := by
  obtain ⟨s1, s2⟩ := floorLog2Ratio_spec n d hn hd
  exact pow2_floor_unique _ _ n d s1 s2 h1 h2

theorem floorLog2Ratio_scale (n d k : Nat) (hn : 0 < n) (hd : 0 < d) (hk : 0 < k) :
    floorLog2Ratio (n * k) (d * k) = floorLog2Ratio n d := by
  obtain ⟨s1, s2⟩ := floorLog2Ratio_spec n d hn hd
  apply floorLog2Ratio_eq _ _ (Nat.mul_pos hn hk) (Nat.mul_pos hd hk)
  · exact (pow2Le_scale _ n d k hk).mpr s1
  · intro h; exact s2 ((pow2Le_scale _ n d k hk).mp h)

theorem roundRatio_scale (n d k : Nat) (hn : 0 < n) (hd : 0 < d) (hk : 0 < k) :
    roundRatio (n * k) (d * k) = roundRatio n d := by
  unfold roundRatio
  have h0 : ¬ n * k = 0 := by
    have := Nat.mul_pos hn hk; omega
  have h0' : ¬ n = 0 := by omega
  simp only [h0, h0', if_false, floorLog2Ratio_scale n d k hn hd hk, scaledRound_scale n d k _ hk]

/-! ### `roundDecimal` depends only on the value: trailing zeros, sign -/

theorem numDigits_mul_pow10 (c j : Nat) (hc : 0 < c) : numDigits (c * 10 ^ j) = numDigits c + j := by
  unfold numDigits
  rw [natStr_mul_pow10 c j hc]
  simp

theorem decRatio_pos (c : Nat) (x : Int) (hc : 0 < c) : 0 < (decRatio c x).1 ∧ 0 < (decRatio c x).2 := by
  unfold decRatio
  split
  · exact ⟨Nat.mul_pos hc (Nat.pow_pos (by omega)), by omega⟩
  · exact ⟨hc, Nat.pow_pos (by omega)⟩

theorem roundRatio_decRatio_zeros (c j : Nat) (x : Int) (hc : 0 < c) :
    roundRatio (decRatio (c * 10 ^ j) (x - j)).1 (decRatio (c * 10 ^ j) (x - j)).2 =
      roundRatio (decRatio c x).1 (decRatio c x).2 := by
  unfold decRatio
  by_cases hx : x ≥ 0
  · by_cases hxj : x - (j : Int) ≥ 0
    · -- both numerators are c * 10^x
      have e : (x - (j : Int)).toNat + j = x.toNat := by omega
      have : c * 10 ^ j * 10 ^ (x - (j : Int)).toNat = c * 10 ^ x.toNat := by
        rw [Nat.mul_assoc, ← Nat.pow_add, Nat.add_comm, e]
      simp only [hx, hxj, if_true, this]
    · -- (c 10^j, 10^(j-x)) is (c 10^x, 1) scaled by 10^(j-x)
      have e : x.toNat + (-(x - (j : Int))).toNat = j := by omega
      have h1 : c * 10 ^ j = c * 10 ^ x.toNat * 10 ^ (-(x - (j : Int))).toNat := by
        rw [Nat.mul_assoc, ← Nat.pow_add, e]
      simp only [hx, hxj, if_true, if_false]
      have hn : 0 < c * 10 ^ x.toNat := Nat.mul_pos hc (Nat.pow_pos (by omega))
      have hk : 0 < 10 ^ (-(x - (j : Int))).toNat := Nat.pow_pos (by omega)
      have := roundRatio_scale (c * 10 ^ x.toNat) 1 _ hn (by omega) hk
      rw [Nat.one_mul] at this
      rw [h1]
      exact this
  · have hxj : ¬ x - (j : Int) ≥ 0 := by omega
    have e : (-(x - (j : Int))).toNat = (-x).toNat + j := by omega
    simp only [hx, hxj, if_false]
    rw [e, Nat.pow_add]
    have hd : 0 < 10 ^ (-x).toNat := Nat.pow_pos (by omega)
    have hk : 0 < 10 ^ j := Nat.pow_pos (by omega)
    exact roundRatio_scale c (10 ^ (-x).toNat) (10 ^ j) hc hd hk

/-- trailing zeros of the coefficient can be moved into the exponent -/
theorem roundDecimal_zeros (neg : Bool) (c j : Nat) (x : Int) (hc : 0 < c) :
    roundDecimal neg (c * 10 ^ j) (x - j) = roundDecimal neg c x := by
  unfold roundDecimal
  rw [roundRatio_decRatio_zeros c j x hc, numDigits_mul_pow10 c j hc]
  have h0 : ¬ c * 10 ^ j = 0 := by
    have := Nat.mul_pos hc (Nat.pow_pos (n := j) (show 0 < 10 by omega)); omega
  have h0' : ¬ c = 0 := by omega
  have e : x - (j : Int) + ((numDigits c + j : Nat) : Int) = x + (numDigits c : Int) := by omega
  simp only [h0, h0', if_false, e]

/-- set the sign of a value -/
def F64.withNeg (neg : Bool) : F64 → F64
  | .fin _ m q => .fin neg m q
  | .inf _ => .inf neg
  | .nan => .nan

theorem roundDecimal_sign (neg : Bool) (c : Nat) (x : Int) :
    roundDecimal neg c x = (roundDecimal false c x).withNeg neg := by
  unfold roundDecimal
  split
  · rfl
  · split
    · rfl
    · split
      · rfl
      · cases roundRatio (decRatio c x).1 (decRatio c x).2 with
        | none => rfl
        | some r => rfl

/-! ### rounding is the identity on representable values -/

theorem divRoundHalfEven_exact (m k : Nat) (hk : 0 < k) : divRoundHalfEven (m * k) k = m := by
  unfold divRoundHalfEven
  have h1 : m * k / k = m := Nat.mul_div_cancel m hk
  have h2 : m * k % k = 0 := Nat.mul_mod_left m k
  simp only [h1, h2, Nat.mul_zero]
  simp [hk]

/-- a positive canonical significand/exponent pair -/
def PosCanonical (m : Nat) (q : Int) : Prop :=
  (2 ^ 52 ≤ m ∧ m < 2 ^ 53 ∧ -1074 ≤ q ∧ q ≤ 971) ∨ (0 < m ∧ m < 2 ^ 52 ∧ q = -1074)

theorem posCanonical_pos (m : Nat) (q : Int) (h : PosCanonical m q) : 0 < m := by
  rcases h with ⟨h, _⟩ | ⟨h, _⟩
  · have : 0 < 2 ^ 52 := Nat.pow_pos (by omega)
    omega
  · exact h

/-- `floor(log2(m × 2^q)) = log2(m) + q` -/
theorem floorLog2Ratio_f64 (m : Nat) (q : Int) (hm : 0 < m) :
    floorLog2Ratio (f64Ratio m q).1 (f64Ratio m q).2 = (m.log2 : Int) + q := by
  have ha1 : 2 ^ m.log2 ≤ m := Nat.log2_self_le (by omega)
  have ha2 : m < 2 ^ (m.log2 + 1) := Nat.lt_log2_self
  generalize m.log2 = L at *
  unfold f64Ratio
  by_cases hq : q ≥ 0
  · simp only [hq, if_true]
    have hpq : 0 < 2 ^ q.toNat := Nat.pow_pos (by omega)
    apply floorLog2Ratio_eq _ _ (Nat.mul_pos hm hpq) (by omega)
    · unfold Pow2Le
      have e1 : ((L : Int) + q).toNat = L + q.toNat := by omega
      have e2 : (-((L : Int) + q)).toNat = 0 := by omega
      rw [e1, e2, Nat.pow_add]
      have := Nat.mul_le_mul_right (2 ^ q.toNat) ha1
      simp; omega
    · unfold Pow2Le
      have e1 : ((L : Int) + q + 1).toNat = (L + 1) + q.toNat := by omega
      have e2 : (-((L : Int) + q + 1)).toNat = 0 := by omega
      rw [e1, e2, Nat.pow_add]
      have := Nat.mul_lt_mul_of_pos_right ha2 hpq
      simp; omega
  · simp only [hq, if_false]
    have hpj : 0 < 2 ^ (-q).toNat := Nat.pow_pos (by omega)
    apply floorLog2Ratio_eq _ _ hm hpj
    · unfold Pow2Le
      by_cases hL : (-q).toNat ≤ L
      · have e1 : ((L : Int) + q).toNat = L - (-q).toNat := by omega
        have e2 : (-((L : Int) + q)).toNat = 0 := by omega
        rw [e1, e2, ← Nat.pow_add]
        have : (-q).toNat + (L - (-q).toNat) = L := by omega
        rw [this]; simp; exact ha1
      · have e1 : ((L : Int) + q).toNat = 0 := by omega
        have e2 : (-((L : Int) + q)).toNat = (-q).toNat - L := by omega
        rw [e1, e2]
        have h3 := Nat.mul_le_mul_right (2 ^ ((-q).toNat - L)) ha1
        rw [← Nat.pow_add] at h3
        have : L + ((-q).toNat - L) = (-q).toNat := by omega
        rw [this] at h3
        simp; exact h3
    · unfold Pow2Le
      by_cases hL : (-q).toNat ≤ L + 1
      · have e1 : ((L : Int) + q + 1).toNat = L + 1 - (-q).toNat := by omega
        have e2 : (-((L : Int) + q + 1)).toNat = 0 := by omega
        rw [e1, e2, ← Nat.pow_add]
        have : (-q).toNat + (L + 1 - (-q).toNat) = L + 1 := by omega
        rw [this]; simp; omega
      · have e1 : ((L : Int) + q + 1).toNat = 0 := by omega
        have e2 : (-((L : Int) + q + 1)).toNat = (-q).toNat - (L + 1) := by omega
        rw [e1, e2]
        have hp : 0 < 2 ^ ((-q).toNat - (L + 1)) := Nat.pow_pos (by omega)
        have h3 := Nat.mul_lt_mul_of_pos_right ha2 hp
        rw [← Nat.pow_add] at h3
        have : L + 1 + ((-q).toNat - (L + 1)) = (-q).toNat := by omega
        rw [this] at h3
        simp; omega

theorem scaledRound_f64 (m : Nat) (q : Int) :
    scaledRound (f64Ratio m q).1 (f64Ratio m q).2 q = m := by
  unfold f64Ratio scaledRound
  by_cases hq : q ≥ 0
  · simp only [hq, if_true, Nat.one_mul]
    exact divRoundHalfEven_exact m _ (Nat.pow_pos (by omega))
  · simp only [hq, if_false]
    exact divRoundHalfEven_exact m _ (Nat.pow_pos (by omega))

/-- **idempotence**: the exact value of a positive double rounds to itself -/
theorem roundRatio_exact (m : Nat) (q : Int) (h : PosCanonical m q) :
    roundRatio (f64Ratio m q).1 (f64Ratio m q).2 = some (m, q) := by
  have hm := posCanonical_pos m q h
  have hn0 : ¬ (f64Ratio m q).1 = 0 := by
    unfold f64Ratio
    split
    · have := Nat.mul_pos hm (Nat.pow_pos (n := q.toNat) (show 0 < 2 by omega)); simp; omega
    · simp; omega
  unfold roundRatio
  simp only [hn0, if_false, floorLog2Ratio_f64 m q hm]
  have hq' : max ((m.log2 : Int) + q - 52) (-1074) = q := by
    rcases h with ⟨h1, h2, h3, h4⟩ | ⟨h1, h2, h3⟩
    · have : m.log2 = 52 := by
        have a : m.log2 < 53 := (Nat.log2_lt (by omega)).mpr h2
        have b : 52 ≤ m.log2 := (Nat.le_log2 (by omega)).mpr h1
        omega
      omega
    · have : m.log2 < 52 := (Nat.log2_lt (by omega)).mpr h2
      omega
  rw [hq', scaledRound_f64]
  have hne : ¬ m = 2 ^ 53 := by
    rcases h with ⟨_, h2, _⟩ | ⟨_, h2, _⟩ <;> omega
  have hq971 : ¬ q > 971 := by
    rcases h with ⟨_, _, _, h4⟩ | ⟨_, _, h3⟩ <;> omega
  simp [hne, hq971]

/-! ### the exact decimal expansion of a double reads back as the double -/

theorem num_facts : 2 ^ 1024 < 10 ^ 309 ∧ 2 ^ 1074 < 10 ^ 331 ∧ 2 ^ 53 < 10 ^ 16 := by decide +kernel

theorem numDigits_le (n k : Nat) (h : n < 10 ^ k) (hk : 1 ≤ k) : numDigits n ≤ k := natStr_length_le k n h hk

theorem numDigits_gt (n k : Nat) (h : 10 ^ k ≤ n) : k < numDigits n := natStr_length_gt k n h

theorem roundDecimal_exact (m : Nat) (q : Int) (h : PosCanonical m q) :
    roundDecimal false (exactDecimal m q).1 (exactDecimal m q).2 = .fin false m q := by
  have hm := posCanonical_pos m q h
  obtain ⟨f1, f2, f3⟩ := num_facts
  have hm53 : m < 2 ^ 53 := by
    rcases h with ⟨_, h2, _⟩ | ⟨_, h2, _⟩ <;> omega
  have hqlo : -1074 ≤ q := by rcases h with ⟨_, _, h3, _⟩ | ⟨_, _, h3⟩ <;> omega
  have hqhi : q ≤ 971 := by rcases h with ⟨_, _, _, h4⟩ | ⟨_, _, h3⟩ <;> omega
  have hrr := roundRatio_exact m q h
  unfold exactDecimal
  by_cases hq : q ≥ 0
  · simp only [hq, if_true]
    have hD : m * 2 ^ q.toNat < 10 ^ 309 := by
      have h1 : 2 ^ q.toNat ≤ 2 ^ 971 := Nat.pow_le_pow_right (by omega) (by omega)
      have h2 : m * 2 ^ q.toNat < 2 ^ 53 * 2 ^ 971 := by
        calc m * 2 ^ q.toNat ≤ m * 2 ^ 971 := Nat.mul_le_mul_left m h1
          _ < 2 ^ 53 * 2 ^ 971 := Nat.mul_lt_mul_of_pos_right hm53 (Nat.pow_pos (by omega))
      have h3 : 2 ^ 53 * 2 ^ 971 = 2 ^ 1024 := by rw [← Nat.pow_add]
      omega
    have hpos : 0 < m * 2 ^ q.toNat := Nat.mul_pos hm (Nat.pow_pos (by omega))
    have hnd := numDigits_le _ 309 hD (by omega)
    have hnd1 : 0 < numDigits (m * 2 ^ q.toNat) := numDigits_gt _ 0 (by simp; omega)
    have hdr : decRatio (m * 2 ^ q.toNat) 0 = (f64Ratio m q) := by
      unfold decRatio f64Ratio; simp [hq]
    unfold roundDecimal
    have h0 : ¬ m * 2 ^ q.toNat = 0 := by omega
    have g1 : ¬ ((0 : Int) + (numDigits (m * 2 ^ q.toNat) : Int) > 310) := by omega
    have g2 : ¬ ((0 : Int) + (numDigits (m * 2 ^ q.toNat) : Int) < -330) := by omega
    simp only [h0, g1, g2, if_false, hdr, hrr]
  · simp only [hq, if_false]
    have hj : (-q).toNat ≤ 1074 := by omega
    generalize hjd : (-q).toNat = j at *
    have hp5 : 0 < 5 ^ j := Nat.pow_pos (by omega)
    have hpos : 0 < m * 5 ^ j := Nat.mul_pos hm hp5
    -- upper bound on the number of digits
    have hup : m * 5 ^ j < 10 ^ (16 + j) := by
      have h5 : 5 ^ j ≤ 10 ^ j := Nat.pow_le_pow_left (by omega) j
      have : m * 5 ^ j < 10 ^ 16 * 10 ^ j := by
        calc m * 5 ^ j ≤ m * 10 ^ j := Nat.mul_le_mul_left m h5
          _ < 10 ^ 16 * 10 ^ j := Nat.mul_lt_mul_of_pos_right (by omega) (Nat.pow_pos (by omega))
      rwa [← Nat.pow_add] at this
    have hnd := numDigits_le _ (16 + j) hup (by omega)
    -- lower bound
    have hlow : 10 ^ (j - 331) ≤ m * 5 ^ j := by
      have h5 : 10 ^ (j - 331) ≤ 5 ^ j := by
        by_cases hj331 : j ≤ 331
        · have : j - 331 = 0 := by omega
          rw [this]; simp; omega
        · have e : 10 ^ (j - 331) * 10 ^ 331 = 5 ^ j * 2 ^ j := by
            rw [← Nat.pow_add, ← Nat.mul_pow]
            have : j - 331 + 331 = j := by omega
            rw [this]
          have h2 : 2 ^ j ≤ 2 ^ 1074 := Nat.pow_le_pow_right (by omega) hj
          have h3 : 5 ^ j * 2 ^ j ≤ 5 ^ j * 10 ^ 331 := Nat.mul_le_mul_left _ (by omega)
          have h4 : 10 ^ (j - 331) * 10 ^ 331 ≤ 5 ^ j * 10 ^ 331 := by omega
          exact Nat.le_of_mul_le_mul_right h4 (Nat.pow_pos (by omega))
      calc 10 ^ (j - 331) ≤ 5 ^ j := h5
        _ ≤ m * 5 ^ j := Nat.le_mul_of_pos_left _ hm
    have hnd2 := numDigits_gt _ _ hlow
    have hdr : roundRatio (decRatio (m * 5 ^ j) q).1 (decRatio (m * 5 ^ j) q).2 = some (m, q) := by
      have e10 : 10 ^ j = 2 ^ j * 5 ^ j := by rw [← Nat.mul_pow]
      have : decRatio (m * 5 ^ j) q = (m * 5 ^ j, 2 ^ j * 5 ^ j) := by
        unfold decRatio; simp [hq, hjd, e10]
      rw [this]
      simp only
      rw [roundRatio_scale m (2 ^ j) (5 ^ j) hm (Nat.pow_pos (by omega)) hp5]
      have : f64Ratio m q = (m, 2 ^ j) := by unfold f64Ratio; simp [hq, hjd]
      rw [this] at hrr
      exact hrr
    unfold roundDecimal
    have h0 : ¬ m * 5 ^ j = 0 := by omega
    have g1 : ¬ (q + (numDigits (m * 5 ^ j) : Int) > 310) := by omega
    have g2 : ¬ (q + (numDigits (m * 5 ^ j) : Int) < -330) := by omega
    simp only [h0, g1, g2, if_false, hdr]

/-! ### every rounding result is a value of the format -/

theorem divRound_ge (a n d : Nat) (hd : 0 < d) (h : a * d ≤ n) : a ≤ divRoundHalfEven n d := by
  have hq : a ≤ n / d := (Nat.le_div_iff_mul_le hd).mpr h
  unfold divRoundHalfEven
  simp only
  split
  · exact hq
  · split
    · omega
    · split <;> omega

theorem divRound_le (b n d : Nat) (hd : 0 < d) (h : n ≤ b * d) : divRoundHalfEven n d ≤ b := by
  have hq : n / d ≤ b := by
    have := Nat.div_le_div_right (c := d) h
    rwa [Nat.mul_div_cancel b hd] at this
  unfold divRoundHalfEven
  simp only
  by_cases heq : n / d = b
  · -- then n = b * d exactly, the remainder is zero
    have h1 : n / d * d ≤ n := Nat.div_mul_le_self n d
    rw [heq] at h1
    have hn : n = b * d := by omega
    have hr : n % d = 0 := by rw [hn]; exact Nat.mul_mod_left b d
    simp [hr, hd, heq]
  · have : n / d + 1 ≤ b := by omega
    split
    · omega
    · split
      · omega
      · split <;> omega

/-- `2^j ≤ round(n / (d 2^q))` when `2^(q+j) ≤ n/d` -/
theorem scaledRound_ge (n d : Nat) (q : Int) (j : Nat) (hd : 0 < d) (h : Pow2Le (q + j) n d) :
    2 ^ j ≤ scaledRound n d q := by
  unfold Pow2Le at h
  unfold scaledRound
  by_cases hq : q ≥ 0
  · rw [if_pos hq]
    apply divRound_ge _ _ _ (Nat.mul_pos hd (Nat.pow_pos (by omega)))
    have e1 : (q + (j : Int)).toNat = q.toNat + j := by omega
    have e2 : (-(q + (j : Int))).toNat = 0 := by omega
    rw [e1, e2, Nat.pow_add] at h
    have : 2 ^ j * (d * 2 ^ q.toNat) = d * (2 ^ q.toNat * 2 ^ j) := by grind
    rw [this]; simpa using h
  · rw [if_neg hq]
    apply divRound_ge _ _ _ hd
    by_cases hqj : q + (j : Int) ≥ 0
    · have e1 : (q + (j : Int)).toNat + (-q).toNat = j := by omega
      have e2 : (-(q + (j : Int))).toNat = 0 := by omega
      rw [e2] at h
      have h' := Nat.mul_le_mul_right (2 ^ (-q).toNat) h
      have : d * 2 ^ (q + (j : Int)).toNat * 2 ^ (-q).toNat = 2 ^ j * d := by
        rw [Nat.mul_assoc, ← Nat.pow_add, e1]; grind
      rw [this] at h'
      simpa using h'
    · have e1 : (q + (j : Int)).toNat = 0 := by omega
      have e2 : (-(q + (j : Int))).toNat + j = (-q).toNat := by omega
      rw [e1] at h
      have h' := Nat.mul_le_mul_right (2 ^ j) h
      have : n * 2 ^ (-(q + (j : Int))).toNat * 2 ^ j = n * 2 ^ (-q).toNat := by
        rw [Nat.mul_assoc, ← Nat.pow_add, e2]
      rw [this] at h'
      have : d * 2 ^ 0 * 2 ^ j = 2 ^ j * d := by grind
      rw [this] at h'
      exact h'

/-- `round(n / (d 2^q)) ≤ 2^j` when `n/d < 2^(q+j)` -/
theorem scaledRound_le (n d : Nat) (q : Int) (j : Nat) (hd : 0 < d) (h : ¬ Pow2Le (q + j) n d) :
    scaledRound n d q ≤ 2 ^ j := by
  unfold Pow2Le at h
  unfold scaledRound
  by_cases hq : q ≥ 0
  · rw [if_pos hq]
    apply divRound_le _ _ _ (Nat.mul_pos hd (Nat.pow_pos (by omega)))
    have e1 : (q + (j : Int)).toNat = q.toNat + j := by omega
    have e2 : (-(q + (j : Int))).toNat = 0 := by omega
    rw [e1, e2, Nat.pow_add] at h
    have : 2 ^ j * (d * 2 ^ q.toNat) = d * (2 ^ q.toNat * 2 ^ j) := by grind
    rw [this]
    simp at h; omega
  · rw [if_neg hq]
    apply divRound_le _ _ _ hd
    by_cases hqj : q + (j : Int) ≥ 0
    · have e1 : (q + (j : Int)).toNat + (-q).toNat = j := by omega
      have e2 : (-(q + (j : Int))).toNat = 0 := by omega
      rw [e2] at h
      have hlt : n * 2 ^ 0 < d * 2 ^ (q + (j : Int)).toNat := by omega
      have h' := Nat.mul_lt_mul_of_pos_right hlt (Nat.pow_pos (n := (-q).toNat) (show 0 < 2 by omega))
      have : d * 2 ^ (q + (j : Int)).toNat * 2 ^ (-q).toNat = 2 ^ j * d := by
        rw [Nat.mul_assoc, ← Nat.pow_add, e1]; grind
      rw [this] at h'
      simp at h'; omega
    · have e1 : (q + (j : Int)).toNat = 0 := by omega
      have e2 : (-(q + (j : Int))).toNat + j = (-q).toNat := by omega
      rw [e1] at h
      have hlt : n * 2 ^ (-(q + (j : Int))).toNat < d * 2 ^ 0 := by omega
      have h' := Nat.mul_lt_mul_of_pos_right hlt (Nat.pow_pos (n := j) (show 0 < 2 by omega))
      have : n * 2 ^ (-(q + (j : Int))).toNat * 2 ^ j = n * 2 ^ (-q).toNat := by
        rw [Nat.mul_assoc, ← Nat.pow_add, e2]
      rw [this] at h'
      have : d * 2 ^ 0 * 2 ^ j = 2 ^ j * d := by grind
      rw [this] at h'
      omega

theorem roundRatio_canonical (n d : Nat) (hd : 0 < d) (neg : Bool) (m : Nat) (q : Int)
    (h : roundRatio n d = some (m, q)) : F64.Canonical (.fin neg m q) := by
  unfold roundRatio at h
  by_cases hn : n = 0
  · simp [hn] at h
    obtain ⟨rfl, rfl⟩ := h
    exact Or.inl ⟨rfl, rfl⟩
  · have hnpos : 0 < n := by omega
    obtain ⟨s1, s2⟩ := floorLog2Ratio_spec n d hnpos hd
    simp only [hn, if_false] at h
    generalize floorLog2Ratio n d = e at *
    by_cases hcase : e - 52 ≥ -1074
    · -- normal range: the significand lies in [2^52, 2^53]
      have hq0 : max (e - 52) (-1074) = e - 52 := by omega
      rw [hq0] at h
      have e52 : e - 52 + ((52 : Nat) : Int) = e := by omega
      have e53 : e - 52 + ((53 : Nat) : Int) = e + 1 := by omega
      have hlo : 2 ^ 52 ≤ scaledRound n d (e - 52) := by
        apply scaledRound_ge n d (e - 52) 52 hd
        rw [e52]; exact s1
      have hhi : scaledRound n d (e - 52) ≤ 2 ^ 53 := by
        apply scaledRound_le n d (e - 52) 53 hd
        rw [e53]; exact s2
      generalize scaledRound n d (e - 52) = m0 at *
      by_cases hc : m0 = 2 ^ 53
      · simp only [hc, if_true] at h
        split at h
        · cases h
        · rename_i hq
          simp only [Option.some.injEq, Prod.mk.injEq] at h
          obtain ⟨rfl, rfl⟩ := h
          exact Or.inr (Or.inl ⟨Nat.le_refl _, by decide, by omega, by omega⟩)
      · simp only [hc, if_false] at h
        split at h
        · cases h
        · rename_i hq
          simp only [Option.some.injEq, Prod.mk.injEq] at h
          obtain ⟨rfl, rfl⟩ := h
          exact Or.inr (Or.inl ⟨hlo, by omega, by omega, by omega⟩)
    · -- subnormal range: the significand is at most 2^52
      have hq0 : max (e - 52) (-1074) = -1074 := by omega
      rw [hq0] at h
      have hnot : ¬ Pow2Le (-1074 + ((52 : Nat) : Int)) n d := by
        intro hp
        exact s2 (pow2Le_mono (e + 1) _ n d (by omega) hp)
      have hhi : scaledRound n d (-1074) ≤ 2 ^ 52 := scaledRound_le n d (-1074) 52 hd hnot
      generalize scaledRound n d (-1074) = m0 at *
      have hc : ¬ m0 = 2 ^ 53 := by
        have : (2 : Nat) ^ 52 < 2 ^ 53 := by decide
        omega
      simp only [hc, if_false] at h
      split at h
      · cases h
      · simp only [Option.some.injEq, Prod.mk.injEq] at h
        obtain ⟨rfl, rfl⟩ := h
        by_cases hz : m0 = 0
        · exact Or.inl ⟨hz, rfl⟩
        · by_cases h52 : m0 = 2 ^ 52
          · exact Or.inr (Or.inl ⟨by omega, by rw [h52]; decide, by omega, by omega⟩)
          · exact Or.inr (Or.inr ⟨by omega, by omega, rfl⟩)

/-- **`float()` only produces values of the format** -/
theorem roundDecimal_canonical (neg : Bool) (c : Nat) (x : Int) : (roundDecimal neg c x).Canonical := by
  unfold roundDecimal
  split
  · exact Or.inl ⟨rfl, rfl⟩
  · rename_i hc
    split
    · trivial
    · split
      · exact Or.inl ⟨rfl, rfl⟩
      · have hpos := decRatio_pos c x (by omega)
        cases hr : roundRatio (decRatio c x).1 (decRatio c x).2 with
        | none => trivial
        | some r =>
          obtain ⟨m, q⟩ := r
          exact roundRatio_canonical _ _ hpos.2 neg m q hr

end Xs.Conv
