"""C03 support: drive the real writers below the object level, independent
parsers, and the harness's own (independent) readings of event lists."""
import io
import re
from xml.etree.ElementTree import QName
from xml.parsers import expat

from lxml import etree as LET

from xsdata.formats.dataclass.serializers import XmlSerializer
from xsdata.formats.dataclass.serializers.config import SerializerConfig
from xsdata.formats.dataclass.serializers.mixins import EventHandler
from xsdata.formats.dataclass.serializers.writers import LxmlEventWriter, XmlEventWriter
from xsdata.utils import namespaces

XSI = "http://www.w3.org/2001/XMLSchema-instance"
XS = "http://www.w3.org/2001/XMLSchema"
XMLNS = "http://www.w3.org/XML/1998/namespace"
XMLNS_NS = "http://www.w3.org/2000/xmlns/"
XSI_NIL = "{%s}nil" % XSI
XSI_TYPE = "{%s}type" % XSI

# ------------------------------------------------------------------ decoding


def decode_atom(v):
    if isinstance(v, dict):
        return QName(v["q"])
    return v


def decode_val(v):
    if isinstance(v, list):
        return [decode_atom(x) for x in v]
    return decode_atom(v)


def decode_events(events):
    out = []
    for e in events:
        if e and e[0] == "attr" and len(e) == 3:
            out.append(("attr", e[1], decode_val(e[2])))
        elif e and e[0] == "data" and len(e) == 2:
            out.append(("data", decode_val(e[1])))
        else:
            out.append(tuple(e))
    return out


def user_dict(pairs):
    return {k: v for k, v in pairs}


def clean_user_map(pairs):
    d = user_dict(pairs)
    return namespaces.clean_prefixes(d) if d else {}


def make_cfg(cfg):
    return SerializerConfig(
        xml_declaration=bool(cfg.get("decl", False)),
        indent=cfg.get("indent"),
        schema_location=cfg.get("schema_location"),
        no_namespace_schema_location=cfg.get("no_ns"),
    )


class _EventsSerializer(XmlSerializer):
    """XmlSerializer whose event generator is replaced by a given event list;
    everything below (`clean_prefixes`, writer, SAX handler) is the real code."""

    def generate(self, obj):
        return iter(obj)


def run_writer(writer, events, ns_map, cfg):
    ser = _EventsSerializer(config=make_cfg(cfg), writer=writer)
    return ser.render(decode_events(events), user_dict(ns_map) if ns_map else None)


def run_native(events, ns_map, cfg):
    return run_writer(XmlEventWriter, events, ns_map, cfg)


def run_lxml(events, ns_map, cfg):
    return run_writer(LxmlEventWriter, events, ns_map, cfg)


class Recorder(EventHandler):
    """EventHandler subclass that records the calls it would send to a SAX handler."""

    __slots__ = ("calls",)

    def __init__(self, config, ns_map):
        super().__init__(config, ns_map)
        self.calls = []

    def start_document(self):
        pass

    def end_document(self):
        pass

    def start_element(self, name, qname, attrs):
        self.calls.append(["startElem", list(name), [[k[0], k[1], v] for k, v in attrs.items()]])

    def end_element(self, name, qname):
        self.calls.append(["endElem", list(name)])

    def set_characters(self, data):
        self.calls.append(["chars", data])

    def start_prefix_mapping(self, prefix, uri):
        self.calls.append(["startPrefix", prefix, uri])

    def end_prefix_mapping(self, prefix):
        self.calls.append(["endPrefix", prefix])


def run_recording(events, ns_map, cfg):
    d = user_dict(ns_map)
    try:
        rec = Recorder(make_cfg(cfg), namespaces.clean_prefixes(d) if d else {})
    except Exception as e:  # noqa: BLE001  (validate_prefixes: nothing was sent)
        return [], type(e).__name__
    try:
        rec.write(iter(decode_events(events)))
    except Exception as e:  # noqa: BLE001
        return rec.calls, type(e).__name__
    return rec.calls, None


# ------------------------------------------------------------------ independent parsers
_SEP = "\x1f"


def expat_tree(data: bytes):
    """Namespace-aware expat reading → ["e", ns, local, [[ns, local, value]...], kids] / ["t", s]"""
    p = expat.ParserCreate(namespace_separator=_SEP)
    p.ordered_attributes = True
    p.buffer_text = True
    root = []
    stack = []

    def split(name):
        if _SEP in name:
            u, l = name.split(_SEP, 1)
            return [u, l]
        return [None, name]

    def start(name, attrs):
        u, l = split(name)
        node = ["e", u, l, [split(attrs[i]) + [attrs[i + 1]] for i in range(0, len(attrs), 2)], []]
        if stack:
            stack[-1][4].append(node)
        else:
            root.append(node)
        stack.append(node)

    def end(name):
        stack.pop()

    def chars(s):
        if stack:
            kids = stack[-1][4]
            if kids and kids[-1][0] == "t":
                kids[-1][1] += s
            else:
                kids.append(["t", s])

    p.StartElementHandler = start
    p.EndElementHandler = end
    p.CharacterDataHandler = chars
    p.Parse(data, True)
    return root[0]


_LXML_PARSER = dict(resolve_entities=False, remove_blank_text=False, huge_tree=False)


def lxml_tree(data: bytes):
    root = LET.fromstring(data, LET.XMLParser(**_LXML_PARSER))

    def conv(el):
        q = LET.QName(el)
        attrs = []
        for k, v in el.attrib.items():
            qa = LET.QName(k)
            attrs.append([qa.namespace, qa.localname, v])
        kids = []
        if el.text:
            kids.append(["t", el.text])
        for c in el:
            if not isinstance(c.tag, str):
                raise ValueError("comment/PI")
            kids.append(conv(c))
            if c.tail:
                kids.append(["t", c.tail])
        return ["e", q.namespace, q.localname, attrs, kids]

    return conv(root)


def _sorted(node):
    if node[0] == "t":
        return node
    return ["e", node[1], node[2], sorted(node[3], key=lambda x: (x[0] or "", x[1])), [_sorted(k) for k in node[4]]]


def parse_infoset(text: str, want_scopes=False):
    """The document element as read by expat, provided lxml (libxml2) reads the
    same; None when either parser rejects the document."""
    try:
        data = text.encode("utf-8")
    except UnicodeEncodeError:
        return None
    try:
        t1 = expat_tree(data)
    except (expat.ExpatError, IndexError):
        return None
    try:
        t2 = lxml_tree(data)
    except (LET.XMLSyntaxError, ValueError):
        return None
    if _sorted(t1) != _sorted(t2):
        return ["PARSERS-DISAGREE", t1, t2]
    return t1


def lxml_is_ncname(s: str) -> bool:
    try:
        LET.Element(s)
    except ValueError:
        return False
    return ":" not in s


# ------------------------------------------------------------------ XML lexical classes (own transcription)
_NSC = (
    "A-Z_a-z\u00c0-\u00d6\u00d8-\u00f6\u00f8-\u02ff\u0370-\u037d\u037f-\u1fff\u200c-\u200d\u2070-\u218f"
    "\u2c00-\u2fef\u3001-\ud7ff\uf900-\ufdcf\ufdf0-\ufffd\U00010000-\U000effff"
)
_NC = _NSC + "\\-.0-9\u00b7\u0300-\u036f\u203f-\u2040"
NCNAME_RE = re.compile("[%s][%s]*\\Z" % (_NSC, _NC))
XMLCHARS_RE = re.compile("[\t\n\r\u0020-\ud7ff\ue000-\ufffd\U00010000-\U0010ffff]*\\Z")


def is_ncname(s):
    return bool(s) and NCNAME_RE.match(s) is not None


def xml_chars(s):
    return XMLCHARS_RE.match(s) is not None


def clark(q):
    """'{uri}local' or 'local' → (uri or None, local); None when not of that form"""
    if q.startswith("{"):
        i = q.find("}")
        if i < 0:
            return None
        u, l = q[1:i], q[i + 1 :]
        if not u or not is_ncname(l):
            return None
        return (u, l)
    return (None, q) if is_ncname(q) else None


# ------------------------------------------------------------------ strict reading (mirror of Lean `eventsTree`)
class Reject(Exception):
    pass


def _atom_text(a):
    if isinstance(a, dict):
        raise Reject("qname value")
    if a is True:
        return "true"
    if a is False:
        return "false"
    if isinstance(a, int):
        return str(a)
    return a


def _val_text(v):
    """None (no value) or str; Reject when a namespace context is needed"""
    if v is None:
        return None
    if isinstance(v, list):
        if not v:
            return None
        return " ".join(_atom_text(x) for x in v)
    return _atom_text(v)


def _cfg_root_attrs(cfg):
    out = []
    if cfg.get("schema_location"):
        out.append([XSI, "schemaLocation", cfg["schema_location"]])
    if cfg.get("no_ns"):
        out.append([XSI, "noNamespaceSchemaLocation", cfg["no_ns"]])
    return out


def _set_attr(attrs, u, l, v):
    for a in attrs:
        if a[0] == u and a[1] == l:
            a[2] = v
            return
    attrs.append([u, l, v])


def _add_text(kids, s):
    if kids and kids[-1][0] == "t":
        kids[-1][1] += s
    else:
        kids.append(["t", s])


def events_tree_strict(events, cfg):
    """Recursive-descent reading of START ATTR* (DATA | element)* END.
    Returns the node or None when the list is outside the fragment."""
    n = len(events)

    def element(i, attrs):
        e = events[i]
        if not (len(e) == 2 and e[0] == "start" and isinstance(e[1], str)):
            raise Reject("start expected")
        q = e[1]
        name = clark(q)
        if name is None:
            raise Reject("name")
        i += 1
        while i < n and events[i][0] == "attr" and len(events[i]) == 3:
            an = clark(events[i][1])
            av = _val_text(events[i][2])
            if an is None or av is None or av.startswith("{"):
                raise Reject("attr")
            _set_attr(attrs, an[0], an[1], av)
            i += 1
        kids = []
        started = False
        after_data = False
        while True:
            if i >= n:
                raise Reject("unterminated")
            e = events[i]
            if e[0] == "data" and len(e) == 2:
                v = _val_text(e[1])
                if not started:
                    started = True
                    if v is not None:
                        attrs[:] = [a for a in attrs if (a[0], a[1]) != (XSI, "nil")]
                if v:
                    _add_text(kids, v)
                after_data = True
                i += 1
            elif e[0] == "start" and len(e) == 2:
                if not started:
                    started = True
                    attrs[:] = [a for a in attrs if (a[0], a[1]) != (XSI, "nil")]
                child, i = element(i, [])
                kids.append(child)
                after_data = False
            elif e[0] == "end" and len(e) == 2:
                if e[1] != q:
                    raise Reject("end mismatch")
                return ["e", name[0], name[1], attrs, kids], i + 1
            else:
                raise Reject("unexpected event")

    try:
        if not events:
            return None
        node, i = element(0, _cfg_root_attrs(cfg))
        if i != n:
            return None
        return node
    except Reject:
        return None


# ------------------------------------------------------------------ lxml comparison helpers
def lexical_trouble(args):
    """Inputs lxml is known to refuse with ValueError/TypeError although the
    handler produced a SAX sequence: invalid names, prefixes, characters, None values."""
    m = clean_user_map(args["ns_map"])
    for p, u in m.items():
        if p is not None and (not is_ncname(p) or p == "xmlns"):
            return True
        if (p == "xml") != (u == XMLNS) or u == XMLNS_NS:
            return True
        if not xml_chars(u):
            return True
    for e in args["events"]:
        if e[0] in ("start", "end", "attr") and len(e) >= 2 and isinstance(e[1], str):
            try:
                u, l = namespaces.split_qname.__wrapped__(e[1])
            except IndexError:
                return True
            if not is_ncname(l) or (u is not None and not xml_chars(u)):
                return True
        if e[0] in ("attr", "data"):
            v = e[-1]
            for x in v if isinstance(v, list) else [v]:
                s = x["q"] if isinstance(x, dict) else x
                if isinstance(s, str) and not xml_chars(s):
                    return True
            if e[0] == "attr" and (v is None or v == []):
                return True
    for k in ("schema_location", "no_ns"):
        if args["cfg"].get(k) and not xml_chars(args["cfg"][k]):
            return True
    return False


def lxml_refusal_expected(args, m, errname):
    return m["tree"] is None or lexical_trouble(args)


def lxml_expected_tree(tree, args):
    return tree
