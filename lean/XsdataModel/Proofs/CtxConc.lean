/- Helper lemmas for C19: invariants of the interleaved semantics. -/
import XsdataModel.Ctx.Conc
import XsdataModel.Proofs.CtxInv

namespace Xs.Ctx
open Py

/-! ### basic facts about single steps -/

theorem afterFill_isB (q : Str) (todo : List (Str × ClassId)) : (afterFill q todo).isB = false := by
  cases todo <;> rfl

theorem afterFill_isX (q : Str) (todo : List (Str × ClassId)) : (afterFill q todo).isX = true := by
  cases todo <;> rfl

/-- a thread outside `build` stays outside and leaves the cache alone -/
theorem stepT_notB (U : Universe) (w : World) (s : State) (st : TState) (h : st.isB = false) :
    (stepT U w s st).2.isB = false ∧ (stepT U w s st).1.cache = s.cache := by
  cases st with
  | bCheck _ _ => simp [TState.isB] at h
  | bWrite _ _ => simp [TState.isB] at h
  | bRead _ => simp [TState.isB] at h
  | xCheck q => simp only [stepT]; split <;> exact ⟨rfl, rfl⟩
  | xClear q => exact ⟨afterFill_isB _ _, rfl⟩
  | xFill q todo =>
    cases todo with
    | nil => exact ⟨rfl, rfl⟩
    | cons e rest => obtain ⟨k, c0⟩ := e; exact ⟨afterFill_isB _ _, rfl⟩
  | xStamp q => exact ⟨rfl, rfl⟩
  | xContains q => simp only [stepT]; split <;> exact ⟨rfl, rfl⟩
  | xGet q => simp only [stepT]; split <;> exact ⟨rfl, rfl⟩
  | done o => exact ⟨rfl, rfl⟩

/-- a thread outside the index code stays outside and leaves index and stamp alone -/
theorem stepT_notX (U : Universe) (w : World) (s : State) (st : TState) (h : st.isX = false) :
    (stepT U w s st).2.isX = false ∧ (stepT U w s st).1.xsi = s.xsi ∧
      (stepT U w s st).1.sysModules = s.sysModules := by
  cases st with
  | bCheck c p =>
    simp only [stepT]
    split
    · exact ⟨rfl, rfl, rfl⟩
    · split <;> exact ⟨rfl, rfl, rfl⟩
  | bWrite c m => exact ⟨rfl, rfl, rfl⟩
  | bRead c => simp only [stepT]; split <;> exact ⟨rfl, rfl, rfl⟩
  | xCheck _ => simp [TState.isX] at h
  | xClear _ => simp [TState.isX] at h
  | xFill _ _ => simp [TState.isX] at h
  | xStamp _ => simp [TState.isX] at h
  | xContains _ => simp [TState.isX] at h
  | xGet _ => simp [TState.isX] at h
  | done o => exact ⟨rfl, rfl, rfl⟩

/-- the cache never loses a key -/
theorem stepT_cache_mono (U : Universe) (w : World) (s : State) (st : TState) (c : ClassId)
    (h : (s.cache.lookup c).isSome = true) : ((stepT U w s st).1.cache.lookup c).isSome = true := by
  by_cases hb : st.isB = false
  · rw [(stepT_notB U w s st hb).2]; exact h
  · cases st with
    | bCheck c' p =>
      simp only [stepT]
      split
      · exact h
      · split <;> exact h
    | bWrite c' m =>
      simp only [stepT]
      by_cases hc : c = c'
      · subst hc; simp [lookup_dictSet_self]
      · rw [lookup_dictSet_ne _ _ _ _ hc]; exact h
    | bRead c' => simp only [stepT]; split <;> exact h
    | _ => simp [TState.isB] at hb

theorem cache_entry_eq_pure {U : Universe} {uses : List Use} {cache : List (ClassId × Meta)}
    (hI : ∀ c m, cache.lookup c = some m → ∃ p, (c, p) ∈ uses ∧ pureBuild U c p = .ok m)
    (hc : consistent U uses) {c : ClassId} {p : Option Str} (hu : (c, p) ∈ uses)
    {m : Meta} (hl : cache.lookup c = some m) : pureBuild U c p = .ok m := by
  obtain ⟨p0, hp0, hb⟩ := hI c m hl
  by_cases hs : nsSensitive U c = true
  · have := hc (c, p0) hp0 (c, p) hu rfl hs
    simp at this
    subst this
    exact hb
  · have hs' : nsSensitive U c = false := by simpa using hs
    rw [pureBuild_insensitive U c hs' p p0]
    exact hb

/-! ### the metadata cache under arbitrary interleavings -/

/-- what is known about a thread inside / after `build(c, p)` -/
def BuildOK (U : Universe) (s : State) (c : ClassId) (p : Option Str) : TState → Prop
  | .bCheck c' p' => c' = c ∧ p' = p
  | .bWrite c' m => c' = c ∧ pureBuild U c p = .ok m
  | .bRead c' => c' = c ∧ (s.cache.lookup c).isSome = true
  | .done o => o = outMeta (pureBuild U c p)
  | _ => False

def ThreadOK (U : Universe) (uses : List Use) (s : State) (th : Thread) : Prop :=
  match th.prog with
  | .build c p => (c, p) ∈ uses ∧ BuildOK U s c p th.st
  | .findTypes _ => th.st.isB = false

structure SysInv (U : Universe) (uses : List Use) (sys : Sys) : Prop where
  cache : ∀ c m, sys.shared.cache.lookup c = some m → ∃ p, (c, p) ∈ uses ∧ pureBuild U c p = .ok m
  threads : ∀ th ∈ sys.threads, ThreadOK U uses sys.shared th

theorem mem_progUses : ∀ (progs : List Prog) (c : ClassId) (p : Option Str),
    Prog.build c p ∈ progs → (c, p) ∈ progUses progs
  | [], _, _, h => by cases h
  | .build c' p' :: rest, c, p, h => by
    simp only [progUses]
    cases List.mem_cons.mp h with
    | inl h => cases h; exact List.mem_cons_self
    | inr h => exact List.mem_cons_of_mem _ (mem_progUses rest c p h)
  | .findTypes _ :: rest, c, p, h => by
    simp only [progUses]
    cases List.mem_cons.mp h with
    | inl h => cases h
    | inr h => exact mem_progUses rest c p h

theorem start_isB (q : Str) : (Prog.findTypes q).start.isB = false := by
  simp only [Prog.start]; split <;> rfl

theorem SysInv.start (U : Universe) (progs : List Prog) (s0 : State)
    (h0 : ∀ c m, s0.cache.lookup c = some m → ∃ p, (c, p) ∈ progUses progs ∧ pureBuild U c p = .ok m) :
    SysInv U (progUses progs) (Sys.start s0 progs) := by
  refine ⟨h0, ?_⟩
  intro th hth
  simp only [Sys.start, List.mem_map] at hth
  obtain ⟨pr, hpr, rfl⟩ := hth
  cases pr with
  | build c p => exact ⟨mem_progUses progs c p hpr, rfl, rfl⟩
  | findTypes q => exact start_isB q

theorem BuildOK.mono {U : Universe} {s s' : State} {c : ClassId} {p : Option Str} {st : TState}
    (h : BuildOK U s c p st)
    (hm : (s.cache.lookup c).isSome = true → (s'.cache.lookup c).isSome = true) :
    BuildOK U s' c p st := by
  cases st <;> simp only [BuildOK] at h ⊢ <;> try exact h
  exact ⟨h.1, hm h.2⟩

/-- the stepping thread: cache invariant and its own state -/
theorem stepT_build_inv {U : Universe} {uses : List Use} (hc : consistent U uses) (w : World)
    {s : State} (hI : ∀ c m, s.cache.lookup c = some m → ∃ p, (c, p) ∈ uses ∧ pureBuild U c p = .ok m)
    {c : ClassId} {p : Option Str} (hu : (c, p) ∈ uses) {st : TState} (hst : BuildOK U s c p st) :
    (∀ c2 m2, (stepT U w s st).1.cache.lookup c2 = some m2 →
        ∃ p2, (c2, p2) ∈ uses ∧ pureBuild U c2 p2 = .ok m2) ∧
      BuildOK U (stepT U w s st).1 c p (stepT U w s st).2 := by
  cases st with
  | bCheck c' p' =>
    obtain ⟨rfl, rfl⟩ := hst
    simp only [stepT]
    cases hl : s.cache.lookup c' with
    | some m => exact ⟨hI, rfl, by simp [hl]⟩
    | none =>
      cases hb : pureBuild U c' p' with
      | ok m => exact ⟨hI, rfl, hb⟩
      | error e =>
        refine ⟨hI, ?_⟩
        simp only [BuildOK, hb]
        rfl
  | bWrite c' m =>
    obtain ⟨rfl, hb⟩ := hst
    simp only [stepT]
    refine ⟨?_, rfl, by simp [lookup_dictSet_self]⟩
    intro c2 m2 hl2
    by_cases hcc : c2 = c'
    · subst hcc
      rw [lookup_dictSet_self] at hl2
      cases hl2
      exact ⟨p, hu, hb⟩
    · rw [lookup_dictSet_ne _ _ _ _ hcc] at hl2
      exact hI c2 m2 hl2
  | bRead c' =>
    obtain ⟨rfl, hsome⟩ := hst
    simp only [stepT]
    cases hl : s.cache.lookup c' with
    | none => simp [hl] at hsome
    | some m =>
      refine ⟨hI, ?_⟩
      simp only [BuildOK]
      rw [cache_entry_eq_pure hI hc hu hl]
      rfl
  | done o => exact ⟨hI, hst⟩
  | xCheck _ => cases hst
  | xClear _ => cases hst
  | xFill _ _ => cases hst
  | xStamp _ => cases hst
  | xContains _ => cases hst
  | xGet _ => cases hst

/-- **one atomic step of any thread preserves the invariant** -/
theorem sched_inv {U : Universe} {uses : List Use} (hc : consistent U uses) (w : World) {sys : Sys}
    (hI : SysInv U uses sys) (i : Nat) : SysInv U uses (sched U w sys i) := by
  unfold sched
  cases hth : sys.threads[i]? with
  | none => exact hI
  | some th =>
    have hmem : th ∈ sys.threads := List.mem_of_getElem? hth
    have hok := hI.threads th hmem
    have hmono := stepT_cache_mono U w sys.shared th.st
    have key : (∀ c m, (stepT U w sys.shared th.st).1.cache.lookup c = some m →
          ∃ p, (c, p) ∈ uses ∧ pureBuild U c p = .ok m) ∧
        ThreadOK U uses (stepT U w sys.shared th.st).1 ⟨th.prog, (stepT U w sys.shared th.st).2⟩ := by
      unfold ThreadOK at hok ⊢
      cases hp : th.prog with
      | findTypes q =>
        simp only [hp] at hok ⊢
        obtain ⟨h1, h2⟩ := stepT_notB U w sys.shared th.st hok
        exact ⟨by rw [h2]; exact hI.cache, h1⟩
      | build c p =>
        simp only [hp] at hok ⊢
        obtain ⟨h1, h2⟩ := stepT_build_inv hc w hI.cache hok.1 hok.2
        exact ⟨h1, hok.1, h2⟩
    refine ⟨key.1, ?_⟩
    intro th' hth'
    cases List.mem_or_eq_of_mem_set hth' with
    | inr h => rw [h]; exact key.2
    | inl h =>
      have hok' := hI.threads th' h
      unfold ThreadOK at hok' ⊢
      cases hp : th'.prog with
      | findTypes q => simpa [hp] using hok'
      | build c p =>
        simp only [hp] at hok' ⊢
        exact ⟨hok'.1, hok'.2.mono (hmono c)⟩

theorem runSched_inv {U : Universe} {uses : List Use} (hc : consistent U uses) (w : World) :
    ∀ (schedule : List Nat) (sys : Sys), SysInv U uses sys → SysInv U uses (runSched U w sys schedule)
  | [], _, h => h
  | i :: rest, sys, h => runSched_inv hc w rest _ (sched_inv hc w h i)

/-! ### the type index on a warm context -/

def FindOK (U : Universe) (w : World) (q : Str) : TState → Prop
  | .xCheck q' => q' = q ∧ isDataType q = false
  | .xContains q' => q' = q ∧ isDataType q = false
  | .xGet q' => q' = q ∧ isDataType q = false ∧ ((pureIndex U w.loaded).lookup q).isSome = true
  | .done o => o = .gotTypes (pureTypes U w q)
  | _ => False

def ThreadWarm (U : Universe) (w : World) (th : Thread) : Prop :=
  match th.prog with
  | .build _ _ => th.st.isX = false
  | .findTypes q => FindOK U w q th.st

structure WarmInv (U : Universe) (w : World) (sys : Sys) : Prop where
  stamp : sys.shared.sysModules = w.mods + 1
  xsi : sys.shared.xsi = pureIndex U w.loaded
  threads : ∀ th ∈ sys.threads, ThreadWarm U w th

theorem WarmInv.start (U : Universe) (w : World) (progs : List Prog) (s0 : State)
    (h1 : s0.sysModules = w.mods + 1) (h2 : s0.xsi = pureIndex U w.loaded) :
    WarmInv U w (Sys.start s0 progs) := by
  refine ⟨h1, h2, ?_⟩
  intro th hth
  simp only [Sys.start, List.mem_map] at hth
  obtain ⟨pr, _, rfl⟩ := hth
  cases pr with
  | build c p => rfl
  | findTypes q =>
    simp only [ThreadWarm, Prog.start]
    by_cases hd : isDataType q = true
    · simp only [hd, if_true, FindOK, pureTypes]
    · have hd' : isDataType q = false := by simpa using hd
      simp [hd', FindOK]

theorem sched_warm {U : Universe} (w : World) {sys : Sys} (hI : WarmInv U w sys) (i : Nat) :
    WarmInv U w (sched U w sys i) := by
  unfold sched
  cases hth : sys.threads[i]? with
  | none => exact hI
  | some th =>
    have hmem : th ∈ sys.threads := List.mem_of_getElem? hth
    have hok := hI.threads th hmem
    have key : (stepT U w sys.shared th.st).1.sysModules = w.mods + 1 ∧
        (stepT U w sys.shared th.st).1.xsi = pureIndex U w.loaded ∧
        ThreadWarm U w ⟨th.prog, (stepT U w sys.shared th.st).2⟩ := by
      unfold ThreadWarm at hok ⊢
      cases hp : th.prog with
      | build c p =>
        simp only [hp] at hok ⊢
        obtain ⟨h1, h2, h3⟩ := stepT_notX U w sys.shared th.st hok
        exact ⟨by rw [h3]; exact hI.stamp, by rw [h2]; exact hI.xsi, h1⟩
      | findTypes q =>
        simp only [hp] at hok ⊢
        cases hs : th.st with
        | xCheck q' =>
          rw [hs] at hok
          obtain ⟨rfl, hd⟩ := hok
          simp only [stepT]
          rw [if_pos hI.stamp.symm]
          exact ⟨hI.stamp, hI.xsi, rfl, hd⟩
        | xContains q' =>
          rw [hs] at hok
          obtain ⟨rfl, hd⟩ := hok
          simp only [stepT, hI.xsi]
          cases hl : (pureIndex U w.loaded).lookup q' with
          | some l => exact ⟨hI.stamp, hI.xsi, rfl, hd, by simp [hl]⟩
          | none =>
            refine ⟨hI.stamp, hI.xsi, ?_⟩
            simp [FindOK, pureTypes, hd, hl]
        | xGet q' =>
          rw [hs] at hok
          obtain ⟨rfl, hd, hsome⟩ := hok
          simp only [stepT, hI.xsi]
          cases hl : (pureIndex U w.loaded).lookup q' with
          | none => simp [hl] at hsome
          | some l =>
            refine ⟨hI.stamp, hI.xsi, ?_⟩
            simp [FindOK, pureTypes, hd, hl]
        | done o =>
          rw [hs] at hok
          exact ⟨hI.stamp, hI.xsi, hok⟩
        | bCheck _ _ => rw [hs] at hok; cases hok
        | bWrite _ _ => rw [hs] at hok; cases hok
        | bRead _ => rw [hs] at hok; cases hok
        | xClear _ => rw [hs] at hok; cases hok
        | xFill _ _ => rw [hs] at hok; cases hok
        | xStamp _ => rw [hs] at hok; cases hok
    refine ⟨key.1, key.2.1, ?_⟩
    intro th' hth'
    cases List.mem_or_eq_of_mem_set hth' with
    | inr h => rw [h]; exact key.2.2
    | inl h => exact hI.threads th' h

theorem runSched_warm {U : Universe} (w : World) :
    ∀ (schedule : List Nat) (sys : Sys), WarmInv U w sys → WarmInv U w (runSched U w sys schedule)
  | [], _, h => h
  | i :: rest, sys, h => runSched_warm w rest _ (sched_warm w h i)

end Xs.Ctx
