"""C04 helpers: tagged JSON values, context export with the generic classes, adapters
around the real DictEncoder / DictDecoder / JsonSerializer / JsonParser, generators
of documents and single-point faults on dictionaries."""
from __future__ import annotations

import copy
import json
import warnings
from dataclasses import fields
from typing import List

import bindgen as G
import bindlib as B
from xsdata.formats.dataclass.context import XmlContext
from xsdata.formats.dataclass.models.generics import AnyElement, DerivedElement
from xsdata.formats.dataclass.parsers import DictDecoder, JsonParser
from xsdata.formats.dataclass.parsers.config import ParserConfig
from xsdata.formats.dataclass.serializers import DictEncoder, JsonSerializer
from xsdata.formats.dataclass.serializers.config import SerializerConfig
from xsdata.formats.dataclass.serializers.dict import DictFactory

FEATURES = {
    "attr", "elem", "text", "child", "list", "nillable", "tokens", "wildcard", "attributes", "wrapper",
    "sequence", "inherit", "ns", "mixed", "fixed", "compound", "qname",
}
# the fragment of the round-trip theorem: typed fields only, no wildcard / compound / attributes map
PLAIN = {"attr", "elem", "text", "child", "list", "nillable", "tokens", "wrapper", "sequence", "ns", "fixed"}
FACTORIES = {"dict": dict, "filter_none": DictFactory.FILTER_NONE}


class NonNative(Exception):
    pass


# ------------------------------------------------------------------ tagged JSON
def to_j(x):
    """Python value -> tagged J; anything a JSON library would not dump natively is an error
    (exact types: a str/int subclass or a non-str key is not native either)"""
    t = type(x)
    if x is None or t is bool or t is int or t is str:
        return x
    if t is list or t is tuple:
        return {"a": [to_j(y) for y in x]}
    if t is dict:
        for k in x:
            if type(k) is not str:
                raise NonNative(f"key {k!r}")
        return {"o": [[k, to_j(v)] for k, v in x.items()]}
    raise NonNative(f"{t.__name__}: {x!r}")


def from_j(j):
    if isinstance(j, dict):
        if "a" in j:
            return [from_j(y) for y in j["a"]]
        return {k: from_j(v) for k, v in j["o"]}
    return j


# ------------------------------------------------------------------ context export
_GENERIC_CACHE = {}


def generic_classes(u: B.Universe):
    if "g" in _GENERIC_CACHE:
        return _GENERIC_CACHE["g"]
    out = []
    for cls in (AnyElement, DerivedElement):
        ctx = XmlContext()
        out.append(
            {
                "id": cls.__name__,
                "metas": [[None, u.export_meta(ctx.build(cls))]],
                "mro": [cls.__name__],
                "bases": [],
                "fields": [u.export_field(f) for f in fields(cls)],
            }
        )
    _GENERIC_CACHE["g"] = out
    return out


def export_ctx(u: B.Universe, ctx=None):
    ctx = copy.copy(ctx or u.export_ctx())
    ctx["classes"] = list(ctx["classes"]) + generic_classes(u)
    return ctx


def new_universe(rng, features=None):
    from bindcases import new_universe as nu

    u, desc, ctx = nu(rng, features or FEATURES)
    return u, desc, export_ctx(u, ctx)


# ------------------------------------------------------------------ real adapters
def target_type(u, target):
    if target is None:
        return None
    if "cls" in target:
        return u.classes[target["cls"]]
    return List[u.classes[target["list"]]]


def real_encode(u: B.Universe, value, factory="dict", ignore_default_attributes=False, route="dict"):
    """-> python dict/list (route dict) or the JSON text re-loaded (route json)"""
    obj = u.from_val(value)
    cfg = SerializerConfig(ignore_default_attributes=ignore_default_attributes)
    ctx = XmlContext(models_package=u.modname)
    if route == "json":
        text = JsonSerializer(config=cfg, context=ctx, dict_factory=FACTORIES[factory]).render(obj)
        return json.loads(text)
    return DictEncoder(config=cfg, context=ctx, dict_factory=FACTORIES[factory]).encode(obj)


def real_decode(u: B.Universe, data, target, config=None, route="dict"):
    cfg = ParserConfig(**(config or {}))
    ctx = XmlContext(models_package=u.modname)
    clazz = target_type(u, target)
    with warnings.catch_warnings():
        warnings.simplefilter("ignore")
        if route == "json":
            return JsonParser(config=cfg, context=ctx).from_string(json.dumps(data), clazz)
        return DictDecoder(config=cfg, context=ctx).decode(data, clazz)


def result_val(u, r):
    if isinstance(r, list):
        return {"list": [u.to_val(x) for x in r]}
    return u.to_val(r)


# ------------------------------------------------------------------ faults on dictionaries
def paths(d, path=()):
    """paths to every value inside dict/list structures"""
    yield path, d
    if isinstance(d, dict):
        for k, v in d.items():
            yield from paths(v, path + (k,))
    elif isinstance(d, list):
        for i, v in enumerate(d):
            yield from paths(v, path + (i,))


def at(d, path):
    for p in path:
        d = d[p]
    return d


SCALARS = [None, "zzz", "", "12x", "1", "true", 5, 0, True, False, " 7 "]


def mutate(rng, data):
    """single-point fault: unknown keys, wrong shapes, wrong scalars"""
    d = copy.deepcopy(data)
    ps = list(paths(d))
    dict_paths = [p for p, v in ps if isinstance(v, dict)]
    inner = [p for p, v in ps if p]
    kind = rng.choice(
        ["unknown_key", "unknown_key", "drop_key", "rename_key", "to_scalar", "to_list", "unlist", "to_dict", "scalar_swap",
         "empty_dict", "dup_into_list", "null", "derived_keys", "any_keys", "wrap_local"]
    )
    try:
        if kind == "unknown_key" and dict_paths:
            t = at(d, rng.choice(dict_paths))
            t[rng.choice(["zzz", "unknown", "qname", "value", "a b"])] = rng.choice(SCALARS + [[], {}, [1], {"k": "v"}])
        elif kind == "drop_key" and dict_paths:
            t = at(d, rng.choice(dict_paths))
            if t:
                del t[rng.choice(list(t))]
        elif kind == "rename_key" and dict_paths:
            t = at(d, rng.choice(dict_paths))
            if t:
                k = rng.choice(list(t))
                v = t.pop(k)
                t[rng.choice([k + "x", k.upper(), "wrap" + k, k[:-1] or "q"])] = v
        elif kind in ("to_scalar", "scalar_swap", "null") and inner:
            p = rng.choice(inner)
            cur = at(d, p)
            if kind == "scalar_swap" and isinstance(cur, (dict, list)):
                return kind, d
            at(d, p[:-1])[p[-1]] = None if kind == "null" else rng.choice(SCALARS)
        elif kind == "to_list" and inner:
            p = rng.choice(inner)
            at(d, p[:-1])[p[-1]] = [at(d, p)] if rng.random() < 0.7 else []
        elif kind == "unlist" and inner:
            cands = [p for p in inner if isinstance(at(d, p), list)]
            if cands:
                p = rng.choice(cands)
                v = at(d, p)
                at(d, p[:-1])[p[-1]] = v[0] if v else None
        elif kind == "to_dict" and inner:
            p = rng.choice(inner)
            at(d, p[:-1])[p[-1]] = rng.choice([{}, {"k": "v"}, {"value": at(d, p)}])
        elif kind == "empty_dict" and dict_paths:
            p = rng.choice(dict_paths)
            if p:
                at(d, p[:-1])[p[-1]] = {}
        elif kind == "dup_into_list" and inner:
            cands = [p for p in inner if isinstance(at(d, p), list) and at(d, p)]
            if cands:
                v = at(d, rng.choice(cands))
                v.append(copy.deepcopy(rng.choice(v)))
        elif kind == "derived_keys" and inner:
            p = rng.choice(inner)
            at(d, p[:-1])[p[-1]] = {"qname": rng.choice(["a", "{urn:a}b"]), "type": rng.choice([None, "Leaf0", "{urn:a}Leaf0", "nope", ""]),
                                    "value": at(d, p)}
        elif kind == "any_keys" and inner:
            p = rng.choice(inner)
            at(d, p[:-1])[p[-1]] = {"qname": "w", "text": rng.choice([None, "t"]), "tail": None, "children": [], "attributes": {}}
        elif kind == "wrap_local" and dict_paths:
            t = at(d, rng.choice(dict_paths))
            ks = [k for k in t if isinstance(t[k], dict) and len(t[k]) == 1]
            if ks:
                k = rng.choice(ks)
                (lk, lv), = t.pop(k).items()
                t[lk] = lv
    except (KeyError, IndexError, TypeError):
        pass
    return kind, d


# ------------------------------------------------------------------ regions of the known findings
def _subclasses(u, name):
    out = []
    for c in u.desc["classes"]:
        if name in c.get("bases", []):
            out.append(c["name"])
            out += _subclasses(u, c["name"])
    return out


def _keys_and_names(u, cname):
    """[(key under which the encoder emits the field, local name, field name)] from the field metadata"""
    out = []
    for f in G.all_fields(u, cname):
        md = f.get("metadata", {})
        local = md.get("name") or f["name"]
        out.append((md.get("wrapper") or local, local, f["name"]))
    return out


def regions(u: B.Universe, value, factory="dict"):
    """ids of the known findings whose region the (universe, value, factory) falls in;
    computed from the class descriptions and the value only"""
    found = set()

    def walk_obj(v, declared=None, compound=False):
        cname = v["obj"]
        vals = dict((k, x) for k, x in v["fields"])
        kn = _keys_and_names(u, cname)
        if declared is not None:
            # the decoder goes through bind_best_dataclass for a compound choice and for a
            # declared class with loaded subclasses
            pool = _subclasses(u, declared)
            if pool or compound:
                pool = ([] if compound else pool) + [declared]
                keys = [k for k, _, fn in kn if not (factory == "filter_none" and vals.get(fn) is None)]
                for other in pool:
                    # local_names_match: the local names and the wrapper names of the other class
                    names = {n for k, ln, _ in _keys_and_names(u, other) for n in (k, ln)}
                    if other != cname and set(keys) <= names:
                        found.add("C04-subclass-ambiguity")
        for f in G.all_fields(u, cname):
            x = vals.get(f["name"])
            md = f.get("metadata", {})
            items = x["list"] if isinstance(x, dict) and "list" in x else [x]
            bt = G._base(f["type"])
            for it in items:
                if not isinstance(it, dict):
                    continue
                if "any" in it:
                    continue
                elif "derived" in it:
                    inner = it["derived"]["value"]
                    if isinstance(inner, dict) and "obj" in inner:
                        if not it["derived"]["type"]:
                            # a model instance wrapped without xsi:type: no type tag
                            found.add("C04-derived-without-type")
                        walk_obj(inner, None)
                elif "obj" in it and md.get("type") == "Wildcard":
                    # a plain model instance under a wildcard: no type tag
                    found.add("C04-derived-without-type")
                elif "obj" in it:
                    if md.get("type") == "Elements":
                        walk_obj(it, it["obj"], compound=True)
                    else:
                        walk_obj(it, bt["cls"] if isinstance(bt, dict) and "cls" in bt else None)

    for top in (value["list"] if isinstance(value, dict) and "list" in value else [value]):
        if isinstance(top, dict) and "obj" in top:
            walk_obj(top)
    return found
