"""Forced schedules on the real XmlContext without touching /repo.

The context's shared containers are replaced by instrumented dict /
defaultdict subclasses and `sys_modules` by a property on a harness-side
subclass; every access parks the calling thread until the scheduler releases
it.  One release = one shared operation = one atomic step of the Lean model
(Ctx/Conc.lean).
"""
from __future__ import annotations

import threading
from collections import defaultdict

from xsdata.formats.dataclass.context import XmlContext


class Scheduler:
    def __init__(self):
        self.local = threading.local()
        self.lock = threading.Condition()
        self.state: dict[int, str] = {}  # tid -> "running" | "parked:<hook>" | "done"
        self.go: dict[int, threading.Event] = {}
        self.trace: list[tuple[int, str]] = []

    # called from instrumented containers
    def hook(self, name: str):
        tid = getattr(self.local, "tid", None)
        if tid is None:
            return  # unmanaged thread (set-up code): pass through
        ev = self.go[tid]
        with self.lock:
            self.state[tid] = "parked:" + name
            self.lock.notify_all()
        ev.wait()
        ev.clear()
        with self.lock:
            self.state[tid] = "running"
            self.trace.append((tid, name))

    def _body(self, tid, fn, results):
        self.local.tid = tid
        try:
            results[tid] = ("ok", fn())
        except BaseException as e:  # noqa: BLE001
            results[tid] = ("err", e)
        finally:
            with self.lock:
                self.state[tid] = "done"
                self.lock.notify_all()

    def _wait_settled(self, tid, timeout=20.0):
        with self.lock:
            ok = self.lock.wait_for(lambda: self.state[tid] != "running", timeout)
        if not ok:
            raise RuntimeError(f"thread {tid} neither parked nor finished (deadlock?)")

    def run(self, fns, schedule):
        """Run fns[i] in thread i under the forced schedule; afterwards let the
        threads finish one after the other. Returns [(kind, value)] per thread."""
        results: dict[int, tuple] = {}
        threads = []
        for tid, fn in enumerate(fns):
            self.state[tid] = "running"
            self.go[tid] = threading.Event()
            t = threading.Thread(target=self._body, args=(tid, fn, results), daemon=True)
            threads.append(t)
        for tid, t in enumerate(threads):
            t.start()
            self._wait_settled(tid)  # runs up to its first shared operation
        for tid in schedule:
            if tid >= len(fns) or self.state[tid] == "done":
                continue
            self.state[tid] = "running"
            self.go[tid].set()
            self._wait_settled(tid)
        for tid in range(len(fns)):
            while self.state[tid] != "done":
                self.state[tid] = "running"
                self.go[tid].set()
                self._wait_settled(tid)
        for t in threads:
            t.join(5)
        return [results[i] for i in range(len(fns))]


class HookDict(dict):
    """XmlContext.cache"""

    sched: Scheduler

    def __contains__(self, k):
        self.sched.hook("cache.contains")
        return dict.__contains__(self, k)

    def __getitem__(self, k):
        self.sched.hook("cache.getitem")
        return dict.__getitem__(self, k)

    def __setitem__(self, k, v):
        self.sched.hook("cache.setitem")
        dict.__setitem__(self, k, v)


class HookDefaultDict(defaultdict):
    """XmlContext.xsi_cache"""

    sched: Scheduler

    def __contains__(self, k):
        self.sched.hook("xsi.contains")
        return defaultdict.__contains__(self, k)

    def __getitem__(self, k):
        self.sched.hook("xsi.getitem")
        return defaultdict.__getitem__(self, k)

    def clear(self):
        self.sched.hook("xsi.clear")
        defaultdict.clear(self)


def hooked_context(sched: Scheduler, models_package=None, warm=False) -> XmlContext:
    """A real XmlContext whose shared state is observable by the scheduler."""
    slot = XmlContext.__dict__["sys_modules"]  # the slot descriptor

    class HookedContext(XmlContext):
        __slots__ = ()

        def _get(self):
            sched.hook("mods.read")
            return slot.__get__(self, XmlContext)

        def _set(self, v):
            sched.hook("mods.write")
            slot.__set__(self, v)

        sys_modules = property(_get, _set)

    ctx = HookedContext(models_package=models_package)
    if warm:
        ctx.build_xsi_cache()
    cache = HookDict(ctx.cache)
    cache.sched = sched
    xsi = HookDefaultDict(list, ctx.xsi_cache)
    xsi.sched = sched
    ctx.cache = cache
    ctx.xsi_cache = xsi
    return ctx
