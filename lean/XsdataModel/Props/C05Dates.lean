/- C05 — property theorems, part 4: `date` / `time` / `datetime` with a `format`
(`DateTimeBase`, `DateConverter`, `TimeConverter`, `DateTimeConverter`). -/
import XsdataModel.Props.C05
import XsdataModel.Proofs.StrptimeL
import XsdataModel.Proofs.DatesFormatParse

namespace Props.C05
open Py Xs.Conv Xs.Spec Xs.Dates

def fmtDate : Str := ['%', 'Y', '-', '%', 'm', '-', '%', 'd']
def fmtTime : Str := ['%', 'H', ':', '%', 'M', ':', '%', 'S']
def fmtDateTime : Str := fmtDate ++ 'T' :: fmtTime

/-- **Full strength** (for the format `%Y-%m-%d`): every `datetime.date` is written by
`DateConverter.serialize` in a form that `deserialize` reads back with the same format. -/
def DateFormatRoundTrip : Prop :=
  ∀ (e : CEnv) (y m d : Nat), 1 ≤ y → y ≤ 9999 → validateDate y m d = true →
    ∃ s, atomSerialize (.pyDate y m d) { format := some fmtDate } = .ok (s, none) ∧
      atomDeserialize e .pyDate s { format := some fmtDate } = some (.pyDate y m d)

/-- **The code violates it** before year 1000: glibc's `%Y` does not zero-pad, `strptime`'s
`%Y` wants four digits (`date(999, 1, 2)` → `'999-01-02'` → ConverterError) -/
theorem date_format_year_counterexample : ¬ DateFormatRoundTrip := by
  intro h
  obtain ⟨s, h1, h2⟩ := h asciiCEnv 999 1 2 (by decide) (by decide) (by decide)
  have hs : atomSerialize (.pyDate ((999 : Nat) : Int) ((1 : Nat) : Int) ((2 : Nat) : Int)) { format := some fmtDate }
      = .ok (['9', '9', '9', '-', '0', '1', '-', '0', '2'], none) := rfl
  rw [hs] at h1
  injection h1 with h1
  injection h1 with h1 _
  subst h1
  revert h2
  decide

/-- **Provable part**: years 1000–9999 (the dates `strftime` writes with four digits) -/
theorem date_format_rt_partial (e : CEnv) (y m d : Nat) (hy1 : 1000 ≤ y) (hy2 : y ≤ 9999)
    (hv : validateDate y m d = true) :
    atomSerialize (.pyDate y m d) { format := some fmtDate } =
      .ok (natStr y ++ '-' :: (two m ++ '-' :: two d), none) ∧
    atomDeserialize e .pyDate (natStr y ++ '-' :: (two m ++ '-' :: two d)) { format := some fmtDate } =
      some (.pyDate y m d) := by
  -- bounds on month and day from the calendar check
  have hb : 1 ≤ m ∧ m ≤ 12 ∧ 1 ≤ d ∧ d ≤ 31 := by
    obtain ⟨b1, b2, b3, _⟩ := Proofs.DatesFormatParse.validateDate_bounds _ _ _ hv
    refine ⟨by omega, by omega, by omega, ?_⟩
    unfold validateDate at hv
    have hmm : ((m : Int).toNat) = m := by omega
    simp only [hmm] at hv
    have hcases : m = 1 ∨ m = 2 ∨ m = 3 ∨ m = 4 ∨ m = 5 ∨ m = 6 ∨ m = 7 ∨ m = 8 ∨ m = 9 ∨ m = 10 ∨ m = 11 ∨
        m = 12 := by omega
    rcases hcases with h | h | h | h | h | h | h | h | h | h | h | h <;> subst h <;>
      simp [monthlen, Tables.mdays] at hv <;> (try split at hv) <;> omega
  obtain ⟨hm1, hm2, hd1, hd2⟩ := hb
  obtain ⟨hdash, _, _⟩ := dash_colon_T_not_space e.toEnv
  constructor
  · have hm : zpadInt (m : Int) 2 = two m := zpadInt_two m (by omega)
    have hd : zpadInt (d : Int) 2 = two d := zpadInt_two d (by omega)
    have hyy : intStr (y : Int) = natStr y := by
      unfold intStr; simp
    simp [atomSerialize, dtSerialize, fmtDate, strftime, hm, hd, hyy]
  · have hc : compileFmt e.toEnv fmtDate false =
        .ok [.dir 'Y', .lit '-', .dir 'm', .lit '-', .dir 'd'] := by
      simp [fmtDate, compileFmt, numDirectives, hdash, Except.map]
    have hfirst : firstMatch e.toEnv [.dir 'Y', .lit '-', .dir 'm', .lit '-', .dir 'd']
        (natStr y ++ '-' :: (two m ++ '-' :: two d)) {} =
        some (((({} : TmF).set e.toEnv 'Y' (natStr y)).set e.toEnv 'm' (two m)).set e.toEnv 'd' (two d), []) := by
      apply firstMatch_year e.toEnv (natStr y) (natStr_len4 y hy1 (by omega)) (natStr_spec y).1
      rw [firstMatch_lit]
      apply firstMatch_two e.toEnv 'm' (by decide) m (by omega) (by simp [twoOk]; omega)
      rw [firstMatch_lit]
      have := firstMatch_two e.toEnv 'd' (by decide) d (by omega) (by simp [twoOk]; omega) [] []
        ((({} : TmF).set e.toEnv 'Y' (natStr y)).set e.toEnv 'm' (two m)) _ (firstMatch_nil _ _ _)
      simpa using this
    have hstr := strptime_of_first e.toEnv _ fmtDate _ _ hc (by decide) hfirst
    simp only [TmF.set, pyIntC_natStr, pyIntC_two e.toEnv m (by omega), pyIntC_two e.toEnv d (by omega)] at hstr
    simp only [atomDeserialize, dtParse, hstr]
    have hy0 : ¬ ((y : Int) < 1) := by omega
    simp [hy0, hv]

example : validateDate (2024 : Nat) (2 : Nat) (29 : Nat) = true := by decide

/-- **`datetime.time` with `%H:%M:%S`** (full strength for whole seconds): every time of day is
written zero padded and read back as the same value -/
theorem time_format_rt (e : CEnv) (h mi sec : Nat) (hh : h ≤ 23) (hmi : mi ≤ 59) (hs : sec ≤ 59) :
    atomSerialize (.pyTime h mi sec 0) { format := some fmtTime } =
      .ok (two h ++ ':' :: (two mi ++ ':' :: two sec), none) ∧
    atomDeserialize e .pyTime (two h ++ ':' :: (two mi ++ ':' :: two sec)) { format := some fmtTime } =
      some (.pyTime h mi sec 0) := by
  obtain ⟨_, hcolon, _⟩ := dash_colon_T_not_space e.toEnv
  constructor
  · simp [atomSerialize, dtSerialize, fmtTime, strftime, zpadInt_two h (by omega), zpadInt_two mi (by omega),
      zpadInt_two sec (by omega)]
  · have hc : compileFmt e.toEnv fmtTime false =
        .ok [.dir 'H', .lit ':', .dir 'M', .lit ':', .dir 'S'] := by
      simp [fmtTime, compileFmt, numDirectives, hcolon, Except.map]
    have hfirst : firstMatch e.toEnv [.dir 'H', .lit ':', .dir 'M', .lit ':', .dir 'S']
        (two h ++ ':' :: (two mi ++ ':' :: two sec)) {} =
        some (((({} : TmF).set e.toEnv 'H' (two h)).set e.toEnv 'M' (two mi)).set e.toEnv 'S' (two sec), []) := by
      apply firstMatch_two e.toEnv 'H' (by decide) h (by omega) (by simp [twoOk]; omega)
      rw [firstMatch_lit]
      apply firstMatch_two e.toEnv 'M' (by decide) mi (by omega) (by simp [twoOk]; omega)
      rw [firstMatch_lit]
      have := firstMatch_two e.toEnv 'S' (by decide) sec (by omega) (by simp [twoOk]; omega) [] []
        ((({} : TmF).set e.toEnv 'H' (two h)).set e.toEnv 'M' (two mi)) _ (firstMatch_nil _ _ _)
      simpa using this
    have hstr := strptime_of_first e.toEnv _ fmtTime _ _ hc (by decide) hfirst
    simp only [TmF.set, pyIntC_two e.toEnv h (by omega), pyIntC_two e.toEnv mi (by omega),
      pyIntC_two e.toEnv sec (by omega)] at hstr
    simp only [atomDeserialize, dtParse, hstr]
    have hs0 : ¬ ((sec : Int) > 59) := by omega
    have hvd : validateDate 1900 1 1 = true := by decide
    simp [hs0, hvd]

example : (23 : Nat) ≤ 23 ∧ (59 : Nat) ≤ 59 := by decide

/-- **`datetime.datetime` with `%Y-%m-%dT%H:%M:%S`**, years 1000–9999, whole seconds
(before year 1000 the same defect as for `date`: `date_format_year_counterexample`) -/
theorem datetime_format_rt_partial (e : CEnv) (y m d h mi sec : Nat) (hy1 : 1000 ≤ y) (hy2 : y ≤ 9999)
    (hv : validateDate y m d = true) (hh : h ≤ 23) (hmi : mi ≤ 59) (hs : sec ≤ 59) :
    atomSerialize (.pyDateTime ⟨y, m, d, h, mi, sec, 0⟩) { format := some fmtDateTime } =
      .ok (natStr y ++ '-' :: (two m ++ '-' :: (two d ++ 'T' :: (two h ++ ':' :: (two mi ++ ':' :: two sec)))), none) ∧
    atomDeserialize e .pyDateTime
        (natStr y ++ '-' :: (two m ++ '-' :: (two d ++ 'T' :: (two h ++ ':' :: (two mi ++ ':' :: two sec)))))
        { format := some fmtDateTime } = some (.pyDateTime ⟨y, m, d, h, mi, sec, 0⟩) := by
  have hb : 1 ≤ m ∧ m ≤ 12 ∧ 1 ≤ d ∧ d ≤ 31 := by
    obtain ⟨b1, b2, b3, _⟩ := Proofs.DatesFormatParse.validateDate_bounds _ _ _ hv
    refine ⟨by omega, by omega, by omega, ?_⟩
    have hv' := hv
    unfold validateDate at hv'
    have hmm : ((m : Int).toNat) = m := by omega
    simp only [hmm] at hv'
    have hcases : m = 1 ∨ m = 2 ∨ m = 3 ∨ m = 4 ∨ m = 5 ∨ m = 6 ∨ m = 7 ∨ m = 8 ∨ m = 9 ∨ m = 10 ∨ m = 11 ∨
        m = 12 := by omega
    rcases hcases with h | h | h | h | h | h | h | h | h | h | h | h <;> subst h <;>
      simp [monthlen, Tables.mdays] at hv' <;> (try split at hv') <;> omega
  obtain ⟨hm1, hm2, hd1, hd2⟩ := hb
  obtain ⟨hdash, hcolon, hT⟩ := dash_colon_T_not_space e.toEnv
  constructor
  · have hyy : intStr (y : Int) = natStr y := by unfold intStr; simp
    simp [atomSerialize, dtSerialize, fmtDateTime, fmtDate, fmtTime, strftime, hyy, zpadInt_two m (by omega),
      zpadInt_two d (by omega), zpadInt_two h (by omega), zpadInt_two mi (by omega), zpadInt_two sec (by omega)]
  · have hc : compileFmt e.toEnv fmtDateTime false =
        .ok [.dir 'Y', .lit '-', .dir 'm', .lit '-', .dir 'd', .lit 'T', .dir 'H', .lit ':', .dir 'M', .lit ':',
          .dir 'S'] := by
      simp [fmtDateTime, fmtDate, fmtTime, compileFmt, numDirectives, hdash, hcolon, hT, Except.map]
    have hfirst : firstMatch e.toEnv [.dir 'Y', .lit '-', .dir 'm', .lit '-', .dir 'd', .lit 'T', .dir 'H', .lit ':',
          .dir 'M', .lit ':', .dir 'S']
        (natStr y ++ '-' :: (two m ++ '-' :: (two d ++ 'T' :: (two h ++ ':' :: (two mi ++ ':' :: two sec))))) {} =
        some ((((((({} : TmF).set e.toEnv 'Y' (natStr y)).set e.toEnv 'm' (two m)).set e.toEnv 'd' (two d)).set
          e.toEnv 'H' (two h)).set e.toEnv 'M' (two mi)).set e.toEnv 'S' (two sec), []) := by
      apply firstMatch_year e.toEnv (natStr y) (natStr_len4 y hy1 (by omega)) (natStr_spec y).1
      rw [firstMatch_lit]
      apply firstMatch_two e.toEnv 'm' (by decide) m (by omega) (by simp [twoOk]; omega)
      rw [firstMatch_lit]
      apply firstMatch_two e.toEnv 'd' (by decide) d (by omega) (by simp [twoOk]; omega)
      rw [firstMatch_lit]
      apply firstMatch_two e.toEnv 'H' (by decide) h (by omega) (by simp [twoOk]; omega)
      rw [firstMatch_lit]
      apply firstMatch_two e.toEnv 'M' (by decide) mi (by omega) (by simp [twoOk]; omega)
      rw [firstMatch_lit]
      have := firstMatch_two e.toEnv 'S' (by decide) sec (by omega) (by simp [twoOk]; omega) [] []
        (((((({} : TmF).set e.toEnv 'Y' (natStr y)).set e.toEnv 'm' (two m)).set e.toEnv 'd' (two d)).set
          e.toEnv 'H' (two h)).set e.toEnv 'M' (two mi)) _ (firstMatch_nil _ _ _)
      simpa using this
    have hstr := strptime_of_first e.toEnv _ fmtDateTime _ _ hc (by decide) hfirst
    simp only [TmF.set, pyIntC_natStr, pyIntC_two e.toEnv m (by omega), pyIntC_two e.toEnv d (by omega),
      pyIntC_two e.toEnv h (by omega), pyIntC_two e.toEnv mi (by omega), pyIntC_two e.toEnv sec (by omega)] at hstr
    simp only [atomDeserialize, dtParse, hstr]
    have hy0 : ¬ ((y : Int) < 1) := by omega
    have hs0 : ¬ ((sec : Int) > 59) := by omega
    simp [hy0, hs0, hv]

/-- a missing `format` is a `ConverterError` in both directions, for all three types -/
theorem datetime_needs_format (e : CEnv) (s : Str) (v : PyDT) :
    atomDeserialize e .pyDate s {} = none ∧ atomDeserialize e .pyTime s {} = none ∧
    atomDeserialize e .pyDateTime s {} = none ∧
    atomSerialize (.pyDateTime v) {} = .error .converterError := ⟨rfl, rfl, rfl, rfl⟩

end Props.C05
