"""C03 — serialized XML is well-formed and says exactly what the metadata says.

Correspondence: the Lean model of namespaces.py + EventHandler/XmlWriter +
xml.sax.saxutils.XMLGenerator is compared with the real code *below the object
level*: an XmlSerializer whose `generate` is replaced by a synthetic event list
drives the real `clean_prefixes`, the real writer classes and the real stdlib
generator.  The text written by the native writer must be identical to the
model's rendering; the infoset an independent parser (expat, cross-checked by
lxml) reads from it must be the one the Lean spec `infoset` computes from the
model's tokens; the SAX calls of a recording EventHandler must be the model's;
the lxml writer's output must denote the tree of those SAX calls.

Oracles: the property itself, on the real code only (c03_oracle.py).
"""
import io
import itertools
import json

from framework import Corr, Oracle, err, ok

from props import c03_support as S
from props.c03_support import (
    XSI,
    XS,
    XMLNS,
    clean_user_map,
    decode_events,
    parse_infoset,
    run_lxml,
    run_native,
    run_recording,
)

PROP_ID = "C03"
DESIGN_REF = "6/C03"

# ----------------------------------------------------------------- impl side


def impl_native(a):
    try:
        text = run_native(a["events"], a["ns_map"], a["cfg"])
    except Exception as e:  # noqa: BLE001
        return err(type(e).__name__)
    return ok({"text": text, "infoset": parse_infoset(text)})


def impl_sax(a):
    calls, e = run_recording(a["events"], a["ns_map"], a["cfg"])
    return ok({"calls": calls, "err": e})


def impl_lxml(a):
    try:
        text = run_lxml(a["events"], a["ns_map"], a["cfg"])
    except Exception as e:  # noqa: BLE001
        return err(type(e).__name__)
    return ok({"tree": parse_infoset(text)})


def impl_events_tree(a):
    return ok(S.events_tree_strict(a["events"], a["cfg"]))


def impl_clean(a):
    from xsdata.utils import namespaces

    d = S.user_dict(a["ns_map"])
    m = namespaces.clean_prefixes(d) if d else {}
    return ok([[k, v] for k, v in m.items()])


def impl_split(a):
    from xsdata.utils import namespaces

    try:
        return ok(list(namespaces.split_qname.__wrapped__(a["q"])))
    except IndexError:
        return err("IndexError")


def impl_load_prefix(a):
    from xsdata.utils import namespaces

    d = S.user_dict(a["ns_map"])
    p = namespaces.load_prefix(a["uri"], d)
    return ok([p, [[k, v] for k, v in d.items()]])


def impl_generate_prefix(a):
    from xsdata.utils import namespaces

    d = S.user_dict(a["ns_map"])
    p = namespaces.generate_prefix(a["uri"], d)
    return ok([p, [[k, v] for k, v in d.items()]])


def impl_escape(a):
    from xml.sax.saxutils import escape, quoteattr

    return ok([escape(a["s"]), quoteattr(a["s"])])


def impl_ncname(a):
    return ok(S.lxml_is_ncname(a["s"]))


# ----------------------------------------------------------------- compare rules


def sort_attrs(node):
    if node is None or node[0] == "t":
        return node
    return ["e", node[1], node[2], sorted(node[3], key=lambda x: (x[0] or "", x[1])), [sort_attrs(k) for k in node[4]]]


def canon_native(o):
    if isinstance(o, dict) and "ok" in o and isinstance(o["ok"], dict):
        return {"ok": {"text": o["ok"]["text"], "infoset": sort_attrs(o["ok"]["infoset"])}}
    return o


def compare_lxml(model, impl, args):
    """model: {"ok": {"tree", "err"}} from the SAX calls of the handler model.
    impl: {"ok": {"tree"}} or {"err": name} from the real lxml writer."""
    m = model["ok"]
    if "err" in impl:
        if m["err"] is not None:
            return impl["err"] == m["err"] or impl["err"] in ("ValueError", "TypeError", "IndexError", "SaxError")
        # the handler model ran through: lxml itself refused the calls
        return S.lxml_refusal_expected(args, m, impl["err"])
    if m["err"] is not None:
        return False
    if m["tree"] is None:
        # lxml builds a tree from unterminated / oddly nested call sequences
        return True
    if sort_attrs(impl["ok"]["tree"]) == sort_attrs(S.lxml_expected_tree(m["tree"], args)):
        return True
    # reserved prefixes handed to lxml: it rebinds or writes them as they are
    return S.lexical_trouble(args)


# ----------------------------------------------------------------- generators
from props import c03_oracle as _O  # noqa: E402,F401  (must be imported before c03_models)
from props import c03_models  # noqa: E402
from props import c03_compose  # noqa: E402
from props import c03_frag  # noqa: E402
from props.c03_gen import (  # noqa: E402
    gen_clean,
    gen_escape,
    gen_events_tree,
    gen_lxml,
    gen_native,
    gen_ncname,
    gen_prefix,
    gen_sax,
    gen_split,
    classify_native,
)

CORRS = [
    Corr("writer.native", gen_native, impl_native, canon=canon_native, classify=classify_native,
         nontrivial=lambda a, o: len(a["events"]) >= 2,
         describe="real XmlEventWriter text + expat/lxml infoset vs model render + Lean infoset"),
    Corr("writer.sax", gen_sax, impl_sax, classify=lambda a, o: "err:" + str(o["ok"]["err"]) if o["ok"]["err"] else "ok:%d-calls" % min(20, 5 * (len(o["ok"]["calls"]) // 5)), nontrivial=lambda a, o: len(a["events"]) >= 2,
         describe="SAX calls of a recording EventHandler subclass vs handler model"),
    Corr("writer.lxml", gen_lxml, impl_lxml, compare=compare_lxml, nontrivial=lambda a, o: len(a["events"]) >= 2,
         describe="LxmlEventWriter output infoset vs tree of the model's SAX calls"),
    Corr("writer.events_tree", gen_events_tree, impl_events_tree, classify=lambda a, o: "tree" if o["ok"] is not None else "outside-fragment", canon=lambda o: {"ok": sort_attrs(o["ok"])} if isinstance(o, dict) and "ok" in o else o,
         describe="Lean eventsTree vs the harness's own reading of the events"),
    Corr("ser.object", c03_models.gen_ser_object, c03_models.impl_ser_object, canon=c03_models.canon_ser_object,
         classify=lambda a, o: "ok:depth%d" % c03_models.depth(a["model"]) if "ok" in o else "err:" + str(o.get("err")),
         describe="XmlSerializer.render of dataclasses built from a declarative model (both writers) vs Lean Spec.ObjectTree.specRoot"),
    Corr("ser.compose", c03_compose.gen_compose, c03_compose.impl_compose, compare=c03_compose.cmp_compose,
         classify=c03_compose.classify_compose,
         describe="XmlSerializer(writer=XmlEventWriter).render on real class universes vs Bind/Gen ∘ Xml/Writer (exact text)"),
    Corr("ser.hyps", c03_compose.gen_hyps, c03_compose.impl_hyps, compare=c03_compose.cmp_compose,
         classify=c03_compose.classify_hyps,
         describe="hypotheses eventsOK/eventsPlain/userMapOK of serialize_*_partial: Lean on the model's events vs an independent "
                  "transcription evaluated on the REAL generator's events"),
    Corr("ser.frag", c03_frag.gen_frag, c03_frag.impl_frag, compare=c03_frag.cmp_frag, classify=c03_frag.classify_frag,
         describe="input-level hypotheses of serialize_*_FN_partial (ctxOK/valOKI of C01, ctxLexOK/valLexOK/valExactOK) on real universes: "
                  "Lean vs an independent transcription; inside them the REAL serializer's document must be well-formed and (exact) "
                  "denote the harness's reading of the REAL generator's events; composed model text = real text"),
    Corr("ns.clean", gen_clean, impl_clean, describe="clean_prefixes"),
    Corr("xml.split_qname", gen_split, impl_split, describe="split_qname"),
    Corr("ns.load_prefix", gen_prefix, impl_load_prefix, describe="load_prefix"),
    Corr("ns.generate_prefix", gen_prefix, impl_generate_prefix, describe="generate_prefix"),
    Corr("sax.escape", gen_escape, impl_escape, describe="saxutils.escape / quoteattr"),
    Corr("xml.ncname", gen_ncname, impl_ncname, describe="Lean isNCName vs lxml's QName validation"),
]

from props.c03_oracle import FINDINGS, ORACLES as _EVENT_ORACLES  # noqa: E402,F401

ORACLES = list(_EVENT_ORACLES) + [c03_models.ORACLE, c03_frag.ORACLE]

TRUSTED = [
    "tokens → text: `Xs.Sax.render` is compared byte for byte with XMLGenerator's output; that this text parses to the infoset `Spec.XmlNs.infoset` assigns to the tokens is checked by sampling against expat and lxml, not proved (no XML parser in Lean); escape/quoteattr are proved invertible and markup-free (escape_inverse, quoteattr_inverse)",
    "Spec/XmlNs.lean is my transcription of XML 1.0 (5th ed.) Char/NCName, end-of-line handling and the Namespaces in XML 1.0 constraints; `isNCName` is compared with libxml2's name validation on all code points < 0x250 and the range edges",
    "lxml's ElementTreeContentHandler + etree.tostring are not modelled: the assumption about them is the explicit hypothesis `LxmlBuildsSaxTree` of writers_denote_same_tree_partial / serializers_denote_same_tree(_FN)_partial (what lxml builds and prints reads back as the tree the SAX calls denote); op writer.lxml samples exactly this statement on the real LxmlEventWriter",
    "metadata → events: EventGenerator is the binding layer's model Bind/Gen.lean (C01's files, tied to the code by C01's ops and, composed with my writer, by op ser.compose on the exact text of XmlSerializer.render); builders.py is not modelled here: Spec/ObjectTree.lean (declarative reading of the metadata, no theorems) is compared with XmlSerializer.render on random binding models (op ser.object)",
    "serialize_*_FN_partial rest on C01's theorem bind_generate_FN (the abstract writer of Bind/Write.lean accepts the generated events: gives `generate = ok`, the coverage of every payload and attrsFollow) and on my provenance induction (Proofs/GenLex.lean, every universe with ctxLexOK); their hypotheses are input-level: ctxOK/valOKI (C01; compared with an independent description by C01's op c01.valFN), ctxLexOK/valLexOK/valExactOK (Spec/BindLex.lean; compared with an independent transcription by op ser.frag, which also checks the conclusions on the REAL serializer). Outside C01's fragments serialize_*_partial keep the per-case hypothesis eventsOK on `generate`'s output (op ser.hyps)",
    "xsi:type VALUES: serialize_says_metadata(_FN)_partial exclude them (valExactOK / eventsPlain); what is proved about them is the text-level tree (serialize_denotes_sax_tree_FN_partial) and, for one element, qname_value_resolves_in_scope_partial (the text resolves, in the namespace scope the XML reader has for the written start tag, to the QName of the event, unless the namespace is the default of the map: findings c03-qname-default-*); threading this through the whole document is open, there oracle c03.frag checks the resolved markers of the real output against the exported metadata",
    "`NsEnv.isNcnamePy` (namespaces.is_ncname inside EventHandler.validate_prefixes) is instantiated with `ncnamePyApprox`: exact on ASCII, every non-ASCII character counted as str.isalpha; the generators use the non-ASCII prefixes U+00AA and U+00E9 only (both letters for Python)",
    "CPython dict order / str.replace / str.partition / str(int) are modelled by hand (Xml/Dict.lean, Py/Basic.lean)",
]
ASSUMPTIONS = [
    "element and attribute local names prescribed by the metadata are NCNames, namespace URIs are non-empty and contain no '}' (inputs outside are not judged by the oracle)",
    "SerializerError / XmlWriterError are the permitted failures; any other exception counts as a violation",
    "xml_version/encoding of the configuration keep their defaults (1.0 / UTF-8); the theorems cover indent=None and no schemaLocation attributes (plainCfg), indentation and root attributes are covered by correspondence only",
    "event values are str / QName / lists of them / None (what EventGenerator.encode_primitive produces); int/bool atoms are modelled and compared but excluded from the theorems",
]
LEVEL_TEXT = (
    "Fragments (serialize_wellformed_FN_partial, serialize_denotes_sax_tree_FN_partial, serialize_says_metadata_FN_partial, serializers_denote_same_tree_FN_partial): "
    "for every class universe and instance in C01's fragments (any feature set: nillable, token lists, wrappers, sequences, fixed fields, Attributes maps, inheritance/xsi:type) "
    "whose metadata names are NCNames with declarable namespaces and whose strings are XML characters (ctxLexOK/valLexOK — hypotheses on the INPUTS only), every user prefix map in "
    "userMapOK: XmlSerializer.render raises nothing, the document is namespace-well-formed and denotes the tree of the handler's calls; if no xsi:type is needed (valExactOK) it denotes "
    "the tree an independent reader assigns to the generated events; under the explicit assumption about lxml (LxmlBuildsSaxTree) both writers denote the same tree. "
    "Composition for EVERY universe (serialize_wellformed_partial, serialize_denotes_sax_tree_partial, serialize_says_metadata_partial, render_wellformed_partial): for EVERY "
    "universe and value, if Bind/Gen's EventGenerator model returns events they are well nested (generate_well_nested, proved), and when they pass the "
    "decidable lexical check eventsOK the native writer model writes a namespace-well-formed document that denotes the tree of those events; "
    "prefix maps that cannot be declared are rejected with XmlWriterError (invalid_prefix_rejected, render_rejects_invalid_prefixes; repair c03d-01). Below that: "
    "Lean theorems for all user prefix maps in userMapOK and all well-nested event sequences in contentOK/shapeOK: the "
    "EventHandler state machine issues exactly the calls of a recursive writer (L1), XMLGenerator turns them into a "
    "namespace-well-formed document whose infoset is the tree of those calls (L2: generate_prefix never rebinds a key — proved for every map incl. loop termination —, default-"
    "namespace reset, uri→prefix context vs scope invariants), which is the tree an independent reader assigns to the "
    "events (L3); counterexample theorems for each excluded region (and positive witnesses for the repaired ones); model tied to /repo by a differential check of the "
    "native writer's exact text (events level and, composed with the generator model, object level on real class universes), the SAX call sequence, the lxml writer's infoset, the metadata reading and the namespace helpers."
)
LEVEL_NOTE = (
    "Trusted: Lean kernel; hand model of dict/str primitives; XML/Namespaces spec transcription; token→text→parser link by sampling; "
    "lxml behind the explicit hypothesis LxmlBuildsSaxTree (sampled by writer.lxml); inside C01's fragments the theorems quantify over universes and instances only (rests on C01's bind_generate_FN); xsi:type values resolve in scope: oracle only."
)
