/- C12, second part — the order in which the container lists / visits the classes,
the remaining structure styles, and the source cache.  Property theorems (only);
lemmas in `Proofs/CircularSound`, `Proofs/StylesPerm`, `Proofs/CachePure`. -/
import XsdataModel.Codegen.Circular
import XsdataModel.Codegen.Styles
import XsdataModel.Codegen.Cache
import XsdataModel.Proofs.CircularSound
import XsdataModel.Proofs.StylesPerm
import XsdataModel.Proofs.CachePure
import XsdataModel.Codegen.Overrides
import XsdataModel.Proofs.OverridesFrame

namespace Props.C12
open Py Xs.Codegen List

/-! ## 5. `DetectCircularReferences`: the one step that depends on the visiting order -/

/-- A reference is only flagged `circular` when it really closes a cycle of
references (flagged or not): `is_circular` is a sound reachability search. -/
theorem circular_flag_closes_cycle (g : CGraph) (start stop : Nat)
    (h : isCircular g start stop = some true) : CReach g start stop :=
  isCircular_sound g start stop h

/-- Full strength: which references are flagged (hence which field types become
forward references, what `Class.dependencies()` returns, in which order the
classes of a module are written) does not depend on the order in which the
container visits the classes — the order of the source URIs / `xs:include`s. -/
def circular_flags_order_independent : Prop :=
  ∀ (g : CGraph) (order order' : List Nat), order ~ order' →
    (detectCircular g order).map circularFlags = (detectCircular g order').map circularFlags

/-- False: in a reference cycle the class visited first gets its reference
flagged, which breaks the cycle for the classes visited later.  Witness `A ↔ B`. -/
theorem circular_flags_order_independent_false : ¬ circular_flags_order_independent := by
  intro h
  have := h [⟨0, [⟨1, false, true⟩]⟩, ⟨1, [⟨0, false, true⟩]⟩] [0, 1] [1, 0] (List.Perm.swap _ _ _)
  revert this
  decide

/-- True on every reference graph without a cycle: nothing is flagged, whatever the
order (the search bound is never the reason either: any completed run returns the
graph unchanged). -/
theorem circular_flags_order_independent_partial (g : CGraph) (ha : Acyclic g) (hn : NoFlags g)
    (order order' : List Nat) {g1 g2 : CGraph}
    (h1 : detectCircular g order = some g1) (h2 : detectCircular g order' = some g2) :
    g1 = g ∧ g2 = g :=
  ⟨detectCircular_acyclic ha hn order h1, detectCircular_acyclic ha hn order' h2⟩

/-- hypotheses satisfiable: `A → B`, nothing flagged -/
example : Acyclic [⟨0, [⟨1, false, true⟩]⟩, ⟨1, []⟩] ∧ NoFlags [⟨0, [⟨1, false, true⟩]⟩, ⟨1, []⟩] := by
  have edges : ∀ a b, CEdge [⟨0, [⟨1, false, true⟩]⟩, ⟨1, []⟩] a b → a = 0 ∧ b = 1 := by
    intro a b ⟨tp, htp, ht⟩
    unfold CGraph.typesOf at htp
    by_cases h0 : a = 0
    · subst h0
      simp only [List.find?, beq_self_eq_true, List.mem_singleton] at htp
      subst htp; exact ⟨rfl, ht.symm⟩
    · by_cases h1 : a = 1
      · subst h1; simp [List.find?] at htp
      · have e0 : ((0 : Nat) == a) = false := by simpa using fun h => h0 h.symm
        have e1 : ((1 : Nat) == a) = false := by simpa using fun h => h1 h.symm
        simp [List.find?, e0, e1] at htp
  constructor
  · intro a b e hr
    obtain ⟨rfl, rfl⟩ := edges a b e
    -- nothing is reachable from 1 but 1
    have : ∀ x y, CReach [⟨0, [⟨1, false, true⟩]⟩, ⟨1, []⟩] x y → x = 1 → y = 1 := by
      intro x y h
      induction h with
      | refl => exact id
      | tail _ e ih =>
        intro hx
        have := ih hx
        obtain ⟨h0, _⟩ := edges _ _ e
        omega
    have := this 1 0 hr rfl
    omega
  · intro c hc tp htp
    simp only [List.mem_cons, List.not_mem_nil, or_false] at hc
    rcases hc with rfl | rfl
    · simp only [List.mem_singleton] at htp; subst htp; rfl
    · cases htp

/-! ## 6. the structure styles without component search -/

/-- `group_by_namespace` (style `namespaces`): listing the classes in another order
gives the same designation of every class (and fails iff it failed). -/
theorem namespaces_perm_equivariant (nsParts : Option Str → List Str) {cs cs' : List LocClass}
    (hp : cs ~ cs') {r : List (Str × Str × Str)} (h : groupByNamespace nsParts cs = .ok r) :
    ∃ r', groupByNamespace nsParts cs' = .ok r' ∧ r ~ r' :=
  mapExcept_perm _ hp h

/-- `group_all_together` (style `single-package`) -/
theorem single_package_perm_equivariant (package : Str) {cs cs' : List LocClass} (hp : cs ~ cs') :
    groupAllTogether package cs ~ groupAllTogether package cs' := by
  unfold groupAllTogether
  split <;> exact hp.map _

/-- `group_by_filenames` (style `filenames`, the default): the table location ↦
(package, module) is computed from the *sorted set* of locations, so listing the
classes in another order gives the same designation of every class. -/
theorem filenames_perm_equivariant (package commonDir : Str) {cs cs' : List LocClass}
    (hp : cs ~ cs') {r : List (Str × Str × Str)} (h : groupByFilenames package commonDir cs = .ok r) :
    ∃ r', groupByFilenames package commonDir cs' = .ok r' ∧ r ~ r' := by
  unfold groupByFilenames at h ⊢
  rw [← filenameTargets_perm package commonDir (hp.map (·.location))]
  cases ht : filenameTargets package commonDir (dedup (cs.map (·.location))) with
  | error e => simp [ht] at h
  | ok targets =>
    simp only [ht] at h ⊢
    exact mapExcept_perm _ hp h

/-- the location table itself only depends on the set of locations -/
theorem filename_targets_set_invariant (package commonDir : Str) {l l' : List Str} (hp : l ~ l') :
    filenameTargets package commonDir (dedup l) = filenameTargets package commonDir (dedup l') :=
  filenameTargets_perm package commonDir hp

example : ([⟨['A'], none, "file:///s/a.xsd".toList⟩, ⟨['B'], none, "file:///s/t/b.xsd".toList⟩] : List LocClass)
    ~ [⟨['B'], none, "file:///s/t/b.xsd".toList⟩, ⟨['A'], none, "file:///s/a.xsd".toList⟩] :=
  List.Perm.swap _ _ _

/-! ## 7. the source cache (`--cache`) -/

/-- Full strength: with the cache switched on every run starts from the classes
its own sources and configuration map to, whatever ran before in the same temp
directory (cache key = the joined URIs, as before the repair). -/
def cache_history_independent (withPackage : Bool) : Prop :=
  ∀ (raw : List Str → Str → Str) (runs : List (List Str × Str)),
    runHistory withPackage raw [] runs = runs.map (fun r => raw r.1 r.2)

/-- False for the old key: a JSON sample's root class is named after the output
package, which the key ignored — the second run gets the first run's classes. -/
theorem cache_history_independent_false : ¬ cache_history_independent false := by
  intro h
  have := h (fun _ p => p) [([['u']], ['f', 'o', 'o']), ([['u']], ['b', 'a', 'r'])]
  revert this
  decide

/-- With the package in the key (the repair) — and for any key at all — the cache
is transparent as soon as equal keys imply equal mapped classes. -/
theorem cache_history_independent_partial {α} (withPackage : Bool) (raw : List Str → Str → α)
    (hk : KeyFaithful withPackage raw) (runs : List (List Str × Str)) :
    runHistory withPackage raw [] runs = runs.map (fun r => raw r.1 r.2) :=
  runHistory_spec hk runs [] (fun _ _ h => by cases h)

/-- the hypothesis holds for the repaired key when the mapped classes are a function of
the hashed string — e.g. classes named after the package, sources fixed -/
example : KeyFaithful true (fun (u : List Str) (p : Str) => concatAll (u ++ [p])) := by
  intro u p u' p' h
  simpa [cacheKey] using h

/-! ## 8. `ValidateAttributesOverrides`: the parent attrs are live objects (finding C12-F7) -/

/-- Full strength: which fields the classes of a hierarchy get does not depend on the
order in which the container visits the classes. -/
def overrides_order_independent : Prop :=
  ∀ (cleanUri : Str → Str) (st : OState) (order order' : List Nat), order ~ order' →
    overrideFields (runOverrides cleanUri st order) = overrideFields (runOverrides cleanUri st order')

/-- False.  `B{e}` (namespace t1), `D1 extends B {e}` (namespace t0), `D2 extends B {e}`
(namespace t1): validating `D1` renames **`B.e`** to `t1_e` (`rename_attribute_by_preference`
prefers the parent), after which `D2.e` is a new field; validating `D2` first, `D2.e` is an
override of `B.e` with the same restrictions and is dropped. -/
theorem overrides_order_independent_false : ¬ overrides_order_independent := by
  intro h
  have := h (fun _ => ['t', '1'])
    [ { attrs := [{ name := ['e'], ns := some ['u', 'r', 'n', ':', 't', '1'], minOccurs := 0 }] },
      { attrs := [{ name := ['e'], ns := some ['u', 'r', 'n', ':', 't', '0'], minOccurs := 0 }], base := some 0 },
      { attrs := [{ name := ['e'], ns := some ['u', 'r', 'n', ':', 't', '1'], minOccurs := 0 }], base := some 0 } ]
    [1, 2] [2, 1] (List.Perm.swap _ _ _)
  revert this
  decide

/-- the two outcomes of the witness: `D2` keeps the field `e` in one order and has no field in the other -/
example :
    overrideFields (runOverrides (fun _ => ['t', '1'])
      [ { attrs := [{ name := ['e'], ns := some ['u', 'r', 'n', ':', 't', '1'], minOccurs := 0 }] },
        { attrs := [{ name := ['e'], ns := some ['u', 'r', 'n', ':', 't', '0'], minOccurs := 0 }], base := some 0 },
        { attrs := [{ name := ['e'], ns := some ['u', 'r', 'n', ':', 't', '1'], minOccurs := 0 }], base := some 0 } ]
      [1, 2])
    = [[(['t', '1', '_', 'e'], false)], [(['e'], false)], [(['e'], false)]] := by decide

/-- The provable part, with the excluded region as a decidable hypothesis (`calmClass`:
every attr of the class that is named like a base attr is an override of it — same xml
type and namespace — and not a list over a non-list): validating such a class changes
**no other class**, so what the other classes get cannot depend on when it is visited. -/
theorem overrides_frame_partial (cleanUri : Str → Str) (st : OState) (t : Nat)
    (hcalm : calmClass st t = true) (j : Nat) (hj : j ≠ t) :
    (validateClass cleanUri st t)[j]? = st[j]? :=
  validateClass_frame cleanUri st t hcalm j hj

/-- the hypothesis is satisfiable (`D2` of the witness is calm against the untouched `B`) … -/
example : calmClass
    [ { attrs := [{ name := ['e'], ns := some ['u', 'r', 'n', ':', 't', '1'], minOccurs := 0 }] },
      { attrs := [{ name := ['e'], ns := some ['u', 'r', 'n', ':', 't', '0'], minOccurs := 0 }], base := some 0 },
      { attrs := [{ name := ['e'], ns := some ['u', 'r', 'n', ':', 't', '1'], minOccurs := 0 }], base := some 0 } ] 2 = true := by
  decide

/-- … and fails exactly for the class that makes the handler rename the parent attr -/
example : calmClass
    [ { attrs := [{ name := ['e'], ns := some ['u', 'r', 'n', ':', 't', '1'], minOccurs := 0 }] },
      { attrs := [{ name := ['e'], ns := some ['u', 'r', 'n', ':', 't', '0'], minOccurs := 0 }], base := some 0 },
      { attrs := [{ name := ['e'], ns := some ['u', 'r', 'n', ':', 't', '1'], minOccurs := 0 }], base := some 0 } ] 1 = false := by
  decide

end Props.C12
