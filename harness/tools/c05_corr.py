"""Developer tool: list model/implementation disagreements per correspondence op.
usage: /venv/bin/python harness/tools/c05_corr.py [op ...]   (XSDATA_REPO, VERIF_SEED honoured)"""
import json
import os
import random
import sys

HERE = os.path.dirname(os.path.abspath(__file__))
H = os.path.dirname(HERE)
sys.path[:0] = [H, os.path.join(H, "shims"), os.environ.get("XSDATA_REPO", "/repo")]
import framework  # noqa: E402
from props import c05  # noqa: E402

ops = sys.argv[1:]
rng = random.Random(int(os.environ.get("VERIF_SEED", "0")))
d = framework.Driver()
for corr in c05.CORRS:
    sub = random.Random(rng.random())
    if ops and corr.op not in ops:
        continue
    cases = list(corr.gen(sub, "quick"))
    mo = d.run([{"op": corr.op, "args": a} for a in cases])
    n = 0
    for a, m in zip(cases, mo):
        io = corr.impl(a)
        same = corr.compare(m, io, a) if corr.compare else m == io
        if not same:
            n += 1
            if n <= 15:
                print(corr.op, json.dumps(a, ensure_ascii=False)[:400], "\n   impl=", io, "\n   model=", m)
    print(corr.op, len(cases), "disagreements", n)
