/-
C01 (fragments F2…): `bind_objects` as a fold per field name, independent of the order in which
the child elements of different vars arrive; the `assigned` bookkeeping for block-wise entries.
-/
import XsdataModel.Proofs.C01NWild

namespace Proofs.C01
open Py Xs.Bind Xs.Bind.F1 Xs.Bind.FN

/-- what `bind_var` does to the param of its own field -/
def accVar (cur : Option Val) (var : XmlVar) (y : Val) : Option Val :=
  if !var.init then cur else
  if var.listElement then
    (match cur with
     | some (.list items) => some (.list (items ++ [y]))
     | _ => some (.list [y]))
  else
    (match cur with
     | none => some y
     | some c => some c)

theorem get_bindVar {P : Params} {var : XmlVar} (y : Val) (k : Str) :
    (bindVar P var y).2.get k = if k = var.name then accVar (P.get k) var y else P.get k := by
  by_cases hi : var.init = true
  case neg =>
    have hi' : var.init = false := by simpa using hi
    simp [bindVar, accVar, hi']
  by_cases hk : k = var.name
  · subst hk
    simp only [if_true]
    unfold bindVar accVar
    simp only [hi, if_true, Bool.not_true, Bool.false_eq_true, if_false]
    by_cases hl : var.listElement = true
    · simp only [hl, if_true]
      split <;> simp_all [Params.get_set_self]
    · have hl' : var.listElement = false := by simpa using hl
      simp only [hl', Bool.false_eq_true, if_false]
      rw [Params.has_eq_isSome]
      cases hg : Params.get P var.name <;> simp [Params.get_set_self, hg]
  · simp only [hk, if_false]
    unfold bindVar
    simp only [hi, if_true]
    split
    · split <;> exact Params.get_set_ne _ _ hk
    · split
      · exact Params.get_set_ne _ _ hk
      · rfl

theorem get_bindEntries (k : Str) : ∀ (E : List (XmlVar × Val)) (P : Params),
    (bindEntries P E).get k =
      (E.filter (fun en => en.1.name = k)).foldl (fun cur en => accVar cur en.1 en.2) (P.get k) := by
  intro E
  induction E with
  | nil => intro P; rfl
  | cons en r ih =>
    intro P
    simp only [bindEntries, List.foldl_cons]
    show Params.get (bindEntries _ r) k = _
    rw [ih, get_bindVar en.2 k]
    by_cases hk : en.1.name = k
    · simp [List.filter_cons, hk]
    · have hk' : ¬ k = en.1.name := fun h' => hk h'.symm
      simp [List.filter_cons, hk, hk']

/-- the param a var ends up with, from its items in document order -/
def finalParam (var : XmlVar) (ys : List Val) : Option Val :=
  if !var.init then none else
  if var.listElement then (if ys.isEmpty then none else some (.list ys)) else ys.head?

theorem accVar_list_some {var : XmlVar} (hi : var.init = true) (hl : var.listElement = true)
    (prev : List Val) (y : Val) :
    accVar (some (.list prev)) var y = some (.list (prev ++ [y])) := by simp [accVar, hl, hi]

theorem accVar_list_none {var : XmlVar} (hi : var.init = true) (hl : var.listElement = true) (y : Val) :
    accVar none var y = some (.list [y]) := by simp [accVar, hl, hi]

theorem accVar_scalar_some {var : XmlVar} (hi : var.init = true) (hl : var.listElement = false)
    (c y : Val) : accVar (some c) var y = some c := by simp [accVar, hl, hi]

theorem accVar_scalar_none {var : XmlVar} (hi : var.init = true) (hl : var.listElement = false)
    (y : Val) : accVar none var y = some y := by simp [accVar, hl, hi]

theorem foldl_accVar_list {var : XmlVar} (hi : var.init = true) (hl : var.listElement = true) :
    ∀ (ys : List Val) (prev : List Val),
    (ys.map fun y => (var, y)).foldl (fun cur en => accVar cur en.1 en.2) (some (.list prev)) =
      some (.list (prev ++ ys)) := by
  intro ys
  induction ys with
  | nil => intro prev; simp
  | cons y t ih =>
    intro prev
    simp only [List.map_cons, List.foldl_cons, accVar_list_some hi hl]
    rw [ih]; simp

theorem foldl_accVar_scalar {var : XmlVar} (hi : var.init = true) (hl : var.listElement = false)
    (c : Val) : ∀ (ys : List Val),
    (ys.map fun y => (var, y)).foldl (fun cur en => accVar cur en.1 en.2) (some c) = some c := by
  intro ys
  induction ys with
  | nil => rfl
  | cons y t ih =>
    simp only [List.map_cons, List.foldl_cons, accVar_scalar_some hi hl]
    exact ih

theorem foldl_accVar_fixed {var : XmlVar} (hi : var.init = false) (cur : Option Val) :
    ∀ (ys : List Val),
    (ys.map fun y => (var, y)).foldl (fun cur en => accVar cur en.1 en.2) cur = cur := by
  intro ys
  induction ys with
  | nil => rfl
  | cons y t ih =>
    simp only [List.map_cons, List.foldl_cons]
    have : accVar cur var y = cur := by simp [accVar, hi]
    rw [this]; exact ih

theorem foldl_accVar (var : XmlVar) (ys : List Val) :
    (ys.map fun y => (var, y)).foldl (fun cur en => accVar cur en.1 en.2) none = finalParam var ys := by
  by_cases hi : var.init = true
  case neg =>
    have hi' : var.init = false := by simpa using hi
    rw [foldl_accVar_fixed hi']; simp [finalParam, hi']
  cases ys with
  | nil => simp [finalParam]
  | cons y t =>
    by_cases hl : var.listElement = true
    · simp only [List.map_cons, List.foldl_cons, accVar_list_none hi hl, finalParam, hl, if_true, hi,
        Bool.not_true, Bool.false_eq_true, if_false]
      rw [foldl_accVar_list hi hl]; simp
    · have hl' : var.listElement = false := by simpa using hl
      simp only [List.map_cons, List.foldl_cons, accVar_scalar_none hi hl', finalParam, hl',
        Bool.false_eq_true, if_false, hi, Bool.not_true]
      rw [foldl_accVar_scalar hi hl']; simp

/-! ### block-wise entries (no `sequence` groups) -/

def blockEntries (items : XmlVar → List Val) (vars : List XmlVar) : List (XmlVar × Val) :=
  vars.flatMap fun var => (items var).map fun y => (var, y)

theorem filter_blockEntries (items : XmlVar → List Val) : ∀ (vars : List XmlVar),
    (vars.map (·.name)).Nodup → ∀ var ∈ vars,
    (blockEntries items vars).filter (fun en => en.1.name = var.name) =
      (items var).map fun y => (var, y) := by
  intro vars
  induction vars with
  | nil => intro _ var hv; cases hv
  | cons v t ih =>
    intro hnd var hvar
    simp only [List.map_cons, List.nodup_cons] at hnd
    simp only [blockEntries, List.flatMap_cons, List.filter_append]
    have hrest_none : ∀ w : XmlVar, w.name ∉ t.map (·.name) →
        (blockEntries items t).filter (fun en => en.1.name = w.name) = [] := by
      intro w hw
      simp only [blockEntries, List.filter_eq_nil_iff, List.mem_flatMap, List.mem_map,
        decide_eq_true_eq]
      rintro en ⟨u, hu, y, _, rfl⟩ heq
      exact hw (List.mem_map.2 ⟨u, hu, heq⟩)
    rcases List.mem_cons.1 hvar with rfl | hvt
    · have h1 : ((items var).map fun y => (var, y)).filter (fun en => en.1.name = var.name) =
          (items var).map fun y => (var, y) := by
        rw [List.filter_eq_self]; intro en hen
        simp only [List.mem_map] at hen
        obtain ⟨y, _, rfl⟩ := hen; simp
      have := hrest_none var hnd.1
      simp only [blockEntries] at this
      rw [h1, this]; simp
    · have hne : v.name ≠ var.name := by
        intro heq; exact hnd.1 (List.mem_map.2 ⟨var, hvt, heq.symm⟩)
      have h1 : ((items v).map fun y => (v, y)).filter (fun en => en.1.name = var.name) = [] := by
        simp only [List.filter_eq_nil_iff, List.mem_map, decide_eq_true_eq]
        rintro en ⟨y, _, rfl⟩; exact hne
      have := ih hnd.2 var hvt
      simp only [blockEntries] at this
      rw [h1, this]; simp

theorem filter_blockEntries_none (items : XmlVar → List Val) (vars : List XmlVar) {k : Str}
    (hk : k ∉ vars.map (·.name)) :
    (blockEntries items vars).filter (fun en => en.1.name = k) = [] := by
  simp only [blockEntries, List.filter_eq_nil_iff, List.mem_flatMap, List.mem_map, decide_eq_true_eq]
  rintro en ⟨u, hu, y, _, rfl⟩ heq
  exact hk (List.mem_map.2 ⟨u, hu, heq⟩)

theorem AssignedOK_blocks (items : XmlVar → List Val) : ∀ (vars : List XmlVar) (asg : List Nat),
    (∀ var ∈ vars, var.listElement = false → (items var).length ≤ 1) →
    (vars.map (·.index)).Nodup → (∀ var ∈ vars, var.index ∉ asg) →
    AssignedOK asg (blockEntries items vars) := by
  intro vars
  induction vars with
  | nil => intro asg _ _ _; simp [blockEntries, AssignedOK]
  | cons v t ih =>
    intro asg hs hnd hasg
    simp only [List.map_cons, List.nodup_cons] at hnd
    have hst : ∀ var ∈ t, var.listElement = false → (items var).length ≤ 1 :=
      fun var hv => hs var (by simp [hv])
    have iht := ih asg hst hnd.2 (fun var hv => hasg var (by simp [hv]))
    have hcons : blockEntries items (v :: t) = ((items v).map fun y => (v, y)) ++ blockEntries items t := by
      simp [blockEntries]
    rw [hcons]
    by_cases hl : v.listElement = true
    · exact (AssignedOK_list_block hl asg _ (items v)).2 iht
    · have hl' : v.listElement = false := by simpa using hl
      have hlen := hs v (by simp) hl'
      match hi : items v with
      | [] => simpa using iht
      | [y] =>
        simp only [List.map_cons, List.map_nil, List.cons_append, List.nil_append, AssignedOK, hl',
          Bool.false_eq_true, if_false]
        refine ⟨hasg v (by simp), ih _ hst hnd.2 ?_⟩
        intro var hv hmem
        rcases List.mem_cons.1 hmem with h | h
        · exact hnd.1 (List.mem_map.2 ⟨var, hv, h⟩)
        · exact hasg var (by simp [hv]) h
      | _ :: _ :: _ => rw [hi] at hlen; simp at hlen

end Proofs.C01
