"""C15 — typed-value corruption over the RICH primitive types (bytes base16/base64, float, Decimal, the xml
date/time/duration/period types, enums, QName, token lists of them, xs:* datatypes behind xsi:type on an anyType
field), through every entry point: XmlParser with both handlers, JsonParser, DictDecoder.

The generated universes of bindgen only hold str/int/bool/QName fields (the fragment of the Lean model), so a
converter of any other type was never fed a corrupted value.  This module has a class of its own with one field
per converter and corrupts every value systematically: each character position x an alphabet that includes
non-ASCII letters and digits, plus whole-value replacements.  The statement checked is the property's own: an
instance of the requested class or ParserError / ConverterError / XmlContextError, within the time cap.
"""


import json
from xml.sax.saxutils import escape, quoteattr

XSI = "http://www.w3.org/2001/XMLSchema-instance"
XS = "http://www.w3.org/2001/XMLSchema"

# single characters put into / over a position of a lexical value
ALPHABET = ["É", "é", "名", "٣", "１", " ", " ", "²", "\U0001d7d9", " ", "-", "+", ".", "=", "Z", "z",
            "e", "x", "_", ":", "/", "%", "\t", "\n"]
WHOLE = ["", " ", "NaN", "INF", "-INF", "1e9999", "9" * 400, "٣٤", "１２", "true ", "É", "éééé",
         "0x1F", "1_0", "--", "P", "T", "Z", "+", "24:00:00", "2001-02-30", "−" + "1", "=A==", "A", "AAA=é"]

# field name -> (kind, json key, valid lexical value)
FIELDS = [
    ("hexa", "attr", "CAFE"),
    ("b64a", "attr", "eHNkYXRh"),
    ("hexe", "elem", "00ff10"),
    ("b64e", "elem", "eHNkYXRhIQ=="),
    ("hexl", "tokens", "CAFE 00 FF"),
    ("b64l", "tokens", "eHM= ZGE="),
    ("flt", "attr", "1.5"),
    ("dbl", "elem", "-2.5E3"),
    ("dec", "elem", "12.50"),
    ("i", "attr", "42"),
    ("b", "attr", "true"),
    ("date", "attr", "2001-02-03"),
    ("dt", "elem", "2001-02-03T04:05:06Z"),
    ("tm", "elem", "04:05:06.5+01:00"),
    ("dur", "elem", "P1Y2M3DT4H5M6S"),
    ("gy", "attr", "2001"),
    ("gmd", "elem", "--02-03"),
    ("fdate", "attr", "03/02/2001"),
    ("col", "attr", "red"),
    ("num", "elem", "2"),
    ("fen", "elem", "1.5"),
    ("qn", "attr", "xs:int"),
    ("ints", "tokens", "1 2 3"),
    ("dates", "tokens", "2001-02-03 2002-03-04"),
    ("flts", "tokens", "1.5 2.5"),
]
# xs:* datatype behind xsi:type on the anyType field, with a valid value
XSI_TYPES = [("hexBinary", "CAFE"), ("base64Binary", "eHNkYXRh"), ("float", "1.5"), ("double", "1.5"), ("decimal", "1.50"), ("integer", "7"),
             ("date", "2001-02-03"), ("dateTime", "2001-02-03T04:05:06"), ("time", "04:05:06"), ("duration", "P1D"), ("gYear", "2001"),
             ("gYearMonth", "2001-02"), ("boolean", "true"), ("QName", "xs:int"), ("unsignedByte", "7"), ("NMTOKENS", "a b"), ("anyURI", "urn:a")]

_CLS = {}


def rich_class():
    """one field per converter (built once; plain dataclasses, no generator involved)"""
    if _CLS:
        return _CLS["Rich"]
    from dataclasses import dataclass, field
    from decimal import Decimal
    from enum import Enum
    from typing import Optional
    from xml.etree.ElementTree import QName

    from xsdata.models.datatype import XmlDate, XmlDateTime, XmlDuration, XmlPeriod, XmlTime

    class Color(Enum):
        RED = "red"
        BLUE = "blue"

    class Num(Enum):
        ONE = 1
        TWO = 2

    class FloatEnum(Enum):
        A = 1.5
        B = 2.5

    def a(**md):
        return field(default=None, metadata={"type": "Attribute", **md})

    def e(**md):
        return field(default=None, metadata={"type": "Element", **md})

    def t(**md):
        return field(default_factory=list, metadata={"type": "Element", "tokens": True, **md})

    @dataclass
    class Rich:
        class Meta:
            name = "rich"

        hexa: Optional[bytes] = a(format="base16")
        b64a: Optional[bytes] = a(format="base64")
        hexe: Optional[bytes] = e(format="base16")
        b64e: Optional[bytes] = e(format="base64")
        hexl: list[bytes] = t(format="base16")
        b64l: list[bytes] = t(format="base64")
        flt: Optional[float] = a()
        dbl: Optional[float] = e()
        dec: Optional[Decimal] = e()
        i: Optional[int] = a()
        b: Optional[bool] = a()
        date: Optional[XmlDate] = a()
        dt: Optional[XmlDateTime] = e()
        tm: Optional[XmlTime] = e()
        dur: Optional[XmlDuration] = e()
        gy: Optional[XmlPeriod] = a()
        gmd: Optional[XmlPeriod] = e()
        fdate: Optional[XmlDate] = a(format="%d/%m/%Y")
        col: Optional[Color] = a()
        num: Optional[Num] = e()
        fen: Optional[FloatEnum] = e()
        qn: Optional[QName] = a()
        ints: list[int] = t()
        dates: list[XmlDate] = t()
        flts: list[float] = t()
        anyf: Optional[object] = e()

    import sys
    import types

    mod = types.ModuleType("c15_rich_models")
    for k in (Color, Num, FloatEnum, Rich):
        k.__module__ = mod.__name__
        setattr(mod, k.__name__, k)
    sys.modules[mod.__name__] = mod
    _CLS["Rich"] = Rich
    return Rich


KIND = {n: k for n, k, _ in FIELDS}


def corruptions(value: str):
    """(label, corrupted value): every alphabet character over the first, a middle and the last position, inserted
    at both ends, and the whole-value replacements"""
    n = len(value)
    spots = sorted({0, n // 2, n - 1}) if n else []
    for ch in ALPHABET:
        for i in spots:
            yield f"sub@{i}:U+{ord(ch):04X}", value[:i] + ch + value[i + 1:]
        yield f"pre:U+{ord(ch):04X}", ch + value
        yield f"post:U+{ord(ch):04X}", value + ch
    for w in WHOLE:
        yield "whole:" + ascii(w)[:14], w


def xml_doc(values: dict, anyf=None) -> bytes:
    """the document for a {field: lexical value} map (None = absent); `anyf` = (xs type local name, value)"""
    attrs = "".join(f" {n}={quoteattr(values[n])}" for n, k, _ in FIELDS if k == "attr" and values.get(n) is not None)
    kids = "".join(f"<{n}>{escape(values[n])}</{n}>" for n, k, _ in FIELDS if k != "attr" and values.get(n) is not None)
    if anyf is not None:
        kids += f'<anyf xsi:type="xs:{anyf[0]}">{escape(anyf[1])}</anyf>'
    return f'<rich xmlns:xs="{XS}" xmlns:xsi="{XSI}"{attrs}>{kids}</rich>'.encode("utf-8")


def json_doc(values: dict) -> str:
    out = {}
    for n, k, _ in FIELDS:
        v = values.get(n)
        if v is None:
            continue
        out[n] = v.split(" ") if k == "tokens" else v
    return json.dumps(out, ensure_ascii=False)


def _xml_ok(s: str) -> bool:
    """characters XML 1.0 allows (the document must stay well-formed: the fault is in the value, not the syntax)"""
    return all(c in "\t\n\r" or 0x20 <= ord(c) <= 0xD7FF or 0xE000 <= ord(c) <= 0xFFFD or ord(c) >= 0x10000 for c in s)


def cases(rng, tier):
    """args dicts: one corrupted typed value per document, for each entry point and both converter-warning settings.
    The binary fields with non-ASCII corruptions come first (the shape the check used to lack), the rest is shuffled."""
    valid = {n: v for n, _, v in FIELDS}
    first, rest = [], []
    for n, k, v in FIELDS:
        for label, bad in corruptions(v):
            item = {"field": n, "label": label, "values": {n: bad}}
            binary = n.startswith(("hex", "b64"))
            (first if binary and not bad.isascii() else rest).append(item)
            if label.startswith("sub@0") or label.startswith("whole"):
                # the same fault in an otherwise complete document
                rest.append({"field": n, "label": label + "/full", "values": {**valid, n: bad}})
    for tname, v in XSI_TYPES:
        for label, bad in corruptions(v):
            item = {"field": "anyf", "label": f"xsi:{tname}/" + label, "values": {}, "anyf": [tname, bad]}
            (first if tname in ("hexBinary", "base64Binary") and not bad.isascii() else rest).append(item)
    # JSON only: a value of another JSON type where the typed string is expected
    for n, k, v in FIELDS:
        for raw in (5, True, 1.5, None, [], {}, [1], [None], {"a": 1}, 10 ** 30):
            rest.append({"field": n, "label": "jsonraw:" + json.dumps(raw), "values": {}, "raw": {n: raw}})
    rng.shuffle(first)
    rng.shuffle(rest)
    if tier == "quick":
        rest = rest[:1500]
    yield {"field": "-", "label": "valid", "values": valid, "entry": "xml-native", "strict": False}
    yield {"field": "-", "label": "valid", "values": valid, "entry": "json", "strict": True}
    for item in first + rest:
        entries = ["xml-native", "xml-lxml"] if "anyf" in item else (["json", "dict"] if "raw" in item else ["xml-native", "xml-lxml", "json", "dict"])
        for entry in entries:
            yield {**item, "entry": entry, "strict": rng.random() < 0.5}


def run(a):
    """outcome of the real parser: ('ok', obj) / ('err', exception type name, message)"""
    import warnings

    from xsdata.formats.dataclass.context import XmlContext
    from xsdata.formats.dataclass.parsers import DictDecoder, JsonParser, XmlParser
    from xsdata.formats.dataclass.parsers.config import ParserConfig
    from xsdata.formats.dataclass.parsers.handlers import LxmlEventHandler, XmlEventHandler

    Rich = rich_class()
    cfg = ParserConfig(fail_on_converter_warnings=bool(a.get("strict")))
    ctx = XmlContext()
    entry = a["entry"]
    with warnings.catch_warnings():
        warnings.simplefilter("ignore")
        if entry.startswith("xml"):
            anyf = tuple(a["anyf"]) if a.get("anyf") else None
            data = xml_doc(a["values"], anyf)
            h = XmlEventHandler if entry == "xml-native" else LxmlEventHandler
            return XmlParser(context=ctx, config=cfg, handler=h).from_bytes(data, Rich)
        js = json.dumps(a["raw"]) if a.get("raw") is not None else json_doc(a["values"])
        if entry == "json":
            return JsonParser(context=ctx, config=cfg).from_bytes(js.encode("utf-8"), Rich)
        return DictDecoder(context=ctx, config=cfg).decode(json.loads(js), Rich)


def expressible(a) -> bool:
    """XML cannot carry every character; such cases go through the JSON entries only"""
    if a["entry"].startswith("xml"):
        vals = list(a["values"].values()) + ([a["anyf"][1]] if a.get("anyf") else [])
        return all(_xml_ok(v) for v in vals if v is not None)
    return True
