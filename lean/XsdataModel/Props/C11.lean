/-
C11 — arbitrary XML survives the generic element model.

Objects (all in `XsdataModel/Generic/Basic.lean`, built on the binding-layer model):
* `wildValue var t`       : the `AnyElement` a `WildcardNode(var)` builds for the subtree `t`
                            (`parseNode (.wildcard var attrs nsmap)`),
* `wildRoundtrip1 var t`  : `wildValue` → `convert_any_type` (`genAnyType`) → writer → re-read
                            (`eventsTree`), the subtree being the whole document,
* `wildRoundtrip var host pre ts` : the same for a forest `ts` that is the content of a host
                            element which first emits the events `pre`,
* `normTree`              : normal form of `≈ws` (`wsEq`): absent = empty text, whitespace-only text
                            next to child elements dropped, prefix maps not compared,
* `treeOK`                : well-formed trees without the three kinds of attributes the generic
                            model is known to change (see the `…_false` theorems below),
* `treeParse`             : `TreeParser`,
* `resolveTokens` / `matchNamespace` / `tokenAllows` : wildcard namespace constraints.
-/
import XsdataModel.Proofs.C11Pipeline
import XsdataModel.Proofs.C11Bind
import XsdataModel.Proofs.C11Namespace

set_option linter.unusedSimpArgs false

namespace Props.C11
open Py Xs.Bind Xs.Generic Proofs.C11

/-! ### concrete instances used for non-vacuity and witnesses -/

def s (x : String) : Str := x.toList
def e0 : BEnv := ⟨Env.ascii, fun _ => true, fun _ => true⟩
def Γ0 : Ctx := ⟨[], [], [(['{'] ++ xsNs ++ s "}string", some .str)]⟩
def isDt0 (x : Str) : Bool := (Γ0.datatypes.find? (·.1 = x)).isSome
/-- a non-nillable wildcard var (the one `TreeParser` makes for a root named `w`) -/
def var0 : XmlVar := treeVar (s "w")
def nsX : NsMap := [(some (s "p"), s "urn:x"), (none, s "urn:d")]

/-- `<p:foo k="v" p:j="a b"> <d:a>  </d:a> mixed <b/>tail<p:foo/>\n</p:foo>` : two namespaces,
attributes (an `xsi:nil` on an empty and on a non-empty element among them), mixed content,
whitespace-only text in a leaf (kept) and next to children (dropped) -/
def exTree : Tree :=
  .node (s "{urn:x}foo") [(s "k", s "v"), (s "{urn:x}j", s "a b")] nsX (some (s " "))
    [ .node (s "{urn:d}a") [] nsX (some (s "  ")) [] (some (s " mixed ")),
      .node (s "b") [(xsiNil, s "true")] nsX none [] (some (s "tail")),
      .node (s "{urn:x}foo") [(xsiNil, s "false")] nsX (some (s "x")) [] (some (s "\n")) ] none

def rootAttrs : Tree → List (QN × Str) | .node _ a _ _ _ _ => a
def rootText : Tree → Option Str | .node _ _ _ t _ _ => t
def rootKids : Tree → List Tree | .node _ _ _ _ c _ => c

/-! ### 1. the generic element model round-trips -/

/-- **any_roundtrip.** For every wildcard var and every well-formed tree `t` (`treeOK`) without
a significant tail of its own: parsing `t` with a `WildcardNode` and serialising the resulting
`AnyElement` gives exactly the `≈ws` normal form of `t`: same element names and namespaces, same
attributes in the same order, same text, same tails, same child order, at every depth. -/
theorem any_roundtrip (e : BEnv) (Γ : Ctx) (cfg : ParserConfig) (isDt : Str → Bool) (var : XmlVar) (t : Tree)
    (hw : var.isWildcard = true) (hok : treeOK isDt t = true) (htl : rootTailBlank e.py t = true) :
    wildRoundtrip1 e Γ cfg isDt var t = .ok (normTree e.py [] t) :=
  wildRoundtrip1_eq e Γ cfg isDt var t hw hok htl

example : var0.isWildcard = true ∧ treeOK isDt0 exTree = true ∧ rootTailBlank e0.py exTree = true := by decide

/-- the same as a statement about `≈ws` -/
theorem any_roundtrip_ws (e : BEnv) (Γ : Ctx) (cfg : ParserConfig) (isDt : Str → Bool) (var : XmlVar) (t : Tree)
    (hw : var.isWildcard = true) (hok : treeOK isDt t = true) (htl : rootTailBlank e.py t = true) :
    ∃ t', wildRoundtrip1 e Γ cfg isDt var t = .ok t' ∧ wsEq e.py t' t :=
  ⟨_, any_roundtrip e Γ cfg isDt var t hw hok htl, normTree_idem e.py [] t⟩

/-- the same for the abstract writer that also allocates prefixes for the Clark-name strings which
`add_attribute` turns into QNames (`eventsTreeQ`, the repair of `collectUris` requested for
`Bind/Write.lean` and used by the op `c11.roundtrip`): on `treeOK` content both writers agree -/
theorem any_roundtrip_q (e : BEnv) (Γ : Ctx) (cfg : ParserConfig) (isDt : Str → Bool) (var : XmlVar) (t : Tree)
    (hw : var.isWildcard = true) (hok : treeOK isDt t = true) (htl : rootTailBlank e.py t = true) :
    (do let v ← wildValue e Γ cfg var t
        let evs ← genAnyType e Γ {} (depthTree t + 1) v var none
        eventsTreeQ isDt evs) = .ok (normTree e.py [] t) :=
  wildRoundtrip1Q_eq e Γ cfg isDt var t hw hok htl

/-- `≈ws` changes nothing but insignificant whitespace: the normal form is idempotent -/
theorem norm_idempotent (e : Env) (m : NsMap) (t : Tree) : normTree e m (normTree e m t) = normTree e m t :=
  normTree_idem e m t

/-- the statement at full strength: every tree with non-empty element names and pairwise
different attribute names (no restriction on attribute *values*) -/
def any_roundtrip_full : Prop :=
  ∀ (e : BEnv) (Γ : Ctx) (cfg : ParserConfig) (isDt : Str → Bool) (var : XmlVar) (t : Tree),
    var.isWildcard = true → namesOK t = true → keysDistinct (rootAttrs t) = true →
    rootTailBlank e.py t = true →
    ∃ t', wildRoundtrip1 e Γ cfg isDt var t = .ok t' ∧ wsEq e.py t' t

/-- witness 1: `<p:foo xmlns:p="urn:x" k="p:bar"/>` -/
def wPrefixed : Tree := .node (s "{urn:x}foo") [(s "k", s "p:bar")] [(some (s "p"), s "urn:x")] none [] none

/-- … comes back as `k="{urn:x}bar"` (`parse_any_attribute` rewrites the value, nothing rewrites it back) -/
theorem anyattr_prefixed_value_rewritten :
    (wildRoundtrip1 e0 Γ0 {} isDt0 var0 wPrefixed).map rootAttrs = .ok [(s "k", s "{urn:x}bar")] := by rfl

theorem any_roundtrip_full_false : ¬ any_roundtrip_full := by
  intro h
  obtain ⟨t', h1, h2⟩ := h e0 Γ0 {} isDt0 var0 wPrefixed (by decide) (by decide) (by decide) (by decide)
  have h3 := anyattr_prefixed_value_rewritten
  rw [h1] at h3
  simp only [Except.map] at h3
  have h4 : rootAttrs t' = [(s "k", s "{urn:x}bar")] := by injection h3
  have h5 : rootAttrs (normTree e0.py [] t') = rootAttrs t' := by cases t'; rfl
  have h6 := congrArg rootAttrs h2
  rw [h5, h4] at h6
  revert h6
  decide

/-- the provable part of `any_roundtrip_full` under its conventional name: the excluded region is
exactly `treeOK` (attribute values `p:local` with `p` declared, Clark names of builtin
datatypes / on `xsi:type`) -/
theorem any_roundtrip_partial (e : BEnv) (Γ : Ctx) (cfg : ParserConfig) (isDt : Str → Bool) (var : XmlVar) (t : Tree)
    (hw : var.isWildcard = true) (hok : treeOK isDt t = true) (htl : rootTailBlank e.py t = true) :
    ∃ t', wildRoundtrip1 e Γ cfg isDt var t = .ok t' ∧ wsEq e.py t' t :=
  any_roundtrip_ws e Γ cfg isDt var t hw hok htl

/-- `xsi:nil` on a generic element is the document's own attribute and is kept (it used to be
popped by `flush_start(is_nil=False)` because `WildcardNode.bind` turns the missing text into `""`;
`convert_any_element` now flushes the start tag with a `DATA None` first).  `treeOK` no longer
excludes it; two concrete instances: -/
def wNil : Tree := .node (s "foo") [(xsiNil, s "true")] [] none [] none
def wNilContent : Tree := .node (s "foo") [(s "k", s "v"), (xsiNil, s "false")] [] (some (s "x")) [] none

theorem anyattr_xsi_nil_kept :
    (wildRoundtrip1 e0 Γ0 {} isDt0 var0 wNil).map rootAttrs = .ok [(xsiNil, s "true")] ∧
    (wildRoundtrip1 e0 Γ0 {} isDt0 var0 wNilContent).map rootAttrs = .ok [(s "k", s "v"), (xsiNil, s "false")] ∧
    (wildRoundtrip1 e0 Γ0 {} isDt0 var0 wNilContent).map rootText = .ok (some (s "x")) :=
  ⟨by rfl, by rfl, by rfl⟩

example : treeOK isDt0 wNil = true ∧ treeOK isDt0 wNilContent = true := by decide

/-! ### 2. variants: generic content inside a host element -/

/-- **list wildcard.** A host element whose whole content is a list wildcard
(`convert_value` → `convert_list` → `convert_any_type` per item, no `DATA` of the host): the
forest comes back in order, each tree in normal form. -/
theorem list_roundtrip (e : BEnv) (Γ : Ctx) (cfg : ParserConfig) (isDt : Str → Bool) (var : XmlVar)
    (host : QN) (ts : List Tree) (hw : var.isWildcard = true) (hok : treeOKList isDt ts = true) :
    wildRoundtrip e Γ cfg isDt var host [] ts = .ok (.node host [] [] none (normList e.py [] ts) none) :=
  wildRoundtrip_nodata e Γ cfg isDt var host ts hw hok

example : treeOKList isDt0 [exTree, exTree] = true := by decide

/-- **single wildcard with several children.** The children are nested under a synthetic
`AnyElement(qname=None)` whose `convert_any_element` emits `DATA None` and then the children. -/
theorem single_nested_roundtrip (e : BEnv) (Γ : Ctx) (cfg : ParserConfig) (isDt : Str → Bool) (var : XmlVar)
    (host : QN) (ts : List Tree) (hw : var.isWildcard = true) (hok : treeOKList isDt ts = true) :
    wildRoundtrip e Γ cfg isDt var host [Ev.data .none] ts
      = .ok (.node host [] [] none (normList e.py [] ts) none) := by
  have := wildRoundtrip_data e Γ cfg isDt var host none ts hw hok
  simpa [textData, normText] using this

/-- **mixed wildcard.** The host's own text is the first item of the mixed list (`bind_wild_text`
inserts it at index 0) and is emitted as `DATA text` before the generic children; the tails of the
children carry the rest of the character data. -/
theorem mixed_roundtrip (e : BEnv) (Γ : Ctx) (cfg : ParserConfig) (isDt : Str → Bool) (var : XmlVar)
    (host : QN) (text : Str) (ts : List Tree) (hw : var.isWildcard = true) (hok : treeOKList isDt ts = true) :
    wildRoundtrip e Γ cfg isDt var host [Ev.data (.prim (.str text))] ts
      = .ok (.node host [] [] (normText e.py false (some text)) (normList e.py [] ts) none) := by
  have := wildRoundtrip_data e Γ cfg isDt var host (some text) ts hw hok
  simpa [textData] using this

/-- **through the binder: list wildcard, and single wildcard with several children.**
`ElementNode.bind_wild_var` collects the values of a list wildcard; for a single wildcard it nests
the second and later values under a synthetic `AnyElement(qname=None)`.  Either way
`convert_value` of what the binder built, written inside the host element, gives the forest back
(`fieldRoundtrip`).  No hypothesis on `var.listElement`: both placements. -/
theorem field_roundtrip (e : BEnv) (Γ : Ctx) (cfg : ParserConfig) (isDt : Str → Bool) (var : XmlVar)
    (host : QN) (ts : List Tree) (hw : var.isWildcard = true) (hm : var.mixed = false)
    (ht : var.tokens = false) (hok : treeOKList isDt ts = true) :
    fieldRoundtrip e Γ cfg isDt var host ts = .ok (.node host [] [] none (normList e.py [] ts) none) :=
  fieldRoundtrip_eq e Γ cfg isDt var host ts hw hm ht hok

/-- a single (`listElement = false`) and a list wildcard var -/
def varList : XmlVar := { var0 with listElement := true }
example : var0.isWildcard = true ∧ var0.mixed = false ∧ var0.tokens = false ∧ var0.listElement = false ∧
    varList.isWildcard = true ∧ varList.mixed = false ∧ varList.tokens = false ∧ varList.listElement = true ∧
    treeOKList isDt0 [exTree, exTree, exTree] = true := by decide

/-- **through the binder: mixed wildcard** (`bind_mixed_objects` + `bind_wild_text` +
`convert_mixed_content`): host text (dropped when whitespace-only), children and their tails come
back. -/
theorem mixed_field_roundtrip (e : BEnv) (Γ : Ctx) (cfg : ParserConfig) (isDt : Str → Bool) (var : XmlVar)
    (host : QN) (text : Option Str) (ts : List Tree) (hw : var.isWildcard = true) (hm : var.mixed = true)
    (hl : var.listElement = true) (hok : treeOKList isDt ts = true) :
    mixedRoundtrip e Γ cfg isDt var host text ts
      = .ok (.node host [] [] (normalizeContent e.py text) (normList e.py [] ts) none) :=
  mixedRoundtrip_eq e Γ cfg isDt var host text ts hw hm hl hok

def varMixed : XmlVar := { var0 with listElement := true, mixed := true }
example : varMixed.isWildcard = true ∧ varMixed.mixed = true ∧ varMixed.listElement = true := by decide

/-- **`Attributes` maps.** For a class whose only attribute var is an `Attributes` map admitting
every namespace: `bind_attrs` stores the attributes of the element verbatim and in order,
`next_attribute` yields them as `ATTR` events, and the writer puts them on the start tag.
(Values as in `treeOK`: not of the form `p:local` with `p` declared, not Clark names the writer
re-encodes.  Keys other than the control attributes `xsi:type` / `xsi:nil`, which `bind_attrs`
keeps out of the map since repair `c01g-07`.) -/
theorem attributes_roundtrip (e : BEnv) (cfg : ParserConfig) (scfg : SerCfg) (isDt : Str → Bool)
    (m : XmlMeta) (av : XmlVar) (nsmap : NsMap) (host : QN) (kv : QN × Str) (attrs : List (QN × Str))
    (hm : m.attributes = []) (ha : m.anyAttributes = [av]) (hns : av.namespaces = [anyNs])
    (hk : av.isAttribute = false) (hd : keysDistinct (kv :: attrs) = true)
    (hs : ∀ x ∈ kv :: attrs, parseAnyAttribute x.2 nsmap = x.2)
    (hp : ∀ x ∈ kv :: attrs, plainAttr isDt x = true)
    (hx : ∀ x ∈ kv :: attrs, x.1 ≠ xsiType ∧ x.1 ≠ xsiNil) :
    bindAttrs e cfg m (kv :: attrs) nsmap = .ok ([(av.name, .attrs (kv :: attrs))], 0) ∧
    nextAttribute scfg m [(av.name, .attrs (kv :: attrs))] false none = .ok ((kv :: attrs).map attrEv) ∧
    eventsTree isDt ([Ev.start host] ++ (kv :: attrs).map attrEv ++ [Ev.end host])
      = .ok (.node host (kv :: attrs) [] none [] none) :=
  ⟨bindAttrs_any e cfg m av nsmap hm ha hns kv attrs hd hs hx,
   nextAttribute_any scfg m av hm ha hk (kv :: attrs),
   eventsTree_attrs isDt host (kv :: attrs) hd hp⟩

def avAttrs : XmlVar := { var0 with name := s "attrs", kind := .attributes, namespaces := [anyNs] }
def mAttrs : XmlMeta :=
  { clazz := s "Root", qname := s "Root", targetQName := none, nillable := false, text := none, choices := [],
    elements := [], wildcards := [], attributes := [], anyAttributes := [avAttrs], wrappers := [] }
example : mAttrs.attributes = [] ∧ mAttrs.anyAttributes = [avAttrs] ∧ avAttrs.namespaces = [anyNs] ∧
    avAttrs.isAttribute = false ∧ keysDistinct [(s "k", s "v"), (s "{urn:x}j", s "a:b")] = true ∧
    (∀ x ∈ [(s "k", s "v"), (s "{urn:x}j", s "a:b")], parseAnyAttribute x.2 nsX = x.2) ∧
    (∀ x ∈ [(s "k", s "v"), (s "{urn:x}j", s "a:b")], plainAttr isDt0 x = true) ∧
    (∀ x ∈ [(s "k", s "v"), (s "{urn:x}j", s "a:b")], x.1 ≠ xsiType ∧ x.1 ≠ xsiNil) := by decide

/-! ### 3. wildcard namespace constraints -/

/-- **match_namespace_spec.** `XmlVar.match_namespace` on the tuple that
`XmlVarBuilder.resolve_namespaces` builds from the `namespace` metadata tokens decides exactly
the table `tokenAllows`, token by token (`uri` = namespace of the element, `none` = unqualified,
`T` = non-empty `parent_namespace`):

| token               | admits                                   |
|---------------------|------------------------------------------|
| `##any`             | everything                               |
| `##local`           | `uri = none`                             |
| `##targetNamespace` | `uri = T`; everything if there is no `T` |
| `##other`           | `uri ≠ T`  (unqualified names included); everything if there is no `T` |
| literal `u`         | `uri = u`                                |
| (no tokens)         | `uri = none`                             |
-/
theorem match_namespace_spec (pns : Option Str) (toks : List Str) (q : QN)
    (htoks : ∀ tok ∈ toks, isKeyword tok = true ∨ plainNs tok = true)
    (hp : ∀ t, targetOf pns = some t → plainNs t = true) :
    matchNamespace (resolveTokens pns toks) q =
      (if toks.isEmpty then (targetUri q).isNone
       else toks.any (fun tok => tokenAllows pns tok (targetUri q))) :=
  matchNamespace_resolve pns toks q htoks hp

example : (∀ tok ∈ [otherNs, localNs, s "urn:b"], isKeyword tok = true ∨ plainNs tok = true) ∧
    (∀ t, targetOf (some (s "urn:t")) = some t → plainNs t = true) := by
  refine ⟨by decide, ?_⟩
  intro t h
  have : t = s "urn:t" := by simpa [targetOf, s] using h.symm
  subst this; decide

/-- the rows of the table, spelled out -/
theorem match_any (pns : Option Str) (q : QN) : matchNamespace (resolveTokens pns [anyNs]) q = true := by
  simp [resolveTokens, resolveToken_any, matchNamespace_eq, matchOne_any]

theorem match_local (pns : Option Str) (q : QN) :
    matchNamespace (resolveTokens pns [localNs]) q = (targetUri q).isNone := by
  simp [resolveTokens, resolveToken_local, matchNamespace_eq, matchOne_nil _ (targetUri_ne_empty q)]

theorem match_target (T : Str) (q : QN) (hT : plainNs T = true) :
    matchNamespace (resolveTokens (some T) [targetNs]) q = decide (targetUri q = some T) := by
  have h : targetOf (some T) = some T := by
    cases T with
    | nil => simp [plainNs] at hT
    | cons c cs => simp [targetOf]
  simp [resolveTokens, resolveToken_target, h, matchNamespace_eq, matchOne_plain T _ hT]

theorem match_other (T : Str) (q : QN) (hT : plainNs T = true) :
    matchNamespace (resolveTokens (some T) [otherNs]) q = decide (targetUri q ≠ some T) := by
  have h : targetOf (some T) = some T := by
    cases T with
    | nil => simp [plainNs] at hT
    | cons c cs => simp [targetOf]
  simp [resolveTokens, resolveToken_other, h, matchNamespace_eq, matchOne_bang]

example : plainNs (s "urn:t") = true := by decide

/-- the XSD rule at full strength: the table agrees with XSD 1.0 "Wildcard allows Namespace Name" -/
def match_namespace_xsd : Prop :=
  ∀ (pns : Option Str) (tok : Str) (uri : Option Str), uri ≠ some [] →
    tokenAllows pns tok uri = xsdTokenAllows (targetOf pns) tok uri

/-- false: `##other` admits unqualified elements (XSD: the namespace must be present and differ
from the target namespace), and without a target namespace `##other` / `##targetNamespace`
degenerate to `##any` -/
theorem match_namespace_xsd_false : ¬ match_namespace_xsd := by
  intro h
  have := h (some (s "urn:t")) otherNs none (by simp)
  revert this; decide

theorem other_admits_unqualified :
    matchNamespace (resolveTokens (some (s "urn:t")) [otherNs]) (s "foo") = true ∧
    xsdTokenAllows (some (s "urn:t")) otherNs (targetUri (s "foo")) = false := by decide

theorem target_without_parent_admits_all :
    matchNamespace (resolveTokens none [targetNs]) (s "{urn:x}foo") = true ∧
    xsdTokenAllows none targetNs (targetUri (s "{urn:x}foo")) = false := by decide

/-- what does hold: with a target namespace, for qualified names the table is the XSD rule;
for `##any`, `##local`, `##targetNamespace` and literal namespaces also for unqualified names -/
theorem match_namespace_xsd_partial (pns : Option Str) (tok : Str) (uri : Option Str)
    (ht : (targetOf pns).isSome = true) (hq : tok = otherNs → uri.isSome = true) :
    tokenAllows pns tok uri = xsdTokenAllows (targetOf pns) tok uri := by
  cases hT : targetOf pns with
  | none => simp [hT] at ht
  | some T =>
    simp only [tokenAllows, xsdTokenAllows, hT]
    by_cases h1 : tok = anyNs
    · simp [h1]
    by_cases h2 : tok = localNs
    · simp [h1, h2]
    by_cases h3 : tok = targetNs
    · simp [h1, h2, h3]
    by_cases h4 : tok = otherNs
    · have := hq h4
      simp [h1, h2, h3, h4, this]
    · simp [h1, h2, h3, h4]

example : (targetOf (some (s "urn:t"))).isSome = true ∧ (otherNs = otherNs → (some (s "urn:x")).isSome = true) := by
  decide

/-! ### 4. TreeParser builds the same generic tree -/

/-- **tree_parser_same.** `TreeParser` on a document = what a `WildcardNode` of *any* non-nillable
wildcard var (whatever its name, namespaces, list-ness, mixed-ness) builds for the same tree. -/
theorem tree_parser_same (e : BEnv) (Γ Γ' : Ctx) (cfg cfg' : ParserConfig) (var : XmlVar) (t : Tree)
    (hw : var.isWildcard = true) (hn : var.nillable = false) :
    treeParse e Γ cfg t = wildValue e Γ' cfg' var t := by
  rw [wildValue_eq e Γ' cfg' var hw t, hn]
  cases t with
  | node q a n tx c tl =>
    have := parseNode_wildcard e Γ cfg (treeVar q) (by simp [treeVar, VarCore.isWildcard]) (.node q a n tx c tl)
    have hv : (treeVar q).nillable = false := by simp [treeVar]
    simp only at this
    simp [treeParse, this, hv, bind, Except.bind, pure, Except.pure, anyOf]

example : var0.isWildcard = true ∧ var0.nillable = false := by decide

/-! ### 4b. nested generic elements resolve prefixes in their own scope -/

/-- **wild_child_own_scope.** `WildcardNode.child` hands the nested node the prefix map of the
*child* element: the attribute values of a nested generic element are expanded
(`parse_any_attributes`) with the declarations in scope of that element itself (`n'`), not with
those of the element above it (`n`) — at every depth, since the children are built by the same
recursion (`anyOfList`). -/
theorem wild_child_own_scope (e : BEnv) (Γ : Ctx) (cfg : ParserConfig) (var : XmlVar) (hw : var.isWildcard = true)
    (q : QN) (a : List (QN × Str)) (n : NsMap) (t tl : Option Str)
    (q' : QN) (a' : List (QN × Str)) (n' : NsMap) (t' tl' : Option Str) (c' : List Tree) :
    wildValue e Γ cfg var (.node q a n t [.node q' a' n' t' c' tl'] tl)
      = .ok (.any (some q) (anyText e.py var.nillable true t) (normalizeContent e.py tl) (parseAnyAttributes a n)
          [.any (some q') (anyText e.py var.nillable (!c'.isEmpty) t') (normalizeContent e.py tl')
            (parseAnyAttributes a' n') (anyOfList e.py var.nillable c')]) := by
  rw [wildValue_eq e Γ cfg var hw]
  simp [anyOf, anyOfList]

/-- the document of the seeded regression: `p` is bound to `urn:p1` on the captured element and
re-bound to `urn:p2` two levels down, where `xs`/`xsi` are declared for the first time -/
def nsOuter : NsMap := [(some (s "o"), s "urn:o"), (some (s "p"), s "urn:p1")]
def nsC : NsMap := nsOuter ++ [(some (s "xs"), xsNs), (some (s "xsi"), xsiNs)]
def nsD : NsMap := [(some (s "o"), s "urn:o"), (some (s "p"), s "urn:p2")]
def scopedTree : Tree :=
  .node (s "{urn:o}a") [(s "kind", s "p:outer")] nsOuter none
    [.node (s "{urn:o}b") [] nsOuter none
      [.node (s "{urn:o}c") [(xsiType, s "xs:int")] nsC (some (s "5")) [] none,
       .node (s "{urn:o}d") [(s "ref", s "p:thing")] nsD (some (s "t")) [] none] none] none

def grandAttrs : Val → List (List (QN × Str))
  | .any _ _ _ _ [.any _ _ _ _ kids] => kids.map (fun k => match k with | .any _ _ _ a _ => a | _ => [])
  | _ => []

/-- each nested value is expanded in its own scope, by a wildcard field and by `TreeParser` alike -/
theorem scoped_prefixes_witness :
    (wildValue e0 Γ0 {} var0 scopedTree).map grandAttrs
      = .ok [[(xsiType, ['{'] ++ xsNs ++ s "}int")], [(s "ref", s "{urn:p2}thing")]] ∧
    (treeParse e0 Γ0 {} scopedTree).map grandAttrs
      = .ok [[(xsiType, ['{'] ++ xsNs ++ s "}int")], [(s "ref", s "{urn:p2}thing")]] :=
  ⟨by rfl, by rfl⟩

/-! ### 5. xsi:type'd primitives as wildcard content (`StandardNode` / `DerivedElement`) -/

/-- the object a `StandardNode` leaves for the tail of its element in mixed content -/
def tailObjs (e : Env) (tl : Option Str) : Objs :=
  match normalizeContent e tl with
  | some t => [(none, .prim (.str t))]
  | none => []

/-- **standard_mixed_tail.** In mixed content a `StandardNode` (an element with `xsi:type` naming
a builtin datatype) leaves, after the value it leaves anyway, the tail text of its element —
exactly what `PrimitiveNode` does; outside mixed content nothing changes. -/
theorem standard_mixed_tail (e : BEnv) (Γ : Ctx) (cfg : ParserConfig) (var : XmlVar) (dt : PT) (ns : NsMap)
    (nillable derived : Bool) (q : QN) (a : List (QN × Str)) (n : NsMap) (t tl : Option Str) (out : Out)
    (h : parseNode e Γ cfg (.standard var dt ns nillable derived false) (.node q a n t [] tl) = .ok out) :
    parseNode e Γ cfg (.standard var dt ns nillable derived true) (.node q a n t [] tl)
      = .ok ⟨out.objs ++ tailObjs e.py tl, out.warns⟩ := by
  simp only [parseNode, List.isEmpty_nil, Bool.not_true, Bool.false_eq_true, if_false, bind, Except.bind,
    pure, Except.pure] at h ⊢
  cases hp : parseVar e cfg var.toVarCore t ns (some [.prim dt]) with
  | error err => simp [hp] at h
  | ok r =>
    simp only [hp] at h ⊢
    injection h with h
    subst h
    simp only [tailObjs, if_true, List.append_nil]
    cases normalizeContent e.py tl <;> rfl

example : parseNode e0 Γ0 {} (.standard var0 .str [] false true false) (.node (s "y") [] [] (some (s "v")) [] (some (s "tail")))
    = .ok ⟨[(some (s "y"), .derived (s "y") (.prim (.str (s "v"))) none)], 0⟩ := by rfl

/-- concrete: `<y xsi:type="xs:string">v</y>tail` in mixed content -/
theorem standard_mixed_tail_kept :
    parseNode e0 Γ0 {} (.standard var0 .str [] false true true) (.node (s "y") [] [] (some (s "v")) [] (some (s "tail")))
      = .ok ⟨[(some (s "y"), .derived (s "y") (.prim (.str (s "v"))) none), (none, .prim (.str (s "tail")))], 0⟩ := by
  rfl

/-- **choice_wildcard_derived.** In a compound field a `DerivedElement` whose name is matched by
a *wildcard* choice is rendered by `convert_any_type` with that choice, i.e. exactly as a wildcard
field renders it … -/
theorem choice_wildcard_derived (e : BEnv) (Γ : Ctx) (cfg : SerCfg) (fuel : Nat) (var choice : XmlVar)
    (q : QN) (v : Val) (ty : Option QN) (ns : Option Str)
    (hc : var.findChoice q = some choice) (hw : choice.isWildcard = true) :
    genChoice e Γ cfg (fuel + 1) (.derived q v ty) var ns
      = genAnyType e Γ cfg fuel (.derived q v ty) choice ns := by
  simp [genChoice, hc, hw]

/-- … so an xsi:type'd primitive keeps its element name and its `xsi:type` (it used to be written
under the placeholder name `any` of the wildcard choice, without type). -/
theorem choice_wildcard_primitive (e : BEnv) (Γ : Ctx) (cfg : SerCfg) (fuel : Nat) (var choice : XmlVar)
    (q : QN) (p : PVal) (ty : Option QN) (ns : Option Str) (d : Data)
    (hc : var.findChoice q = some choice) (hw : choice.isWildcard = true)
    (hd : encodePrimitive (.prim p) = .ok d) :
    genChoice e Γ cfg (fuel + 2) (.derived q (.prim p) ty) var ns
      = .ok [Ev.start q, Ev.attr xsiType (.prim (.qname (datatypeOf p))), Ev.data d, Ev.end q] := by
  rw [choice_wildcard_derived e Γ cfg (fuel + 1) var choice q _ ty ns hc hw]
  simp [genAnyType, hd, bind, Except.bind, pure, Except.pure]

/-- a compound var with a literal choice `known` and a `##any` wildcard choice -/
def core0 : VarCore := var0.toVarCore
def coreKnown : VarCore := { core0 with kind := VarKind.element, qname := s "known", types := [TypeRef.prim PT.str] }
def coreAny : VarCore := { core0 with qname := s "any", namespaces := [anyNs] }
def varChoice : XmlVar :=
  { toVarCore := { core0 with kind := VarKind.elements, listElement := true }
    elements := [(s "known", coreKnown)]
    wildcards := [coreAny] }

example : (varChoice.findChoice (s "{urn:x}z")).map (·.isWildcard) = some true := by decide
example : encodePrimitive (.prim (.bool true)) = .ok (.prim (.str (s "true"))) := by rfl

theorem choice_wildcard_primitive_witness :
    genChoice e0 Γ0 {} 2 (.derived (s "{urn:x}z") (.prim (.bool true)) none) varChoice none
      = .ok [Ev.start (s "{urn:x}z"), Ev.attr xsiType (.prim (.qname (datatypeOf (.bool true)))),
             Ev.data (.prim (.str (s "true"))), Ev.end (s "{urn:x}z")] := by rfl

end Props.C11
