/- C13 helper lemmas: what `add_attribute` records about the children of one element. -/
import XsdataModel.Proofs.SamplesReduce

namespace Xs.Samples
open Py

/-- the attr that answers to `k`'s key, if any -/
def lookup (l : List Attr) (k : Attr) : Option Attr := l.find? (fun m => m.same k)

theorem mem_addAttribute {l : List Attr} {a y : Attr} (h : y ∈ addAttribute l a) : y.same a = true ∨ y ∈ l := by
  induction l with
  | nil => simp [addAttribute] at h; subst h; exact Or.inl (same_refl _)
  | cons ex rest ih =>
    simp only [addAttribute] at h
    split at h
    · rename_i hs
      simp only [List.mem_cons] at h
      rcases h with rfl | h
      · left; simpa [Attr.same] using hs
      · right; simp [h]
    · simp only [List.mem_cons] at h
      rcases h with rfl | h
      · right; simp
      · rcases ih h with h | h
        · exact Or.inl h
        · right; simp [h]

theorem addAttribute_nodup {l : List Attr} (a : Attr) (h : NodupKeys l) : NodupKeys (addAttribute l a) := by
  induction l with
  | nil => simp [addAttribute, NodupKeys]
  | cons ex rest ih =>
    simp only [NodupKeys, List.pairwise_cons] at h
    simp only [addAttribute]
    split
    · simp only [NodupKeys, List.pairwise_cons]
      refine ⟨?_, h.2⟩
      intro y hy
      simpa [Attr.same] using h.1 y hy
    · rename_i hs
      simp only [NodupKeys, List.pairwise_cons]
      refine ⟨?_, ih h.2⟩
      intro y hy
      rcases mem_addAttribute hy with hy | hy
      · cases hexy : ex.same y
        · rfl
        · exact absurd (same_trans hexy hy) hs
      · exact h.1 y hy

theorem same_congr_right {x k : Attr} (a : Attr) (h : x.same k = true) : a.same x = a.same k := by
  cases h1 : a.same x <;> cases h2 : a.same k <;> simp_all
  · exact absurd (same_trans h2 (same_symm h)) (by simp [h1])
  · exact absurd (same_trans h1 h) (by simp [h2])

/-- an attr with `k`'s key: what `lookup` finds afterwards -/
theorem lookup_add_same (l : List Attr) {x k : Attr} (h : x.same k = true) :
    ∃ r, lookup (addAttribute l x) k = some r ∧
      match lookup l k with
      | some a0 => r.min = a0.min ∧ r.max = maxsize
      | none => r = x := by
  induction l with
  | nil => exact ⟨x, by simp [lookup, addAttribute, h], by simp [lookup]⟩
  | cons ex rest ih =>
    simp only [addAttribute]
    by_cases hs : ex.same x = true
    · have hk : ex.same k = true := same_trans hs h
      simp only [hs, if_true]
      have hk' : ({ ex with max := maxsize, types := uniqueByQName (ex.types ++ x.types) } : Attr).same k = true := by
        simpa [Attr.same] using hk
      refine ⟨{ ex with max := maxsize, types := uniqueByQName (ex.types ++ x.types) }, ?_, ?_⟩
      · simp only [lookup, List.find?_cons, hk']
      · simp [lookup, List.find?_cons, hk]
    · have hk : ex.same k = false := by
        cases hk : ex.same k
        · rfl
        · exact absurd (same_trans hk (same_symm h)) hs
      obtain ⟨r, hr, hm⟩ := ih
      simp only [hs]
      refine ⟨r, by simpa [lookup, List.find?_cons, hk] using hr, ?_⟩
      simpa [lookup, List.find?_cons, hk] using hm

/-- an attr with another key leaves `k`'s entry alone -/
theorem lookup_add_other (l : List Attr) {x k : Attr} (h : x.same k = false) :
    lookup (addAttribute l x) k = lookup l k := by
  induction l with
  | nil => simp [lookup, addAttribute, h]
  | cons ex rest ih =>
    simp only [addAttribute]
    by_cases hs : ex.same x = true
    · have hk : ex.same k = false := by
        cases hk : ex.same k
        · rfl
        · have := same_trans (same_symm hs) hk; simp [h] at this
      simp only [hs, if_true, lookup, List.find?_cons]
      have : ({ ex with max := maxsize, types := uniqueByQName (ex.types ++ x.types) } : Attr).same k = false := by
        simpa [Attr.same] using hk
      simp [this, hk]
    · simp only [hs, lookup, List.find?_cons]
      cases hk : ex.same k
      · simpa [lookup, hk] using ih
      · simp [hk]

/-- **occurrence counting.** After the children `xs` (freshly built attrs: `max = 1`,
`min ≤ 1`) went through `add_attribute`, the entry for a key reflects how many children
carry it: none → no entry; one → `max = 1`; several → `max = sys.maxsize`. -/
theorem addAttribute_fold_count (xs : List Attr) (hx : ∀ a ∈ xs, a.min ≤ 1 ∧ a.max = 1) (k : Attr) :
    ∀ acc : List Attr,
      match lookup acc k with
      | some a0 => ∃ r, lookup (xs.foldl addAttribute acc) k = some r ∧ r.min = a0.min ∧
          r.max = if xs.countP (fun x => x.same k) = 0 then a0.max else maxsize
      | none =>
          if xs.countP (fun x => x.same k) = 0 then lookup (xs.foldl addAttribute acc) k = none
          else ∃ r, lookup (xs.foldl addAttribute acc) k = some r ∧ r.min ≤ 1 ∧
            r.max = if xs.countP (fun x => x.same k) = 1 then 1 else maxsize := by
  induction xs with
  | nil =>
    intro acc
    cases h : lookup acc k with
    | some a0 => exact ⟨a0, by simpa using h, rfl, by simp⟩
    | none => simpa using h
  | cons x rest ih =>
    intro acc
    have hrest : ∀ a ∈ rest, a.min ≤ 1 ∧ a.max = 1 := fun a ha => hx a (by simp [ha])
    have hxx := hx x (by simp)
    have ih' := ih hrest (addAttribute acc x)
    simp only [List.foldl_cons, List.countP_cons]
    by_cases hs : x.same k = true
    · obtain ⟨r0, hr0, hm⟩ := lookup_add_same acc hs
      rw [hr0] at ih'
      simp only at ih'
      obtain ⟨r, hr, hmin, hmax⟩ := ih'
      simp only [hs, if_true]
      cases h : lookup acc k with
      | some a0 =>
        rw [h] at hm
        simp only at hm ⊢
        refine ⟨r, hr, by rw [hmin, hm.1], ?_⟩
        rw [hmax, hm.2]; simp
      | none =>
        rw [h] at hm
        simp only at hm ⊢
        subst hm
        have : ¬ (List.countP (fun x => x.same k) rest + 1 = 0) := by omega
        simp only [this, if_false]
        refine ⟨r, hr, by rw [hmin]; exact hxx.1, ?_⟩
        rw [hmax, hxx.2]
        by_cases hc : List.countP (fun x => x.same k) rest = 0 <;> simp [hc]
    · have hs' : x.same k = false := by simpa using hs
      rw [lookup_add_other acc hs'] at ih'
      simpa [hs'] using ih'

theorem fold_nodup (xs : List Attr) : ∀ acc, NodupKeys acc → NodupKeys (xs.foldl addAttribute acc) := by
  induction xs with
  | nil => intro acc h; simpa using h
  | cons x rest ih => intro acc h; simpa using ih _ (addAttribute_nodup x h)


end Xs.Samples
