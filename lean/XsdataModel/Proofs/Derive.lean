/-
Helper lemmas for C02, part 6: derived complex types (`Gen/Derive`).

* `validate_override` never narrows: the field a class derived by restriction ends up with is a
  list whenever its own declaration asks for one, and is optional / prohibited exactly when its
  own declaration is; the base class field never stops being a list;
* extension: the inherited fields and the own fields, each computed from its own content model,
  are sound for the content model `sequence(base, extension)` of the derived type.
-/
import XsdataModel.Gen.Derive
import XsdataModel.Proofs.OccursBasic
import XsdataModel.Proofs.OccursSound

namespace Xs.Gen
open Py

theorem validateOverride_cases (c p : OAttr) :
    let cp : OAttr × OAttr :=
      if c.isList && !p.isList && !p.isProhibited then (c, { p with max := maxsize })
      else if !c.isList && !c.isProhibited && p.isList then ({ c with max := p.max }, p)
      else (c, p)
    validateOverride c p =
      if cp.1.default = cp.2.default && cp.1.fixed = cp.2.fixed &&
          cp.1.isProhibited = cp.2.isProhibited && cp.1.isOptional = cp.2.isOptional
      then (none, cp.2) else (some cp.1, cp.2) := rfl

theorem nat_three (n : Nat) : n = 0 ∨ n = 1 ∨ ∃ k, n = k + 2 := by
  rcases n with _ | _ | k
  · exact Or.inl rfl
  · exact Or.inr (Or.inl rfl)
  · exact Or.inr (Or.inr ⟨k, rfl⟩)

theorem nat_two (n : Nat) : n = 0 ∨ ∃ k, n = k + 1 := by
  rcases n with _ | k
  · exact Or.inl rfl
  · exact Or.inr ⟨k, rfl⟩

/-- the four statements at once; case analysis: bounds `0 | 1 | ≥ 2`, minima `0 | ≥ 1`, equal or
different default / fixed -/
theorem override_facts (cmn cmx pmn pmx : Nat) (cd pd : Option Str) (cf pf : Bool) :
    ((OAttr.mk cmn cmx cd cf).isList = true →
      (effective (OAttr.mk cmn cmx cd cf) (OAttr.mk pmn pmx pd pf)).isList = true) ∧
    (effective (OAttr.mk cmn cmx cd cf) (OAttr.mk pmn pmx pd pf)).isOptional =
      (OAttr.mk cmn cmx cd cf).isOptional ∧
    (effective (OAttr.mk cmn cmx cd cf) (OAttr.mk pmn pmx pd pf)).isProhibited =
      (OAttr.mk cmn cmx cd cf).isProhibited ∧
    ((OAttr.mk pmn pmx pd pf).isList = true →
      (validateOverride (OAttr.mk cmn cmx cd cf) (OAttr.mk pmn pmx pd pf)).2.isList = true) := by
  have hm := maxsize_gt_one
  have hm0 : ¬ maxsize = 0 := by omega
  rcases nat_three cmx with rfl | rfl | ⟨kc, rfl⟩ <;> rcases nat_three pmx with rfl | rfl | ⟨kp, rfl⟩ <;>
    rcases nat_two cmn with rfl | ⟨jc, rfl⟩ <;> rcases nat_two pmn with rfl | ⟨jp, rfl⟩ <;>
    by_cases a7 : cd = pd <;> by_cases a8 : cf = pf <;>
    simp_all [effective, validateOverride, OAttr.isList, OAttr.isProhibited, OAttr.isOptional]

theorem effective_list (c p : OAttr) (h : c.isList = true) : (effective c p).isList = true :=
  (override_facts c.min c.max p.min p.max c.default p.default c.fixed p.fixed).1 h

theorem effective_optional (c p : OAttr) : (effective c p).isOptional = c.isOptional :=
  (override_facts c.min c.max p.min p.max c.default p.default c.fixed p.fixed).2.1

theorem effective_prohibited (c p : OAttr) : (effective c p).isProhibited = c.isProhibited :=
  (override_facts c.min c.max p.min p.max c.default p.default c.fixed p.fixed).2.2.1

theorem parent_stays_list (c p : OAttr) (h : p.isList = true) :
    (validateOverride c p).2.isList = true :=
  (override_facts c.min c.max p.min p.max c.default p.default c.fixed p.fixed).2.2.2 h

/-! ### extension -/

theorem occurs_name_mem {p : Particle} (hd : (names p).Nodup) {s : Site}
    (hs : s ∈ occurs (sites p)) : s.name ∈ names p := by
  obtain ⟨s', hs', hname, _, _⟩ := mem_occurs_sites hd hs
  rw [hname, ← sitesAux_names p [] 1]
  exact List.mem_map.2 ⟨s', hs', rfl⟩

theorem matches_pair {pa pb : Particle} {w : List Str} (hw : Matches (.seq 1 1 [pa, pb]) w) :
    ∃ a b, Matches pa a ∧ Matches pb b ∧ w = a ++ b := by
  obtain ⟨ws, hrep, hall, rfl⟩ := matches_seq.1 hw
  have h1 := repOK_le hrep (Nat.le_refl 1)
  have h2 := hrep.1
  obtain ⟨x, rfl⟩ := List.length_eq_one_iff.1 (by omega : ws.length = 1)
  obtain ⟨a, r, ha, hr, hx⟩ := seqOnce_cons.1 (hall x List.mem_cons_self)
  obtain ⟨b, r', hb, hr', rfl⟩ := seqOnce_cons.1 hr
  rw [seqOnce_nil.1 hr', List.append_nil] at hx
  exact ⟨a, b, ha, hb, by simp [hx]⟩

theorem extension_nonlist_core (pa pb : Particle) (hd : (names pa ++ names pb).Nodup)
    (w : List Str) (hw : Matches (.seq 1 1 [pa, pb]) w)
    (s : Site) (hs : s ∈ occurs (sites pa) ++ occurs (sites pb)) (hl : s.isList = false) :
    w.count s.name ≤ 1 := by
  obtain ⟨a, b, hma, hmb, rfl⟩ := matches_pair hw
  have hda := nodup_append_left hd
  have hdb := nodup_append_right hd
  rw [List.count_append]
  rcases List.mem_append.1 hs with hs | hs
  · have hmem := occurs_name_mem hda hs
    rw [count_zero pb s.name (nodup_append_notMem_right hd hmem) b hmb, Nat.add_zero]
    exact nonlist_sound_core pa hda a hma s hs hl
  · have hmem := occurs_name_mem hdb hs
    rw [count_zero pa s.name (nodup_append_notMem_left hd hmem) a hma, Nat.zero_add]
    exact nonlist_sound_core pb hdb b hmb s hs hl

theorem extension_required_core (pa pb : Particle) (hd : (names pa ++ names pb).Nodup)
    (hwa : wf pa = true) (hwb : wf pb = true)
    (w : List Str) (hw : Matches (.seq 1 1 [pa, pb]) w)
    (s : Site) (hs : s ∈ occurs (sites pa) ++ occurs (sites pb)) (hr : 1 ≤ s.min)
    (hl : s.isList = false) : w.count s.name = 1 := by
  obtain ⟨a, b, hma, hmb, rfl⟩ := matches_pair hw
  have hda := nodup_append_left hd
  have hdb := nodup_append_right hd
  rw [List.count_append]
  rcases List.mem_append.1 hs with hs | hs
  · have hmem := occurs_name_mem hda hs
    rw [count_zero pb s.name (nodup_append_notMem_right hd hmem) b hmb, Nat.add_zero]
    exact required_sound_core pa hda hwa a hma s hs hr hl
  · have hmem := occurs_name_mem hdb hs
    rw [count_zero pa s.name (nodup_append_notMem_left hd hmem) a hma, Nat.zero_add]
    exact required_sound_core pb hdb hwb b hmb s hs hr hl

end Xs.Gen
