/- `toposort_flatten` only depends on the mapping item ↦ dependency *set*,
not on the dict order nor on the order inside the dependency sets. -/
import XsdataModel.Codegen.Toposort
import XsdataModel.Proofs.SortPerm

namespace Xs.Codegen
open Py List

/-! ### small list facts -/

theorem mem_dedup {x : Str} : ∀ {l : List Str}, x ∈ dedup l ↔ x ∈ l
  | [] => by simp [dedup]
  | y :: ys => by
    simp only [dedup, List.mem_cons, List.mem_filter, mem_dedup (l := ys)]
    constructor
    · rintro (h | ⟨h, _⟩)
      · exact Or.inl h
      · exact Or.inr h
    · rintro (h | h)
      · exact Or.inl h
      · by_cases hxy : x = y
        · exact Or.inl hxy
        · exact Or.inr ⟨h, by simpa using hxy⟩

theorem nodup_dedup : ∀ (l : List Str), (dedup l).Nodup
  | [] => by simp [dedup]
  | y :: ys => by
    simp only [dedup, List.nodup_cons, List.mem_filter]
    refine ⟨?_, (nodup_dedup ys).sublist List.filter_sublist⟩
    rintro ⟨_, h⟩
    simp at h

theorem dhas_iff {β} (d : List (Str × β)) (x : Str) : dhas d x = true ↔ x ∈ d.map (·.1) := by
  unfold dhas dget
  induction d with
  | nil => simp [List.lookup]
  | cons kv rest ih =>
    obtain ⟨k, v⟩ := kv
    simp only [List.lookup, List.map_cons, List.mem_cons]
    by_cases h : x = k
    · subst h; simp
    · have : (x == k) = false := by simpa using h
      simp [this, ih, h]

theorem eq_nil_of_same_mem {α} {l l' : List α} (h : ∀ x, x ∈ l ↔ x ∈ l') (hl : l = []) : l' = [] := by
  subst hl
  cases l' with
  | nil => rfl
  | cons a t => exact absurd ((h a).2 List.mem_cons_self) (by simp)

theorem isEmpty_eq_of_same_mem {α} {l l' : List α} (h : ∀ x, x ∈ l ↔ x ∈ l') :
    l.isEmpty = l'.isEmpty := by
  cases l with
  | nil => simp [eq_nil_of_same_mem h rfl]
  | cons a t =>
    cases l' with
    | nil => exact absurd ((h a).1 List.mem_cons_self) (by simp)
    | cons b u => rfl

/-! ### equivalence of dependency dicts -/

/-- `d` and `d'` are the same mapping item ↦ *set* of dependencies (a Python
dict has unique keys; dict order and the order/multiplicity inside each value
are free). -/
structure DepsEquiv (d d' : Deps) : Prop where
  nodup : (d.map (·.1)).Nodup
  nodup' : (d'.map (·.1)).Nodup
  fwd : ∀ k ds, (k, ds) ∈ d → ∃ ds', (k, ds') ∈ d' ∧ ∀ x, x ∈ ds ↔ x ∈ ds'
  bwd : ∀ k ds', (k, ds') ∈ d' → ∃ ds, (k, ds) ∈ d ∧ ∀ x, x ∈ ds ↔ x ∈ ds'

theorem DepsEquiv.symm {d d' : Deps} (h : DepsEquiv d d') : DepsEquiv d' d :=
  ⟨h.nodup', h.nodup,
   fun k ds' hk => by
     obtain ⟨ds, h1, h2⟩ := h.bwd k ds' hk
     exact ⟨ds, h1, fun x => (h2 x).symm⟩,
   fun k ds hk => by
     obtain ⟨ds', h1, h2⟩ := h.fwd k ds hk
     exact ⟨ds', h1, fun x => (h2 x).symm⟩⟩

theorem DepsEquiv.keys_mem {d d' : Deps} (h : DepsEquiv d d') (k : Str) :
    k ∈ d.map (·.1) ↔ k ∈ d'.map (·.1) := by
  simp only [List.mem_map]
  constructor
  · rintro ⟨⟨k1, ds⟩, hm, rfl⟩
    obtain ⟨ds', h1, _⟩ := h.fwd k1 ds hm
    exact ⟨(k1, ds'), h1, rfl⟩
  · rintro ⟨⟨k1, ds'⟩, hm, rfl⟩
    obtain ⟨ds, h1, _⟩ := h.bwd k1 ds' hm
    exact ⟨(k1, ds), h1, rfl⟩

theorem DepsEquiv.length_eq {d d' : Deps} (h : DepsEquiv d d') : d.length = d'.length := by
  have := ((List.perm_ext_iff_of_nodup h.nodup h.nodup').2 h.keys_mem).length_eq
  simpa using this

theorem DepsEquiv.isEmpty_eq {d d' : Deps} (h : DepsEquiv d d') : d.isEmpty = d'.isEmpty := by
  have := h.length_eq
  cases d <;> cases d' <;> simp_all

/-- the items without remaining dependencies -/
def readyOf (d : Deps) : List Str := (d.filter (·.2.isEmpty)).map (·.1)

/-- the dict of the next round -/
def restOf (d : Deps) (ordered : List Str) : Deps :=
  (d.filter (fun kv => !kv.2.isEmpty)).map
    (fun kv => (kv.1, kv.2.filter (fun x => !ordered.contains x)))

theorem readyOf_nodup {d : Deps} (h : (d.map (·.1)).Nodup) : (readyOf d).Nodup :=
  h.sublist (List.filter_sublist.map _)

theorem mem_readyOf {d : Deps} {k : Str} : k ∈ readyOf d ↔ (k, []) ∈ d := by
  unfold readyOf
  simp only [List.mem_map, List.mem_filter]
  constructor
  · rintro ⟨⟨k1, ds⟩, ⟨hm, he⟩, rfl⟩
    have : ds = [] := by simpa using he
    subst this; exact hm
  · intro h; exact ⟨(k, []), ⟨h, rfl⟩, rfl⟩

theorem DepsEquiv.ready_mem {d d' : Deps} (h : DepsEquiv d d') (k : Str) :
    k ∈ readyOf d ↔ k ∈ readyOf d' := by
  rw [mem_readyOf, mem_readyOf]
  constructor
  · intro hk
    obtain ⟨ds', h1, h2⟩ := h.fwd k [] hk
    have : ds' = [] := eq_nil_of_same_mem h2 rfl
    subst this; exact h1
  · intro hk
    obtain ⟨ds, h1, h2⟩ := h.bwd k [] hk
    have : ds = [] := eq_nil_of_same_mem (fun x => (h2 x).symm) rfl
    subst this; exact h1

theorem DepsEquiv.sorted_ready {d d' : Deps} (h : DepsEquiv d d') :
    pySorted (readyOf d) = pySorted (readyOf d') :=
  pySorted_ext (readyOf_nodup h.nodup) (readyOf_nodup h.nodup') h.ready_mem

theorem restOf_keys_nodup {d : Deps} (o : List Str) (h : (d.map (·.1)).Nodup) :
    ((restOf d o).map (·.1)).Nodup := by
  unfold restOf
  rw [List.map_map]
  exact h.sublist (List.filter_sublist.map _)

theorem mem_restOf {d : Deps} {o : List Str} {k : Str} {r : List Str} :
    (k, r) ∈ restOf d o ↔ ∃ ds, (k, ds) ∈ d ∧ ds ≠ [] ∧ r = ds.filter (fun x => !o.contains x) := by
  unfold restOf
  simp only [List.mem_map, List.mem_filter]
  constructor
  · rintro ⟨⟨k1, ds⟩, ⟨hm, hne⟩, heq⟩
    simp only [Prod.mk.injEq] at heq
    obtain ⟨rfl, rfl⟩ := heq
    refine ⟨ds, hm, ?_, rfl⟩
    intro hnil; subst hnil; simp at hne
  · rintro ⟨ds, hm, hne, rfl⟩
    refine ⟨(k, ds), ⟨hm, ?_⟩, rfl⟩
    cases ds with
    | nil => exact absurd rfl hne
    | cons a t => rfl

theorem DepsEquiv.rest {d d' : Deps} (h : DepsEquiv d d') {o o' : List Str}
    (ho : ∀ x, x ∈ o ↔ x ∈ o') : DepsEquiv (restOf d o) (restOf d' o') := by
  have hc : ∀ x, o.contains x = o'.contains x := by
    intro x
    have := ho x
    by_cases hx : x ∈ o
    · have hx' := this.1 hx
      simp [hx, hx']
    · have hx' : x ∉ o' := fun hh => hx (this.2 hh)
      simp [hx, hx']
  refine ⟨restOf_keys_nodup o h.nodup, restOf_keys_nodup o' h.nodup', ?_, ?_⟩
  · intro k r hk
    obtain ⟨ds, hm, hne, rfl⟩ := mem_restOf.1 hk
    obtain ⟨ds', h1, h2⟩ := h.fwd k ds hm
    refine ⟨ds'.filter (fun x => !o'.contains x), mem_restOf.2 ⟨ds', h1, ?_, rfl⟩, ?_⟩
    · intro hnil; exact hne (eq_nil_of_same_mem (fun x => (h2 x).symm) hnil)
    · intro x; simp only [List.mem_filter, h2 x, hc x]
  · intro k r hk
    obtain ⟨ds', hm, hne, rfl⟩ := mem_restOf.1 hk
    obtain ⟨ds, h1, h2⟩ := h.bwd k ds' hm
    refine ⟨ds.filter (fun x => !o.contains x), mem_restOf.2 ⟨ds, h1, ?_, rfl⟩, ?_⟩
    · intro hnil; exact hne (eq_nil_of_same_mem h2 hnil)
    · intro x; simp only [List.mem_filter, h2 x, hc x]

theorem toposortLoop_unfold (n : Nat) (d : Deps) (acc : List Str) :
    toposortLoop (n + 1) d acc =
      if (readyOf d).isEmpty then (if d.isEmpty then some acc else none)
      else toposortLoop n (restOf d (readyOf d)) (acc ++ pySorted (readyOf d)) := by
  rfl

/-- the loop of `toposort` gives the same list for equivalent dicts -/
theorem toposortLoop_equiv : ∀ (n : Nat) {d d' : Deps} (acc : List Str),
    DepsEquiv d d' → toposortLoop n d acc = toposortLoop n d' acc
  | 0, d, d', acc, h => by
    simp only [toposortLoop, h.isEmpty_eq]
  | n + 1, d, d', acc, h => by
    rw [toposortLoop_unfold, toposortLoop_unfold]
    rw [isEmpty_eq_of_same_mem h.ready_mem, h.isEmpty_eq, h.sorted_ready]
    split
    · rfl
    · exact toposortLoop_equiv n _ (h.rest h.ready_mem)

/-! ### the preparation step -/

def stripSelf (data : Deps) : Deps := data.map (fun kv => (kv.1, kv.2.filter (· != kv.1)))

def extraOf (d : Deps) : List Str := dedup ((d.flatMap (·.2)).filter (fun x => !dhas d x))

theorem toposortPrep_eq (data : Deps) :
    toposortPrep data = stripSelf data ++ (extraOf (stripSelf data)).map (fun x => (x, [])) := rfl

theorem stripSelf_keys (data : Deps) : (stripSelf data).map (·.1) = data.map (·.1) := by
  unfold stripSelf; rw [List.map_map]; rfl

theorem mem_stripSelf {data : Deps} {k : Str} {r : List Str} :
    (k, r) ∈ stripSelf data ↔ ∃ ds, (k, ds) ∈ data ∧ r = ds.filter (· != k) := by
  unfold stripSelf
  simp only [List.mem_map]
  constructor
  · rintro ⟨⟨k1, ds⟩, hm, heq⟩
    simp only [Prod.mk.injEq] at heq
    obtain ⟨rfl, rfl⟩ := heq
    exact ⟨ds, hm, rfl⟩
  · rintro ⟨ds, hm, rfl⟩
    exact ⟨(k, ds), hm, rfl⟩

theorem DepsEquiv.strip {d d' : Deps} (h : DepsEquiv d d') : DepsEquiv (stripSelf d) (stripSelf d') := by
  refine ⟨by rw [stripSelf_keys]; exact h.nodup, by rw [stripSelf_keys]; exact h.nodup', ?_, ?_⟩
  · intro k r hk
    obtain ⟨ds, hm, rfl⟩ := mem_stripSelf.1 hk
    obtain ⟨ds', h1, h2⟩ := h.fwd k ds hm
    exact ⟨ds'.filter (· != k), mem_stripSelf.2 ⟨ds', h1, rfl⟩, fun x => by simp only [List.mem_filter, h2 x]⟩
  · intro k r hk
    obtain ⟨ds', hm, rfl⟩ := mem_stripSelf.1 hk
    obtain ⟨ds, h1, h2⟩ := h.bwd k ds' hm
    exact ⟨ds.filter (· != k), mem_stripSelf.2 ⟨ds, h1, rfl⟩, fun x => by simp only [List.mem_filter, h2 x]⟩

theorem mem_extraOf {d : Deps} {x : Str} :
    x ∈ extraOf d ↔ (∃ k ds, (k, ds) ∈ d ∧ x ∈ ds) ∧ x ∉ d.map (·.1) := by
  unfold extraOf
  rw [mem_dedup, List.mem_filter, List.mem_flatMap]
  constructor
  · rintro ⟨⟨⟨k, ds⟩, hm, hx⟩, hn⟩
    refine ⟨⟨k, ds, hm, hx⟩, ?_⟩
    intro hk
    have := (dhas_iff d x).2 hk
    simp [this] at hn
  · rintro ⟨⟨k, ds, hm, hx⟩, hn⟩
    refine ⟨⟨(k, ds), hm, hx⟩, ?_⟩
    cases hd : dhas d x with
    | false => rfl
    | true => exact absurd ((dhas_iff d x).1 hd) hn

theorem DepsEquiv.extra_mem {d d' : Deps} (h : DepsEquiv d d') (x : Str) :
    x ∈ extraOf d ↔ x ∈ extraOf d' := by
  rw [mem_extraOf, mem_extraOf, h.keys_mem x]
  constructor
  · rintro ⟨⟨k, ds, hm, hx⟩, hn⟩
    obtain ⟨ds', h1, h2⟩ := h.fwd k ds hm
    exact ⟨⟨k, ds', h1, (h2 x).1 hx⟩, hn⟩
  · rintro ⟨⟨k, ds', hm, hx⟩, hn⟩
    obtain ⟨ds, h1, h2⟩ := h.bwd k ds' hm
    exact ⟨⟨k, ds, h1, (h2 x).2 hx⟩, hn⟩

theorem withExtra_keys_nodup {d : Deps} (h : (d.map (·.1)).Nodup) :
    ((d ++ (extraOf d).map (fun x => (x, ([] : List Str)))).map (·.1)).Nodup := by
  rw [List.map_append, List.map_map]
  have hid : (extraOf d).map ((fun kv : Str × List Str => kv.1) ∘ fun x => (x, ([] : List Str))) = extraOf d := by
    simp [Function.comp_def]
  rw [hid, List.nodup_append]
  refine ⟨h, nodup_dedup _, ?_⟩
  intro a ha b hb hab
  subst hab
  exact (mem_extraOf.1 hb).2 ha

theorem DepsEquiv.prep {d d' : Deps} (h : DepsEquiv d d') :
    DepsEquiv (toposortPrep d) (toposortPrep d') := by
  rw [toposortPrep_eq, toposortPrep_eq]
  have hs := h.strip
  refine ⟨withExtra_keys_nodup hs.nodup, withExtra_keys_nodup hs.nodup', ?_, ?_⟩
  · intro k r hk
    rcases List.mem_append.1 hk with hk | hk
    · obtain ⟨r', h1, h2⟩ := hs.fwd k r hk
      exact ⟨r', List.mem_append.2 (Or.inl h1), h2⟩
    · simp only [List.mem_map, Prod.mk.injEq] at hk
      obtain ⟨x, hx, rfl, rfl⟩ := hk
      refine ⟨[], List.mem_append.2 (Or.inr ?_), fun _ => Iff.rfl⟩
      exact List.mem_map.2 ⟨x, (hs.extra_mem x).1 hx, rfl⟩
  · intro k r hk
    rcases List.mem_append.1 hk with hk | hk
    · obtain ⟨r', h1, h2⟩ := hs.bwd k r hk
      exact ⟨r', List.mem_append.2 (Or.inl h1), h2⟩
    · simp only [List.mem_map, Prod.mk.injEq] at hk
      obtain ⟨x, hx, rfl, rfl⟩ := hk
      refine ⟨[], List.mem_append.2 (Or.inr ?_), fun _ => Iff.rfl⟩
      exact List.mem_map.2 ⟨x, (hs.extra_mem x).2 hx, rfl⟩

/-- **`toposort_flatten` is a function of the dependency relation**, not of any
iteration order. -/
theorem toposortFlatten_equiv {d d' : Deps} (h : DepsEquiv d d') :
    toposortFlatten d = toposortFlatten d' := by
  unfold toposortFlatten
  have hp := h.prep
  simp only [hp.length_eq]
  exact toposortLoop_equiv _ _ hp

end Xs.Codegen

namespace Xs.Codegen
open Py List

/-- executable check of set equality of two lists -/
def sameSet (a b : List Str) : Bool := a.all (b.contains ·) && b.all (a.contains ·)

theorem sameSet_iff {a b : List Str} (h : sameSet a b = true) : ∀ x, x ∈ a ↔ x ∈ b := by
  unfold sameSet at h
  simp only [Bool.and_eq_true, List.all_eq_true, List.contains_iff_mem] at h
  intro x
  exact ⟨fun hx => h.1 x hx, fun hx => h.2 x hx⟩

/-- executable (decidable) form of `DepsEquiv` -/
def depsEquivB (d d' : Deps) : Bool :=
  decide (d.map (·.1)).Nodup && decide (d'.map (·.1)).Nodup &&
  d.all (fun kv => d'.any (fun kv' => kv.1 == kv'.1 && sameSet kv.2 kv'.2)) &&
  d'.all (fun kv' => d.any (fun kv => kv.1 == kv'.1 && sameSet kv.2 kv'.2))

theorem depsEquiv_of_check {d d' : Deps} (h : depsEquivB d d' = true) : DepsEquiv d d' := by
  unfold depsEquivB at h
  simp only [Bool.and_eq_true, decide_eq_true_eq, List.all_eq_true, List.any_eq_true, beq_iff_eq] at h
  obtain ⟨⟨⟨h1, h2⟩, h3⟩, h4⟩ := h
  refine ⟨h1, h2, ?_, ?_⟩
  · intro k ds hk
    obtain ⟨⟨k', ds'⟩, hm, hk', hs⟩ := h3 (k, ds) hk
    simp only at hk' hs
    subst hk'
    exact ⟨ds', hm, sameSet_iff hs⟩
  · intro k ds' hk
    obtain ⟨⟨k', ds⟩, hm, hk', hs⟩ := h4 (k, ds') hk
    simp only at hk' hs
    subst hk'
    exact ⟨ds, hm, sameSet_iff hs⟩

end Xs.Codegen
