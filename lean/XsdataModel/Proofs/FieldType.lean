/- Helper lemmas for `Props/C02Types` (model: `Gen/FieldType`). -/
import XsdataModel.Gen.FieldType

namespace Xs.Gen
open Py

theorem mem_uniqueSeq (x : Str) (l : List Str) : x ∈ uniqueSeq l ↔ x ∈ l := by
  induction l with
  | nil => simp [uniqueSeq]
  | cons y ys ih =>
    simp only [uniqueSeq, List.mem_cons, List.mem_filter, ih]
    by_cases h : x = y <;> simp [h]

end Xs.Gen
