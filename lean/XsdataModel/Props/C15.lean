/- C15 — bad input fails cleanly: property theorems (only).
   Helper lemmas: `Proofs/C15NoLeak.lean`; concrete data: `Proofs/C15Witness.lean`. -/
import XsdataModel.Proofs.C15NoLeak
import XsdataModel.Proofs.C15Witness
import XsdataModel.Fault.Doc

namespace Props.C15
open Py Xs.Bind Xs.Fault Proofs.C15

/-! ## XML: tree level (`NodeParser` + nodes + `ParserUtils`) -/

/-- **no_leak_parse.** For every environment whose `is_ncname` rejects the empty string,
every class universe `Γ` (arbitrary exported metadata — no well-formedness of the
metadata is assumed), every parser configuration, every target class and EVERY element
tree, `NodeParser.parse` never ends in an exception type outside the documented set. -/
theorem no_leak_parse (e : BEnv) (he : e.isNCName [] = false) (Γ : Ctx) (cfg : ParserConfig)
    (c : ClassId) (t : Tree) (pyType : String) :
    parseRoot e Γ cfg c t ≠ .error (.leaked pyType) :=
  (parseRoot_clean e he Γ cfg c t).not_leaked pyType

example : Witness.env.isNCName [] = false := rfl

/-- **parse_outcome.** The exact list of outcomes of the tree-level parser: a value, or
`ParserError`, `ConverterError`, `XmlContextError`, or the model's marker `unsupported`
(the input left the modelled fragment: union nodes, callable defaults other than
list/tuple/dict, builtin datatypes other than str/int/bool/QName behind `xsi:type`,
list/dict values below a wildcard).  In particular never `SerializerError`. -/
theorem parse_outcome (e : BEnv) (he : e.isNCName [] = false) (Γ : Ctx) (cfg : ParserConfig)
    (c : ClassId) (t : Tree) :
    (∃ v w, parseRoot e Γ cfg c t = .ok (v, w)) ∨
    (∃ m, parseRoot e Γ cfg c t = .error (.parser m)) ∨
    parseRoot e Γ cfg c t = .error .converter ∨
    (∃ m, parseRoot e Γ cfg c t = .error (.context m)) ∨
    (∃ m, parseRoot e Γ cfg c t = .error (.unsupported m)) := by
  have h := parseRoot_clean e he Γ cfg c t
  cases hr : parseRoot e Γ cfg c t with
  | ok vw => exact .inl ⟨vw.1, vw.2, rfl⟩
  | error err =>
    rw [hr] at h
    cases err with
    | parser m => exact .inr (.inl ⟨m, rfl⟩)
    | converter => exact .inr (.inr (.inl rfl))
    | context m => exact .inr (.inr (.inr (.inl ⟨m, rfl⟩)))
    | unsupported m => exact .inr (.inr (.inr (.inr ⟨m, rfl⟩)))
    | serializer m => cases h
    | leaked m => cases h

/-- every documented class of `parse_outcome` is inhabited by a concrete faulty document
of a one-class universe (so the disjunction cannot be sharpened) -/
example :
    (parseRoot Witness.env Witness.ctx {} "Root".toList Witness.docValid).toBool = true ∧
    parseRoot Witness.env Witness.ctx {} "Root".toList Witness.docMissing = .error (.parser "Failed to create") ∧
    parseRoot Witness.env Witness.ctx {} "Root".toList Witness.docUnknown = .error (.parser "Unknown property") ∧
    parseRoot Witness.env Witness.ctx {} "Root".toList Witness.docBadXsi = .error .converter ∧
    parseRoot Witness.env Witness.ctx {} "Root".toList Witness.docNested
      = .error (.context "Primitive node doesn't support child nodes!") ∧
    parseRoot Witness.env Witness.ctx Witness.strict "Root".toList Witness.docMistyped
      = .error (.parser "Failed to convert value") :=
  ⟨rfl, rfl, rfl, rfl, rfl, rfl⟩

/-- The hypothesis of `no_leak_parse` is needed: were `is_ncname("")` true, the document
`<Root xsi:type=":"/>` would take `ParserUtils.xsi_type` into `build_qname(None, "")`,
whose `ValueError` nobody catches. -/
theorem no_leak_parse_needs_ncname :
    Witness.envBad.isNCName [] = true ∧
    parseRoot Witness.envBad Witness.ctx {} "Root".toList Witness.docColon = .error (.leaked "ValueError") :=
  ⟨rfl, rfl⟩

/-- **parse_total.** The model functions are total Lean functions (`parseNode`,
`parseKids`, `parseWild` recurse structurally on the tree, one call per element), so a
result exists for every input: the tree-level parser cannot hang.  (Stated for the
record; the content is that the definitions were accepted without `partial`.) -/
theorem parse_total (e : BEnv) (Γ : Ctx) (cfg : ParserConfig) (c : ClassId) (t : Tree) :
    ∃ r, parseRoot e Γ cfg c t = r := ⟨_, rfl⟩

/-! ## XML: byte level (`NodeParser.parse` around a tokenizer) -/

/-- the full-strength statement at the byte level: whatever the tokenizer does with the
bytes, only documented errors come out -/
def NoLeakDocument : Prop :=
  ∀ (e : BEnv), e.isNCName [] = false → ∀ (Γ : Ctx) (cfg : ParserConfig) (c : ClassId) (tok : Tok) (py : String),
    parseDocument e Γ cfg c tok ≠ .error (.leaked py)

/-- It is false of the code as it stands: `NodeParser.parse` only translates
`SyntaxError`; what pyexpat's unknown-encoding callback raises for
`<?xml version="1.0" encoding="UTF78"?>` (a `LookupError`) escapes as it is. -/
theorem no_leak_document_counterexample : ¬ NoLeakDocument := by
  intro h
  exact h Witness.env rfl Witness.ctx {} "Root".toList (.raised "LookupError") "LookupError" rfl

/-- the tokenizer outcomes outside the defect -/
def Tok.isRaised : Tok → Bool
  | .raised _ => true
  | _ => false

/-- **no_leak_document_partial.** As long as the tokenizer delivers events or fails with
its `SyntaxError`, the byte-level entry point never leaks; a document that is not
well-formed is always rejected with `ParserError`. -/
theorem no_leak_document_partial (e : BEnv) (he : e.isNCName [] = false) (Γ : Ctx) (cfg : ParserConfig)
    (c : ClassId) (tok : Tok) (htok : Tok.isRaised tok = false) (py : String) :
    parseDocument e Γ cfg c tok ≠ .error (.leaked py) := by
  cases tok with
  | tree t => exact no_leak_parse e he Γ cfg c t py
  | syntaxError => intro h; cases h
  | raised s => cases htok

example : Tok.isRaised (.tree Witness.docMissing) = false ∧ Tok.isRaised .syntaxError = false := ⟨rfl, rfl⟩

/-- not well-formed ⇒ rejected, with `ParserError` -/
theorem malformed_rejected (e : BEnv) (Γ : Ctx) (cfg : ParserConfig) (c : ClassId) :
    ∃ m, parseDocument e Γ cfg c .syntaxError = .error (.parser m) := ⟨_, rfl⟩

end Props.C15
