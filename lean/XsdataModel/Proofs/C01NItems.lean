/-
C01 (fragments F2…): one child element of an element var — `xsi:nil` items, primitive items,
token-list items — on the generator, writer and parser side.
-/
import XsdataModel.Proofs.C01NAttrs

namespace Proofs.C01
open Py Xs.Bind Xs.Bind.F1 Xs.Bind.FN

/-- what the proof needs to know about an element var (any feature set) -/
structure ElemFactsN (m : XmlMeta) (var : XmlVar) : Prop where
  isElem : var.kind = .element
  mixed : var.mixed = false
  anyType : var.anyType = false
  union : var.isClazzUnion = false
  qne : var.qname ≠ []
  index : 1 ≤ var.index
  find : m.elements.find? (·.1 = var.qname) = some (var.qname, [var])
  notWrapperName : m.wrappers.any (·.1 = var.qname) = false
  wrapOK : ∀ w, var.wrapperQName = some w → m.wrappers.any (·.1 = w) = true

/-- text of an element as an ElementTree builder sees it -/
def optText (s : Str) : Option Str := if s.isEmpty then none else some s

theorem treeSax_optText (M : NsMap) (q : QN) (A : List (QN × Str)) (s : Str) :
    treeSax (.node q A M (optText s) [] none) = Sax.open q A :: dataSax (some s) ++ [Sax.close q] := by
  unfold optText dataSax
  by_cases h : s.isEmpty = true <;> simp [h, treeSax, treesSax]

theorem treeSax_noText (M : NsMap) (q : QN) (A : List (QN × Str)) :
    treeSax (.node q A M none [] none) = Sax.open q A :: dataSax none ++ [Sax.close q] := by
  simp [treeSax, treesSax, dataSax]

/-- the child element written for one item `y` of a primitive var -/
def primItemTree (M : NsMap) (var : XmlVar) (y : Val) : Tree :=
  match y with
  | .prim p => .node var.qname [] M (optText (serPrim p)) [] none
  | .list ys =>
    .node var.qname (if ys.isEmpty then nilAttr var.nillable else []) M (optText (joinTok ys)) [] none
  | _ => .node var.qname (nilAttr var.nillable) M none [] none

/-- the child element of item `y` says `xsi:nil="true"` -/
def primItemNil (var : XmlVar) (y : Val) : Bool :=
  match y with
  | .prim _ => false
  | .list ys => ys.isEmpty && var.nillable
  | _ => var.nillable

/-- an item that `convert_element` writes as character data: `None`, a primitive, a token list -/
inductive PrimItem (e : BEnv) (var : XmlVar) (t : PT) : Val → Prop
  | none : var.nillable = true → PrimItem e var t .none
  | prim (p : PVal) : primHasType p t = true → PrimItem e var t (.prim p)
  | toks (ys : List Val) : var.tokens = true → Toks e t ys → PrimItem e var t (.list ys)

theorem convertElement_N {e : BEnv} {m : XmlMeta} {var : XmlVar} (hf : ElemFactsN m var) {t : PT}
    {y : Val} (hy : PrimItem e var t y) :
    ∃ d, encodePrimitive y = .ok d ∧
      convertElement var.toVarCore y =
        .ok ([Ev.start var.qname] ++ nilEvs (var.nillable && !y.truthy) ++ [Ev.data d] ++
          [Ev.end var.qname]) := by
  cases hy with
  | none hn =>
    exact ⟨.none, rfl, by simp [convertElement, hn, Val.truthy, nilEvs, encodePrimitive, bind,
      Except.bind, pure, Except.pure]⟩
  | prim p hpt =>
    refine ⟨_, encodePrimitive_prim hpt, ?_⟩
    simp only [convertElement, encodePrimitive_prim hpt, hf.anyType, nilEvs, bind, Except.bind, pure,
      Except.pure]
    cases hb : (var.nillable && !(Val.prim p).truthy) <;> simp
  | toks ys _ hys =>
    refine ⟨_, encodePrimitive_toks hys, ?_⟩
    simp only [convertElement, encodePrimitive_toks hys, nilEvs, bind, Except.bind, pure, Except.pure]
    cases hb : (var.nillable && !(Val.list ys).truthy) <;> simp

/-- writer: the events of a primitive-like item fold into its child tree -/
theorem primItem_SubW {e : BEnv} {Γ : Ctx} (M : NsMap) {var : XmlVar} {t : PT} {y : Val}
    (hy : PrimItem e var t y) {d : Data} (hd : encodePrimitive y = .ok d) :
    SubW M (isDatatype Γ) ([Ev.start var.qname] ++ nilEvs (var.nillable && !y.truthy) ++ [Ev.data d] ++
        [Ev.end var.qname]) (treeSax (primItemTree M var y)) := by
  cases hy with
  | none hn =>
    cases hd
    have := SubW_elem_dataN (M := M) (isDt := isDatatype Γ) var.qname (nilEvs true) [] true .none
      none rfl (by simpa using AttrsW_nilAttr M (isDatatype Γ) true) (by simp)
    simpa [primItemTree, treeSax_noText, hn, Val.truthy] using this
  | prim p hpt =>
    rw [encodePrimitive_prim hpt] at hd; cases hd
    have := SubW_elem_dataN (M := M) (isDt := isDatatype Γ) var.qname
      (nilEvs (var.nillable && !(Val.prim p).truthy)) [] (var.nillable && !(Val.prim p).truthy)
      (.prim (.str (serPrim p))) (some (serPrim p)) rfl
      (by simpa using AttrsW_nilAttr M (isDatatype Γ) _) (by simp)
    simpa [primItemTree, treeSax_optText] using this
  | toks ys _ hys =>
    rw [encodePrimitive_toks hys] at hd; cases hd
    have := SubW_elem_dataN (M := M) (isDt := isDatatype Γ) var.qname
      (nilEvs (var.nillable && !(Val.list ys).truthy)) [] (var.nillable && !(Val.list ys).truthy)
      (tokData ys) _ (encodeData_toks M hys)
      (by simpa using AttrsW_nilAttr M (isDatatype Γ) _) (by simp)
    cases ys with
    | nil =>
      simpa [primItemTree, treeSax_noText, Val.truthy, optText, joinTok, tokStrs, List.intercalate]
        using this
    | cons a l =>
      simpa [primItemTree, treeSax_optText, Val.truthy] using this


/-! ### parser -/

theorem joinTok_ne_nil {e : BEnv} {t : PT} {a : Val} {l : List Val} (h : Toks e t (a :: l)) :
    joinTok (a :: l) ≠ [] := by
  obtain ⟨p, rfl, hpt, hok⟩ := h a (by simp)
  have hne := (tokStr_serPrim e hpt hok).1
  simp only [joinTok, tokStrs, List.filterMap_cons, intercalate_eq_joinSp]
  cases hl : List.filterMap (fun y => match y with | Val.prim p => some (serPrim p) | _ => none) l with
  | nil => simpa [joinSp] using hne
  | cons u us => simp [joinSp, hne]

theorem buildNode_primN (e : BEnv) (Γ : Ctx) {m : XmlMeta} {var : XmlVar} (hf : ElemFactsN m var)
    (hcl : var.clazz = none) (a : List (QN × Str)) (M : NsMap) (ha : ∀ kv ∈ a, kv.1 ≠ xsiType) :
    buildNode e Γ m var.qname var a M = .ok (some (.primitive m var M (xsiNilOf a = some true))) := by
  simp [buildNode, hf.union, xsiTypeOf_none e a M ha, hcl, hf.anyType, VarCore.isWildcard, hf.isElem,
    bind, Except.bind, pure, Except.pure]

theorem nilAttr_noType (b : Bool) : ∀ kv ∈ nilAttr b, kv.1 ≠ xsiType := by
  intro kv hkv
  cases b
  · simp [nilAttr] at hkv
  · simp only [nilAttr, if_true, List.mem_singleton] at hkv
    subst hkv; decide

theorem parseNode_primN (e : BEnv) (Γ : Ctx) (pcfg : ParserConfig) {m : XmlMeta} {var : XmlVar}
    (hw : m.mixedContent = false) {t : PT} (hty : var.types = [.prim t]) (M : NsMap) {y : Val}
    (hy : PrimItem e var t y)
    (h1 : y = .none → var.default = .none ∨ (var.default = .listFactory ∧ var.tokens = false))
    (h2 : ∀ p, y = .prim p → var.tokens = false ∧ (p = .str [] →
      (var.default = .none ∨ var.default = .val (.str []) ∨ var.default = .listFactory)))
    (h3 : y = .list [] → var.default = .listFactory) :
    parseNode e Γ pcfg (.primitive m var M (primItemNil var y)) (primItemTree M var y) =
      .ok ⟨[(some var.qname, y)], 0⟩ := by
  cases hy with
  | none hn =>
    simp only [primItemTree]
    rw [parseNode]
    rcases h1 rfl with hd | ⟨hd, htk⟩ <;>
      simp [parseVar, hd, hn, primItemNil, hw, bind, Except.bind, pure, Except.pure, *]
  | prim p hpt =>
    obtain ⟨htok, hemp⟩ := h2 p rfl
    simp only [primItemTree]
    rw [parseNode]
    by_cases hs : serPrim p = []
    · have hp := (serPrim_eq_nil hpt).1 hs
      subst hp
      have hd := hemp rfl
      have ht : t = .str := by cases t <;> simp [primHasType] at hpt <;> rfl
      subst ht
      rcases hd with hd | hd | hd <;>
        simp [optText, serPrim, parseVar, hd, htok, hty, primItemNil, hw, bind,
          Except.bind, pure, Except.pure]
    · have : optText (serPrim p) = some (serPrim p) := by simp [optText, hs]
      rw [this, parseVar_serPrim e pcfg var.toVarCore p t M htok hty hpt]
      simp [hw, bind, Except.bind, pure, Except.pure]
  | toks ys htok hys =>
    simp only [primItemTree]
    rw [parseNode]
    cases ys with
    | nil =>
      simp [optText, joinTok, tokStrs, List.intercalate, parseVar, h3 rfl, htok, hw, bind, Except.bind, pure, Except.pure]
    | cons a l =>
      have : optText (joinTok (a :: l)) = some (joinTok (a :: l)) := by
        simp [optText, joinTok_ne_nil hys]
      rw [this, parseVar_toks e pcfg var.toVarCore M htok hty hys]
      simp [hw, bind, Except.bind, pure, Except.pure]

/-- a primitive-like item: generator + writer + parser -/
theorem itemP_prim (e : BEnv) (Γ : Ctx) (pcfg : ParserConfig) (M : NsMap) {m : XmlMeta} {var : XmlVar}
    (hf : ElemFactsN m var) (hw : m.mixedContent = false) (hcl : var.clazz = none) {t : PT}
    (hty : var.types = [.prim t]) {y : Val} (hy : PrimItem e var t y)
    (h1 : y = .none → var.default = .none ∨ (var.default = .listFactory ∧ var.tokens = false))
    (h2 : ∀ p, y = .prim p → var.tokens = false ∧ (p = .str [] →
      (var.default = .none ∨ var.default = .val (.str []) ∨ var.default = .listFactory)))
    (h3 : y = .list [] → var.default = .listFactory) :
    plain M (primItemTree M var y) = true ∧ ItemP e Γ pcfg M m var y (primItemTree M var y) := by
  have hp := parseNode_primN e Γ pcfg hw hty M hy h1 h2 h3
  have hnilEq : ∀ b : Bool, decide (xsiNilOf (nilAttr b) = some true) = b := by
    intro b; cases b <;> decide
  cases hy with
  | none hn =>
    refine ⟨by simp [primItemTree, plain, plainList], _, _, _, _, rfl,
      buildNode_primN e Γ hf hcl _ M (nilAttr_noType _), ?_⟩
    rw [hnilEq]; exact hp
  | prim p hpt =>
    exact ⟨by simp [primItemTree, plain, plainList], _, _, _, _, rfl,
      buildNode_primN e Γ hf hcl _ M (by simp), hp⟩
  | toks ys htok hys =>
    refine ⟨by simp [primItemTree, plain, plainList], _, _, _, _, rfl,
      buildNode_primN e Γ hf hcl _ M ?_, ?_⟩
    · intro kv hkv
      split at hkv
      · exact nilAttr_noType _ kv hkv
      · cases hkv
    · have : decide (xsiNilOf (if ys.isEmpty = true then nilAttr var.nillable else []) = some true) =
          primItemNil var (.list ys) := by
        cases hys' : ys.isEmpty
        · simp [primItemNil, hys', xsiNilOf]
        · simp only [hys', if_true, primItemNil, Bool.true_and]; exact hnilEq _
      rw [this]; exact hp

end Proofs.C01
