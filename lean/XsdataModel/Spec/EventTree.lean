/-
Spec — writer event sequences as trees.  `EventGenerator` produces its events
by recursive descent over the object graph, so every event list it yields is
the flattening of a forest: DATA items and elements (START, ATTR*, content,
END).  `Content` is that forest (first-child / next-sibling form, so that plain
structural induction works), `flatten` the event list.
-/
import XsdataModel.Xml.Writer

namespace Spec.EventTree
open Py Xs.Ns Xs.Sax Xs.Writer

inductive Content
  | nil
  /-- a DATA event, then the rest of the content -/
  | data (v : Val) (rest : Content)
  /-- START q, the ATTR events, the element's content, END q, then the rest -/
  | child (q : Str) (attrs : List (Str × Val)) (kids : Content) (rest : Content)
  deriving Repr

def attrEvents (attrs : List (Str × Val)) : List Ev := attrs.map fun a => Ev.attr a.1 a.2

def flatten : Content → List Ev
  | .nil => []
  | .data v rest => Ev.data v :: flatten rest
  | .child q attrs kids rest =>
    Ev.start q :: (attrEvents attrs ++ (flatten kids ++ Ev.end_ q :: flatten rest))

/-- a document: one element -/
def document (q : Str) (attrs : List (Str × Val)) (kids : Content) : List Ev :=
  flatten (.child q attrs kids .nil)

end Spec.EventTree
