/-
C01 (fragments F2…): the induction step and the round-trip theorem for a feature set.
-/
import XsdataModel.Proofs.C01NSeq
import XsdataModel.Proofs.C01NTypes

namespace Proofs.C01
open Py Xs.Bind Xs.Bind.F1 Xs.Bind.FN

theorem treeNN_obj (Γ : Ctx) (cfg : SerCfg) (M : NsMap) (n : Nat) (pns : Option Str)
    (xt : Option QN)
    (q : QN) (c : ClassId) (fields : List (Str × Val)) {m : XmlMeta} (hm : metaOf Γ c pns = some m) :
    treeNN Γ cfg M (n + 1) pns xt q (.obj c fields) =
      match m.text with
      | some tv =>
        .node q (if textHasData (look fields tv.name) then attrPairsT cfg M m.attributeVars fields xt
                 else attrPairsT cfg M m.attributeVars fields xt ++ nilAttr m.nillable) M
          (textTextN (look fields tv.name)) [] none
      | none =>
        .node q
          (if (kidsN M (itemRec Γ cfg M n (targetUri m.qname)) m fields).isEmpty
           then attrPairsT cfg M m.attributeVars fields xt ++ nilAttr m.nillable
           else attrPairsT cfg M m.attributeVars fields xt) M none
          (kidsN M (itemRec Γ cfg M n (targetUri m.qname)) m fields) none := by
  simp only [treeNN, hm]
  cases m.text <;> rfl

/-- the events of an item are among the events of the body -/
theorem mapM_ok_mem {α β : Type} (f : α → Except Err β) :
    ∀ (l : List α) (r : List β), l.mapM f = .ok r → ∀ a ∈ l, ∃ b, f a = .ok b ∧ b ∈ r := by
  intro l
  induction l with
  | nil => intro r _ a ha; cases ha
  | cons x xs ih =>
    intro r h a ha
    rw [List.mapM_cons] at h
    cases hx : f x with
    | error err => simp [hx, bind, Except.bind] at h
    | ok b =>
      cases hxs : xs.mapM f with
      | error err => simp [hx, hxs, bind, Except.bind] at h
      | ok bs =>
        simp only [hx, hxs, bind, Except.bind, pure, Except.pure, Except.ok.injEq] at h
        subst h
        rcases List.mem_cons.1 ha with rfl | ha'
        · exact ⟨b, hx, by simp⟩
        · obtain ⟨b', hb', hm⟩ := ih bs hxs a ha'
          exact ⟨b', hb', by simp [hm]⟩

theorem item_evs_mem_body (e : BEnv) (Γ : Ctx) (cfg : SerCfg) (ns : Option Str)
    (chunks : List (XmlVar × Val)) (f : Nat) {body : List (List Ev)}
    (hb : chunks.mapM (genField e Γ cfg (f + 1) ns) = .ok body)
    {c : XmlVar × Val} (hc : c ∈ chunks) (hf : ChunkEq e Γ cfg c.1) (hs : Shape c.1 c.2)
    (hx : c.2 ≠ .none ∨ c.1.nillable = true) {y : Val} (hy : y ∈ itemsN c.1 c.2) {evs : List Ev}
    (hg : itemGen e Γ cfg c.1 ns (chunkFuel c.2 f) y = .ok evs) : ∀ ev ∈ evs, ev ∈ body.flatten := by
  intro ev hev
  obtain ⟨b, hgb, hbm⟩ := mapM_ok_mem _ _ _ hb c hc
  have hin : ev ∈ b := by
    simp only [genField, hf _ hs hx ns f] at hgb
    cases hparts : (itemsN c.1 c.2).mapM (itemGen e Γ cfg c.1 ns (chunkFuel c.2 f)) with
    | error err => simp [hparts, bind, Except.bind, Except.map] at hgb
    | ok parts =>
      obtain ⟨evs', hg', hm'⟩ := mapM_ok_mem _ _ _ hparts y hy
      rw [hg] at hg'; cases hg'
      have hfl : ev ∈ parts.flatten := List.mem_flatten.2 ⟨evs, hm', hev⟩
      simp only [hparts, bind, Except.bind, Except.map] at hgb
      cases hw : c.1.wrapperQName with
      | none => simp only [hw, pure, Except.pure, Except.ok.injEq] at hgb; rw [← hgb]; exact hfl
      | some w =>
        simp only [hw, pure, Except.pure, Except.ok.injEq] at hgb
        rw [← hgb]; simp [hfl]
  exact List.mem_flatten.2 ⟨b, hbm, hin⟩

theorem eq_of_nodup_qname {l : List XmlVar} (h : (l.map (·.qname)).Nodup) {a b : XmlVar}
    (ha : a ∈ l) (hb : b ∈ l) (hq : a.qname = b.qname) : a = b := by
  induction l with
  | nil => cases ha
  | cons v t ih =>
    simp only [List.map_cons, List.nodup_cons] at h
    rcases List.mem_cons.1 ha with rfl | ha' <;> rcases List.mem_cons.1 hb with rfl | hb'
    · rfl
    · exact absurd (List.mem_map.2 ⟨b, hb', hq.symm⟩) h.1
    · exact absurd (List.mem_map.2 ⟨a, ha', hq⟩) h.1
    · exact ih h.2 ha' hb'

theorem plain_chunkTrees {M : NsMap} {tr : Val → Tree} {var : XmlVar} {x : Val}
    (h : ∀ y ∈ itemsN var x, plain M (tr y) = true) : plainList M (chunkTrees M tr var x) = true := by
  have hitems : plainList M ((itemsN var x).map tr) = true := by
    rw [plainList_iff]; intro t ht
    obtain ⟨y, hy, rfl⟩ := List.mem_map.1 ht
    exact h y hy
  cases hw : var.wrapperQName with
  | none => simpa [chunkTrees, hw] using hitems
  | some w => simp [chunkTrees, hw, plainList, plain, hitems]

/-- the constructor argument of an element field -/
theorem elem_field_okN {ci : ClassInfo} {fields : List (Str × Val)} {var : XmlVar}
    (hfa : fieldAgreesN ci var = true) (hnd : (ci.fields.map (·.name)).Nodup) {f : FieldInfo}
    (hf : f ∈ ci.fields) (hname : var.name = f.name) {P : Params} {ys : List Val}
    (hP : P.get var.name = finalParam var ys)
    (hparam : finalParam var ys = some (look fields var.name) ∨
      (finalParam var ys = none ∧ ((look fields var.name = .none ∧ fdNone ci var.name = true) ∨
        (look fields var.name = .list [] ∧ var.default = .listFactory) ∨
        (var.init = false ∧ ∃ p, look fields var.name = .prim p ∧ var.default = .val p)))) :
    FieldOK P fields f := by
  obtain ⟨hfind, hi, hd⟩ := field_of_varN hfa hnd hf hname
  have hsome : ∀ y, finalParam var ys = some y → var.init = true := by
    intro y hy
    cases hvi : var.init with
    | true => rfl
    | false => simp [finalParam, hvi] at hy
  rcases hparam with h | ⟨h, hx⟩
  · exact Or.inl ⟨by rw [hi, hsome _ h], Or.inl (by rw [← hname, hP]; exact h)⟩
  · rcases hx with ⟨hx, hfd⟩ | ⟨hx, hdef⟩ | ⟨hvi, p, hx, hdef⟩
    · obtain ⟨f', hf', hdn⟩ := fdNone_iff.1 hfd
      rw [hfind] at hf'; cases hf'
      cases hfi : f.init with
      | true => exact Or.inl ⟨hfi, Or.inr ⟨by rw [← hname, hP]; exact h, by rw [← hname, hx, hdn]⟩⟩
      | false => exact Or.inr ⟨hfi, by rw [← hname, hx, hdn]⟩
    · rw [hdef] at hd
      cases hfi : f.init with
      | true =>
        exact Or.inl ⟨hfi, Or.inr ⟨by rw [← hname, hP]; exact h, by rw [← hname, hx, defaultAgrees_list hd]⟩⟩
      | false => exact Or.inr ⟨hfi, by rw [← hname, hx, defaultAgrees_list hd]⟩
    · rw [hdef] at hd
      exact Or.inr ⟨by rw [hi, hvi], by rw [← hname, hx, defaultAgrees_val hd]⟩

/-- the keys of all attribute events of an element are distinct -/
theorem attrPairsN_nodup {e : BEnv} {Γ : Ctx} {m : XmlMeta} {fields : List (Str × Val)} (cfg : SerCfg) :
    ∀ (vars : List XmlVar), (∀ var ∈ vars, AttrFactsN e Γ m fields var) → (vars.map (·.qname)).Nodup →
    ((attrPairsN cfg vars fields).map (·.1)).Nodup := by
  intro vars
  induction vars with
  | nil => intro _ _; simp [attrPairsN]
  | cons v t ih =>
    intro h hnd
    simp only [List.map_cons, List.nodup_cons] at hnd
    have hcons : attrPairsN cfg (v :: t) fields =
        (attrTriples cfg fields v).map (fun t => (t.1, t.2.2)) ++ attrPairsN cfg t fields := by
      simp [attrPairsN]
    rw [hcons, List.map_append, List.nodup_append]
    have iht := ih (fun var hv => h var (by simp [hv])) hnd.2
    -- a key of the rest: declared qname of a var of `t`, or an entry of a map var of `t`
    have hrest : ∀ k ∈ (attrPairsN cfg t fields).map (·.1),
        (∃ w ∈ t, AttrA e Γ m fields w ∧ k = w.qname) ∨
        (∃ w ∈ t, AttrM Γ m fields w ∧ ∃ s, (k, s) ∈ mapEntries fields w) := by
      intro k hk
      rw [attrPairsN_eq] at hk
      simp only [List.map_map, List.mem_map, Function.comp] at hk
      obtain ⟨tr, htr, rfl⟩ := hk
      rcases mem_allTriples (fun var hv => h var (by simp [hv])) htr with
        ⟨w, hw, hf, hq, _⟩ | ⟨w, hw, hf, hkw, _⟩
      · exact Or.inl ⟨w, hw, hf, hq⟩
      · exact Or.inr ⟨w, hw, hf, _, hkw⟩
    refine ⟨?_, iht, ?_⟩
    · cases h v (by simp) with
      | attr ha =>
        simp only [attrTriples, isAttributes_false_of_attr ha.isAttr, Bool.false_eq_true, if_false]
        cases attrOfN cfg fields v <;> simp
      | amap hm =>
        simp only [attrTriples, hm.isMap, if_true, List.map_map]
        have : (mapEntries fields v).map ((fun x : QN × Str => x.1) ∘ (fun t : QN × Data × Str => (t.1, t.2.2)) ∘
            fun kw => (kw.1, Data.prim (.str kw.2), kw.2)) = (mapEntries fields v).map (·.1) := by
          apply List.map_congr_left; intro kw _; rfl
        rw [this]; exact hm.nodup
    · intro a ha b hb heq
      subst heq
      cases h v (by simp) with
      | attr hav =>
        simp only [attrTriples, isAttributes_false_of_attr hav.isAttr, Bool.false_eq_true, if_false,
          List.map_map, List.mem_map, Function.comp, Option.mem_toList, Option.map_eq_some_iff] at ha
        obtain ⟨tr, ⟨ds, _, rfl⟩, rfl⟩ := ha
        rcases hrest _ hb with ⟨w, hw, _, hq⟩ | ⟨w, hw, hf, s', hkw⟩
        · exact hnd.1 (List.mem_map.2 ⟨w, hw, hq.symm⟩)
        · have := (hf.entries _ hkw).2.1
          simp only at this
          rw [hav.find] at this; cases this
      | amap hmv =>
        simp only [attrTriples, hmv.isMap, if_true, List.map_map, List.mem_map, Function.comp] at ha
        obtain ⟨kw, hkw, rfl⟩ := ha
        rcases hrest _ hb with ⟨w, hw, hf, hq⟩ | ⟨w, hw, hf, _, _⟩
        · have := (hmv.entries _ hkw).2.1
          rw [hq, hf.find] at this; cases this
        · -- only one `Attributes` var
          have h1 := hmv.any
          rw [hf.any] at h1
          have : w = v := by simpa using h1
          subst this
          exact hnd.1 (List.mem_map.2 ⟨w, hw, rfl⟩)

theorem genField_textN (e : BEnv) (Γ : Ctx) (cfg : SerCfg) (f : Nat) (ns : Option Str) {tv : XmlVar}
    (hmixed : tv.mixed = false) (htext : tv.isText = true) (hwrap : tv.wrapperQName = none)
    {x : Val} {d : Data} (hd : encodePrimitive x = .ok d) :
    genField e Γ cfg (f + 1) ns (tv, x) = .ok [Ev.data d] := by
  simp [genField, genValue, hmixed, htext, hwrap, hd, bind, Except.bind, pure, Except.pure]

theorem bindVar_has_ne (P : Params) (var : XmlVar) (y : Val) {k : Str} (h : k ≠ var.name) :
    ((bindVar P var y).2).has k = P.has k := by
  have hs : ∀ v, (P.set var.name v).has k = P.has k := by
    intro v; rw [Params.has_eq_isSome, Params.has_eq_isSome, Params.get_set_ne _ _ h]
  unfold bindVar
  split
  · split
    · split <;> simp [hs]
    · split <;> simp [hs]
  · rfl

/-- `bind_var` meets every non-list var unbound: no earlier entry has its name -/
theorem FreshOK_cnt : ∀ (E : List (XmlVar × Val)) (P : Params),
    (∀ en ∈ E, en.1.listElement = false → P.has en.1.name = false ∧
      (E.filter (fun en' => en'.1.name = en.1.name)).length ≤ 1) → FreshOK P E := by
  intro E
  induction E with
  | nil => intros; trivial
  | cons en r ih =>
    intro P h
    obtain ⟨var, y⟩ := en
    refine ⟨?_, ih _ ?_⟩
    · by_cases hl : var.listElement = true
      · exact Or.inl hl
      · exact Or.inr (Or.inr (h (var, y) (by simp) (by simpa using hl)).1)
    · intro en' hen' hl'
      obtain ⟨hP, hcnt⟩ := h en' (by simp [hen']) hl'
      have hne : en'.1.name ≠ var.name := by
        intro heq
        have h2 : 2 ≤ (((var, y) :: r).filter (fun e' => e'.1.name = en'.1.name)).length := by
          have hmem : en' ∈ r.filter (fun e' => e'.1.name = en'.1.name) := by simp [hen']
          have hpos : 1 ≤ (r.filter (fun e' => e'.1.name = en'.1.name)).length :=
            List.length_pos_of_mem hmem
          have hc : ((var, y) :: r).filter (fun e' => e'.1.name = en'.1.name) =
              (var, y) :: r.filter (fun e' => e'.1.name = en'.1.name) := by
            simp [List.filter_cons, heq.symm]
          rw [hc, List.length_cons]
          omega
        omega
      refine ⟨by rw [bindVar_has_ne P var y hne]; exact hP, ?_⟩
      have : (r.filter (fun e' => e'.1.name = en'.1.name)).length ≤
          (((var, y) :: r).filter (fun e' => e'.1.name = en'.1.name)).length := by
        simp only [List.filter_cons]
        split <;> simp
      omega

/-- the induction step -/
theorem main_stepN (ft : Feat) (e : BEnv) (Γ : Ctx) (cfg : SerCfg) (pcfg : ParserConfig) (M : NsMap)
    (hΓ : ctxOK ft Γ = true) (n : Nat) (IH : MainStmtN ft e Γ cfg pcfg M n) :
    MainStmtN ft e Γ cfg pcfg M (n + 1) := by
  intro v c pnsP oq q fuel mp xt hmp hq hval hfuel
  cases v with
  | obj cls fields =>
    obtain ⟨ci, hfind, hmf⟩ : ∃ ci, Γ.find c = some ci ∧ ci.metaFor pnsP = some mp := by
      simpa [metaOf, Option.bind_eq_some_iff] using hmp
    simp only [FN.valObjN, hfind, hmf, Bool.and_eq_true, decide_eq_true_eq, List.all_eq_true] at hval
    obtain ⟨⟨hcls, hxtok⟩, ⟨hnames, hattrs⟩, hbody⟩ := hval
    subst hcls
    obtain ⟨MF, _⟩ := ctx_metaFactsN hΓ hfind hmf
    obtain ⟨hAnames, hEnames, hAE⟩ := nodup_append_names MF.nameNodup
    obtain ⟨f, rfl⟩ : ∃ f, fuel = f + 1 := ⟨fuel - 1, by simp only [Val.size] at hfuel; omega⟩
    have hf4 : 4 * sizeFields fields + 3 ≤ f := by simp only [Val.size] at hfuel; omega
    -- attributes
    have hAF : ∀ var ∈ mp.attributeVars, AttrFactsN e Γ mp fields var :=
      fun var hv => attrFactsN_of (MF.attrs var hv) (hattrs var hv) hnames
    have hAkeysN := attrPairsN_keys cfg mp.attributeVars hAF
    have hAkeys : ∀ kv ∈ attrPairsT cfg M mp.attributeVars fields xt, kv.1 ≠ xsiNil := by
      intro kv hkv
      rcases List.mem_append.1 hkv with h | h
      · exact (hAkeysN kv h).1
      · rw [typeAttr_keys kv h]; decide
    have hAW : ∀ nil, AttrsW M (isDatatype Γ)
        (attrEvsT cfg mp.attributeVars fields xt ++ nilEvs nil)
        (attrPairsT cfg M mp.attributeVars fields xt ++ nilAttr nil) := by
      intro nil
      have h0 := attrsW_all M cfg false hAF (attrPairsN_nodup cfg _ hAF MF.attrNodup)
      simp only [nilEvs, nilAttr, Bool.false_eq_true, if_false, List.append_nil] at h0
      refine (h0.append (AttrsW_typeAttr M _ xt) ?_).append (AttrsW_nilAttr M _ nil) ?_
      · intro a ha b hb
        rw [typeAttr_keys b hb]; exact (hAkeysN a ha).2
      · intro a ha b hb
        rw [nilAttr_keys b hb]; exact hAkeys a ha
    -- `xsi:type` is written for a subclass only: no declared attribute of that name, no map
    have hxtI : ∀ t, xt = some t → ft.inherit = true ∧ typeNameOK e t = true := by
      intro t ht
      simpa [ht] using hxtok
    have hxtAny : ∀ kv ∈ typeAttr M xt, mp.findAttribute kv.1 = none ∧ (kv.1 = xsiType ∨ kv.1 = xsiNil) := by
      intro kv hkv
      rw [typeAttr_keys kv hkv]
      cases hx : xt with
      | none => simp [hx, typeAttr] at hkv
      | some t => exact ⟨MF.noTypeAttr (hxtI t hx).1, Or.inl rfl⟩
    have hBindA : ∀ nil,
        bindAttrs e pcfg mp (attrPairsT cfg M mp.attributeVars fields xt ++ nilAttr nil) M =
          .ok (attrParamsN cfg mp.attributeVars fields, 0) := by
      intro nil
      have := bindAttrs_NX pcfg cfg mp fields M (typeAttr M xt ++ nilAttr nil) hAF hAnames (by
        intro kv hkv
        rcases List.mem_append.1 hkv with h | h
        · exact hxtAny kv h
        · rw [nilAttr_keys kv h]
          exact ⟨MF.noNilAttr, Or.inr rfl⟩)
      simpa [attrPairsT, List.append_assoc] using this
    -- under the hypothesis on the prefix map the parser reads the `xsi:type` back
    have hXT : ∀ (X : List Ev) (b : Bool),
        TypesGood e M ([Ev.start q] ++ (attrEvsT cfg mp.attributeVars fields xt ++ nilEvs mp.nillable) ++
          X ++ [Ev.end q]) →
        xsiTypeOf e (attrPairsT cfg M mp.attributeVars fields xt ++ nilAttr b) M = .ok xt := by
      intro X b hgood
      cases hx : xt with
      | none =>
        apply xsiTypeOf_none
        intro kv hkv
        simp only [attrPairsT, typeAttr, List.append_nil] at hkv
        rcases List.mem_append.1 hkv with h | h
        · exact (hAkeysN kv h).2
        · exact nilAttr_noType b kv h
      | some t =>
        have hok := (hxtI t hx).2
        have hne : t.isEmpty = false := by
          cases t with
          | nil => exact absurd rfl (typeNameOK_ne_nil hok)
          | cons _ _ => rfl
        have hmem : Ev.attr xsiType (.prim (.qname t)) ∈ [Ev.start q] ++
            (attrEvsT cfg mp.attributeVars fields xt ++ nilEvs mp.nillable) ++ X ++ [Ev.end q] := by
          simp [attrEvsT, typeEvs, hx, hne]
        have := hgood t (Or.inl hmem) hok
        have hfind : (attrPairsT cfg M mp.attributeVars fields (some t) ++ nilAttr b).find?
            (fun x => decide (x.1 = xsiType)) = some (xsiType, qnameText M t) := by
          have h0 : (attrPairsN cfg mp.attributeVars fields).find? (fun x => decide (x.1 = xsiType)) = none := by
            simp only [List.find?_eq_none, decide_eq_true_eq]
            exact fun kv hkv => (hAkeysN kv hkv).2
          simp [attrPairsT, typeAttr, hne, List.find?_append, h0]
        simp only [xsiTypeOf, hfind] at this ⊢
        simpa using this
    have hXT0 : ∀ (X : List Ev),
        TypesGood e M ([Ev.start q] ++ (attrEvsT cfg mp.attributeVars fields xt ++ nilEvs mp.nillable) ++
          X ++ [Ev.end q]) →
        xsiTypeOf e (attrPairsT cfg M mp.attributeVars fields xt) M = .ok xt := by
      intro X hgood
      simpa [nilAttr] using hXT X false hgood
    -- the generator up to the element content
    have hGA : nextAttribute cfg mp fields (false || mp.nillable) xt =
        .ok (attrEvsT cfg mp.attributeVars fields xt ++ nilEvs mp.nillable) :=
      nextAttribute_N cfg mp fields _ xt hAF
    rw [genObj_unfoldN e Γ cfg f cls fields pnsP oq mp false hmp xt, hq, hGA,
      treeNN_obj Γ cfg M n pnsP xt q cls fields hmp]
    have hfactoryA : ∀ (P : Params), (∀ var ∈ mp.attributeVars,
          P.get var.name = (attrParamOf cfg fields var).map (·.2)) →
        ∀ fi ∈ ci.fields, ∀ var ∈ mp.attributeVars, var.name = fi.name → FieldOK P fields fi :=
      fun P hP fi hfi var hv hname =>
        attr_field_okN cfg (MF.attrs var hv) (hattrs var hv) MF.fieldNodup hfi hname (hP var hv)
    have hclazz : mp.clazz = cls := by rw [MF.clazz]; exact find_id hfind
    have hPA := attrParamsN_get cfg fields mp.attributeVars hAnames
    cases htext : mp.text with
    | some tv =>
      dsimp only
      simp only [htext] at hbody
      have hTX := hbody
      have hW0 : mp.wildcards = [] := by
        rcases MF.wild with h | ⟨wv, _, hok⟩
        · exact h
        · exfalso
          simp only [wildVarOK, Bool.and_eq_true, Option.isNone_iff_eq_none] at hok
          rw [hok.1.2] at htext; cases htext
      obtain ⟨hEV, hTV⟩ : mp.elementVars = [tv] ∧ FN.textVarOK ft ci tv = true := by
        simpa [htext] using MF.body
      simp only [FN.textVarOK, FN.varBase, Bool.and_eq_true, Bool.not_eq_true',
        Option.isNone_iff_eq_none] at hTV
      obtain ⟨⟨⟨⟨⟨⟨⟨hisText, hbase⟩, hnillable⟩, hwrap⟩, hseq⟩, hkind⟩, hfix⟩, hfaN⟩ := hTV
      have hmixed : tv.mixed = false := hbase.1.1.1.1.1.1.1.2
      obtain ⟨f0, hf0, hfi0, hd0⟩ := fieldAgreesN_iff.1 hfaN
      have hf0mem : f0 ∈ ci.fields := List.mem_of_find?_eq_some hf0
      have hf0name : f0.name = tv.name := by have := List.find?_some hf0; simpa using this
      cases hinit : tv.init with
      | false =>
        -- a fixed text: the value is the default, the parser only validates it
        have hfo : fixedOK tv = true := by
          simp only [Bool.or_eq_true] at hfix
          rcases hfix with h | h
          · rw [hinit] at h; cases h
          · exact h
        simp only [fixedOK, Bool.and_eq_true, Bool.not_eq_true'] at hfo
        have htok' : tv.tokens = false := hfo.1.1.1.1.1
        unfold FN.textValOK at hTX
        simp only [Bool.and_eq_true, Bool.or_eq_true] at hTX
        obtain ⟨hfx, hTX⟩ := hTX
        obtain ⟨p, hlook, hdef⟩ := fixedVal_iff.1 (by
          rcases hfx with h | h
          · rw [hinit] at h; cases h
          · exact h)
        cases hpt : primTypeOf tv with
        | none => simp [hpt] at hTX
        | some t =>
          obtain ⟨hty, _⟩ := primTypeOf_some hpt
          simp only [hpt, htok', Bool.false_eq_true, if_false, hlook, Bool.and_eq_true] at hTX
          have hpt' : primHasType p t = true := hTX.1
          have hin : tv.name ∈ fields.map (·.1) := by rw [hnames]; exact mem_names_of_find hf0
          have hNVe : nextValue mp fields = .ok (emitOfN tv (look fields tv.name)) := by
            rw [nextValue_N mp fields (fun var hv => by
              rw [hEV] at hv; simp only [List.mem_singleton] at hv; subst hv
              exact ⟨hseq, hin⟩), hEV]
            simp
          have hK : parseKids e Γ pcfg mp {} none [] =
              .ok (⟨([] : List (XmlVar × Val)).map (fun en => (some en.1.qname, en.2)), 0⟩, {}) := by
            simp [parseKids]
          have hWs0 : WsOK ({} : ElState).wrappers [] := trivial
          have hxnA : xsiNilOf (attrPairsT cfg M mp.attributeVars fields xt) = none := by
            simpa [nilAttr] using xsiNilOf_append (attrPairsT cfg M mp.attributeVars fields xt)
              hAkeys false
          have hBindA0 : bindAttrs e pcfg mp (attrPairsT cfg M mp.attributeVars fields xt) M =
              .ok (attrParamsN cfg mp.attributeVars fields, 0) := by
            simpa [nilAttr] using hBindA false
          have hF : classFactory Γ mp.clazz (attrParamsN cfg mp.attributeVars fields) = .ok (.obj cls fields) := by
            rw [hclazz]
            apply classFactory_N Γ hfind fields _ hnames MF.fieldNodup
            intro fi hfi
            obtain ⟨var, hvar, hname⟩ := MF.covered fi hfi
            rcases List.mem_append.1 hvar with hvA | hvE
            · exact hfactoryA _ hPA fi hfi var hvA hname
            · rw [hEV] at hvE; simp only [List.mem_singleton] at hvE; subst hvE
              obtain ⟨_, hi', hd'⟩ := field_of_varN hfaN MF.fieldNodup hfi hname
              rw [hdef] at hd'
              exact Or.inr ⟨by rw [hi', hinit], by rw [← hname, hlook, defaultAgrees_val hd']⟩
          obtain ⟨f', rfl⟩ : ∃ f', f = f' + 1 := ⟨f - 1, by omega⟩
          have hgen := genField_textN e Γ cfg f' (targetUri mp.qname) hmixed hisText hwrap
            (encodePrimitive_prim hpt')
          have hT : ∃ bt, bindText e pcfg mp (xsiNilOf (attrPairsT cfg M mp.attributeVars fields xt)) M
              (bindEntries (attrParamsN cfg mp.attributeVars fields) []) (optText (serPrim p)) =
              .ok (bt, attrParamsN cfg mp.attributeVars fields, 0) := by
            by_cases hs : serPrim p = []
            · exact ⟨false, by simp [bindText, htext, bindEntries, optText, hs, hxnA]⟩
            · have hpv := parseVar_serPrim e pcfg tv.toVarCore p t M htok' hty hpt'
              have hvf := validateFixed_same e.py tv.toVarCore p hdef
              exact ⟨true, by simp [bindText, htext, bindEntries, optText, hs, hpv, hinit, hvf, hxnA,
                bind, Except.bind, pure, Except.pure]⟩
          obtain ⟨bt, hT⟩ := hT
          have hparse := parseNode_element_N e Γ pcfg mp q _ M _ [] [] {} _ _ bt (.obj cls fields)
            MF.choices (Or.inl hW0) (fun h => by rw [hxnA] at h; cases h) hK (fun _ h => by cases h)
            hWs0 trivial hBindA0 hT hF
          have hsubw := SubW_elem_dataN (M := M) (isDt := isDatatype Γ) q
            (attrEvsT cfg mp.attributeVars fields xt ++ nilEvs mp.nillable)
            (attrPairsT cfg M mp.attributeVars fields xt) mp.nillable (.prim (.str (serPrim p)))
            (some (serPrim p)) rfl (hAW _) hAkeys
          refine ⟨[Ev.start q] ++ (attrEvsT cfg mp.attributeVars fields xt ++ nilEvs mp.nillable) ++
              [Ev.data (.prim (.str (serPrim p)))] ++ [Ev.end q],
            attrPairsT cfg M mp.attributeVars fields xt, optText (serPrim p), [], ?_, ?_, ?_, ?_,
            Or.inl hxnA, fun hgood => ⟨hXT0 _ hgood, ?_⟩⟩
          · simp [hNVe, hlook, emitOfN, hgen, bind, Except.bind, pure, Except.pure]
          · simp [hlook, textHasData, textTextN]
          · simpa [hlook, textHasData, textTextN, treeSax_optText] using hsubw
          · simp [plain, plainList]
          · intro xtN; simpa [hlook, textHasData, textTextN] using hparse xtN
      | true =>
        have hfa : fieldAgrees ci tv = true := fieldAgrees_of_N hfaN hinit
        have hin : tv.name ∈ fields.map (·.1) := by rw [hnames]; exact mem_names_of_find hf0
        have htvE : tv ∈ mp.elementVars := by rw [hEV]; simp
        have hNVe : nextValue mp fields = .ok (emitOfN tv (look fields tv.name)) := by
          rw [nextValue_N mp fields (fun var hv => by
            rw [hEV] at hv; simp only [List.mem_singleton] at hv; subst hv
            exact ⟨hseq, hin⟩), hEV]
          simp
        have hK : parseKids e Γ pcfg mp {} none [] =
            .ok (⟨([] : List (XmlVar × Val)).map (fun en => (some en.1.qname, en.2)), 0⟩, {}) := by
          simp [parseKids]
        have hWs0 : WsOK ({} : ElState).wrappers [] := trivial
        have htvA : tv.name ∉ mp.attributeVars.map (·.name) := by
          intro hmem
          obtain ⟨a, ha, han⟩ := List.mem_map.1 hmem
          exact hAE a ha tv htvE han
        have hPAtv := attrParamsN_get_none cfg fields mp.attributeVars htvA
        -- the constructor call, for any final params
        have hFgen : ∀ PT : Params,
            (∀ var ∈ mp.attributeVars,
              PT.get var.name = (attrParamOf cfg fields var).map (·.2)) →
            (PT.get tv.name = some (look fields tv.name) ∨
              (PT.get tv.name = none ∧ f0.default = some (look fields tv.name))) →
            classFactory Γ mp.clazz PT = .ok (.obj cls fields) := by
          intro PT hA hT
          rw [hclazz]
          apply classFactory_N Γ hfind fields _ hnames MF.fieldNodup
          intro fi hfi
          obtain ⟨var, hvar, hname⟩ := MF.covered fi hfi
          rcases List.mem_append.1 hvar with hvA | hvE
          · exact hfactoryA PT hA fi hfi var hvA hname
          · rw [hEV] at hvE; simp only [List.mem_singleton] at hvE; subst hvE
            obtain ⟨hfind', hi', _⟩ := field_of_var hfa MF.fieldNodup hfi hname
            rw [hf0] at hfind'; cases hfind'
            exact Or.inl ⟨hi', by rw [← hname]; exact hT⟩
        have hxnA : xsiNilOf (attrPairsT cfg M mp.attributeVars fields xt) = none := by
          simpa [nilAttr] using xsiNilOf_append (attrPairsT cfg M mp.attributeVars fields xt)
            hAkeys false
        have hBindA0 : bindAttrs e pcfg mp (attrPairsT cfg M mp.attributeVars fields xt) M =
            .ok (attrParamsN cfg mp.attributeVars fields, 0) := by
          simpa [nilAttr] using hBindA false
        -- the typed text value
        unfold FN.textValOK at hTX
        rw [Bool.and_eq_true] at hTX
        replace hTX := hTX.2
        cases hpt : primTypeOf tv with
        | none => simp [hpt] at hTX
        | some t =>
          obtain ⟨hty, _⟩ := primTypeOf_some hpt
          simp only [hpt] at hTX hkind
          -- three kinds of content: no data (with or without `xsi:nil`), data
          by_cases htok : tv.tokens = true
          · -- a token list
            simp only [htok, if_true, Bool.and_eq_true, Bool.or_eq_true, Bool.not_eq_true',
              decide_eq_true_eq] at hTX hkind
            obtain ⟨ys, hlook, hys⟩ := toks_of hTX
            obtain ⟨f', rfl⟩ : ∃ f', f = f' + 1 := ⟨f - 1, by omega⟩
            have hgen := genField_textN e Γ cfg f' (targetUri mp.qname) hmixed hisText hwrap
              (encodePrimitive_toks hys)
            have hdef : f0.default = some (.list []) := by
              obtain ⟨_, _, hd⟩ := field_of_var hfa MF.fieldNodup (List.mem_of_find?_eq_some hf0)
                (by have := List.find?_some hf0; simp only [decide_eq_true_eq] at this; exact this.symm)
              rw [hkind.2] at hd
              exact defaultAgrees_list hd
            cases ys with
            | nil =>
              -- no character data: `xsi:nil` if the class is nillable; the parser leaves the token
              -- list to the field default
              have hxn := xsiNilOf_append (attrPairsT cfg M mp.attributeVars fields xt)
                hAkeys mp.nillable
              have hT : bindText e pcfg mp
                  (xsiNilOf (attrPairsT cfg M mp.attributeVars fields xt ++ nilAttr mp.nillable)) M
                  (bindEntries (attrParamsN cfg mp.attributeVars fields) []) none =
                  .ok (false, attrParamsN cfg mp.attributeVars fields, 0) := by
                rw [hxn]
                cases hN : mp.nillable <;> simp [bindText, htext, bindEntries, htok]
              have hF := hFgen (attrParamsN cfg mp.attributeVars fields) hPA
                (Or.inr ⟨hPAtv, by rw [hlook]; exact hdef⟩)
              have hparse := parseNode_element_N e Γ pcfg mp q
                (attrPairsT cfg M mp.attributeVars fields xt ++ nilAttr mp.nillable) M
                none [] [] {} _ _ false (.obj cls fields) MF.choices (Or.inl hW0)
                (fun h => by
                  rw [hxn] at h
                  cases hN : mp.nillable with
                  | false => simp [hN] at h
                  | true => rfl)
                hK (fun _ h => by cases h) hWs0 trivial (hBindA _) hT hF
              have hsubw := SubW_elem_dataN (M := M) (isDt := isDatatype Γ) q
                (attrEvsT cfg mp.attributeVars fields xt ++ nilEvs mp.nillable)
                (attrPairsT cfg M mp.attributeVars fields xt) mp.nillable (tokData []) none rfl
                (hAW _) hAkeys
              refine ⟨[Ev.start q] ++ (attrEvsT cfg mp.attributeVars fields xt ++ nilEvs mp.nillable) ++
                  [Ev.data (tokData [])] ++ [Ev.end q],
                attrPairsT cfg M mp.attributeVars fields xt ++ nilAttr mp.nillable, none, [], ?_, ?_, ?_, ?_,
                ?_, fun hgood => ⟨hXT _ _ hgood, ?_⟩⟩
              · simp [hNVe, hlook, emitOfN, hgen, bind, Except.bind, pure, Except.pure]
              · simp [hlook, textHasData, textTextN, optText, joinTok, tokStrs, List.intercalate]
              · simpa [hlook, textHasData, textTextN, optText, joinTok, tokStrs,
                  List.intercalate, treeSax, treesSax, dataSax] using hsubw
              · simp [plain, plainList]
              · rw [hxn]
                cases hN : mp.nillable with
                | false => exact Or.inl (by simp)
                | true => exact Or.inr ⟨by simp, rfl⟩
              · intro xtN; simpa [hlook, textHasData, textTextN, optText, joinTok, tokStrs,
                  List.intercalate] using hparse xtN
            | cons a l =>
              have hpv := parseVar_toks e pcfg tv.toVarCore M htok hty hys
              have hjoin : optText (joinTok (a :: l)) = some (joinTok (a :: l)) := by
                simp [optText, joinTok_ne_nil hys]
              have hT : bindText e pcfg mp (xsiNilOf (attrPairsT cfg M mp.attributeVars fields xt)) M
                  (bindEntries (attrParamsN cfg mp.attributeVars fields) []) (some (joinTok (a :: l))) =
                  .ok (true, (attrParamsN cfg mp.attributeVars fields).set tv.name (.list (a :: l)), 0) := by
                simp [bindText, htext, bindEntries, hxnA, hpv, hinit, bind, Except.bind, pure, Except.pure]
              have hF := hFgen ((attrParamsN cfg mp.attributeVars fields).set tv.name (.list (a :: l)))
                (fun var hv => by
                  rw [Params.get_set_ne _ _ (fun h => htvA (List.mem_map.2 ⟨var, hv, h⟩))]
                  exact hPA var hv)
                (Or.inl (by rw [Params.get_set_self, hlook]))
              have hparse := parseNode_element_N e Γ pcfg mp q (attrPairsT cfg M mp.attributeVars fields xt) M
                (some (joinTok (a :: l))) [] [] {} _ _ true (.obj cls fields) MF.choices (Or.inl hW0)
                (fun h => by rw [hxnA] at h; cases h) hK (fun _ h => by cases h) hWs0 trivial hBindA0 hT hF
              have hsubw := SubW_elem_dataN (M := M) (isDt := isDatatype Γ) q
                (attrEvsT cfg mp.attributeVars fields xt ++ nilEvs mp.nillable)
                (attrPairsT cfg M mp.attributeVars fields xt) mp.nillable (tokData (a :: l)) _
                (encodeData_toks M hys) (hAW _) hAkeys
              refine ⟨[Ev.start q] ++ (attrEvsT cfg mp.attributeVars fields xt ++ nilEvs mp.nillable) ++
                  [Ev.data (tokData (a :: l))] ++ [Ev.end q],
                attrPairsT cfg M mp.attributeVars fields xt, some (joinTok (a :: l)), [], ?_, ?_, ?_, ?_,
                Or.inl hxnA, fun hgood => ⟨hXT0 _ hgood, ?_⟩⟩
              · simp [hNVe, hlook, emitOfN, hgen, bind, Except.bind, pure, Except.pure]
              · simp [hlook, textHasData, textTextN, hjoin]
              · have := treeSax_optText M q (attrPairsT cfg M mp.attributeVars fields xt) (joinTok (a :: l))
                rw [hjoin] at this
                simpa [hlook, textHasData, textTextN, hjoin, this] using hsubw
              · simp [plain, plainList]
              · intro xtN; simpa [hlook, textHasData, textTextN, hjoin] using hparse xtN
          · have htok' : tv.tokens = false := by simpa using htok
            simp only [htok', Bool.false_eq_true, if_false] at hTX hkind
            split at hTX
            · -- the text is `None`
              rename_i hlook
              simp only [hlook, Bool.or_eq_true] at hTX
              have hxn := xsiNilOf_append (attrPairsT cfg M mp.attributeVars fields xt)
                hAkeys mp.nillable
              have hT : bindText e pcfg mp
                  (xsiNilOf (attrPairsT cfg M mp.attributeVars fields xt ++ nilAttr mp.nillable)) M
                  (bindEntries (attrParamsN cfg mp.attributeVars fields) []) none =
                  .ok (mp.nillable,
                    if mp.nillable then (attrParamsN cfg mp.attributeVars fields).set tv.name .none
                    else attrParamsN cfg mp.attributeVars fields, 0) := by
                rw [hxn]
                cases hN : mp.nillable <;>
                  simp [bindText, htext, bindEntries, hinit, htok', bind, Except.bind, pure, Except.pure]
              have hF : classFactory Γ mp.clazz
                  (if mp.nillable then (attrParamsN cfg mp.attributeVars fields).set tv.name .none
                    else attrParamsN cfg mp.attributeVars fields) = .ok (.obj cls fields) := by
                cases hN : mp.nillable with
                | true =>
                  simp only [if_true]
                  exact hFgen _ (fun var hv => by
                      rw [Params.get_set_ne _ _ (fun h => htvA (List.mem_map.2 ⟨var, hv, h⟩))]
                      exact hPA var hv)
                    (Or.inl (by rw [Params.get_set_self, hlook]))
                | false =>
                  simp only [Bool.false_eq_true, if_false]
                  have hfd : fdNone ci tv.name = true := by
                    rcases hTX with h | h
                    · rw [hN] at h; cases h
                    · exact h
                  obtain ⟨f', hf', hdn⟩ := fdNone_iff.1 hfd
                  rw [hf0] at hf'; cases hf'
                  exact hFgen _ hPA (Or.inr ⟨hPAtv, by rw [hlook, hdn]⟩)
              have hparse := parseNode_element_N e Γ pcfg mp q
                (attrPairsT cfg M mp.attributeVars fields xt ++ nilAttr mp.nillable) M none [] [] {} _ _ _
                (.obj cls fields) MF.choices (Or.inl hW0)
                (fun h => by
                  rw [hxn] at h
                  cases hN : mp.nillable with
                  | false => simp [hN] at h
                  | true => rfl)
                hK (fun _ h => by cases h) hWs0 trivial (hBindA _) hT hF
              have hsubw := SubW_elemN (M := M) (isDt := isDatatype Γ) q
                (attrEvsT cfg mp.attributeVars fields xt ++ nilEvs mp.nillable)
                (attrPairsT cfg M mp.attributeVars fields xt) mp.nillable [] []
                (hAW _) hAkeys (BodyW_nil M _)
              refine ⟨[Ev.start q] ++ (attrEvsT cfg mp.attributeVars fields xt ++ nilEvs mp.nillable) ++
                  [] ++ [Ev.end q],
                attrPairsT cfg M mp.attributeVars fields xt ++ nilAttr mp.nillable, none, [], ?_, ?_, ?_,
                ?_, ?_, fun hgood => ⟨hXT _ _ hgood, ?_⟩⟩
              · simp [hNVe, hlook, emitOfN, hnillable, bind, Except.bind, pure, Except.pure]
              · simp [hlook, textHasData, textTextN]
              · simpa [hlook, textHasData, textTextN, treeSax, treesSax] using hsubw
              · simp [plain, plainList]
              · rw [hxn]
                cases hN : mp.nillable with
                | false => exact Or.inl (by simp)
                | true => exact Or.inr ⟨by simp, rfl⟩
              · intro xtN; simpa [hlook, textHasData, textTextN] using hparse xtN
            · -- the text is a primitive
              rename_i p hlook
              simp only [Bool.and_eq_true, Bool.or_eq_true, decide_eq_true_eq] at hTX
              obtain ⟨hpt', hemp⟩ := hTX
              obtain ⟨f', rfl⟩ : ∃ f', f = f' + 1 := ⟨f - 1, by omega⟩
              have hgen := genField_textN e Γ cfg f' (targetUri mp.qname) hmixed hisText hwrap
                (encodePrimitive_prim hpt')
              have hparse : ∀ xtN, parseNode e Γ pcfg
                  (.element mp (attrPairsT cfg M mp.attributeVars fields xt) M false xtN
                    (xsiNilOf (attrPairsT cfg M mp.attributeVars fields xt)))
                  (.node q (attrPairsT cfg M mp.attributeVars fields xt) M (optText (serPrim p)) [] none) =
                  .ok ⟨[(some q, .obj cls fields)], 0⟩ := by
                intro xtN
                by_cases hs : serPrim p = []
                · have hp := (serPrim_eq_nil hpt').1 hs
                  have hT : bindText e pcfg mp (xsiNilOf (attrPairsT cfg M mp.attributeVars fields xt)) M
                      (bindEntries (attrParamsN cfg mp.attributeVars fields) []) (optText (serPrim p)) =
                      .ok (false, attrParamsN cfg mp.attributeVars fields, 0) := by
                    simp [bindText, htext, bindEntries, optText, hs, hxnA]
                  have hF := hFgen (attrParamsN cfg mp.attributeVars fields) hPA (by
                    rcases hemp with hemp | hemp
                    · exact absurd hp hemp
                    · obtain ⟨f'', hf'', hdn⟩ := fdEmptyStr_iff.1 hemp
                      rw [hf0] at hf''; cases hf''
                      exact Or.inr ⟨hPAtv, by rw [hlook, hdn, hp]⟩)
                  exact parseNode_element_N e Γ pcfg mp q _ M _ [] [] {} _ _ false (.obj cls fields)
                    MF.choices (Or.inl hW0) (fun h => by rw [hxnA] at h; cases h) hK (fun _ h => by cases h)
                    hWs0 trivial hBindA0 hT hF xtN
                · have hpv := parseVar_serPrim e pcfg tv.toVarCore p t M htok' hty hpt'
                  have hT : bindText e pcfg mp (xsiNilOf (attrPairsT cfg M mp.attributeVars fields xt)) M
                      (bindEntries (attrParamsN cfg mp.attributeVars fields) []) (optText (serPrim p)) =
                      .ok (true, (attrParamsN cfg mp.attributeVars fields).set tv.name (.prim p), 0) := by
                    simp [bindText, htext, bindEntries, optText, hs, hpv, hinit, hxnA, bind, Except.bind,
                      pure, Except.pure]
                  have hF := hFgen ((attrParamsN cfg mp.attributeVars fields).set tv.name (.prim p))
                    (fun var hv => by
                      rw [Params.get_set_ne _ _ (fun h => htvA (List.mem_map.2 ⟨var, hv, h⟩))]
                      exact hPA var hv)
                    (Or.inl (by rw [Params.get_set_self, hlook]))
                  exact parseNode_element_N e Γ pcfg mp q _ M _ [] [] {} _ _ true (.obj cls fields)
                    MF.choices (Or.inl hW0) (fun h => by rw [hxnA] at h; cases h) hK (fun _ h => by cases h)
                    hWs0 trivial hBindA0 hT hF xtN
              have hsubw := SubW_elem_dataN (M := M) (isDt := isDatatype Γ) q
                (attrEvsT cfg mp.attributeVars fields xt ++ nilEvs mp.nillable)
                (attrPairsT cfg M mp.attributeVars fields xt) mp.nillable (.prim (.str (serPrim p)))
                (some (serPrim p)) rfl (hAW _) hAkeys
              refine ⟨[Ev.start q] ++ (attrEvsT cfg mp.attributeVars fields xt ++ nilEvs mp.nillable) ++
                  [Ev.data (.prim (.str (serPrim p)))] ++ [Ev.end q],
                attrPairsT cfg M mp.attributeVars fields xt, optText (serPrim p), [], ?_, ?_, ?_, ?_,
                Or.inl hxnA, fun hgood => ⟨hXT0 _ hgood, ?_⟩⟩
              · simp [hNVe, hlook, emitOfN, hgen, bind, Except.bind, pure, Except.pure]
              · simp [hlook, textHasData, textTextN]
              · simpa [hlook, textHasData, textTextN, treeSax_optText] using hsubw
              · simp [plain, plainList]
              · intro xtN; simpa [hlook, textHasData, textTextN] using hparse xtN
            · cases hTX
    | none =>
      dsimp only
      simp only [htext, List.all_eq_true] at hbody
      have hbodyE := hbody
      have hEW : ∀ var ∈ mp.elementVars,
          (ElemFactsN mp var ∧ ElemKindN ft Γ mp var ∧ fieldAgreesN ci var = true ∧
            (var.nillable = true → ft.nillable = true) ∧ (var.init = true ∨ fixedOK var = true)) ∨
          (WildFactsN mp var ∧ fieldAgreesN ci var = true) := by
        intro var hv
        rcases elemOrWild MF htext hv with h | h
        · exact Or.inl (elemFactsN_of MF hv h)
        · exact Or.inr h
      have hFA : ∀ var ∈ mp.elementVars, fieldAgreesN ci var = true := by
        intro var hv
        rcases hEW var hv with h | h
        · exact h.2.2.1
        · exact h.2
      have hCE : ∀ var ∈ mp.elementVars, ChunkEq e Γ cfg var := by
        intro var hv
        rcases hEW var hv with h | h
        · exact chunkEq_elem e Γ cfg h.1
        · exact chunkEq_wild e Γ cfg h.1.isWild h.1.mixed h.1.tokens h.1.nillable
      have hWr : ∀ var ∈ mp.elementVars, ∀ w, var.wrapperQName = some w →
          mp.wrappers.any (·.1 = w) = true := by
        intro var hv w hw
        rcases hEW var hv with h | h
        · exact h.1.wrapOK w hw
        · rw [h.1.wrapper] at hw; cases hw
      have hEK : ∀ var ∈ mp.elementVars, ∀ y ∈ itemsN var (look fields var.name), EntryK mp var y := by
        intro var hv y hy
        rcases hEW var hv with h | h
        · exact Or.inl h.1
        · obtain ⟨q', t, a, kids, rfl, _⟩ := wildItemOK_any (wild_items_ok h.1 (hbodyE var hv) y hy)
          exact Or.inr ⟨h.1, _, _, _, _, _, rfl⟩
      have hWild : mp.wildcards = [] ∨
          ((none : Option Str) = none ∧ ∃ wv, mp.wildcards = [wv] ∧ wv.mixed = false) := by
        rcases MF.wild with h | ⟨wv, h, hok⟩
        · exact Or.inl h
        · exact Or.inr ⟨rfl, wv, h, (wildFactsN_of MF h hok).1.mixed⟩
      have hin : ∀ var ∈ mp.elementVars, var.name ∈ fields.map (·.1) := fun var hv => by
        obtain ⟨f', hf', _, _⟩ := fieldAgreesN_iff.1 (hFA var hv)
        rw [hnames]; exact mem_names_of_find hf'
      obtain ⟨f', rfl⟩ : ∃ f', f = f' + 1 := ⟨f - 1, by omega⟩
      -- per var: generator, writer and parser of its items
      have hB : ∀ var ∈ mp.elementVars,
          VarBundleG e Γ cfg pcfg M mp ci (targetUri mp.qname) (itemRec Γ cfg M n (targetUri mp.qname)) f' var
            (look fields var.name) := by
        intro var hv
        have hsz := size_le_sizeFields (look_mem (hin var hv))
        simp only at hsz
        rcases hEW var hv with ⟨hf, hk, _, _, hinitV⟩ | ⟨hwf, _⟩
        · cases hk with
          | prim t hc hp ht hd =>
            exact (prim_bundle e Γ cfg pcfg M _ _ hf (mixedContent_false MF) hc hp ht hd hinitV _
              (hbodyE var hv) f' (by omega)).toG hf MF.choices
          | cls c' m' hc htk ht hd hm =>
            have hinitC : var.init = true := by
              rcases hinitV with h | h
              · exact h
              · simp [FN.fixedOK, hc] at h
            exact cls_bundle ft e Γ cfg pcfg M n hΓ IH hf MF.choices hc htk ht hd hm hinitC (hbodyE var hv) f'
              (by omega)
          | qname hc hp hty hi htk hn hd =>
            exact qname_bundle e Γ cfg pcfg M _ _ hf MF.choices (mixedContent_false MF) hc hp hty hi htk hn hd _
              (hbodyE var hv) f' (by omega)
          | union hc hp hu hi htk hn hd =>
            exact (union_bundle e Γ cfg pcfg M _ _ hf (mixedContent_false MF) hc hp hu hi htk hn hd _
              (hbodyE var hv) f' (by omega)).toG hf MF.choices
        · exact wild_bundle e Γ cfg pcfg M _ _ hwf (hbodyE var hv) f' (by omega)
      -- `next_value`
      have hVS : ∀ var ∈ mp.elementVars, VarSeq fields var := fun var hv =>
        ⟨hin var hv, (hB var hv).shape, by
          rcases hEW var hv with h | h
          · exact items_nones h.2.1 (by simp [VarCore.isWildcard, h.1.isElem]) (hbodyE var hv)
          · exact items_nones_wild h.1 (hbodyE var hv)⟩
      obtain ⟨R, hNVe, hspec⟩ := nextValue_spec mp fields hVS hEnames MF.seqOK
      have hvalsN : valsN mp fields = R := by simp [valsN, hNVe]
      have hitemOf : ∀ c ∈ R, ∀ y ∈ itemsN c.1 c.2, y ∈ itemsN c.1 (look fields c.1.name) := by
        intro c hc y hy
        exact (mem_entries hspec hEnames (List.mem_flatMap.2 ⟨c, hc,
          by simp only [chunkEntries, List.mem_map]; exact ⟨y, hy, rfl⟩⟩)).2
      -- the fuel of the items of a chunk
      have hfuelOf : ∀ c ∈ R, (chunkFuel c.2 f' = f' + 1 ∨
          (chunkFuel c.2 f' = f' ∧ (look fields c.1.name).isArray = true)) := by
        intro c hc
        obtain ⟨hv, hs, hem, harr⟩ := hspec.1 c hc
        unfold chunkFuel
        by_cases ha : c.2.isArray = true
        · rw [if_pos ha]; exact Or.inr ⟨rfl, by rw [← harr ha]; exact ha⟩
        · rw [if_neg ha]; exact Or.inl rfl
      -- the generator
      obtain ⟨body, hbodyEq, hBodyW, hbodyNil⟩ := body_genN e Γ cfg M (targetUri mp.qname)
        (itemRec Γ cfg M n (targetUri mp.qname)) (m := mp) R f'
        (fun c hc => by
          obtain ⟨hv, hs, hem, harr⟩ := hspec.1 c hc
          refine ⟨hCE _ hv, hs, hem, fun y hy => ?_⟩
          obtain ⟨⟨evs, hg, hsw, _⟩, _⟩ := (hB _ hv).items y (hitemOf c hc y hy) _ (hfuelOf c hc)
          exact ⟨evs, hg, hsw⟩)
      -- emptiness of the content on both sides
      have hempty : body.flatten.isEmpty =
          (R.flatMap fun c => chunkTrees M (itemTreeNN M (itemRec Γ cfg M n (targetUri mp.qname)) c.1) c.1 c.2).isEmpty := by
        cases hk : (R.flatMap fun c =>
            chunkTrees M (itemTreeNN M (itemRec Γ cfg M n (targetUri mp.qname)) c.1) c.1 c.2) with
        | nil => rw [hbodyNil hk]; rfl
        | cons t ts =>
          cases hb : body.flatten with
          | nil =>
            have := hBodyW.1 hb
            rw [hk] at this
            exact absurd (treesSax_eq_nil this) (by simp)
          | cons _ _ => rfl
      -- the entries
      have hentry : ∀ en ∈ R.flatMap chunkEntries, EntryK mp en.1 en.2 := by
        intro en hen
        obtain ⟨hv, hy⟩ := mem_entries hspec hEnames hen
        exact hEK _ hv _ hy
      -- the parser side of the items, once the prefix map serves the `xsi:type`s of the whole element
      have hitemP : TypesGood e M ([Ev.start q] ++
            (attrEvsT cfg mp.attributeVars fields xt ++ nilEvs mp.nillable) ++ body.flatten ++ [Ev.end q]) →
          ∀ c ∈ R, ∀ en ∈ chunkEntries c,
            ItemK e Γ pcfg M mp en.1 en.2 (itemTreeNN M (itemRec Γ cfg M n (targetUri mp.qname)) en.1 en.2) := by
        intro hgood c hc en hen
        simp only [chunkEntries, List.mem_map] at hen
        obtain ⟨y, hy, rfl⟩ := hen
        obtain ⟨hv, hs, hem, harr⟩ := hspec.1 c hc
        obtain ⟨⟨evs, hg, _, hI⟩, _⟩ := (hB _ hv).items y (hitemOf c hc y hy) _ (hfuelOf c hc)
        apply hI
        apply hgood.mono
        intro ev hev
        have := item_evs_mem_body e Γ cfg (targetUri mp.qname) R f' hbodyEq hc (hCE _ hv) hs hem hy hg ev hev
        simp [this]
      have hplainK : plainList M (R.flatMap fun c =>
          chunkTrees M (itemTreeNN M (itemRec Γ cfg M n (targetUri mp.qname)) c.1) c.1 c.2) = true := by
        rw [plainList_iff]
        intro t ht
        obtain ⟨c, hc, htc⟩ := List.mem_flatMap.1 ht
        exact (plainList_iff M _).1 (plain_chunkTrees (fun y hy =>
          ((hB _ (hspec.1 c hc).1).items y (hitemOf c hc y hy) _ (Or.inl rfl)).2)) t htc
      -- the parser
      have hAsg := AssignedOK_spec hspec hEnames MF.idxNodup (fun var hv => (hB var hv).short)
      have hFr : FreshOK (attrParamsN cfg mp.attributeVars fields) (R.flatMap chunkEntries) := by
        apply FreshOK_cnt
        intro en hen hl
        have hv := (mem_entries hspec hEnames hen).1
        refine ⟨?_, ?_⟩
        · rw [Params.has_eq_isSome, attrParamsN_get_none]
          · rfl
          · intro hmem
            obtain ⟨a, ha, han⟩ := List.mem_map.1 hmem
            exact hAE a ha en.1 hv han
        · rw [entries_of_var hspec hEnames hv, List.length_map]
          exact (hB en.1 hv).short hl
      have hK' := fun hgood => parseKids_chunks e Γ pcfg M
        (fun en => itemTreeNN M (itemRec Γ cfg M n (targetUri mp.qname)) en.1 en.2) R {}
        (fun c hc => ⟨hWr _ (hspec.1 c hc).1, fun en hen => hitemP hgood c hc en hen⟩)
        (AssignedOK_spec hspec hEnames MF.idxNodup (fun var hv => (hB var hv).short))
      have hWs : WsOK (stAfterChunks {} R).wrappers (R.flatMap chunkEntries) := by
        apply WsOK_of_queues
        · intro q'
          rw [wsGet_stAfterChunks]
          simp [wsGet]
        · intro en hen en' hen' hqq
          rw [eq_of_nodup_qname MF.qnNodup (mem_entries hspec hEnames hen).1
            (mem_entries hspec hEnames hen').1 hqq]
      have hF : classFactory Γ mp.clazz (bindEntries (attrParamsN cfg mp.attributeVars fields)
          (R.flatMap chunkEntries)) = .ok (.obj cls fields) := by
        rw [hclazz]
        apply classFactory_N Γ hfind fields _ hnames MF.fieldNodup
        intro fi hfi
        obtain ⟨var, hvar, hname⟩ := MF.covered fi hfi
        rcases List.mem_append.1 hvar with hvA | hvE
        · apply hfactoryA _ _ fi hfi var hvA hname
          intro w hw
          have hnone : (R.flatMap chunkEntries).filter (fun en => en.1.name = w.name) = [] := by
            rw [List.filter_eq_nil_iff]
            intro en hen hk
            simp only [decide_eq_true_eq] at hk
            exact hAE w hw en.1 (mem_entries hspec hEnames hen).1 hk.symm
          rw [get_bindEntries, hnone]
          exact hPA w hw
        · apply elem_field_okN (hFA var hvE) MF.fieldNodup hfi hname _ (hB var hvE).param
          rw [get_bindEntries, entries_of_var hspec hEnames hvE, attrParamsN_get_none,
            foldl_accVar]
          intro hmem
          obtain ⟨a, ha, han⟩ := List.mem_map.1 hmem
          exact hAE a ha var hvE han
      have hT : ∀ xn, bindText e pcfg mp xn M
          (bindEntries (attrParamsN cfg mp.attributeVars fields) (R.flatMap chunkEntries)) none =
          .ok (false, bindEntries (attrParamsN cfg mp.attributeVars fields) (R.flatMap chunkEntries), 0) := by
        intro xn; simp [bindText, htext]
      simp only [kidsN, hvalsN]
      generalize hkids : (R.flatMap fun c =>
          chunkTrees M (itemTreeNN M (itemRec Γ cfg M n (targetUri mp.qname)) c.1) c.1 c.2) = kids
        at hBodyW hbodyNil hempty hplainK hK'
      have hsubw := SubW_elemN (M := M) (isDt := isDatatype Γ) q
        (attrEvsT cfg mp.attributeVars fields xt ++ nilEvs mp.nillable)
        (attrPairsT cfg M mp.attributeVars fields xt) mp.nillable body.flatten _
        (hAW _) hAkeys hBodyW
      rw [hempty] at hsubw
      cases hke : kids.isEmpty with
      | true =>
        have hk0 : kids = [] := by simpa using hke
        have hxn := xsiNilOf_append (attrPairsT cfg M mp.attributeVars fields xt)
          hAkeys mp.nillable
        have hparse := fun hgood => parseNode_element_N e Γ pcfg mp q
          (attrPairsT cfg M mp.attributeVars fields xt ++ nilAttr mp.nillable) M none kids _ _ _ _
          false (.obj cls fields) MF.choices hWild
          (fun h => by
            rw [hxn] at h
            cases hN : mp.nillable with
            | false => simp [hN] at h
            | true => rfl)
          (hK' hgood) hentry hWs hFr (hBindA _) (hT _) hF
        refine ⟨[Ev.start q] ++ (attrEvsT cfg mp.attributeVars fields xt ++ nilEvs mp.nillable) ++
            body.flatten ++ [Ev.end q],
          attrPairsT cfg M mp.attributeVars fields xt ++ nilAttr mp.nillable, none, kids, ?_,
          by simp, ?_, ?_,
          ?_, fun hgood => ⟨hXT _ _ hgood, ?_⟩⟩
        · simp only [hNVe, hbodyEq, bind, Except.bind, pure, Except.pure]
        · simpa [hke, treeSax] using hsubw
        · simp [hke, plain, hplainK]
        · rw [hxn]
          cases hN : mp.nillable with
          | false => exact Or.inl (by simp)
          | true => exact Or.inr ⟨by simp, rfl⟩
        · intro xtN; simpa [hke] using hparse hgood xtN
      | false =>
        have hxn : xsiNilOf (attrPairsT cfg M mp.attributeVars fields xt) = none := by
          simpa [nilAttr] using xsiNilOf_append (attrPairsT cfg M mp.attributeVars fields xt)
            hAkeys false
        have hparse := fun hgood => parseNode_element_N e Γ pcfg mp q
          (attrPairsT cfg M mp.attributeVars fields xt) M none kids _ _ _ _
          false (.obj cls fields) MF.choices hWild
          (fun h => by rw [hxn] at h; cases h)
          (hK' hgood) hentry hWs hFr (by simpa [nilAttr] using hBindA false) (hT _) hF
        refine ⟨[Ev.start q] ++ (attrEvsT cfg mp.attributeVars fields xt ++ nilEvs mp.nillable) ++
            body.flatten ++ [Ev.end q], attrPairsT cfg M mp.attributeVars fields xt, none, kids, ?_,
          by simp, ?_, ?_,
          Or.inl hxn, fun hgood => ⟨hXT0 _ hgood, ?_⟩⟩
        · simp only [hNVe, hbodyEq, bind, Except.bind, pure, Except.pure]
        · simpa [hke, treeSax] using hsubw
        · simp [hke, plain, hplainK]
        · intro xtN; simpa [hke] using hparse hgood xtN
  | _ => simp [FN.valObjN] at hval


theorem main_allN (ft : Feat) (e : BEnv) (Γ : Ctx) (cfg : SerCfg) (pcfg : ParserConfig) (M : NsMap)
    (hΓ : ctxOK ft Γ = true) : ∀ n, MainStmtN ft e Γ cfg pcfg M n
  | 0 => by
    intro v c pnsP oq q fuel mp xt _ _ hval _
    simp [FN.valObjN] at hval
  | n + 1 => main_stepN ft e Γ cfg pcfg M hΓ n (main_allN ft e Γ cfg pcfg M hΓ n)

/-- the round trip for the fragment of feature set `ft`: generate, write, read back, parse -/
theorem roundtrip_FN (ft : Feat) (e : BEnv) (Γ : Ctx) (cfg : SerCfg) (pcfg : ParserConfig)
    (c : ClassId) (v : Val) (hΓ : ctxOK ft Γ = true) (hv : valOKI ft.inherit e Γ c v = true) :
    ∃ evs t, generate e Γ cfg v = .ok evs ∧ eventsTree (isDatatype Γ) evs = .ok t ∧
      parseRoot e Γ pcfg c t = .ok (v, 0) := by
  unfold valOKI at hv
  obtain ⟨n, hn⟩ : ∃ n, v.size = n + 1 := ⟨v.size - 1, by cases v <;> simp [Val.size] <;> omega⟩
  rw [hn] at hv
  obtain ⟨fields, rfl⟩ : ∃ fields, v = .obj c fields := by
    cases v <;> simp [FN.valObjN] at hv
    rename_i cls fs
    exact ⟨fs, by rw [hv.1]⟩
  obtain ⟨m, hm⟩ : ∃ m, metaOf Γ c none = some m := by
    simp only [FN.valObjN] at hv
    cases hf : Γ.find c with
    | none => simp [hf] at hv
    | some ci =>
      cases hmf : ci.metaFor none with
      | none => simp [hf, hmf] at hv
      | some m => exact ⟨m, by simp [metaOf, hf, hmf]⟩
  have hgenEq : generate e Γ cfg (.obj c fields) =
      genObj e Γ cfg (4 * (Val.obj c fields).size + 8) (.obj c fields) none none false none := rfl
  have key := fun M => main_allN ft e Γ cfg pcfg M hΓ (n + 1) (.obj c fields) c none none m.qname
    (4 * (Val.obj c fields).size + 8) m none hm rfl hv (by omega)
  obtain ⟨evs, _, _, _, hgen0, _⟩ := key []
  obtain ⟨evs', a, text, kids, hgen, htree, hsub, hplain, _, hP⟩ :=
    key (prefixMap (collectUris evs))
  have hevs : evs' = evs := by rw [hgen0] at hgen; cases hgen; rfl
  subst hevs
  obtain ⟨hxt, hparse⟩ := hP (typesGood_prefixMap e evs')
  refine ⟨evs', treeNN Γ cfg (prefixMap (collectUris evs')) (n + 1) none none m.qname (.obj c fields),
    by rw [hgenEq]; exact hgen, ?_, ?_⟩
  · have hfold := hsub.2 {} rfl (fun _ => rfl)
    simp only [eventsTree, eventsSax, hfold, bind, Except.bind, pure, Except.pure, afterW,
      WState.flush, List.nil_append, saxTree_root _ _ hplain]
  · rw [htree] at hparse ⊢
    have hfetch : Γ.fetch c none none = .ok m := by
      simp only [metaOf] at hm
      simp [Ctx.fetch, hm]
    simp [parseRoot, hxt, hfetch, hparse, bind, Except.bind, pure, Except.pure]

end Proofs.C01
