import Driver.Proto
import Driver.OpsBind
import XsdataModel.Generic.Basic
open Lean Proto Py Xs.Bind Xs.Generic

namespace OpsGeneric
open OpsBind

def emptyCtx : Ctx := ⟨[], [], []⟩

def dPre (j : Json) : Except String (List Ev) :=
  match j with
  | .null => .ok []
  | .str "none" => .ok [Ev.data .none]
  | _ => match j.getObjVal? "str" with
    | .ok s => (asStr s).map (fun s => [Ev.data (.prim (.str s))])
    | .error _ => .error "bad pre"

def sortStrs (xs : List Str) : List Str :=
  (xs.map String.ofList).eraseDups.mergeSort (fun a b => a ≤ b) |>.map String.toList

def run (op : String) (a : Json) : Option (Except String Json) :=
  match op with
  | "c11.tree" => some do
      let t ← dTree (field a "tree")
      pure <| match treeParse benv emptyCtx {} t with
        | .ok v => ok (jVal v)
        | .error e => jErr e
  | "c11.match" => some do
      let ns ← dOptStr (field a "namespace")
      let pns ← dOptStr (field a "parent")
      let inh ← dBool (field a "inherits")
      let qs ← dList dStr (field a "qnames")
      let nss := resolveNamespaces tblEnv inh ns pns
      pure <| ok (jObj [("namespaces", jList jStr (sortStrs nss)),
        ("matches", jList (fun q => jBool (matchNamespace nss q)) qs)])
  | "c11.anyrt" => some do
      let Γ ← dCtx (field a "ctx")
      let var ← dVar (field a "var")
      let host ← dStr (field a "host")
      let pre ← dPre (field a "pre")
      let ts ← dList dTree (field a "trees")
      let vals := ts.mapM (wildValue benv Γ {} var)
      let rt := wildRoundtrip benv Γ {} (isDatatype Γ) var host pre ts
      pure <| match vals, rt with
        | .ok vs, .ok t => ok (jObj [("values", jList jVal vs), ("tree", jTree t)])
        | .ok vs, .error e => ok (jObj [("values", jList jVal vs), ("tree", jErr e)])
        | .error e, _ => jErr e
  | "c11.roundtrip" => some do
      let Γ ← dCtx (field a "ctx")
      let v ← dVal (field a "value")
      let c ← dStr (field a "clazz")
      pure <| match (generate benv Γ {} v).bind (eventsTreeQ (isDatatype Γ)) with
        | .error e => jErr e
        | .ok t =>
          match parseRoot benv Γ (dCfg (field a "config")) c t with
          | .ok (v', w) => ok (jObj [("value", jVal v'), ("warnings", jNat w)])
          | .error e => jErr e
  | "c11.field" => some do
      let Γ ← dCtx (field a "ctx")
      let var ← dVar (field a "var")
      let host ← dStr (field a "host")
      let ts ← dList dTree (field a "trees")
      pure <| match fieldRoundtrip benv Γ {} (isDatatype Γ) var host ts with
        | .ok t => ok (jTree t)
        | .error e => jErr e
  | "c11.mixed" => some do
      let Γ ← dCtx (field a "ctx")
      let var ← dVar (field a "var")
      let host ← dStr (field a "host")
      let text ← dOptStr (field a "text")
      let ts ← dList dTree (field a "trees")
      pure <| match mixedRoundtrip benv Γ {} (isDatatype Γ) var host text ts with
        | .ok t => ok (jTree t)
        | .error e => jErr e
  | "c11.norm" => some do
      let t ← dTree (field a "tree")
      pure <| ok (jTree (normTree tblEnv [] t))
  | _ => none

end OpsGeneric
