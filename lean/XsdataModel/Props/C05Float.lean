/- C05 — property theorems, part 3: floats with the `repr` computed in the model
(`Conv/FloatRepr.lean`) instead of the oracle `CEnv.floatRepr`. -/
import XsdataModel.Props.C05
import XsdataModel.Proofs.FloatReprL

namespace Props.C05
open Py Xs.Conv Xs.Spec

/-- the environment the driver runs with: `repr(float(s))` is the Lean computation
(checked against CPython by the correspondence op `conv.float_repr`) -/
def ModelFloat (e : CEnv) : Prop := ∀ s, e.floatRepr s = pyFloatReprD e.toEnv s

/-- the model's `repr` of every finite double — whatever its significand and exponent —
has the shape `float_ser_valid` / `float_rt` ask for: that hypothesis is discharged -/
theorem model_repr_shape (neg : Bool) (m : Nat) (q : Int) :
    ∃ lit, PyReprFinite (F64.repr (.fin neg m q)) lit :=
  f64_repr_shape neg m q

/-- **every float that `FloatConverter.deserialize` returns is written as a valid
xs:double lexical form** (finite: upper-case `E`, no `E+`; `INF`, `-INF`, `NaN` otherwise),
and that form is read back as the literal it denotes -/
theorem float_de_ser_valid (e : CEnv) (hm : ModelFloat e) (s : Str) (f : PyFloat)
    (h : floatDeserialize e s = some f) :
    ∃ lit, XsdDouble (floatSerialize f) lit ∧ pyFloatLit e.toEnv (floatSerialize f) = some lit := by
  unfold floatDeserialize at h
  cases hl : pyFloatLit e.toEnv s with
  | none => simp [hl] at h
  | some l =>
    simp only [hl, Option.some.injEq] at h
    have hrepr : f.repr = l.toF64.repr := by
      rw [← h]; simp [hm s, pyFloatReprD, pyFloatRepr, hl]
    have hf : f = ⟨l.toF64.repr⟩ := by cases f; simp_all
    have acc : ∀ t lit, XsdDouble t lit → pyFloatLit e.toEnv t = some lit := by
      intro t lit ht
      have := float_accepts e.toEnv [] [] t lit (by intro c h; cases h) (by intro c h; cases h) ht
      simpa using this
    subst hf
    cases hx : l.toF64 with
    | fin neg m q =>
      obtain ⟨lit, hshape⟩ := model_repr_shape neg m q
      exact ⟨lit, float_ser_valid _ lit hshape, acc _ _ (float_ser_valid _ lit hshape)⟩
    | inf neg =>
      cases neg
      · have h1 : floatSerialize ⟨F64.repr (.inf false)⟩ = ['I', 'N', 'F'] := by decide
        have h2 : XsdDouble ['I', 'N', 'F'] (.inf false) := Or.inr (by decide)
        exact ⟨.inf false, by rw [h1]; exact h2, by rw [h1]; exact acc _ _ h2⟩
      · have h1 : floatSerialize ⟨F64.repr (.inf true)⟩ = ['-', 'I', 'N', 'F'] := by decide
        have h2 : XsdDouble ['-', 'I', 'N', 'F'] (.inf true) := Or.inr (by decide)
        exact ⟨.inf true, by rw [h1]; exact h2, by rw [h1]; exact acc _ _ h2⟩
    | nan =>
      have h1 : floatSerialize ⟨F64.repr .nan⟩ = ['N', 'a', 'N'] := by decide
      have h2 : XsdDouble ['N', 'a', 'N'] .nan := Or.inr (by decide)
      exact ⟨.nan, by rw [h1]; exact h2, by rw [h1]; exact acc _ _ h2⟩

/-- the driver's environment is such an environment -/
example (e : Env) (alpha : Char → Bool) : ModelFloat ⟨e, alpha, pyFloatReprD e⟩ := fun _ => rfl

/-- **the digits the shortest-repr search finds denote a decimal that rounds to the double**:
whenever the search over 1…17 significant digits succeeds with `D` (`k` digits), the decimal
`D × 10^(decpt - k)` is read by the model's `float()` rounding as exactly `m × 2^q` -/
theorem shortest_search_sound (m : Nat) (q : Int) (vn vd : Nat) (decpt : Int) (D k : Nat)
    (h : shortestSearch m q vn vd decpt 18 1 = some (D, k)) :
    roundDecimal false D (decpt - (k : Int)) = .fin false m q := by
  have := shortestSearch_back m q vn vd decpt 18 1 D k h
  have e : -((k : Int) - decpt) = decpt - (k : Int) := by omega
  rwa [e] at this

/-- spellings pinned on concrete doubles (kernel-evaluated): `1e22` is `1e+22` in Python and
`1E22` on the wire; fixed notation up to `1e16`; the smallest subnormal; a power of two, where
the rounding interval is asymmetric; `0.1`; a halfway case that rounds to even -/
theorem float_repr_examples :
    (FloatLit.fin false 1 22).toF64.repr = ['1', 'e', '+', '2', '2'] ∧
    floatSerialize ⟨(FloatLit.fin false 1 22).toF64.repr⟩ = ['1', 'E', '2', '2'] ∧
    (FloatLit.fin false 1 15).toF64.repr = ['1','0','0','0','0','0','0','0','0','0','0','0','0','0','0','0','.','0'] ∧
    (FloatLit.fin false 1 16).toF64.repr = ['1', 'e', '+', '1', '6'] ∧
    (FloatLit.fin false 1 (-5)).toF64.repr = ['1', 'e', '-', '0', '5'] ∧
    floatSerialize ⟨(FloatLit.fin false 1 (-5)).toF64.repr⟩ = ['1', 'E', '-', '0', '5'] ∧
    (FloatLit.fin true 5 (-324)).toF64.repr = ['-', '5', 'e', '-', '3', '2', '4'] ∧
    (FloatLit.fin false 2 (-324)).toF64.repr = ['0', '.', '0'] ∧
    (FloatLit.fin false 1 (-1)).toF64.repr = ['0', '.', '1'] ∧
    (FloatLit.fin false 9007199254740993 0).toF64.repr =
      ['9','0','0','7','1','9','9','2','5','4','7','4','0','9','9','2','.','0'] ∧
    (FloatLit.fin false 17976931348623159 292).toF64 = .inf false := by
  decide +kernel

/-! ## the hypotheses of the theorems above (and of test_sound / test_strict_float_sound in C05Types, whose own
example is a lax test) are satisfiable with the driver's environment (real float repr) -/

-- test_strict_float_sound / test_strict_implies_lax / float_de_ser_valid
example : test ⟨Env.ascii, fun _ => false, pyFloatReprD Env.ascii⟩ [' ', '1', 'E', '2', '2'] [.float] true {} = true ∧
    floatDeserialize ⟨Env.ascii, fun _ => false, pyFloatReprD Env.ascii⟩ ['1', 'e', '2', '2'] = some ⟨['1', 'e', '+', '2', '2']⟩ := by
  decide +kernel

-- shortest_search_sound (the double nearest 0.1)
example : shortestSearch 7205759403792794 (-56) 7205759403792794 72057594037927936 0 18 1 = some (1, 1) := by
  decide +kernel

end Props.C05
