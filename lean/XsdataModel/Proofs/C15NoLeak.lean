/-
C15 — helper lemmas: the predicate `Clean` ("the result is a value or one of the
parser-side errors") is closed under the monadic plumbing of `Except Err`, and every
function of `Bind/Parse.lean` below `parseRoot` is `Clean`.
-/
import XsdataModel.Bind.Parse

namespace Proofs.C15
open Py Xs.Bind

/-- The error classes a *parser* entry point may end in:
`ParserError`, `ConverterError`, `XmlContextError`, and the model's own marker
`unsupported` (input outside the modelled fragment: union nodes, defaults that are
arbitrary callables, builtin datatypes other than str/int/bool/QName, generic
list/dict values below a wildcard).  `leaked _` (any other exception type) and
`serializer _` (SerializerError has no business on the parsing side) are excluded. -/
def Err.parseSide : Err → Bool
  | .parser _ | .converter | .context _ | .unsupported _ => true
  | .serializer _ | .leaked _ => false

/-- decidable reading of a result -/
def cleanB {α} : Except Err α → Bool
  | .ok _ => true
  | .error err => Err.parseSide err

/-- `Clean r`: `r` is a value or a parser-side error -/
def Clean {α} (r : Except Err α) : Prop := cleanB r = true

theorem Clean.ok {α} (a : α) : Clean (Except.ok a : Except Err α) := rfl
theorem Clean.pure {α} (a : α) : Clean (pure a : Except Err α) := rfl
theorem Clean.parser {α} (m : String) : Clean (Except.error (.parser m) : Except Err α) := rfl
theorem Clean.converter {α} : Clean (Except.error .converter : Except Err α) := rfl
theorem Clean.context {α} (m : String) : Clean (Except.error (.context m) : Except Err α) := rfl
theorem Clean.unsupported {α} (m : String) : Clean (Except.error (.unsupported m) : Except Err α) := rfl
theorem Clean.throwParser {α} (m : String) : Clean (throw (Err.parser m) : Except Err α) := rfl
theorem Clean.throwUnsupported {α} (m : String) : Clean (throw (Err.unsupported m) : Except Err α) := rfl

theorem Clean.not_leaked {α} {r : Except Err α} (h : Clean r) (s : String) : r ≠ .error (.leaked s) := by
  intro hr; subst hr; simp [Clean, cleanB, Err.parseSide] at h

theorem Clean.not_serializer {α} {r : Except Err α} (h : Clean r) (s : String) : r ≠ .error (.serializer s) := by
  intro hr; subst hr; simp [Clean, cleanB, Err.parseSide] at h

theorem Clean.error_cast {α β} {err : Err} (h : Clean (Except.error err : Except Err α)) :
    Clean (Except.error err : Except Err β) := h

/-- closure under `>>=`, with the value of the first computation available -/
theorem Clean.bind' {α β} {x : Except Err α} {f : α → Except Err β}
    (hx : Clean x) (hf : ∀ a, x = .ok a → Clean (f a)) : Clean (x >>= f) := by
  cases x with
  | error err => exact hx
  | ok a => exact hf a rfl

theorem Clean.bind {α β} {x : Except Err α} {f : α → Except Err β}
    (hx : Clean x) (hf : ∀ a, Clean (f a)) : Clean (x >>= f) :=
  Clean.bind' hx (fun a _ => hf a)

theorem Clean.map {α β} {x : Except Err α} {f : α → β} (hx : Clean x) : Clean (f <$> x) := by
  cases x with
  | error err => exact hx
  | ok a => rfl

theorem Clean.mapM {α β} (f : α → Except Err β) (hf : ∀ a, Clean (f a)) :
    ∀ l : List α, Clean (l.mapM f)
  | [] => by simp [List.mapM_nil]; exact Clean.pure _
  | a :: l => by
    rw [List.mapM_cons]
    exact Clean.bind (hf a) (fun b => Clean.bind (Clean.mapM f hf l) (fun bs => Clean.pure _))

theorem Clean.foldlM {α σ} (f : σ → α → Except Err σ) (hf : ∀ s a, Clean (f s a)) :
    ∀ (l : List α) (s : σ), Clean (l.foldlM f s)
  | [], s => by simp [List.foldlM_nil]; exact Clean.pure _
  | a :: l, s => by
    rw [List.foldlM_cons]
    exact Clean.bind (hf s a) (fun s' => Clean.foldlM f hf l s')


/-! ### leaves -/

theorem parseVar_clean (e : BEnv) (cfg : ParserConfig) (var : VarCore) (value : Option Str) (nsmap : NsMap)
    (types : Option (List TypeRef)) : Clean (parseVar e cfg var value nsmap types) := by
  unfold parseVar
  cases value with
  | none => cases var.default <;> simp [Clean, cleanB, Err.parseSide]
  | some s =>
    simp only []
    split
    · split
      · rfl
      · split <;> rfl
    · split
      · rfl
      · split <;> rfl

theorem validateFixed_clean (e : Env) (var : VarCore) (value : Val) : Clean (validateFixed e var value) := by
  unfold validateFixed
  split <;> first | rfl | (split <;> rfl)

theorem fetch_clean (Γ : Ctx) (c : ClassId) (pns : Option Str) (xt : Option QN) : Clean (Γ.fetch c pns xt) := by
  unfold Ctx.fetch
  repeat' split
  all_goals rfl

theorem classFactory_clean (Γ : Ctx) (c : ClassId) (p : Params) : Clean (classFactory Γ c p) := by
  unfold classFactory
  split
  · rfl
  · dsimp only
    split <;> rfl


/-- whatever `QNameConverter.resolve` returns, its local part passed `is_ncname` -/
theorem resolveQName_ncname (e : BEnv) (value : Str) (nsmap : NsMap) (uri : Option Str) (name : Str)
    (h : resolveQName e value nsmap = some (uri, name)) : e.isNCName name = true := by
  unfold resolveQName at h
  dsimp only at h
  repeat' split at h
  all_goals (first | (exfalso; exact Option.noConfusion h) | skip)
  all_goals simp_all

theorem buildQName_some_tag (uri : Option Str) (name : Str) (hn : name ≠ []) :
    (buildQName uri (some name)).isSome = true := by
  unfold buildQName
  cases name with
  | nil => exact absurd rfl hn
  | cons c cs => repeat' split
                 all_goals simp_all

/-- `ParserUtils.xsi_type`: the `ValueError` of `build_qname` (empty tag) cannot happen,
because `QNameConverter.resolve` only returns names accepted by `is_ncname`. -/
theorem xsiTypeOf_clean (e : BEnv) (he : e.isNCName [] = false) (attrs : List (QN × Str)) (nsmap : NsMap) :
    Clean (xsiTypeOf e attrs nsmap) := by
  unfold xsiTypeOf
  split
  · rfl
  · rfl
  · split
    · rfl
    · rename_i uri name hres
      have hn : name ≠ [] := by
        intro h0; subst h0
        have := resolveQName_ncname e _ _ _ _ hres
        rw [he] at this; cases this
      have := buildQName_some_tag uri name hn
      split
      · rfl
      · rename_i hb; rw [hb] at this; cases this


/-- one step of the syntactic descent through a `do` block -/
macro "clean_leaf" : tactic => `(tactic| first
  | exact Clean.ok _ | exact Clean.pure _ | exact Clean.parser _ | exact Clean.converter
  | exact Clean.context _ | exact Clean.unsupported _ | exact Clean.throwParser _
  | exact Clean.throwUnsupported _
  | exact parseVar_clean _ _ _ _ _ _ | exact validateFixed_clean _ _ _ | exact fetch_clean _ _ _ _
  | exact classFactory_clean _ _ _
  | assumption)

macro "clean_descend" : tactic => `(tactic| repeat' (first
  | clean_leaf
  | apply Clean.bind
  | intro _
  | split
  | (dsimp only; done)
  | dsimp only))

theorem buildElementNode_clean (Γ : Ctx) (pns : Option Str) (clazz : ClassId) (derived nillable : Bool)
    (attrs : List (QN × Str)) (nsmap : NsMap) (df : Bool) (xt : Option QN) (xn : Option Bool) :
    Clean (buildElementNode Γ pns clazz derived nillable attrs nsmap df xt xn) := by
  unfold buildElementNode
  clean_descend


macro_rules | `(tactic| clean_leaf) => `(tactic| exact buildElementNode_clean _ _ _ _ _ _ _ _ _ _)
macro_rules | `(tactic| clean_leaf) => `(tactic| exact xsiTypeOf_clean _ ‹_› _ _)

theorem buildNode_clean (e : BEnv) (he : e.isNCName [] = false) (Γ : Ctx) (pmeta : XmlMeta) (qname : QN)
    (var : XmlVar) (attrs : List (QN × Str)) (nsmap : NsMap) :
    Clean (buildNode e Γ pmeta qname var attrs nsmap) := by
  unfold buildNode
  clean_descend

macro_rules | `(tactic| clean_leaf) => `(tactic| exact buildNode_clean _ ‹_› _ _ _ _ _ _)

theorem childNode_go_clean (e : BEnv) (he : e.isNCName [] = false) (Γ : Ctx) (cfg : ParserConfig) (m : XmlMeta)
    (st : ElState) (qname : QN) (attrs : List (QN × Str)) (nsmap : NsMap) (wrapper : Option QN) :
    ∀ vars, Clean (childNode.go e Γ cfg m st qname attrs nsmap wrapper vars)
  | [] => by unfold childNode.go; split <;> rfl
  | var :: rest => by
    have ih := childNode_go_clean e he Γ cfg m st qname attrs nsmap wrapper rest
    unfold childNode.go
    have hb := buildNode_clean e he Γ m qname var attrs nsmap
    dsimp only
    repeat' split
    all_goals first
      | exact ih
      | exact Clean.ok _
      | (rename_i heq; rw [heq] at hb; exact Clean.error_cast hb)

theorem childNode_clean (e : BEnv) (he : e.isNCName [] = false) (Γ : Ctx) (cfg : ParserConfig) (m : XmlMeta)
    (st : ElState) (qname : QN) (attrs : List (QN × Str)) (nsmap : NsMap) (wrapper : Option QN) :
    Clean (childNode e Γ cfg m st qname attrs nsmap wrapper) := by
  unfold childNode
  exact childNode_go_clean e he Γ cfg m st qname attrs nsmap wrapper _

theorem prepareGeneric_clean (q : Option QN) (v : Val) : Clean (prepareGeneric q v) := by
  unfold prepareGeneric
  clean_descend

macro_rules | `(tactic| clean_leaf) => `(tactic| exact prepareGeneric_clean _ _)

theorem bindWildVar_clean (p : Params) (var : XmlVar) (q : Option QN) (v : Val) : Clean (bindWildVar p var q v) := by
  unfold bindWildVar
  clean_descend


macro_rules | `(tactic| clean_leaf) => `(tactic| exact bindWildVar_clean _ _ _ _)
macro_rules | `(tactic| clean_leaf) => `(tactic| exact childNode_clean _ ‹_› _ _ _ _ _ _ _ _)

theorem bindObject_go_clean (params : Params) (wrapper : Option QN) (q : QN) (value : Val) :
    ∀ vars, Clean (bindObject.go params value wrapper q vars)
  | [] => by unfold bindObject.go; rfl
  | var :: rest => by
    have ih := bindObject_go_clean params wrapper q value rest
    have hw := bindWildVar_clean params var (some q) value
    unfold bindObject.go
    dsimp only
    repeat' split
    all_goals first
      | exact ih
      | exact Clean.ok _
      | (rename_i heq; rw [heq] at hw; exact Clean.error_cast hw)

theorem bindObject_clean (m : XmlMeta) (ws : List (QN × List QN)) (params : Params) (qname : Option QN)
    (value : Val) : Clean (bindObject m ws params qname value) := by
  unfold bindObject
  dsimp only
  split
  · clean_descend
  · apply Clean.bind
    · exact bindObject_go_clean _ _ _ _ _
    · clean_descend

theorem bindAttrs_clean (e : BEnv) (cfg : ParserConfig) (m : XmlMeta) (attrs : List (QN × Str)) (nsmap : NsMap) :
    Clean (bindAttrs e cfg m attrs nsmap) := by
  unfold bindAttrs
  apply Clean.foldlM
  intro acc kv
  clean_descend

theorem bindText_clean (e : BEnv) (cfg : ParserConfig) (m : XmlMeta) (xn : Option Bool) (nsmap : NsMap)
    (params : Params) (text : Option Str) : Clean (bindText e cfg m xn nsmap params text) := by
  unfold bindText
  clean_descend

macro_rules | `(tactic| clean_leaf) => `(tactic| exact bindObject_clean _ _ _ _ _)
macro_rules | `(tactic| clean_leaf) => `(tactic| exact bindAttrs_clean _ _ _ _ _)
macro_rules | `(tactic| clean_leaf) => `(tactic| exact bindText_clean _ _ _ _ _ _ _)


macro "clean_descend'" : tactic => `(tactic| repeat' (first
  | clean_leaf
  | apply Clean.bind
  | apply Clean.mapM
  | apply Clean.foldlM
  | intro _
  | split
  | dsimp only))

mutual

theorem parseNode_clean (e : BEnv) (he : e.isNCName [] = false) (Γ : Ctx) (cfg : ParserConfig) :
    ∀ (node : Node) (t : Tree), Clean (parseNode e Γ cfg node t)
  | node, .node qname attrs nsmap text children tail => by
    cases node with
    | skip => unfold parseNode; rfl
    | wrapper q => unfold parseNode; rfl
    | primitive pmeta var ns => unfold parseNode; dsimp only; clean_descend
    | standard var dt ns nillable derived => unfold parseNode; dsimp only; clean_descend
    | wildcard var a ns =>
      have hw := parseWild_clean e he Γ cfg var children
      unfold parseNode
      dsimp only
      clean_descend
    | element m a ns derived xt xn =>
      have hk := parseKids_clean e he Γ cfg m {} none children
      unfold parseNode
      dsimp only
      clean_descend'
termination_by _ t => sizeOf t

theorem parseWild_clean (e : BEnv) (he : e.isNCName [] = false) (Γ : Ctx) (cfg : ParserConfig) :
    ∀ (var : XmlVar) (ts : List Tree), Clean (parseWild e Γ cfg var ts)
  | var, [] => by unfold parseWild; rfl
  | var, (.node q a n t c tl) :: rest => by
    have h1 := parseNode_clean e he Γ cfg (.wildcard var a n) (.node q a n t c tl)
    have h2 := parseWild_clean e he Γ cfg var rest
    unfold parseWild
    clean_descend
termination_by _ ts => sizeOf ts

theorem parseKids_clean (e : BEnv) (he : e.isNCName [] = false) (Γ : Ctx) (cfg : ParserConfig) :
    ∀ (m : XmlMeta) (st : ElState) (wrapper : Option QN) (ts : List Tree),
      Clean (parseKids e Γ cfg m st wrapper ts)
  | m, st, wrapper, [] => by unfold parseKids; rfl
  | m, st, wrapper, (.node q a n t c tl) :: rest => by
    have h1 := fun node => parseNode_clean e he Γ cfg node (.node q a n t c tl)
    have h2 := fun st' => parseKids_clean e he Γ cfg m st' wrapper rest
    have h3 := parseKids_clean e he Γ cfg m st (some q) c
    unfold parseKids
    repeat' (first
      | clean_leaf
      | exact h1 _
      | exact h2 _
      | apply Clean.bind
      | intro _
      | split
      | dsimp only)
termination_by _ _ _ ts => sizeOf ts

end


theorem parseRoot_clean (e : BEnv) (he : e.isNCName [] = false) (Γ : Ctx) (cfg : ParserConfig) (c : ClassId) :
    ∀ t : Tree, Clean (parseRoot e Γ cfg c t)
  | .node q a n t ch tl => by
    have h := fun node => parseNode_clean e he Γ cfg node (.node q a n t ch tl)
    unfold parseRoot
    repeat' (first
      | clean_leaf
      | exact h _
      | apply Clean.bind
      | intro _
      | split
      | dsimp only)

end Proofs.C15
