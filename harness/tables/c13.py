"""C13: constants behind type inference from sample documents."""
from extract_tables import chars, extra, strs  # noqa: F401


@extra
def c13_samples(w):
    import math
    from decimal import Decimal

    from xsdata.formats.converter import converter
    from xsdata.models import enums
    from xsdata.models.enums import DataType, QNames, Tag

    w("-- xsdata/formats/converter.py __EXPLICIT_TYPES__ with DataType.from_type (C13)")
    pairs = [(tp.__name__, str(DataType.from_type(tp))) for tp in converter.explicit_types()]
    w("def explicitTypesDt : List (List Char × List Char) := [" + ", ".join(f"({chars(a)}, {chars(b)})" for a, b in pairs) + "]")
    w(f"def dtString : List Char := {chars(str(DataType.STRING))}")
    w(f"def dtAnySimpleType : List Char := {chars(str(DataType.ANY_SIMPLE_TYPE))}")
    w(f"def dtAnyType : List Char := {chars(str(DataType.ANY_TYPE))}")
    w(f"def dtError : List Char := {chars(str(DataType.ERROR))}")
    w(f"def dtQName : List Char := {chars(str(DataType.QNAME))}")
    w(f"def dtBoolean : List Char := {chars(str(DataType.from_value(True)))}")
    w(f"def qnXsiType : List Char := {chars(QNames.XSI_TYPE)}")
    w(f"def qnXsiNil : List Char := {chars(QNames.XSI_NIL)}")
    w(f"def smpTagElement : List Char := {chars(Tag.ELEMENT)}")
    w(f"def smpTagAttribute : List Char := {chars(Tag.ATTRIBUTE)}")
    w(f"def smpTagSimpleType : List Char := {chars(Tag.SIMPLE_TYPE)}")

    # int_datatype is a step function; its breakpoints are among the integer constants of its code
    f = enums.int_datatype
    consts = sorted({c for c in f.__code__.co_consts if isinstance(c, int) and not isinstance(c, bool)})
    cands = sorted({c + d for c in consts for d in (0, 1)})
    lowest = str(f(min(consts) - 10)) if consts else str(f(0))
    steps = []
    for x in cands:
        if f(x - 1) != f(x):
            steps.append((x, str(f(x))))
    w(f"def intDtLowest : List Char := {chars(lowest)}")
    w("def intDtSteps : List (Int × List Char) := [" + ", ".join(f"(({x} : Int), {chars(q)})" for x, q in steps) + "]")

    # float_datatype: one closed interval of FLOAT inside DOUBLE
    g = enums.float_datatype
    fl = sorted(c for c in g.__code__.co_consts if isinstance(c, float))
    if len(fl) != 2:
        raise RuntimeError(f"C13 tables: float_datatype has constants {fl}")
    lo, hi = fl
    inside, outside = str(g(0.0)), str(g(math.nextafter(hi, math.inf)))
    shape = (
        g(lo) == g(hi) == g(0.0)
        and g(math.nextafter(lo, -math.inf)) == g(math.nextafter(hi, math.inf)) == g(-1.0) == g(1e300)
        and inside != outside
    )
    if not shape:
        raise RuntimeError("C13 tables: float_datatype is no longer `lo <= v <= hi -> FLOAT else DOUBLE`")

    def me(x):
        sign, digits, exp = Decimal(repr(x)).as_tuple()
        m = int("".join(map(str, digits)))
        return (-m if sign else m), exp

    w(f"def floatDtInside : List Char := {chars(inside)}")
    w(f"def floatDtOutside : List Char := {chars(outside)}")
    w(f"def floatDtLo : Int × Int := (({me(lo)[0]} : Int), ({me(lo)[1]} : Int))")
    w(f"def floatDtHi : Int × Int := (({me(hi)[0]} : Int), ({me(hi)[1]} : Int))")
    w("")
