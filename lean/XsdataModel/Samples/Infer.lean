/-
C13 — type inference from sample values.

* `ConverterFactory.test(value, [tp], strict=True)` (xsdata/formats/converter.py) for
  every member of `converter.explicit_types()`;
* `RawDocumentMapper.build_attr_type` / `match_type` (xsdata/codegen/mappers/mixins.py);
* `DataType.from_value` for the non-string literals a JSON document delivers
  (xsdata/models/enums.py `int_datatype`, `float_datatype`).

`int`, `bool`, `XmlTime`, `XmlDate`, `XmlDateTime`, `XmlDuration`, `XmlPeriod` are
computed by the model (`Py.pyInt`, `Lex/Dates`, `Lex/Period`); `float` and `Decimal` by the
converter model of C05 (`Conv.test`: `float()` syntax, `Decimal(s)`, `format(d, "f")`).  The only
abstract function left is `repr` of a float (`CEnv.floatRepr`), whose answers the driver
receives with the request.
-/
import XsdataModel.Py.Basic
import XsdataModel.Lex.Dates
import XsdataModel.Lex.Period
import XsdataModel.Tables
import XsdataModel.Conv.Factory

namespace Xs.Samples
open Py Xs.Dates

/-- the python types `converter.explicit_types()` may contain -/
inductive PyT | int | bool | float | decimal | time | date | dateTime | duration | period
deriving DecidableEq, Repr

/-- `tp.__name__` → modelled type -/
def PyT.ofName (n : Str) : Option PyT :=
  if n = "int".toList then some .int
  else if n = "bool".toList then some .bool
  else if n = "float".toList then some .float
  else if n = "Decimal".toList then some .decimal
  else if n = "XmlTime".toList then some .time
  else if n = "XmlDate".toList then some .date
  else if n = "XmlDateTime".toList then some .dateTime
  else if n = "XmlDuration".toList then some .duration
  else if n = "XmlPeriod".toList then some .period
  else none

/-- the outside world of the inference: the converter environment of C05 (Python's Unicode
tables and `repr(float(s))`, the one function of the float converter that is not modelled) -/
structure SEnv where
  conv : Xs.Conv.CEnv

/-- the Unicode tables -/
abbrev SEnv.py (e : SEnv) : Env := e.conv.toEnv

/-- `BoolConverter.deserialize` for a `str` -/
def deBool (e : Env) (s : Str) : Option Bool :=
  let v := e.strip s
  if v = "true".toList || v = ['1'] then some true
  else if v = "false".toList || v = ['0'] then some false else none

def serBool (b : Bool) : Str := if b then "true".toList else "false".toList

/-- `converter.test(s, [tp], strict=True)`.  The strict re-serialisation applies to
`float`, `int` (hence also `bool`, a subclass of `int`), `Decimal` and `XmlPeriod`
(whose `str()` is the stripped input, so the comparison always succeeds). -/
def testStrict (e : SEnv) (t : PyT) (s : Str) : Bool :=
  match t with
  | .int => match e.py.pyInt s with
      | some i => e.py.strip s = intStr i
      | none => false
  | .bool => match deBool e.py s with
      | some b => e.py.strip s = serBool b
      | none => false
  | .float => Xs.Conv.test e.conv s [.float] true {}
  | .decimal => Xs.Conv.test e.conv s [.decimal] true {}
  | .time => (XmlTime.fromString e.py s).isSome
  | .date => (XmlDate.fromString e.py s).isSome
  | .dateTime => (XmlDateTime.fromString e.py s).isSome
  | .duration => (XmlDuration.ofString e.py s).isSome
  | .period => (XmlPeriod.ofString e.py s).isSome

/-- the live `__EXPLICIT_TYPES__` with `DataType.from_type`; an unknown type name
makes the entry `none` (see `explicit_types_known`) -/
def explicitTypes : List (Option PyT × Str) := Tables.explicitTypesDt.map fun (n, q) => (PyT.ofName n, q)

/-- `match_type(val)` for a `str` over a given priority list -/
def matchTypeIn (e : SEnv) (tbl : List (Option PyT × Str)) (s : Str) : Str :=
  match tbl.find? (fun (t, _) => match t with | some t => testStrict e t s | none => false) with
  | some (_, q) => q
  | none => Tables.dtString

/-- `match_type(val)` for a `str` -/
def matchType (e : SEnv) (s : Str) : Str := matchTypeIn e explicitTypes s

/-- a scalar of a raw document: XML delivers `str`/`None`, JSON also numbers and booleans.
A float is `m × 10^x` (the shortest repr the harness sends). -/
inductive Scalar
  | none
  | str (s : Str)
  | int (i : Int)
  | bool (b : Bool)
  | float (m : Int) (x : Int)
deriving DecidableEq, Repr

/-- `int_datatype(value)` from the step table of the live function -/
def intDatatype (i : Int) : Str :=
  Tables.intDtSteps.foldl (fun acc (st : Int × Str) => if st.1 ≤ i then st.2 else acc) Tables.intDtLowest

/-- `a.1 × 10^a.2 ≤ b.1 × 10^b.2` -/
def decLe (a b : Int × Int) : Bool :=
  let x := min a.2 b.2
  a.1 * (10 : Int) ^ (a.2 - x).toNat ≤ b.1 * (10 : Int) ^ (b.2 - x).toNat

/-- `float_datatype(value)` -/
def floatDatatype (m x : Int) : Str :=
  if decLe Tables.floatDtLo (m, x) && decLe (m, x) Tables.floatDtHi then Tables.floatDtInside
  else Tables.floatDtOutside

/-- `build_attr_type(qname, value).qname` -/
def buildAttrType (e : SEnv) (qname : Str) (v : Scalar) : Str :=
  if qname = Tables.qnXsiType then Tables.dtQName
  else match v with
    | .none => Tables.dtAnySimpleType
    | .str s => if s.isEmpty then Tables.dtAnySimpleType else matchType e s
    | .int i => intDatatype i
    | .bool _ => Tables.dtBoolean
    | .float m x => floatDatatype m x

end Xs.Samples
