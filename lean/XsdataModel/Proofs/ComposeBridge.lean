/-
From the generator's event lists (binding layer types, `BForest`) to the event
forests (`Content`) the writer theorems are stated over; flat, decidable
conditions on an event list that give `contentOK` / `shapeOK` / `plainContent`.
-/
import XsdataModel.Proofs.GenForest
import XsdataModel.Proofs.Shape
import XsdataModel.Xml.Compose

namespace Proofs.ComposeBridge
open Py Xs.Ns Xs.Writer Spec.EventTree Spec.Hyps Xs.Compose Proofs.GenForest Proofs.EventsTree

theorem convEvs_append (a b : List Xs.Bind.Ev) (es : List Ev) (h : convEvs (a ++ b) = some es) :
    ∃ ea eb, convEvs a = some ea ∧ convEvs b = some eb ∧ es = ea ++ eb := by
  induction a generalizing es with
  | nil => exact ⟨[], es, rfl, by simpa using h, rfl⟩
  | cons x r ih =>
    simp only [List.cons_append, convEvs] at h
    cases hx : convEv x with
    | none => rw [hx] at h; simp at h
    | some x' =>
      cases hr : convEvs (r ++ b) with
      | none => rw [hx, hr] at h; simp at h
      | some rb =>
        rw [hx, hr] at h
        simp only [Option.some.injEq] at h
        obtain ⟨ea, eb, h1, h2, h3⟩ := ih rb hr
        exact ⟨x' :: ea, eb, by simp [convEvs, hx, h1], h2, by rw [← h, h3]; rfl⟩

theorem attrsFollow_append (a b : List Ev) : ∀ p, attrsFollow p (a ++ b) = true →
    attrsFollow p a = true ∧ ∃ p', attrsFollow p' b = true := by
  induction a with
  | nil => intro p h; exact ⟨rfl, p, by simpa using h⟩
  | cons x r ih =>
    intro p h
    cases x with
    | attr q v =>
      simp only [List.cons_append, attrsFollow, Bool.and_eq_true] at h ⊢
      obtain ⟨h1, h2⟩ := ih true h.2
      exact ⟨⟨h.1, h1⟩, h2⟩
    | start q => simp only [List.cons_append, attrsFollow] at h ⊢; exact ih true h
    | data v => simp only [List.cons_append, attrsFollow] at h ⊢; exact ih false h
    | end_ q => simp only [List.cons_append, attrsFollow] at h ⊢; exact ih false h
    | unknown => simp only [List.cons_append, attrsFollow] at h ⊢; exact ih false h

/-- a well-nested list whose ATTR events follow their START is the flattening of a forest,
possibly preceded by attributes of the enclosing element -/
theorem forest_content {evs : List Xs.Bind.Ev} (hf : BForest evs) :
    ∀ (es : List Ev) (p : Bool), convEvs evs = some es → attrsFollow p es = true →
    ∃ (attrs : List (Str × Val)) (c : Content), es = attrEvents attrs ++ flatten c ∧ (attrs ≠ [] → p = true) := by
  induction hf with
  | nil =>
    intro es p h _
    simp [convEvs] at h
    exact ⟨[], .nil, by simp [← h, attrEvents, flatten], fun h => absurd rfl h⟩
  | @data d rest _ ih =>
    intro es p h ha
    simp only [convEvs, convEv] at h
    cases hd : convData d with
    | none => rw [hd] at h; simp at h
    | some v =>
      cases hr : convEvs rest with
      | none => rw [hd, hr] at h; simp at h
      | some res =>
        rw [hd, hr] at h
        simp only [Option.map_some, Option.some.injEq] at h
        subst h
        simp only [attrsFollow] at ha
        obtain ⟨a, c, hres, hp⟩ := ih res false hr ha
        have ha0 : a = [] := by
          cases a with
          | nil => rfl
          | cons x xs => exact absurd (hp (by simp)) (by simp)
        subst ha0
        exact ⟨[], .data v c, by simp [hres, attrEvents, flatten], fun h => absurd rfl h⟩
  | @attr q d rest _ ih =>
    intro es p h ha
    simp only [convEvs, convEv] at h
    cases hd : convData d with
    | none => rw [hd] at h; simp at h
    | some v =>
      cases hr : convEvs rest with
      | none => rw [hd, hr] at h; simp at h
      | some res =>
        rw [hd, hr] at h
        simp only [Option.map_some, Option.some.injEq] at h
        subst h
        simp only [attrsFollow, Bool.and_eq_true] at ha
        obtain ⟨a, c, hres, _⟩ := ih res true hr ha.2
        exact ⟨(q, v) :: a, c, by simp [hres, attrEvents], fun _ => ha.1⟩
  | @elem q kids rest _ _ ihk ihr =>
    intro es p h ha
    simp only [convEvs, convEv] at h
    cases hx : convEvs (kids ++ Xs.Bind.Ev.end q :: rest) with
    | none => rw [hx] at h; simp at h
    | some X =>
      rw [hx] at h
      simp only [Option.some.injEq] at h
      subst h
      obtain ⟨kes, ees, hk, he, hX⟩ := convEvs_append kids _ X hx
      simp only [convEvs, convEv] at he
      cases hr : convEvs rest with
      | none => rw [hr] at he; simp at he
      | some res =>
        rw [hr] at he
        simp only [Option.some.injEq] at he
        subst he
        subst hX
        simp only [attrsFollow] at ha
        obtain ⟨hak, p', har⟩ := attrsFollow_append kes _ true ha
        simp only [attrsFollow] at har
        obtain ⟨ak, ck, hkes, _⟩ := ihk kes true hk hak
        obtain ⟨ar, cr, hres, hpr⟩ := ihr res false hr har
        have ha0 : ar = [] := by
          cases ar with
          | nil => rfl
          | cons x xs => exact absurd (hpr (by simp)) (by simp)
        subst ha0
        refine ⟨[], .child q ak ck cr, ?_, fun h => absurd rfl h⟩
        simp [hkes, hres, attrEvents, flatten]

end Proofs.ComposeBridge

namespace Proofs.ComposeBridge
open Py Xs.Ns Xs.Writer Spec.EventTree Spec.Hyps Xs.Compose Proofs.GenForest Proofs.EventsTree

theorem all_attrEvents (f : Ev → Bool) (attrs : List (Str × Val)) (g : Str × Val → Bool)
    (h : ∀ a, f (Ev.attr a.1 a.2) = g a) : (attrEvents attrs).all f = attrs.all g := by
  induction attrs with
  | nil => rfl
  | cons a r ih => simp [attrEvents, List.all_cons, h a] at ih ⊢; simp [ih]

/-- lexical conditions: flat = tree -/
theorem lex_flatten (env : NsEnv) (d : Option Str) (c : Content) :
    (flatten c).all (evLexOK env d) = contentOK env d c := by
  induction c with
  | nil => rfl
  | data v rest ih => simp [flatten, contentOK, evLexOK, ih]
  | child q attrs kids rest ihk ihr =>
    simp only [flatten, List.all_cons, List.all_append, contentOK, evLexOK, ihk, ihr, Bool.true_and]
    rw [all_attrEvents (evLexOK env d) attrs (attrOK env d) (fun a => rfl)]
    cases elemNameOK q <;> cases attrs.all (attrOK env d) <;> cases contentOK env d kids <;> simp

theorem plain_flatten (c : Content) :
    (flatten c).all (fun ev => match ev with
      | .start q => (Spec.XmlNs.clark q).isSome
      | .attr q v => plainAttr (q, v)
      | .data v => (Spec.XmlNs.valText v).isSome
      | _ => true) = plainContent c := by
  induction c with
  | nil => rfl
  | data v rest ih => simp [flatten, plainContent, ih]
  | child q attrs kids rest ihk ihr =>
    simp only [flatten, List.all_cons, List.all_append, plainContent, ihk, ihr, Bool.true_and]
    rw [all_attrEvents _ attrs plainAttr (fun a => rfl)]
    cases (Spec.XmlNs.clark q).isSome <;> cases attrs.all plainAttr <;> cases plainContent kids <;> simp

theorem lateOK_attrs (attrs : List (Str × Val)) (X : List Ev) :
    lateOK true (attrEvents attrs ++ X) = lateOK true X := by
  induction attrs with
  | nil => rfl
  | cons a r ih => simpa [attrEvents, lateOK] using ih

/-- structural condition: flat = tree (`X`: what follows the forest — nothing or an END) -/
theorem late_flatten (c : Content) : ∀ (f : Bool) (X : List Ev), (X = [] ∨ ∃ q X', X = Ev.end_ q :: X') →
    lateOK f (flatten c ++ X) = (shapeOK f c && lateOK false X) := by
  induction c with
  | nil =>
    intro f X hX
    rcases hX with rfl | ⟨q, X', rfl⟩ <;> simp [flatten, shapeOK, lateOK]
  | data v rest ih =>
    intro f X hX
    simp only [flatten, List.cons_append, lateOK, shapeOK, ih false X hX, Bool.and_assoc]
  | child q attrs kids rest ihk ihr =>
    intro f X hX
    simp only [flatten, List.cons_append, List.append_assoc, lateOK, shapeOK]
    rw [lateOK_attrs, ihk true _ (Or.inr ⟨q, _, rfl⟩)]
    simp only [lateOK, ihr false X hX, Bool.and_assoc]

end Proofs.ComposeBridge

namespace Proofs.ComposeBridge
open Py Xs.Ns Xs.Writer Spec.EventTree Spec.Hyps Xs.Compose Proofs.GenForest Proofs.EventsTree

/-- the events of a generated document, seen by the writer: a `document` inside the hypotheses of the writer theorems -/
theorem generated_document (env : NsEnv) (d : Option Str) (e : Xs.Bind.BEnv) (Γ : Xs.Bind.Ctx)
    (scfg : Xs.Bind.SerCfg) (v : Xs.Bind.Val) (evs : List Xs.Bind.Ev) (es : List Ev)
    (hg : Xs.Bind.generate e Γ scfg v = .ok evs) (hc : convEvs evs = some es)
    (hok : eventsOK env d es = true) :
    ∃ q attrs kids, es = document q attrs kids
      ∧ contentOK env d (.child q attrs kids .nil) = true ∧ shapeOK true kids = true := by
  obtain ⟨qn, kids, hshape, hkids⟩ := generate_root e Γ scfg v evs hg
  subst hshape
  simp only [eventsOK, Bool.and_eq_true] at hok
  obtain ⟨⟨hlex, hattr⟩, hlate⟩ := hok
  -- split the converted list
  simp only [convEvs, convEv] at hc
  cases hx : convEvs (kids ++ [Xs.Bind.Ev.end qn]) with
  | none => rw [hx] at hc; simp at hc
  | some X =>
    rw [hx] at hc
    simp only [Option.some.injEq] at hc
    subst hc
    obtain ⟨kes, ees, hk, he, hX⟩ := convEvs_append kids _ X hx
    simp [convEvs, convEv] at he
    subst he
    subst hX
    simp only [attrsFollow] at hattr
    obtain ⟨hak, _⟩ := attrsFollow_append kes _ true hattr
    obtain ⟨a, ck, hkes, _⟩ := forest_content hkids kes true hk hak
    subst hkes
    have hdoc : Ev.start qn :: ((attrEvents a ++ flatten ck) ++ [Ev.end_ qn]) = document qn a ck := by
      simp [document, flatten]
    refine ⟨qn, a, ck, hdoc, ?_, ?_⟩
    · rw [← lex_flatten]
      have : flatten (.child qn a ck .nil) = Ev.start qn :: ((attrEvents a ++ flatten ck) ++ [Ev.end_ qn]) := by
        simp [flatten]
      rw [this]
      exact hlex
    · simp only [lateOK, List.append_assoc] at hlate
      rw [lateOK_attrs, late_flatten ck true [Ev.end_ qn] (Or.inr ⟨qn, [], rfl⟩)] at hlate
      simpa [lateOK] using hlate

end Proofs.ComposeBridge
