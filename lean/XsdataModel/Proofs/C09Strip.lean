import XsdataModel.Bind.Parse
namespace Proofs.C09
open Py Xs.Bind

/-! C09 helper lemmas: surrounding whitespace in the lexical value does not
change the converted value, for every `Env`. -/

/-- every character of `s` is whitespace for `str.isspace` -/
def allSpace (e : Env) (s : Str) : Bool := s.all e.isSpace

/-! ### generic `dropWhile`/`takeWhile` facts -/

theorem dropWhile_append_all {α} (p : α → Bool) (l x : List α) (h : l.all p = true) :
    (l ++ x).dropWhile p = x.dropWhile p := by
  induction l with
  | nil => rfl
  | cons a l ih =>
    simp only [List.all_cons, Bool.and_eq_true] at h
    simp [h.1, ih h.2]

theorem dropWhile_all {α} (p : α → Bool) (l : List α) (h : l.all p = true) :
    l.dropWhile p = [] := by
  have := dropWhile_append_all p l [] h
  simpa using this

theorem all_of_dropWhile_nil {α} (p : α → Bool) (l : List α) (h : l.dropWhile p = []) :
    l.all p = true := by
  induction l with
  | nil => rfl
  | cons a l ih =>
    rw [List.dropWhile_cons] at h
    split at h
    · rename_i hp
      simp [hp, ih h]
    · cases h

theorem dropWhile_append_ne_nil {α} (p : α → Bool) (s r : List α) (h : s.dropWhile p ≠ []) :
    (s ++ r).dropWhile p = s.dropWhile p ++ r := by
  induction s with
  | nil => exact absurd rfl h
  | cons a s ih =>
    rw [List.dropWhile_cons] at h
    rw [List.cons_append, List.dropWhile_cons, List.dropWhile_cons]
    split
    · rename_i hp
      rw [if_pos hp] at h
      exact ih h
    · rfl

theorem takeWhile_append_ne_nil {α} (p : α → Bool) (s r : List α) (h : s.dropWhile p ≠ []) :
    (s ++ r).takeWhile p = s.takeWhile p := by
  induction s with
  | nil => exact absurd rfl h
  | cons a s ih =>
    rw [List.dropWhile_cons] at h
    rw [List.cons_append, List.takeWhile_cons, List.takeWhile_cons]
    split
    · rename_i hp
      rw [if_pos hp] at h
      rw [ih h]
    · rfl

theorem dropWhile_head_false {α} (p : α → Bool) (s : List α) (c : α) (t : List α)
    (h : s.dropWhile p = c :: t) : p c = false := by
  induction s with
  | nil => cases h
  | cons a s ih =>
    rw [List.dropWhile_cons] at h
    split at h
    · exact ih h
    · rename_i hp
      cases h
      simpa using hp

theorem all_append' {α} (p : α → Bool) (a b : List α) (ha : a.all p = true) (hb : b.all p = true) :
    (a ++ b).all p = true := by
  simp [List.all_append, ha, hb]

theorem all_reverse' {α} (p : α → Bool) (a : List α) (ha : a.all p = true) :
    a.reverse.all p = true := by
  simpa using ha

/-! ### strip -/

theorem lstrip_pad (e : Env) (l s : Str) (hl : allSpace e l = true) : e.lstrip (l ++ s) = e.lstrip s :=
  dropWhile_append_all e.isSpace l s hl

theorem rstrip_pad (e : Env) (s r : Str) (hr : allSpace e r = true) : e.rstrip (s ++ r) = e.rstrip s := by
  unfold Env.rstrip
  rw [List.reverse_append, dropWhile_append_all e.isSpace r.reverse s.reverse (all_reverse' _ _ hr)]

theorem rstrip_nil (e : Env) : e.rstrip [] = [] := rfl

theorem strip_pad (e : Env) (l s r : Str) (hl : allSpace e l = true) (hr : allSpace e r = true) :
    e.strip (l ++ s ++ r) = e.strip s := by
  unfold Env.strip
  rw [List.append_assoc, lstrip_pad e l (s ++ r) hl]
  by_cases h : e.lstrip s = []
  · have hs : s.all e.isSpace = true := all_of_dropWhile_nil _ _ h
    have : e.lstrip (s ++ r) = [] := dropWhile_all _ _ (all_append' _ _ _ hs hr)
    rw [this, h]
  · have : e.lstrip (s ++ r) = e.lstrip s ++ r := dropWhile_append_ne_nil _ _ _ h
    rw [this, rstrip_pad e _ r hr]

theorem pyInt_pad (e : Env) (l s r : Str) (hl : allSpace e l = true) (hr : allSpace e r = true) :
    e.pyInt (l ++ s ++ r) = e.pyInt s := by
  unfold Env.pyInt
  rw [strip_pad e l s r hl hr]

theorem resolveQName_pad (e : BEnv) (l s r : Str) (n : NsMap) (hl : allSpace e.py l = true) (hr : allSpace e.py r = true) :
    resolveQName e (l ++ s ++ r) n = resolveQName e s n := by
  unfold resolveQName
  rw [strip_pad e.py l s r hl hr]

/-- the converter of this type strips its input (everything except `str`/`object`) -/
def strips : TypeRef → Bool
  | .prim .str | .obj => false
  | _ => true

theorem deOne_pad (e : BEnv) (l s r : Str) (t : TypeRef) (n : NsMap) (ht : strips t = true)
    (hl : allSpace e.py l = true) (hr : allSpace e.py r = true) :
    deOne e (l ++ s ++ r) t n = deOne e s t n := by
  unfold deOne
  split
  · simp [strips] at ht
  · simp [strips] at ht
  · rw [pyInt_pad e.py l s r hl hr]
  · rw [strip_pad e.py l s r hl hr]
  · rw [resolveQName_pad e l s r n hl hr]
  · rfl
  · rfl

theorem deserialize_pad (e : BEnv) (l s r : Str) (ts : List TypeRef) (n : NsMap) (ht : ts.all strips = true)
    (hl : allSpace e.py l = true) (hr : allSpace e.py r = true) :
    deserialize e (l ++ s ++ r) ts n = deserialize e s ts n := by
  unfold deserialize
  induction ts with
  | nil => rfl
  | cons t ts ih =>
    simp only [List.all_cons, Bool.and_eq_true] at ht
    rw [List.findSome?_cons, List.findSome?_cons, deOne_pad e l s r t n ht.1 hl hr, ih ht.2]

/-! ### `str.split()` -/

theorem dropWhile_not_of_all {α} (p : α → Bool) (r : List α) (h : r.all p = true) :
    r.dropWhile (fun c => !p c) = r := by
  cases r with
  | nil => rfl
  | cons a r =>
    simp only [List.all_cons, Bool.and_eq_true] at h
    simp [h.1]

theorem takeWhile_not_of_all {α} (p : α → Bool) (r : List α) (h : r.all p = true) :
    r.takeWhile (fun c => !p c) = [] := by
  cases r with
  | nil => rfl
  | cons a r =>
    simp only [List.all_cons, Bool.and_eq_true] at h
    simp [h.1]

theorem length_dropWhile_le' {α} (p : α → Bool) (s : List α) : (s.dropWhile p).length ≤ s.length := by
  induction s with
  | nil => exact Nat.le_refl _
  | cons a s ih =>
    rw [List.dropWhile_cons]
    split
    · exact Nat.le_succ_of_le ih
    · exact Nat.le_refl _

theorem takeWhile_of_forall {α} (p : α → Bool) (s : List α) (h : ∀ a ∈ s, p a = true) :
    s.takeWhile p = s := by
  induction s with
  | nil => rfl
  | cons a s ih =>
    rw [List.takeWhile_cons, if_pos (h a (List.mem_cons_self ..)),
      ih (fun b hb => h b (List.mem_cons_of_mem _ hb))]

/-- any fuel above the length of the remaining string gives the same result -/
theorem go_fuel (e : Env) : ∀ (f1 f2 : Nat) (s : Str) (acc : List Str),
    s.length < f1 → s.length < f2 → pySplitWs.go e f1 s acc = pySplitWs.go e f2 s acc := by
  intro f1
  induction f1 with
  | zero => intro f2 s acc h; omega
  | succ f1 ih =>
    intro f2 s acc h1 h2
    cases f2 with
    | zero => omega
    | succ f2 =>
      unfold pySplitWs.go
      simp only
      cases hs : s.dropWhile e.isSpace with
      | nil => rfl
      | cons c t =>
        have hc : e.isSpace c = false := dropWhile_head_false _ _ _ _ hs
        have hlen : (c :: t).length ≤ s.length := by
          rw [← hs]; exact length_dropWhile_le' _ _
        have hd : ((c :: t).dropWhile fun c => !e.isSpace c).length ≤ t.length := by
          rw [List.dropWhile_cons]
          simp only [hc, Bool.not_false, if_true]
          exact length_dropWhile_le' _ _
        simp only [List.length_cons] at hlen
        have : (c :: t).isEmpty = false := rfl
        simp only [this, Bool.false_eq_true, if_false]
        exact ih f2 _ _ (by omega) (by omega)

/-- leading whitespace disappears in the first step -/
theorem go_lpad (e : Env) (f : Nat) (l x : Str) (acc : List Str) (hl : allSpace e l = true) :
    pySplitWs.go e (f + 1) (l ++ x) acc = pySplitWs.go e (f + 1) x acc := by
  unfold pySplitWs.go
  simp only
  rw [dropWhile_append_all e.isSpace l x hl]

/-- a string of whitespace yields no further token -/
theorem go_allSpace (e : Env) (f : Nat) (r : Str) (acc : List Str) (hr : allSpace e r = true) :
    pySplitWs.go e f r acc = acc.reverse := by
  cases f with
  | zero => rfl
  | succ f =>
    unfold pySplitWs.go
    simp only
    rw [dropWhile_all e.isSpace r hr]
    rfl

/-- trailing whitespace does not change the result, for any fuel -/
theorem go_rpad (e : Env) (r : Str) (hr : allSpace e r = true) : ∀ (f : Nat) (s : Str) (acc : List Str),
    pySplitWs.go e f (s ++ r) acc = pySplitWs.go e f s acc := by
  intro f
  induction f with
  | zero => intro s acc; rfl
  | succ f ih =>
    intro s acc
    by_cases h : s.dropWhile e.isSpace = []
    · have hs : s.all e.isSpace = true := all_of_dropWhile_nil _ _ h
      rw [go_allSpace e _ (s ++ r) acc (all_append' _ _ _ hs hr), go_allSpace e _ s acc hs]
    · unfold pySplitWs.go
      simp only
      rw [dropWhile_append_ne_nil _ _ _ h]
      generalize s.dropWhile e.isSpace = s' at h
      have h1 : (s' ++ r).isEmpty = false := by
        cases s' with
        | nil => exact absurd rfl h
        | cons => rfl
      have h2 : s'.isEmpty = false := by
        cases s' with
        | nil => exact absurd rfl h
        | cons => rfl
      simp only [h1, h2, Bool.false_eq_true, if_false]
      by_cases hq : s'.dropWhile (fun c => !e.isSpace c) = []
      · have hall : ∀ a ∈ s', (fun c => !e.isSpace c) a = true := by
          have := all_of_dropWhile_nil _ _ hq
          simpa using this
        rw [List.dropWhile_append_of_pos hall, List.takeWhile_append_of_pos hall, hq,
          dropWhile_not_of_all _ _ hr, takeWhile_not_of_all _ _ hr, List.append_nil,
          takeWhile_of_forall _ _ hall, go_allSpace e f r _ hr, go_allSpace e f [] _ rfl]
      · rw [dropWhile_append_ne_nil _ _ _ hq, takeWhile_append_ne_nil _ _ _ hq]
        exact ih _ _

theorem pySplitWs_pad (e : Env) (l s r : Str) (hl : allSpace e l = true) (hr : allSpace e r = true) :
    pySplitWs e (l ++ s ++ r) = pySplitWs e s := by
  unfold pySplitWs
  rw [List.append_assoc, go_lpad e _ l (s ++ r) [] hl, go_rpad e r hr]
  exact go_fuel e _ _ s [] (by simp only [List.length_append]; omega) (by omega)

/-! ### non-vacuity -/

example : allSpace Env.ascii [' ', '\t', '\n'] = true := by decide
example : Env.ascii.strip [' ', '4', '2', '\n'] = ['4', '2'] := by decide
example : Env.ascii.pyInt [' ', '4', '2', '\n'] = some 42 := by decide
example : Env.ascii.pyInt ['4', '2'] = some 42 := by decide
example : Env.ascii.pyInt ['\t', '-', '7', ' '] = some (-7) := by decide
example : pySplitWs Env.ascii [' ', 'a', 'b', ' ', ' ', 'c', '\n'] = [['a', 'b'], ['c']] := by decide
example : strips (.prim .int) = true ∧ strips (.prim .bool) = true ∧ strips (.prim .qname) = true
    ∧ strips (.prim .str) = false ∧ strips .obj = false := by decide

/-- an instance of `deOne_pad` with concrete padding, for every environment whose
`py` component is `Env.ascii` -/
example (e : BEnv) (he : e.py = Env.ascii) (n : NsMap) :
    deOne e ([' ', '\t'] ++ ['1'] ++ ['\n']) (.prim .bool) n = some (.bool true) := by
  rw [deOne_pad e _ _ _ _ n rfl (by rw [he]; decide) (by rw [he]; decide)]
  simp only [deOne, he]
  decide

/-- ASCII whitespace is whitespace in every `Env`, so the padding hypotheses are
satisfiable for every `Env` -/
example (e : Env) : allSpace e [' ', '\t', '\n', '\r'] = true := by
  simp [allSpace, Env.isSpace, isAscii, isAsciiSpace]

/-- without `strips` the statement is false: `str` keeps the padding -/
example (e : BEnv) (n : NsMap) :
    deOne e ([' '] ++ ['a'] ++ [' ']) (.prim .str) n ≠ deOne e ['a'] (.prim .str) n := by
  simp [deOne]

end Proofs.C09
