"""C04 — JSON and dictionary round-trip: decoding what was encoded gives back the same
object; the encoded form only holds JSON-native values."""
import json
import random

import bindgen as G
import bindlib as B
import c04_dict as D
from bindcases import CONFIGS, _UNIS, n_cases, uni_of, unsupported
from framework import Corr, Oracle

PROP_ID = "C04"
DESIGN_REF = "6/C04"


# ------------------------------------------------------------------ generators
def instances(rng, tier, n_uni, per_uni):
    """(universe, desc, ctx, object) over full-feature and plain universes"""
    for i in range(n_uni):
        feats = D.FEATURES if i % 3 else D.PLAIN | {"inherit"}
        u, desc, ctx = D.new_universe(rng, feats)
        for _ in range(per_uni):
            try:
                obj = G.gen_instance(rng, u, "Root")
            except Exception:  # noqa: BLE001
                continue
            yield u, desc, ctx, obj


def value_and_target(rng, u, obj):
    """a single model or a list-of-models document"""
    if rng.random() < 0.25:
        objs = [obj] + [G.gen_instance(rng, u, "Root") for _ in range(rng.randint(0, 2))]
        return {"list": [u.to_val(o) for o in objs]}, {"list": "Root"}
    return u.to_val(obj), {"cls": "Root"}


def gen_enc(rng, tier):
    for u, desc, ctx, obj in instances(rng, tier, n_cases(tier, 50, 1200), 5):
        value, _ = value_and_target(rng, u, obj)
        yield {"ctx": ctx, "value": value, "factory": rng.choice(["dict", "filter_none"]),
               "ignore_default_attributes": rng.random() < 0.25, "route": rng.choice(["dict", "json"]),
               "desc": desc, "_uni": u.modname}


def impl_enc(a):
    u = uni_of(a)
    try:
        r = D.real_encode(u, a["value"], a["factory"], a["ignore_default_attributes"], a.get("route", "dict"))
    except Exception as e:  # noqa: BLE001
        return B.classify_exc(e)
    try:
        return {"ok": D.to_j(r)}
    except D.NonNative as e:
        return {"err": "NON-NATIVE:" + str(e)}


def cmp_skip(mo, io, a):
    if unsupported(mo):
        return True
    return mo == io


def gen_dec(rng, tier):
    for u, desc, ctx, obj in instances(rng, tier, n_cases(tier, 50, 1200), 4):
        value, target = value_and_target(rng, u, obj)
        fac = rng.choice(["dict", "filter_none"])
        try:
            data = D.real_encode(u, value, fac, rng.random() < 0.2)
            D.to_j(data)
        except Exception:  # noqa: BLE001
            continue
        docs = [("valid", data)]
        for _ in range(3):
            docs.append(D.mutate(rng, data))
        for kind, doc in docs:
            try:
                tagged = D.to_j(doc)
            except D.NonNative:
                continue
            t = target
            r = rng.random()
            if r < 0.12:
                t = None                      # detect the type from the keys
            elif r < 0.17:
                t = {"cls": "Root"} if "list" in target else {"list": "Root"}
            yield {"ctx": ctx, "data": tagged, "target": t, "config": rng.choice(CONFIGS), "route": rng.choice(["dict", "json"]),
                   "desc": desc, "_uni": u.modname, "_kind": kind, "_factory": fac}


def impl_dec(a):
    u = uni_of(a)
    try:
        r = D.real_decode(u, D.from_j(a["data"]), a["target"], a["config"], a.get("route", "dict"))
    except Exception as e:  # noqa: BLE001
        return B.classify_exc(e)
    return {"ok": D.result_val(u, r)}


def cmp_member(mo, io, a):
    """the model returns the set of admissible results (set iteration order of the candidate classes)"""
    if unsupported(mo):
        return True
    if "ok" in mo and "ok" in io:
        return io["ok"] in mo["ok"]
    return mo == io


def classify_dec(a, o):
    k = a.get("_kind", "?")
    r = "ok" if "ok" in o else o.get("err", "unsupported")
    return f"{k}:{r}"


def gen_rt(rng, tier):
    for u, desc, ctx, obj in instances(rng, tier, n_cases(tier, 50, 1200), 5):
        value, target = value_and_target(rng, u, obj)
        yield {"ctx": ctx, "value": value, "target": target, "factory": rng.choice(["dict", "filter_none"]), "config": {},
               "ignore_default_attributes": rng.random() < 0.2, "route": rng.choice(["dict", "json"]), "desc": desc, "_uni": u.modname}


def impl_rt(a):
    u = uni_of(a)
    try:
        data = D.real_encode(u, a["value"], a["factory"], a["ignore_default_attributes"], a["route"])
        r = D.real_decode(u, data, a["target"], a["config"], a["route"])
    except Exception as e:  # noqa: BLE001
        return B.classify_exc(e)
    return {"ok": D.result_val(u, r)}


def classify_rt(a, o):
    if "ok" in o:
        return "identity" if o["ok"] == a["value"] else "changed"
    return o.get("err", "?")


CORRS = [
    Corr("dict.enc", gen_enc, impl_enc, compare=cmp_skip,
         describe="DictEncoder.encode / JsonSerializer.render (+json.loads) vs model, both factories; the harness rejects non JSON-native outputs"),
    Corr("dict.dec", gen_dec, impl_dec, compare=cmp_member, classify=classify_dec,
         describe="DictDecoder.decode / JsonParser.from_string vs model on real encodings and single-point faults (unknown keys, wrong shapes), "
                  "explicit / list / detected target"),
    Corr("dict.roundtrip", gen_rt, impl_rt, compare=cmp_member, classify=classify_rt,
         describe="real encode+decode (dict and JSON text routes) vs model encode+decode"),
]

ORACLES = []
FINDINGS = {}
TRUSTED = []
ASSUMPTIONS = []
LEVEL_TEXT = "pending"
LEVEL_NOTE = "pending"
