/-
L1 — xsdata/models/datatype.py : `to_datetime` / `from_datetime` / `to_date` /
`from_date` / `to_time` / `from_time`, and xsdata/utils/dates.py :
`calculate_timezone` / `calculate_offset`, against a record model of the
standard library's `datetime.date` / `time` / `datetime` / `timezone`.

What is modelled of CPython's `datetime` (C implementation):
* the constructors first convert every integer argument to a C `int`
  (`OverflowError` outside −2³¹ … 2³¹−1), then check the ranges
  (`ValueError`): year 1..9999, month 1..12, day 1..days-in-month, hour 0..23,
  minute/second 0..59, microsecond 0..999999;
* `timedelta(minutes=n)` overflows (`OverflowError`) when |n // 1440| exceeds
  999 999 999 days; `timezone(td)` demands −24 h < td < 24 h (`ValueError`);
* a `timezone`'s `utcoffset()` is a `timedelta` with microsecond resolution; it
  is kept here as an integer number of microseconds;
* `int(td.total_seconds() // 60)` is `⌊µs / 60 000 000⌋` (the float quotient is
  exact enough for |td| < 1 day: checked by the correspondence op).
A naive value (no `tzinfo`) is read as UTC when its instant is taken, as
`_timeline` does for a missing offset.
-/
import XsdataModel.Lex.Period

namespace Xs.Dates
open Py

inductive PyErr | valueError | overflowError
deriving DecidableEq, Repr

/-- does the Python int fit a C `int` -/
def cInt (i : Int) : Bool := -2147483648 ≤ i && i ≤ 2147483647

/-- `datetime.date` -/
structure PyDate where
  year : Int
  month : Int
  day : Int
deriving DecidableEq, Repr

/-- `datetime.time`; `utcoffset` in microseconds, `none` = naive -/
structure PyTime where
  hour : Int
  minute : Int
  second : Int
  microsecond : Int
  utcoffset : Option Int
deriving DecidableEq, Repr

/-- `datetime.datetime` -/
structure PyDateTime where
  year : Int
  month : Int
  day : Int
  hour : Int
  minute : Int
  second : Int
  microsecond : Int
  utcoffset : Option Int
deriving DecidableEq, Repr

/-- range check of the date fields (`_check_date_fields` / `check_date_args`) -/
def pyDateFieldsOk (y m d : Int) : Bool := 1 ≤ y && y ≤ 9999 && validateDate y m d

/-- range check of the time fields -/
def pyTimeFieldsOk (h mi s us : Int) : Bool :=
  0 ≤ h && h ≤ 23 && 0 ≤ mi && mi ≤ 59 && 0 ≤ s && s ≤ 59 && 0 ≤ us && us ≤ 999999

/-- `datetime.date(y, m, d)` -/
def pyDateNew (y m d : Int) : Except PyErr PyDate :=
  if !(cInt y && cInt m && cInt d) then .error .overflowError
  else if !pyDateFieldsOk y m d then .error .valueError
  else .ok ⟨y, m, d⟩

/-- `datetime.time(h, mi, s, us, tzinfo=tz)` -/
def pyTimeNew (h mi s us : Int) (tz : Option Int) : Except PyErr PyTime :=
  if !(cInt h && cInt mi && cInt s && cInt us) then .error .overflowError
  else if !pyTimeFieldsOk h mi s us then .error .valueError
  else .ok ⟨h, mi, s, us, tz⟩

/-- `datetime.datetime(y, m, d, h, mi, s, us, tzinfo=tz)` -/
def pyDateTimeNew (y m d h mi s us : Int) (tz : Option Int) : Except PyErr PyDateTime :=
  if !(cInt y && cInt m && cInt d && cInt h && cInt mi && cInt s && cInt us) then .error .overflowError
  else if !(pyDateFieldsOk y m d && pyTimeFieldsOk h mi s us) then .error .valueError
  else .ok ⟨y, m, d, h, mi, s, us, tz⟩

/-- `dates.calculate_timezone(offset)`: the `utcoffset` (µs) of the resulting
`timezone`, `none` for no timezone -/
def calculateTimezone (offset : Option Int) : Except PyErr (Option Int) :=
  match offset with
  | none => .ok none
  | some o =>
    if o = 0 then .ok (some 0)
    else
      let days := pyDiv o 1440
      if days < -999999999 || days > 999999999 then .error .overflowError
      else if !(-1440 < o && o < 1440) then .error .valueError
      else .ok (some (o * 60000000))

/-- `dates.calculate_offset(obj)` from `obj.utcoffset()` in microseconds -/
def calculateOffset (utcoffset : Option Int) : Option Int :=
  utcoffset.map fun u => pyDiv u 60000000

/-! ### conversions -/

/-- `XmlDate.to_date` -/
def XmlDate.toDate (v : XmlDate) : Except PyErr PyDate := pyDateNew v.year v.month v.day

/-- `XmlDate.to_datetime` (the timezone is computed first) -/
def XmlDate.toDatetime (v : XmlDate) : Except PyErr PyDateTime :=
  match calculateTimezone v.offset with
  | .error x => .error x
  | .ok tz => pyDateTimeNew v.year v.month v.day 0 0 0 0 tz

/-- `XmlDate.from_date` -/
def XmlDate.fromDate (d : PyDate) : XmlDate := ⟨d.year, d.month, d.day, none⟩

/-- `XmlDate.from_datetime` -/
def XmlDate.fromDatetime (d : PyDateTime) : XmlDate :=
  ⟨d.year, d.month, d.day, calculateOffset d.utcoffset⟩

/-- `XmlDateTime.to_datetime`; `microsecond = fractional_second // 1000` -/
def XmlDateTime.toDatetime (v : XmlDateTime) : Except PyErr PyDateTime :=
  match calculateTimezone v.offset with
  | .error x => .error x
  | .ok tz => pyDateTimeNew v.year v.month v.day v.hour v.minute v.second (pyDiv v.frac 1000) tz

/-- `XmlDateTime.from_datetime` -/
def XmlDateTime.fromDatetime (d : PyDateTime) : XmlDateTime :=
  ⟨d.year, d.month, d.day, d.hour, d.minute, d.second, d.microsecond * 1000,
    calculateOffset d.utcoffset⟩

/-- `XmlTime.to_time` -/
def XmlTime.toTime (v : XmlTime) : Except PyErr PyTime :=
  match calculateTimezone v.offset with
  | .error x => .error x
  | .ok tz => pyTimeNew v.hour v.minute v.second (pyDiv v.frac 1000) tz

/-- `XmlTime.from_time` -/
def XmlTime.fromTime (t : PyTime) : XmlTime :=
  ⟨t.hour, t.minute, t.second, t.microsecond * 1000, calculateOffset t.utcoffset⟩

/-! ### instants of the standard-library values (nanoseconds; naive = UTC) -/

def PyDateTime.instantNs (d : PyDateTime) : Int :=
  (((daysFromCivil d.year d.month d.day * 24 + d.hour) * 60 + d.minute) * 60 + d.second) * 1000000000
    + d.microsecond * 1000 - d.utcoffset.getD 0 * 1000

def PyTime.instantNs (t : PyTime) : Int :=
  ((t.hour * 60 + t.minute) * 60 + t.second) * 1000000000
    + t.microsecond * 1000 - t.utcoffset.getD 0 * 1000

/-- what the standard library guarantees of a `datetime` object -/
def PyDateTime.wf (d : PyDateTime) : Prop :=
  pyDateFieldsOk d.year d.month d.day = true ∧
  pyTimeFieldsOk d.hour d.minute d.second d.microsecond = true ∧
  ∀ u, d.utcoffset = some u → -86400000000 < u ∧ u < 86400000000

def PyTime.wf (t : PyTime) : Prop :=
  pyTimeFieldsOk t.hour t.minute t.second t.microsecond = true ∧
  ∀ u, t.utcoffset = some u → -86400000000 < u ∧ u < 86400000000

def PyDate.wf (d : PyDate) : Prop := pyDateFieldsOk d.year d.month d.day = true

/-- offsets `timezone()` accepts: strictly inside ±24 h -/
def stdOffset (o : Option Int) : Prop := ∀ x, o = some x → -1440 < x ∧ x < 1440

end Xs.Dates
