/-
C09 — when the handlers read the tail of an element.

`XmlEventHandler.process_context` / `LxmlEventHandler.process_context` iterate over the events of
`iterparse`.  The tokeniser is fed in read chunks (16 KiB by `xml.etree`, 32 KiB by lxml) and the
events of a chunk are handed out after the chunk has been fed, so when an END event is handled the
tree shows everything up to the end of *that chunk* — which may end before the character data that
follows the end tag, or in the middle of it.  The handlers used to read `element.tail` at the END
event (`eagerReads`); they now push the end of an element to the parser when the *next* event
arrives, or when the stream is over (`deferredReads`).

The tokeniser is external: the model starts from the tokens of the document (tags and runs of
character data) split into the read chunks.
-/
import XsdataModel.Py.Basic

namespace Xs.Backends
open Py

/-- what the tokeniser reports: a start or end tag (namespace declarations travel with their start tag),
or a run of character data -/
inductive CTok
  | tag (isEnd : Bool) (q : Str)
  | chars (s : Str)
deriving Repr, DecidableEq

def CTok.isTag : CTok → Bool
  | .tag _ _ => true
  | .chars _ => false

def hasTag (l : List CTok) : Bool := l.any CTok.isTag

/-- the character data up to the next tag -/
def leadChars : List CTok → Str
  | [] => []
  | .tag _ _ :: _ => []
  | .chars s :: rest => s ++ leadChars rest

/-- `element.tail` of a complete tree: `None` when there is no character data -/
def tailOf (after : List CTok) : Option Str :=
  if (leadChars after).isEmpty then none else some (leadChars after)

/-- `element.tail` while `after` is all that has been tokenised behind the end tag: final once a later
tag has been seen; until then whatever the tree builder shows (`pv`: ElementTree's builder assigns the
tail when the next tag arrives, libxml2 appends text nodes as they come) -/
def seenTail (pv : List CTok → Option Str) (after : List CTok) : Option Str :=
  if hasTag after then tailOf after else pv after

/-! ### reading at the END event -/

def eagerChunk (pv : List CTok → Option Str) : List CTok → List (Option Str)
  | [] => []
  | .tag true _ :: r => seenTail pv r :: eagerChunk pv r
  | _ :: r => eagerChunk pv r

/-- the tails the handler passes to `parser.end`, one per end tag, when it reads `element.tail` while
handling the END event: the tree shows the rest of the current chunk -/
def eagerReads (pv : List CTok → Option Str) (chunks : List (List CTok)) : List (Option Str) :=
  (chunks.map (eagerChunk pv)).flatten

/-! ### reading when the next event arrives -/

/-- what has been tokenised behind an end tag when the next event is handled: the rest `r` of its chunk
and the later chunks up to and including the first one with a tag (all of them if there is none) -/
def afterUntilTag (r : List CTok) : List (List CTok) → List CTok
  | [] => r
  | c :: cs => if hasTag r then r else r ++ afterUntilTag c cs

/-- `end_element(ended)` at the next event, or after the loop (the tokeniser is closed then) -/
def deferredRead (pv : List CTok → Option Str) (r : List CTok) (later : List (List CTok)) : Option Str :=
  let a := afterUntilTag r later
  if hasTag a then seenTail pv a else tailOf a

def deferredChunk (pv : List CTok → Option Str) (later : List (List CTok)) : List CTok → List (Option Str)
  | [] => []
  | .tag true _ :: r => deferredRead pv r later :: deferredChunk pv later r
  | _ :: r => deferredChunk pv later r

def deferredReads (pv : List CTok → Option Str) : List (List CTok) → List (Option Str)
  | [] => []
  | c :: cs => deferredChunk pv cs c ++ deferredReads pv cs

/-! ### the infoset -/

/-- the tail of every element of the document, in the order of the end tags -/
def specReads : List CTok → List (Option Str)
  | [] => []
  | .tag true _ :: r => tailOf r :: specReads r
  | _ :: r => specReads r

end Xs.Backends
