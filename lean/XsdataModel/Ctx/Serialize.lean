/-
L7 — the names an `EventGenerator.generate(obj)` call emits, as a sequence of
`XmlContext.build` calls whose `parent_ns` argument is computed from the
metadata returned by the previous ones (`convert_dataclass`: `meta =
context.build(cls, namespace)`, `qname = qname or meta.qname`, children get
`namespace = split_qname(qname)[0]`).

The object tree is a pre-order token list; only element fields holding a model
instance of exactly the field's class or a primitive are modelled (no xsi:type
substitution, wildcards, compound fields, wrappers, lists).
-/
import XsdataModel.Ctx.Universe

namespace Xs.Ctx
open Py

inductive Tok
  /-- a model instance of class `cls`: the root, or the value of field number `field` (0-based) -/
  | enter (field : Nat) (cls : ClassId)
  /-- a primitive value in field number `field` -/
  | leaf (field : Nat)
  /-- end of the current instance -/
  | leave
  deriving DecidableEq, Repr

structure Frame where
  vars : List Var
  /-- the namespace handed to children -/
  ns : Option Str
  deriving DecidableEq, Repr

/-- `if var.wrapper_qname: yield START, var.wrapper_qname` (`next_value` yields the
element, wildcard and text vars; attributes are written elsewhere) -/
def wrapperStart (v : Var) : List Str :=
  if v.kind == .attribute then [] else
  match v.wrapperQName with
  | some q => [q]
  | none => []

/-- the serializer's walk, parametrised by how `build` is answered
(`bld s c pns` = new state and result) so that the same code runs against the
shared cache and against the cache-free specification -/
def serWalk {σ} (bld : σ → ClassId → Option Str → σ × Except Err Meta) :
    List Tok → σ → List Frame → List Str → σ × Except Err (List Str)
  | [], s, _, out => (s, .ok out)
  | .enter i c :: rest, s, [], out =>
    -- root object: convert_dataclass(obj) with namespace=None, qname=None
    let _ := i
    match bld s c none with
    | (s', .error e) => (s', .error e)
    | (s', .ok m) => serWalk bld rest s' [⟨m.vars, targetUri m.qname⟩] (out ++ [m.qname])
  | .enter i c :: rest, s, f :: fs, out =>
    match f.vars[i]? with
    | none => (s, .error .index)
    | some v =>
      -- convert_dataclass(value, namespace, var.qname)
      match bld s c f.ns with
      | (s', .error e) => (s', .error e)
      | (s', .ok m) =>
        -- the classes of the child values get `meta.namespace` of this class (repair c01g-01; before:
        -- the namespace of the element name `v.qname`)
        serWalk bld rest s' (⟨m.vars, targetUri m.qname⟩ :: f :: fs) (out ++ wrapperStart v ++ [v.qname])
  | .leaf _ :: rest, s, [], out => serWalk bld rest s [] out
  | .leaf i :: rest, s, f :: fs, out =>
    match f.vars[i]? with
    | none => (s, .error .index)
    | some v =>
      serWalk bld rest s (f :: fs)
        (if v.kind == .element then out ++ wrapperStart v ++ [v.qname] else out ++ wrapperStart v)
  | .leave :: rest, s, fs, out => serWalk bld rest s fs.tail out

end Xs.Ctx
