/- Helper lemmas for `Props/C02Types` (model: `Gen/FieldType`). -/
import XsdataModel.Gen.FieldType

namespace Xs.Gen
open Py

theorem mem_uniqueSeq (x : Str) (l : List Str) : x ∈ uniqueSeq l ↔ x ∈ l := by
  induction l with
  | nil => simp [uniqueSeq]
  | cons y ys ih =>
    simp only [uniqueSeq, List.mem_cons, List.mem_filter, ih]
    by_cases h : x = y <;> simp [h]

/-- a builtin the faithfulness theorem ranges over -/
def plainCode (c : Str) : Bool := (pyTypeOfCode c).isSome && !isAnyCode c && c ≠ "error".toList

theorem filterTypes_plain (cs : List Str) (hne : cs ≠ []) (hp : ∀ c ∈ cs, plainCode c = true) :
    filterTypes cs ≠ [] ∧ ∀ c, c ∈ filterTypes cs ↔ c ∈ cs := by
  have h1 : ∀ c, c ∈ (uniqueSeq cs).filter (· ≠ "error".toList) ↔ c ∈ cs := by
    intro c
    simp only [List.mem_filter, mem_uniqueSeq]
    constructor
    · exact fun h => h.1
    · intro h; refine ⟨h, ?_⟩
      have := hp c h; simp [plainCode] at this; simpa using this.2
  have h2 : ∀ c, c ∈ ((uniqueSeq cs).filter (· ≠ "error".toList)).filter (fun c => !isAnyCode c) ↔ c ∈ cs := by
    intro c
    rw [List.mem_filter, h1]
    constructor
    · exact fun h => h.1
    · intro h; refine ⟨h, ?_⟩
      have := hp c h; simp [plainCode] at this; simpa using this.1.2
  obtain ⟨x, xs, rfl⟩ := List.exists_cons_of_ne_nil hne
  unfold filterTypes
  simp only
  split
  · have hx := (h2 x).2 (by simp)
    have hne' : ((uniqueSeq (x :: xs)).filter (· ≠ "error".toList)).filter (fun c => !isAnyCode c) ≠ [] :=
      List.ne_nil_of_mem hx
    simp only [List.isEmpty_iff, hne', if_false]
    exact ⟨hne', h2⟩
  · have hx := (h1 x).2 (by simp)
    have hne' : (uniqueSeq (x :: xs)).filter (· ≠ "error".toList) ≠ [] := List.ne_nil_of_mem hx
    simp only [List.isEmpty_iff, hne', if_false]
    exact ⟨hne', h1⟩

/-- what the induction carries for a processed attr -/
def Inv (r : TRes) (L : List Str) (isL : Bool) : Prop :=
  r.pattern = false ∧ r.codes ≠ [] ∧ (∀ c, c ∈ r.codes ↔ c ∈ L) ∧ r.tokens = isL

mutual
theorem classOf_plain : (t : STy) → plainSTy t = true →
    Inv (classOf t) (leaves t) (isListTy t) ∧ ∀ c ∈ leaves t, plainCode c = true
  | .builtin code, h => by
    simp only [plainSTy] at h
    refine ⟨⟨rfl, by simp [classOf], by simp [classOf, leaves], by simp [classOf, isListTy]⟩, ?_⟩
    intro c hc; simp only [leaves, List.mem_singleton] at hc; subst hc; simpa [plainCode] using h
  | .restriction base pattern, h => by
    simp only [plainSTy, Bool.and_eq_true, Bool.not_eq_true'] at h
    obtain ⟨hp, hb⟩ := h
    subst hp
    obtain ⟨⟨h1, h2, h3, h4⟩, h5⟩ := classOf_plain base hb
    have hf := filterTypes_plain (classOf base).codes h2 (fun c hc => h5 c ((h3 c).1 hc))
    refine ⟨⟨by simp [classOf, h1], by simpa [classOf, h1] using hf.1, ?_, by simp [classOf, isListTy, h4]⟩, by simpa [leaves] using h5⟩
    intro c; simp only [classOf, h1, Bool.or_self, Bool.false_eq_true, if_false, leaves]
    rw [hf.2 c, h3 c]
  | .list item, h => by
    simp only [plainSTy] at h
    obtain ⟨⟨h1, h2, h3, _⟩, h5⟩ := classOf_plain item h
    have hf := filterTypes_plain (classOf item).codes h2 (fun c hc => h5 c ((h3 c).1 hc))
    refine ⟨⟨by simp [classOf, h1], by simpa [classOf] using hf.1, ?_, by simp [classOf, isListTy]⟩, by simpa [leaves] using h5⟩
    intro c; simp only [classOf, leaves]; rw [hf.2 c, h3 c]
  | .union members, h => by
    simp only [plainSTy, Bool.and_eq_true, Bool.not_eq_true'] at h
    obtain ⟨hne, hm⟩ := h
    obtain ⟨h1, h3, h4, h2, h5⟩ := processTypes_plain members hm
    have hne' : members ≠ [] := by intro h0; simp [h0] at hne
    have hf := filterTypes_plain (processTypes members false).codes (h2 hne') (fun c hc => h5 c ((h3 c).1 hc))
    refine ⟨⟨by simp [classOf, h1], by simpa [classOf] using hf.1, ?_, by simp [classOf, isListTy, h4]⟩, by simpa [leaves] using h5⟩
    intro c; simp only [classOf, leaves]; rw [hf.2 c, h3 c]
theorem processTypes_plain : (ms : List STy) → plainL ms = true →
    (processTypes ms false).pattern = false ∧ (∀ c, c ∈ (processTypes ms false).codes ↔ c ∈ leavesL ms)
    ∧ (processTypes ms false).tokens = isListL ms ∧ (ms ≠ [] → (processTypes ms false).codes ≠ [])
    ∧ ∀ c ∈ leavesL ms, plainCode c = true
  | [], _ => by simp [processTypes, leavesL, isListL]
  | m :: ms, h => by
    simp only [plainL, Bool.and_eq_true] at h
    obtain ⟨hm, hms⟩ := h
    obtain ⟨⟨h1, h2, h3, h4⟩, h5⟩ := classOf_plain m hm
    obtain ⟨g1, g3, g4, _, g5⟩ := processTypes_plain ms hms
    have key : processTypes (m :: ms) false =
        ⟨(classOf m).codes ++ (processTypes ms false).codes, (classOf m).tokens || (processTypes ms false).tokens,
          (processTypes ms false).pattern⟩ := by
      cases m with
      | builtin code => simp [processTypes, classOf]
      | restriction b p => simp only [processTypes, h1, Bool.or_self]
      | list i => simp only [processTypes, h1, Bool.or_self]
      | union us => simp only [processTypes, h1, Bool.or_self]
    rw [key]
    refine ⟨g1, ?_, by simp [isListL, h4, g4], ?_, ?_⟩
    · intro c; simp only [List.mem_append, leavesL, h3 c, g3 c]
    · intro _; simp [h2]
    · intro c hc; simp only [leavesL, List.mem_append] at hc
      rcases hc with hc | hc
      · exact h5 c hc
      · exact g5 c hc
end

theorem table_spec_types : ∀ e ∈ Tables.dataTypeMembers, (specPy e.1).map (·.1) = some e.2.1 := by
  decide

/-- on the builtins of the live table the code's python type is the Spec's -/
theorem py_eq_spec (c : Str) (h : (pyTypeOfCode c).isSome = true) :
    pyTypeOfCode c = (specPy c).map (·.1) := by
  unfold pyTypeOfCode at h ⊢
  cases hf : Tables.dataTypeMembers.find? (·.1 = c) with
  | none => simp [hf] at h
  | some e =>
    have hm := List.mem_of_find?_eq_some hf
    have he := List.find?_some hf
    simp only [decide_eq_true_eq] at he
    subst he
    simp [table_spec_types e hm]

theorem attrOf_plain (t : STy) (h : plainSTy t = true) :
    (attrOf t).pattern = false ∧ (attrOf t).tokens = isListTy t
    ∧ (∀ c, c ∈ (attrOf t).codes ↔ c ∈ leaves t) ∧ ∀ c ∈ leaves t, plainCode c = true := by
  have hl : plainL [t] = true := by simp [plainL, h]
  obtain ⟨h1, h3, h4, h2, h5⟩ := processTypes_plain [t] hl
  simp only [leavesL, List.append_nil, isListL, Bool.or_false] at h3 h4 h5
  have hf := filterTypes_plain (processTypes [t] false).codes (h2 (by simp)) (fun c hc => h5 c ((h3 c).1 hc))
  refine ⟨by simp [attrOf, h1], by simp [attrOf, h4], ?_, h5⟩
  intro c; simp only [attrOf]; rw [hf.2 c, h3 c]

end Xs.Gen
