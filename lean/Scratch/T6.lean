import XsdataModel.Proofs.C04RoundTrip
#print axioms Proofs.C04.rt_all
#check @Proofs.C04.rt_all
