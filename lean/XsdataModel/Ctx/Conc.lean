/-
L7 — interleaved semantics of threads sharing one `XmlContext` (C19).

Atomic step = one operation on a shared container or slot (`in`, `[]`, `[]=`,
`clear`, reading / writing `sys_modules`, assigning `xsi_cache`) — the
granularity the GIL guarantees.  A thread's state names the operation it is
about to perform.  `self.xsi_cache` is a *reference*: the shared state holds a
heap of dict objects and the number of the one currently published; an
expression like `qname in self.xsi_cache` first reads the reference (at the end
of the thread's previous step) and then operates on that object, even if
another thread has published a different one in between.  `find_types` reads
the reference twice, as the code does.

`build_xsi_cache` (as repaired in 556b985) reads `len(sys.modules)`, builds the
index in a *local* dict — modelled as one thread-local step per binding class,
touching no shared state —, publishes it with one assignment to
`self.xsi_cache` and then writes `self.sys_modules`.

`reset()` (`cache.clear()`, `xsi_cache.clear()`, `sys_modules = 0`) is a third
kind of thread; the positive theorems exclude it, counterexamples show why.
-/
import XsdataModel.Ctx.Spec

namespace Xs.Ctx
open Py

abbrev Index := List (Str × List ClassId)

/-- the shared state with `xsi_cache` as a reference into a heap of dict objects -/
structure CState where
  cache : List ((ClassId × Option Str) × Meta)
  /-- every dict object that was ever assigned to `self.xsi_cache`, by object number -/
  heap : List Index
  /-- `self.xsi_cache` -/
  ref : Nat
  sysModules : Nat
  deriving DecidableEq, Repr

def CState.ofState (s : State) : CState := ⟨s.cache, [s.xsi], 0, s.sysModules⟩

/-- the dict object number `d` -/
def CState.dict (s : CState) (d : Nat) : Index := (s.heap[d]?).getD []

/-- what a sequential observer sees -/
def CState.toState (s : CState) : State := ⟨s.cache, s.dict s.ref, s.sysModules⟩

/-- how a lookup post-processes the list `find_types` returns -/
inductive Look
  /-- `find_types(q)` -/
  | types
  /-- `find_type(q)`: `types[-1] if types else None` -/
  | last
  /-- `find_subclass(c, q)` -/
  | sub (c : ClassId)
  deriving DecidableEq, Repr

def Look.out (U : Universe) : Look → List ClassId → Out
  | .types, l => .gotTypes l
  | .last, l => .gotType l.getLast?
  | .sub c, l => .gotType (pickSubclass U c l)

/-- the answer for an empty list -/
def Look.empty : Look → Out
  | .types => .gotTypes []
  | .last => .gotType none
  | .sub _ => .gotType none

/-- what a thread was asked to do -/
inductive Prog
  | build (c : ClassId) (pns : Option Str)
  /-- `find_types` / `find_type` / `find_subclass` -/
  | lookup (k : Look) (q : Str)
  /-- `find_type_by_fields(names)` -/
  | scan (names : List Str)
  | reset
  deriving DecidableEq, Repr

/-- what the thread does once the index is current -/
inductive Goal
  | lookup (k : Look) (q : Str)
  | scan (names : List Str)
  deriving DecidableEq, Repr

inductive TState
  /-- `if clazz not in self.cache` -/
  | bCheck (c : ClassId) (p : Option Str)
  /-- the meta has been built (thread-local); `self.cache[key] = meta` is pending -/
  | bWrite (c : ClassId) (p : Option Str) (m : Meta)
  /-- `return self.cache[key]` -/
  | bRead (c : ClassId) (p : Option Str)
  /-- `if len(sys.modules) == self.sys_modules: return` -/
  | xCheck (g : Goal)
  /-- thread-local: the next binding class of `todo` goes into the local index `acc` -/
  | xLocal (g : Goal) (todo : List ClassId) (acc : Index)
  /-- `self.xsi_cache = xsi_cache` -/
  | xPublish (g : Goal) (acc : Index)
  /-- `self.sys_modules = sys_modules` -/
  | xStamp (g : Goal)
  /-- `if qname in self.xsi_cache`, the reference already read: object `d` -/
  | xContains (k : Look) (q : Str) (d : Nat)
  /-- `return self.xsi_cache[qname]` on object `d` (a `defaultdict`: a missing key is inserted) -/
  | xGet (k : Look) (q : Str) (d : Nat)
  /-- `find_type_by_fields`: about to call `next()` on the `values()` iterator of
  dict object `d`, created when the dict had `n0` entries; `todo` = keys of the
  entries not yet visited, `acc` = the choices collected so far -/
  | sScan (names : List Str) (d : Nat) (todo : List Str) (n0 : Nat) (acc : List Choice)
  /-- `self.cache.clear()` -/
  | rCache
  /-- `self.xsi_cache.clear()` on object `d` -/
  | rXsi (d : Nat)
  /-- `self.sys_modules = 0` -/
  | rStamp
  | done (o : Out)
  deriving DecidableEq, Repr

/-- the state after the thread ran up to its first shared operation -/
def Prog.start : Prog → TState
  | .build c p => .bCheck c p
  | .lookup k q => if isDataType q then .done k.empty else .xCheck (.lookup k q)
  | .scan names => .xCheck (.scan names)
  | .reset => .rCache

/-- the binding models `build_xsi_cache` visits, in `get_subclasses(object)` order -/
def bindingClasses (U : Universe) (n : Nat) : List ClassId := (subclassOrder U n).filter (isBinding U)

/-- the loop body for one binding class: `if meta.target_qname: xsi_cache[...].append(clazz)` -/
def localAdd (U : Universe) (acc : Index) (c : ClassId) : Index :=
  match indexKey U c with
  | some k => dictAppend acc k c
  | none => acc

def afterLocal (g : Goal) (todo : List ClassId) (acc : Index) : TState :=
  match todo with
  | [] => .xPublish g acc
  | _ => .xLocal g todo acc

/-- `build_xsi_cache()` has returned: read the reference and go on -/
def Goal.enter (s : CState) : Goal → TState
  | .lookup k q => .xContains k q s.ref
  | .scan names => .sScan names s.ref ((s.dict s.ref).map (·.1)) (s.dict s.ref).length []

/-- write back what the (sequential) body of one scan step did to the cache and
to the published dict object -/
def CState.absorb (s : CState) (st : State) : CState :=
  if st.xsi = s.dict s.ref then { s with cache := st.cache }
  else { s with cache := st.cache, heap := s.heap.set s.ref st.xsi }

/-- perform the pending operation, then run to the next one -/
def stepT (U : Universe) (w : World) (s : CState) : TState → CState × TState
  | .bCheck c p =>
    match s.cache.lookup (c, p) with
    | some _ => (s, .bRead c p)
    | none =>
      match pureBuild U c p with
      | .ok m => (s, .bWrite c p m)
      | .error e => (s, .done (.raised e))
  | .bWrite c p m => ({ s with cache := dictSet s.cache (c, p) m }, .bRead c p)
  | .bRead c p =>
    match s.cache.lookup (c, p) with
    | some m => (s, .done (.gotMeta m))
    | none => (s, .done (.raised .index))
  | .xCheck g =>
    if w.mods + 1 = s.sysModules then (s, g.enter s)
    else (s, afterLocal g (bindingClasses U w.loaded) [])
  | .xLocal g [] acc => (s, .xPublish g acc)
  | .xLocal g (c :: rest) acc => (s, afterLocal g rest (localAdd U acc c))
  | .xPublish g acc => ({ s with heap := s.heap ++ [acc], ref := s.heap.length }, .xStamp g)
  | .xStamp g =>
    ({ s with sysModules := w.mods + 1 }, g.enter { s with sysModules := w.mods + 1 })
  | .xContains k q d =>
    match (s.dict d).lookup q with
    | some _ => (s, .xGet k q s.ref)
    | none => (s, .done (k.out U []))
  | .xGet k q d =>
    match (s.dict d).lookup q with
    | some l => (s, .done (k.out U l))
    | none => ({ s with heap := s.heap.set d (s.dict d ++ [(q, [])]) }, .done (k.out U []))
  | .sScan names d todo n0 acc =>
    -- `next(iterator)`: "dictionary changed size during iteration"
    if (s.dict d).length ≠ n0 then (s, .done (.raised .runtime))
    else
      match todo with
      | [] => (s, .done (.gotType ((bestChoice acc).map (·.1))))
      | k :: rest =>
        -- `for clazz in tuple(types) if self.local_names_match(...)`: the builds and
        -- evictions of one visited entry, as in the sequential model
        match scanTypes U names (((s.dict d).lookup k).getD []) s.toState acc with
        | (st', .error e) => (s.absorb st', .done (.raised e))
        | (st', .ok acc') => (s.absorb st', .sScan names d rest n0 acc')
  | .rCache => ({ s with cache := [] }, .rXsi s.ref)
  | .rXsi d => ({ s with heap := s.heap.set d [] }, .rStamp)
  | .rStamp => ({ s with sysModules := 0 }, .done .done)
  | .done o => (s, .done o)

structure Thread where
  prog : Prog
  st : TState
  deriving DecidableEq, Repr

structure Sys where
  shared : CState
  threads : List Thread
  deriving DecidableEq, Repr

def Sys.start (s : State) (progs : List Prog) : Sys :=
  ⟨CState.ofState s, progs.map fun p => ⟨p, p.start⟩⟩

/-- let thread `i` perform one atomic step (no-op if it does not exist or is finished) -/
def sched (U : Universe) (w : World) (sys : Sys) (i : Nat) : Sys :=
  match sys.threads[i]? with
  | none => sys
  | some th =>
    let (s', st') := stepT U w sys.shared th.st
    ⟨s', sys.threads.set i ⟨th.prog, st'⟩⟩

def runSched (U : Universe) (w : World) : Sys → List Nat → Sys
  | sys, [] => sys
  | sys, i :: rest => runSched U w (sched U w sys i) rest

/-- the thread is inside `XmlContext.build` -/
def TState.isB : TState → Bool
  | .bCheck _ _ => true
  | .bWrite _ _ _ => true
  | .bRead _ _ => true
  | _ => false

/-- the thread is inside `build_xsi_cache` / `find_types` -/
def TState.isX : TState → Bool
  | .xCheck _ => true
  | .xLocal _ _ _ => true
  | .xPublish _ _ => true
  | .xStamp _ => true
  | .xContains _ _ _ => true
  | .xGet _ _ _ => true
  | .sScan _ _ _ _ _ => true
  | _ => false

/-- the thread is inside `reset` -/
def TState.isR : TState → Bool
  | .rCache => true
  | .rXsi _ => true
  | .rStamp => true
  | _ => false

def TState.isDone : TState → Bool
  | .done _ => true
  | _ => false

/-- an upper bound on the number of steps the thread still has to perform
(`n` = number of binding classes a rebuild visits, `m` = a bound on the number
of entries of any published dict) -/
def TState.remaining (n m : Nat) : TState → Nat
  | .bCheck _ _ => 3
  | .bWrite _ _ _ => 2
  | .bRead _ _ => 1
  | .xCheck _ => n + 6 + m
  | .xLocal _ todo _ => todo.length + 5 + m
  | .xPublish _ _ => 4 + m
  | .xStamp _ => 3 + m
  | .xContains _ _ _ => 2
  | .xGet _ _ _ => 1
  | .sScan _ _ todo _ _ => todo.length + 1
  | .rCache => 3
  | .rXsi _ => 2
  | .rStamp => 1
  | .done _ => 0

/-- after the prescribed schedule: let the threads finish one after the other -/
def drainThread (U : Universe) (w : World) (i : Nat) : Nat → Sys → Sys
  | 0, sys => sys
  | fuel + 1, sys =>
    match sys.threads[i]? with
    | some th => if th.st.isDone then sys else drainThread U w i fuel (sched U w sys i)
    | none => sys

def drain (U : Universe) (w : World) (sys : Sys) : Sys :=
  (List.range sys.threads.length).foldl
    (fun acc i => drainThread U w i
      ((bindingClasses U w.loaded).length + (acc.shared.heap.map List.length).sum + 10) acc) sys

def Sys.results (sys : Sys) : List (Option Out) :=
  sys.threads.map fun th =>
    match th.st with
    | .done o => some o
    | _ => none

/-- no thread runs `find_type_by_fields` -/
def noScan (progs : List Prog) : Prop := ∀ p ∈ progs, ∀ names, p ≠ Prog.scan names

def Prog.isScan : Prog → Bool
  | .scan _ => true
  | _ => false

instance (progs : List Prog) : Decidable (noScan progs) :=
  decidable_of_iff (∀ p ∈ progs, p.isScan = false) (by
    constructor
    · intro h p hp names e; subst e; simpa [Prog.isScan] using h _ hp
    · intro h p hp
      cases p <;> first | rfl | exact absurd rfl (h _ hp _))

/-- no thread calls `reset()` -/
def noReset (progs : List Prog) : Prop := ∀ p ∈ progs, p ≠ Prog.reset

instance (progs : List Prog) : Decidable (noReset progs) :=
  inferInstanceAs (Decidable (∀ p ∈ progs, p ≠ Prog.reset))

/-- the sequential call (C14's `Op`) a thread program stands for -/
def Prog.toOp : Prog → Op
  | .build c p => .build c p
  | .lookup .types q => .findTypes q
  | .lookup .last q => .findType q
  | .lookup (.sub c) q => .findSubclass c q
  | .scan names => .findTypeByFields names
  | .reset => .reset

/-- what the thread returns when it runs alone on a fresh context -/
def Prog.alone (U : Universe) (w : World) : Prog → Out
  | .build c p => outMeta (pureBuild U c p)
  | .lookup k q => k.out U (pureTypes U w q)
  | .scan names => .gotType (pureFields U w names)
  | .reset => .done

end Xs.Ctx
