/- Composition of L1 (handler = tree writer) and L2 (tree writer is namespace-correct) for documents. -/
import XsdataModel.Proofs.UserMap

namespace Proofs.Assembly
open Py Xs.Ns Xs.Sax Xs.Writer Spec.XmlNs Spec.EventTree Proofs.MapInv Proofs.Flush Proofs.Resolve
  Proofs.TreeWriter Proofs.Generator Proofs.UserMap Spec.Hyps Proofs.Attrs

/-- configurations covered by the document theorem: no indentation, no root schema-location attributes -/
def plainCfg (cfg : Cfg) : Bool :=
  cfg.indent.isNone && cfg.schemaLocation.isNone && cfg.noNsSchemaLocation.isNone

theorem rootAttrs_plain (env : NsEnv) (cfg : Cfg) (h : plainCfg cfg = true) (s : HState) :
    rootAttrs env cfg s = .ok s := by
  simp only [plainCfg, Bool.and_eq_true, Option.isNone_iff_eq_none] at h
  simp [rootAttrs, rootAttr1, h.1.2, h.2]

theorem document_main (env : NsEnv) (henv : envOK env = true) (cfg : Cfg) (hcfg : plainCfg cfg = true)
    (m : List (Pfx × Str)) (hm : userMapOK env m = true)
    (q : Str) (attrs : List (Str × Val)) (kids : Content)
    (hok : contentOK env (userDefault m) (.child q attrs kids .nil) = true)
    (cs : List Call) (hcs : docCalls env cfg m q attrs kids = some cs) :
    ∃ toks node, nativeWrite env cfg m (document q attrs kids) = .ok toks
      ∧ infoset toks = some node ∧ saxTree cs = some node := by
  have hE := envOK_sound env henv
  have hM0 := userMapOK_MapOK env m hm
  have hind : cfg.indent = none := by
    simp only [plainCfg, Bool.and_eq_true, Option.isNone_iff_eq_none] at hcfg
    exact hcfg.1.1
  have hrun := handlerRun_native_document env cfg hind m q attrs kids cs (userMapOK_valid env m hm) hcs
  simp only [contentOK, Bool.and_eq_true] at hok
  obtain ⟨⟨⟨hname, hattrs⟩, hokk⟩, _⟩ := hok
  unfold docCalls at hcs
  rw [rootAttrs_plain env cfg hcfg] at hcs
  simp only [HState.init] at hcs
  split at hcs
  · rename_i s0 tag hs0 hq
    cases hs0
    split at hcs
    · rename_i M2 A ha
      obtain ⟨⟨X, hX, hXk⟩, hM2, hA, htag⟩ := child_start env hE (userDefault m) (serializerNsMap m) q attrs tag M2 A hM0 hq ha hname hattrs
      have hYok : YOK [] M2 := by
        intro u hu
        refine ⟨rfl, serializerNsMap m, X, hX, hXk, ?_⟩
        intro s hs
        have hn0 : dget (serializerNsMap m) none = some u := by
          rw [hX, dget_append] at hu
          cases h0 : dget (serializerNsMap m) none with
          | some v => rw [h0] at hu; exact hu
          | none =>
            rw [h0] at hu
            exact absurd rfl (hXk _ (dget_some_mem _ _ _ hu))
        exact serializerNsMap_nodflt env m hm s u hs hn0
      obtain ⟨toks, node, hg, _, hp, hs⟩ :=
        (l2_all env hE (userDefault m) kids).2 [] tag A M2 cs hcs hokk [[]] [] none [] none [] none M2
          (by simp) hYok hM2 K2_nil (by intro k; rfl) hA htag (fun _ => rfl) (fun _ => rfl)
      refine ⟨toks, node, ?_, ?_, ?_⟩
      · unfold nativeWrite
        rw [hrun]
        simp only [GState.init]
        rw [hg]
      · unfold infoset
        rw [hp]
        simp [attachP]
      · unfold saxTree
        rw [hs]
        simp [attachS]
    · cases hcs
  · cases hcs

end Proofs.Assembly
