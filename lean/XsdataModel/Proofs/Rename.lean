/- C07 — helper lemmas about the "next free index" loops of the renaming handlers. -/
import XsdataModel.Proofs.Names

namespace Proofs.Rename
open Py Xs.Text Xs.Filters Xs.Rename Proofs.Names

/-- generic form of the three loops: first `k ≥ i` whose slug `f k` is not reserved -/
def firstFreeG (f : Nat → Str) (reserved : List Str) : Nat → Nat → Option Nat
  | 0, _ => none
  | fuel + 1, i => if reserved.contains (f i) then firstFreeG f reserved fuel (i + 1) else some i

theorem firstFreeG_congr (f : Nat → Str) (R R' : List Str) :
    ∀ fuel i, (∀ j, i ≤ j → R.contains (f j) = R'.contains (f j)) →
      firstFreeG f R fuel i = firstFreeG f R' fuel i := by
  intro fuel
  induction fuel with
  | zero => intro i _; rfl
  | succ fuel ih =>
    intro i h
    rw [firstFreeG, firstFreeG, h i (Nat.le_refl i), ih (i + 1) (fun j hj => h j (by omega))]

/-- the loop ends and its result is fresh, whenever the slugs `f k` are pairwise different -/
theorem firstFreeG_spec (f : Nat → Str) (hinj : ∀ a b, f a = f b → a = b) :
    ∀ fuel (R : List Str) i, R.length < fuel →
      ∃ k, firstFreeG f R fuel i = some k ∧ i ≤ k ∧ R.contains (f k) = false := by
  intro fuel
  induction fuel with
  | zero => intro R i h; omega
  | succ fuel ih =>
    intro R i hlen
    rw [firstFreeG]
    cases hc : R.contains (f i)
    · exact ⟨i, by simp, Nat.le_refl i, hc⟩
    · simp only [if_true]
      obtain ⟨R', hR'⟩ : ∃ R', R' = R.filter (fun s => s != f i) := ⟨_, rfl⟩
      have hmem : f i ∈ R := by simpa using hc
      have hlt : R'.length < R.length := by
        have hle := List.length_filter_le (fun s => s != f i) R
        rw [← hR'] at hle
        by_cases heq : R'.length = R.length
        · rw [hR'] at heq
          have hall := (List.length_filter_eq_length_iff (p := fun s => s != f i) (l := R)).1 heq
          have := hall (f i) hmem
          simp at this
        · omega
      have hcongr : ∀ j, i + 1 ≤ j → R.contains (f j) = R'.contains (f j) := by
        intro j hj
        have hne : f j ≠ f i := fun h => by have := hinj _ _ h; omega
        cases hcj : R.contains (f j)
        · symm
          cases hcj' : R'.contains (f j)
          · rfl
          · have : f j ∈ R' := by simpa using hcj'
            rw [hR'] at this
            have : f j ∈ R := (List.mem_filter.1 this).1
            have : R.contains (f j) = true := by simpa using this
            rw [hcj] at this; cases this
        · symm
          have : f j ∈ R := by simpa using hcj
          have : f j ∈ R' := by rw [hR']; exact List.mem_filter.2 ⟨this, by simpa using hne⟩
          simpa using this
      rw [firstFreeG_congr f R R' fuel (i + 1) hcongr]
      obtain ⟨k, hk, hik, hfree⟩ := ih R' (i + 1) (by omega)
      refine ⟨k, hk, by omega, ?_⟩
      rw [hcongr k hik]; exact hfree

/-! ### the slugs `alnum(name_i)` are pairwise different -/

theorem digits_ok (i : Nat) : ∀ c ∈ Nat.toDigits 10 i, isAsciiAlnum c = true ∧ lowerA c = c := by
  intro c hc
  have hd := Nat.isDigit_of_mem_toDigits (b := 10) (by decide) (by decide) hc
  have h48 : 48 ≤ c.toNat ∧ c.toNat ≤ 57 := by
    simp [Char.isDigit] at hd
    have h1 : (48 : UInt32).toNat ≤ c.val.toNat := UInt32.le_iff_toNat_le.1 hd.1
    have h2 : c.val.toNat ≤ (57 : UInt32).toNat := UInt32.le_iff_toNat_le.1 hd.2
    exact ⟨h1, h2⟩
  constructor
  · unfold isAsciiAlnum isAsciiDigit; simp; omega
  · unfold lowerA isAsciiUpper
    have : ¬ (65 ≤ c.toNat) := by omega
    simp [this]

theorem alnum_digits (i : Nat) : alnum (Nat.toDigits 10 i) = Nat.toDigits 10 i := by
  rw [alnum_of_ok _ (fun c hc => (digits_ok i c hc).1)]
  conv => rhs; rw [← List.map_id (Nat.toDigits 10 i)]
  apply List.map_congr_left
  intro c hc
  simpa using (digits_ok i c hc).2

theorem alnum_indexed (name : Str) (i : Nat) :
    alnum (indexed name i) = alnum name ++ Nat.toDigits 10 i := by
  unfold indexed
  rw [alnum_append, alnum_append, alnum_digits]
  simp [alnum_cons, underscore_not_alnum, alnum_nil]

theorem toDigits_inj (a b : Nat) (h : Nat.toDigits 10 a = Nat.toDigits 10 b) : a = b := by
  have := congrArg (fun l => Nat.ofDigitChars 10 l 0) h
  simpa using this

theorem slug_indexed_inj (pre name : Str) (a b : Nat)
    (h : pre ++ alnum (indexed name a) = pre ++ alnum (indexed name b)) : a = b := by
  rw [alnum_indexed, alnum_indexed] at h
  exact toDigits_inj a b (List.append_cancel_left (List.append_cancel_left h))

theorem firstFree_eq (name : Str) (R : List Str) :
    ∀ fuel i, firstFree name R fuel i = firstFreeG (fun k => alnum (indexed name k)) R fuel i := by
  intro fuel
  induction fuel with
  | zero => intro i; rfl
  | succ fuel ih => intro i; rw [firstFree, firstFreeG, ih]

theorem firstFree_spec (name : Str) (R : List Str) (i : Nat) :
    ∃ k, firstFree name R (R.length + 1) i = some k ∧ i ≤ k ∧
      R.contains (alnum (indexed name k)) = false := by
  rw [firstFree_eq]
  exact firstFreeG_spec _ (fun a b h => slug_indexed_inj [] name a b (by simpa using h))
    (R.length + 1) R i (by omega)

theorem alnum_buildQName (ns : Option Str) (n : Str) :
    alnum (buildQName ns n) = alnum ((ns.getD [])) ++ alnum n := by
  unfold buildQName
  cases ns with
  | none => simp [alnum_nil]
  | some s =>
    cases s with
    | nil => simp [alnum_nil]
    | cons c cs =>
      have h1 : isAsciiAlnum '{' = false := by decide
      have h2 : isAsciiAlnum '}' = false := by decide
      simp only [Option.getD_some]
      rw [alnum_append, alnum_append, alnum_append]
      simp [alnum_cons, h1, h2, alnum_nil]

theorem nextQNameIdx_eq (useNames : Bool) (ns : Option Str) (name : Str) (R : List Str) :
    ∀ fuel i, nextQNameIdx useNames ns name R fuel i =
      firstFreeG (fun k => alnum (if useNames then indexed name k else buildQName ns (indexed name k))) R fuel i := by
  intro fuel
  induction fuel with
  | zero => intro i; rfl
  | succ fuel ih => intro i; rw [nextQNameIdx, firstFreeG, ih]

theorem nextQNameIdx_spec (useNames : Bool) (ns : Option Str) (name : Str) (R : List Str) (i : Nat) :
    ∃ k, nextQNameIdx useNames ns name R (R.length + 1) i = some k ∧ i ≤ k ∧
      R.contains (alnum (if useNames then indexed name k else buildQName ns (indexed name k))) = false := by
  rw [nextQNameIdx_eq]
  apply firstFreeG_spec _ _ (R.length + 1) R i (by omega)
  intro a b h
  cases useNames with
  | true => exact slug_indexed_inj [] name a b (by simpa using h)
  | false =>
    simp only [Bool.false_eq_true, if_false, alnum_buildQName] at h
    exact slug_indexed_inj _ name a b h

theorem uniqueName_fresh (name : Str) (R : List Str) :
    ∃ n, uniqueName name R = some n ∧ R.contains (alnum n) = false := by
  unfold uniqueName
  cases hc : R.contains (alnum name)
  · exact ⟨name, by simp, hc⟩
  · obtain ⟨k, hk, _, hfree⟩ := firstFree_spec name R 1
    exact ⟨indexed name k, by simp [hk], hfree⟩

/-! ### rename_attributes_by_index settles every attr it renames -/

/-- two different positions carry the same slug -/
def Coll (cur : List Attr) (p q : Nat) : Prop :=
  p ≠ q ∧ ∃ a b, cur[p]? = some a ∧ cur[q]? = some b ∧ a.slug = b.slug

theorem Coll.symm {cur : List Attr} {p q : Nat} (h : Coll cur p q) : Coll cur q p := by
  obtain ⟨hne, a, b, ha, hb, hs⟩ := h
  exact ⟨fun h => hne h.symm, b, a, hb, ha, hs.symm⟩

theorem setName_length (cur : List Attr) (i : Nat) (n : Str) : (setName cur i n).length = cur.length := by
  simp [setName]

theorem setName_ne (cur : List Attr) (i q : Nat) (n : Str) (h : q ≠ i) :
    (setName cur i n)[q]? = cur[q]? := by
  unfold setName
  exact List.getElem?_modify_ne _ _ (fun h' => h h'.symm)

theorem setName_eq (cur : List Attr) (i : Nat) (n : Str) (a : Attr) (h : cur[i]? = some a) :
    (setName cur i n)[i]? = some { a with name := n } := by
  unfold setName
  simp [h]

theorem renameByIndex_spec : ∀ (todo : List Nat) (cur : List Attr), todo.Nodup →
    (∀ i ∈ todo, i < cur.length) →
    (renameByIndex cur todo).length = cur.length ∧
    (∀ q, q ∉ todo → (renameByIndex cur todo)[q]? = cur[q]?) ∧
    (∀ i ∈ todo, ∀ q, ¬ Coll (renameByIndex cur todo) i q) := by
  intro todo
  induction todo with
  | nil => intro cur _ _; simp [renameByIndex]
  | cons i rest ih =>
    intro cur hnd hlt
    have hi : i < cur.length := hlt i (by simp)
    obtain ⟨a, ha⟩ : ∃ a, cur[i]? = some a := ⟨cur[i], List.getElem?_eq_getElem hi⟩
    obtain ⟨n, hn, hfresh⟩ := uniqueName_fresh a.name (cur.map Attr.slug)
    have hstep : renameByIndex cur (i :: rest) = renameByIndex (setName cur i n) rest := by
      rw [renameByIndex]; simp [ha, hn]
    rw [hstep]
    have hnd' : rest.Nodup := (List.nodup_cons.1 hnd).2
    have hirest : i ∉ rest := (List.nodup_cons.1 hnd).1
    obtain ⟨h1, h2, h3⟩ := ih (setName cur i n) hnd'
      (fun j hj => by rw [setName_length]; exact hlt j (by simp [hj]))
    refine ⟨by rw [h1, setName_length], ?_, ?_⟩
    · intro q hq
      have hq1 : q ≠ i := fun h => hq (by simp [h])
      have hq2 : q ∉ rest := fun h => hq (by simp [h])
      rw [h2 q hq2, setName_ne cur i q n hq1]
    · intro j hj q
      rcases List.mem_cons.1 hj with rfl | hj
      · intro hcoll
        obtain ⟨hne, x, y, hx, hy, hs⟩ := hcoll
        rw [h2 j hirest, setName_eq cur j n a ha] at hx
        cases hx
        by_cases hq : q ∈ rest
        · exact h3 q hq j (Coll.symm ⟨hne, _, y, by rw [h2 j hirest, setName_eq cur j n a ha], hy, hs⟩)
        · rw [h2 q hq, setName_ne cur j q n (fun h => hne h.symm)] at hy
          have hmem : y.slug ∈ cur.map Attr.slug :=
            List.mem_map.2 ⟨y, List.mem_of_getElem? hy, rfl⟩
          have : (cur.map Attr.slug).contains (alnum n) = true := by
            have hs' : alnum n = y.slug := hs
            rw [hs']; simpa using hmem
          rw [hfresh] at this; cases this
      · exact h3 j hj q

/-! ### the whole of rename_duplicate_attributes when no group is renamed "by preference" -/

theorem nodup_eraseDups : ∀ (n : Nat) (l : List Str), l.length ≤ n → l.eraseDups.Nodup := by
  intro n
  induction n with
  | zero => intro l h; cases l <;> simp_all
  | succ n ih =>
    intro l h
    cases l with
    | nil => simp
    | cons a as =>
      rw [List.eraseDups_cons, List.nodup_cons]
      constructor
      · intro hm
        have := (List.mem_eraseDups.1 hm)
        simp at this
      · apply ih
        have := List.length_filter_le (fun b => !b == a) as
        simp at h
        omega

theorem mem_groupIdxs (keys : List Str) (k : Str) (p : Nat) :
    p ∈ groupIdxs keys k ↔ keys[p]? = some k := by
  unfold groupIdxs
  rw [List.mem_filter, List.mem_range]
  constructor
  · intro h; simpa using h.2
  · intro h
    refine ⟨?_, by simpa using h⟩
    by_cases hp : p < keys.length
    · exact hp
    · rw [List.getElem?_eq_none (by omega)] at h; cases h

theorem nodup_groupIdxs (keys : List Str) (k : Str) : (groupIdxs keys k).Nodup :=
  List.Pairwise.filter _ List.nodup_range

/-- the re-checked rename "by preference": one of the two positions gets a slug that no other
position has; everything else is untouched -/
theorem renameByPreference_spec (cur : List Attr) (i j : Nat) (hi : i < cur.length) (hj : j < cur.length) :
    ∃ k, (k = i ∨ k = j) ∧ (renameByPreference cur i j).length = cur.length ∧
      (∀ q, q ≠ k → (renameByPreference cur i j)[q]? = cur[q]?) ∧
      (∀ q, ¬ Coll (renameByPreference cur i j) k q) := by
  obtain ⟨a, ha⟩ : ∃ a, cur[i]? = some a := ⟨cur[i], List.getElem?_eq_getElem hi⟩
  obtain ⟨b, hb⟩ : ∃ b, cur[j]? = some b := ⟨cur[j], List.getElem?_eq_getElem hj⟩
  obtain ⟨k, n, hk, hpc⟩ : ∃ k n, (k = i ∨ k = j) ∧ preferenceChange cur i j = some (k, n) := by
    unfold preferenceChange
    simp only [ha, hb]
    split
    · split
      · exact ⟨j, _, Or.inr rfl, rfl⟩
      · exact ⟨i, _, Or.inl rfl, rfl⟩
    · split
      · exact ⟨j, _, Or.inr rfl, rfl⟩
      · exact ⟨i, _, Or.inl rfl, rfl⟩
  obtain ⟨n', hn', hfresh⟩ := uniqueName_fresh n ((cur.eraseIdx k).map Attr.slug)
  have hout : renameByPreference cur i j = setName cur k n' := by
    unfold renameByPreference
    simp [hpc, hn']
  obtain ⟨c, hc⟩ : ∃ c, cur[k]? = some c := by
    rcases hk with rfl | rfl
    · exact ⟨a, ha⟩
    · exact ⟨b, hb⟩
  refine ⟨k, hk, by rw [hout, setName_length], ?_, ?_⟩
  · intro q hq
    rw [hout, setName_ne cur k q n' hq]
  · intro q hcoll
    obtain ⟨hne, x, y, hx, hy, hs⟩ := hcoll
    rw [hout, setName_eq cur k n' c hc] at hx
    cases hx
    rw [hout, setName_ne cur k q n' (fun h => hne h.symm)] at hy
    have hmem : y ∈ cur.eraseIdx k := List.mem_eraseIdx_iff_getElem?.2 ⟨q, fun h => hne h.symm, hy⟩
    have : ((cur.eraseIdx k).map Attr.slug).contains (alnum n') = true := by
      have hs' : alnum n' = y.slug := hs
      rw [hs']
      simpa using List.mem_map.2 ⟨y, hmem, rfl⟩
    rw [hfresh] at this; cases this

/-- what processing one group achieves: a set `T` of its positions is "settled" (no other position
shares their slug), at most one position of the group is left out, nothing else changes -/
theorem processGroup_spec (cur : List Attr) (g : List Nat) (hgnd : g.Nodup)
    (hglt : ∀ p ∈ g, p < cur.length) :
    ∃ T : List Nat, (processGroup cur g).length = cur.length ∧
      (∀ q, q ∉ T → (processGroup cur g)[q]? = cur[q]?) ∧
      (∀ i ∈ T, ∀ q, ¬ Coll (processGroup cur g) i q) ∧ (∀ x ∈ T, x ∈ g) ∧
      (∀ p q, p ∈ g → q ∈ g → p ∉ T → q ∉ T → p = q) := by
  match g, hgnd, hglt with
  | [], _, _ => exact ⟨[], rfl, fun _ _ => rfl, by simp, by simp, by simp⟩
  | [x], _, _ =>
    refine ⟨[], rfl, fun _ _ => rfl, by simp, by simp, ?_⟩
    intro p q hp hq _ _
    simp at hp hq; rw [hp, hq]
  | [i, j], hnd, hlt =>
    have hij : i ≠ j := by
      intro h; subst h; simp at hnd
    by_cases he : (cur[i]?.map Attr.isEnumeration) = some false
    · have hpg : processGroup cur [i, j] = renameByPreference cur i j := by
        simp [processGroup, he]
      obtain ⟨k, hk, h1, h2, h3⟩ := renameByPreference_spec cur i j (hlt i (by simp)) (hlt j (by simp))
      rw [hpg]
      refine ⟨[k], h1, fun q hq => h2 q (by simpa using hq), ?_, ?_, ?_⟩
      · intro x hx q; simp at hx; subst hx; exact h3 q
      · intro x hx; simp at hx; subst hx; rcases hk with rfl | rfl <;> simp
      · intro p q hp hq hpk hqk
        simp at hp hq hpk hqk
        rcases hk with rfl | rfl
        · rcases hp with rfl | rfl
          · exact absurd rfl hpk
          · rcases hq with rfl | rfl
            · exact absurd rfl hqk
            · rfl
        · rcases hp with rfl | rfl
          · rcases hq with rfl | rfl
            · rfl
            · exact absurd rfl hqk
          · exact absurd rfl hpk
    · have hpg : processGroup cur [i, j] = renameByIndex cur [j] := by
        simp [processGroup, he]
      obtain ⟨s1, s2, s3⟩ := renameByIndex_spec [j] cur (by simp) (fun x hx => hlt x (by simp at hx; simp [hx]))
      rw [hpg]
      refine ⟨[j], s1, s2, s3, by simp, ?_⟩
      intro p q hp hq hpk hqk
      simp at hp hq hpk hqk
      rcases hp with rfl | rfl
      · rcases hq with rfl | rfl
        · rfl
        · exact absurd rfl hqk
      · exact absurd rfl hpk
  | h :: j :: k :: r, hnd, hlt =>
    have hpg : processGroup cur (h :: j :: k :: r) = renameByIndex cur (j :: k :: r) := by
      simp [processGroup]
    have htnd : (j :: k :: r).Nodup := (List.nodup_cons.1 hnd).2
    obtain ⟨s1, s2, s3⟩ := renameByIndex_spec (j :: k :: r) cur htnd
      (fun x hx => hlt x (List.mem_cons_of_mem _ hx))
    rw [hpg]
    refine ⟨j :: k :: r, s1, s2, s3, fun x hx => List.mem_cons_of_mem _ hx, ?_⟩
    intro p q hp hq hpt hqt
    rcases List.mem_cons.1 hp with rfl | hp
    · rcases List.mem_cons.1 hq with rfl | hq
      · rfl
      · exact absurd hq hqt
    · exact absurd hp hpt

theorem fold_inv (attrs : List Attr) :
    ∀ (rem : List Str) (cur : List Attr), rem.Nodup → cur.length = attrs.length →
      (∀ (p : Nat) (k : Str), k ∈ rem → (attrs.map Attr.key)[p]? = some k → cur[p]? = attrs[p]?) →
      (∀ (p q : Nat), Coll cur p q →
        ∃ k ∈ rem, (attrs.map Attr.key)[p]? = some k ∧ (attrs.map Attr.key)[q]? = some k) →
      ∀ p q, ¬ Coll (rem.foldl (fun cur k => processGroup cur (groupIdxs (attrs.map Attr.key) k)) cur) p q := by
  intro rem
  induction rem with
  | nil =>
    intro cur _ _ _ hc p q hcoll
    obtain ⟨k, hk, _⟩ := hc p q hcoll
    cases hk
  | cons k rest ih =>
    intro cur hnd hlen hb hc
    simp only [List.foldl_cons]
    have hkrest : k ∉ rest := (List.nodup_cons.1 hnd).1
    have hnd' : rest.Nodup := (List.nodup_cons.1 hnd).2
    obtain ⟨g, hg⟩ : ∃ g, g = groupIdxs (attrs.map Attr.key) k := ⟨_, rfl⟩
    rw [← hg]
    have hmem : ∀ p, p ∈ g ↔ (attrs.map Attr.key)[p]? = some k := by
      intro p; rw [hg]; exact mem_groupIdxs _ k p
    have hgnd : g.Nodup := by rw [hg]; exact nodup_groupIdxs _ k
    have hglt : ∀ p ∈ g, p < cur.length := by
      intro p hp
      have := (hmem p).1 hp
      by_cases hpl : p < (attrs.map Attr.key).length
      · simpa [hlen] using hpl
      · rw [List.getElem?_eq_none (by omega)] at this; cases this
    obtain ⟨T, s1, s2, s3, hTg, s4⟩ := processGroup_spec cur g hgnd hglt
    apply ih (processGroup cur g) hnd' (by rw [s1, hlen])
    · intro p k' hk' hp
      have hpg : p ∉ g := by
        intro hpg
        have := (hmem p).1 hpg
        rw [hp] at this; cases this; exact hkrest hk'
      have hpT : p ∉ T := fun h => hpg (hTg p h)
      rw [s2 p hpT]
      exact hb p k' (by simp [hk']) hp
    · intro p q hcoll
      by_cases hpt : p ∈ T
      · exact absurd hcoll (s3 p hpt q)
      · by_cases hqt : q ∈ T
        · exact absurd hcoll.symm (s3 q hqt p)
        · have hcoll' : Coll cur p q := by
            obtain ⟨hne, a, b, ha, hb', hs⟩ := hcoll
            rw [s2 p hpt] at ha; rw [s2 q hqt] at hb'
            exact ⟨hne, a, b, ha, hb', hs⟩
          obtain ⟨k', hk', hpk, hqk⟩ := hc p q hcoll'
          rcases List.mem_cons.1 hk' with rfl | hk'
          · exfalso
            exact hcoll.1 (s4 p q ((hmem p).2 hpk) ((hmem q).2 hqk) hpt hqt)
          · exact ⟨k', hk', hpk, hqk⟩

theorem no_collision_nodup (cur : List Attr) (h : ∀ p q, ¬ Coll cur p q) :
    (cur.map Attr.slug).Nodup := by
  rw [List.nodup_iff_pairwise_ne, List.pairwise_iff_getElem]
  intro i j hi hj hij heq
  simp only [List.length_map] at hi hj
  apply h i j
  refine ⟨by omega, cur[i], cur[j], List.getElem?_eq_getElem hi, List.getElem?_eq_getElem hj, ?_⟩
  simpa using heq

/-- **after `rename_duplicate_attributes` no two attrs share a slug** — every attr list -/
theorem rename_nodup (attrs : List Attr) : ((renameDuplicateAttrs attrs).map Attr.slug).Nodup := by
  apply no_collision_nodup
  unfold renameDuplicateAttrs
  simp only []
  apply fold_inv attrs _ attrs (nodup_eraseDups _ _ (Nat.le_refl _)) rfl
  · intro p k _ _; rfl
  · intro p q hcoll
    obtain ⟨hne, a, b, ha, hb, hs⟩ := hcoll
    have hk : a.key = b.key := by unfold Attr.key; rw [hs]
    refine ⟨a.key, ?_, ?_, ?_⟩
    · rw [List.mem_eraseDups]
      exact List.mem_map.2 ⟨a, List.mem_of_getElem? ha, rfl⟩
    · simp [ha]
    · simp [hb, hk]

end Proofs.Rename
