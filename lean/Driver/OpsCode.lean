/- Driver ops for the code serializer model (C18).

  c18.code   {"world": [cls…], "val": V, "var": "obj"}
             → {"ok": {"text": source, "outcome": "equal|unequal|exc:<T>|unmodelled",
                        "hyps": {"wf","dom","imports"}, "imports": [[module, name]…]}}
  c18.json   {"s": "..."}  → {"ok": json.dumps(s, ensure_ascii=False)}
  c18.qnamecp {"cps": [code points]} → {"ok": {"body": text between QName(" and "), "back": decoded code points}}
  c18.dqcp   {"s": "..."}  → {"ok": [code points]} | {"err": "unmodelled"}   (as c18.dq, surrogates allowed)
  c18.strrepr   {"s": "..."}   → {"ok": {"repr": repr(s), "back": the str the parser reads it as}}
  c18.bytesrepr {"bs": [..]}   → {"ok": {"repr": repr(bytes(bs)), "back": [...]}}
  c18.strlit    {"t": "'...'"} → {"ok": str} | {"err": "unmodelled"}    (a whole str literal)
  c18.byteslit  {"t": "b'..'"} → {"ok": [bytes]} | {"err": "unmodelled"}
  c18.dq     {"s": "..."}  → {"ok": decoded} | {"err": "unmodelled"}   (body of a "…" literal)
  c18.pyeq   {"world": [], "a": V, "b": V} → {"ok": bool}
-/
import Driver.Proto
import XsdataModel.Code.PycodeWF
open Lean Proto Py Xs.Code

namespace OpsCode

def strList (j : Json) (k : String) : Except String (List Str) := do
  let a ← getArr j k
  a.mapM asStr

def getRef (j : Json) : Except String ClsRef := do
  pure ⟨← getStr j "module", ← strList j "path"⟩

def asBigInt (j : Json) : Except String Int :=
  match j with
  | .str s => match s.toInt? with
    | some i => .ok i
    | none => .error s!"bad int {s}"
  | _ => asInt j

def getNum (j : Json) : Except String (Option NumV) :=
  match j.getObjValD "num" with
  | .null => .ok none
  | .str "inf" => .ok (some .pinf)
  | .str "-inf" => .ok (some .ninf)
  | .str "nan" => .ok (some .nan)
  | .str "snan" => .ok (some .snan)
  | .arr #[a, b] => do
      let n ← asBigInt a
      let d ← asBigInt b
      pure (some (.fin n d.toNat))
  | _ => .error "bad num"

/-- a binary64 value: "inf" | "-inf" | "nan" | [neg, "m", q] -/
def getF64 (j : Json) : Except String Xs.Conv.F64 :=
  match j.getObjValD "f64" with
  | .str "inf" => .ok (.inf false)
  | .str "-inf" => .ok (.inf true)
  | .str "nan" => .ok .nan
  | .arr #[.bool neg, m, q] => do
      let m ← asBigInt m
      let q ← asBigInt q
      pure (.fin neg m.toNat q)
  | _ => .error "bad f64"

/-- a Decimal as `as_tuple()` shows it: ["fin", neg, "coeff", exp] | ["inf", neg] | ["nan", neg, signaling, "payload"] -/
def getDec (j : Json) : Except String Xs.Conv.Dec :=
  match j.getObjValD "dec" with
  | .arr #[.str "fin", .bool neg, c, x] => do pure (.fin neg (← asBigInt c).toNat (← asBigInt x))
  | .arr #[.str "inf", .bool neg] => .ok (.inf neg)
  | .arr #[.str "nan", .bool neg, .bool sg, p] => do pure (.nan neg sg (← asBigInt p).toNat)
  | _ => .error "bad dec"

def getNats (j : Json) (k : String) : Except String (List Nat) := do
  (← getArr j k).mapM fun x => match x.getNat? with
    | .ok n => pure n
    | .error _ => .error "bad nat"

/-- every `str` / `bytes` leaf carries the `repr` the model itself computes -/
partial def reprsAgree : Val → Bool
  | .str s r => pyReprStr tblPrintable s == r
  | .bytes _ bs r => pyReprBytes bs == r
  | .float x r => x.repr == r   -- C05's shortest-repr model
  | .decimal d r => decRepr d == r
  | .list xs => xs.all reprsAgree
  | .tuple xs => xs.all reprsAgree
  | .set _ xs => xs.all reprsAgree
  | .dict kvs => kvs.all fun p => reprsAgree p.1 && reprsAgree p.2
  | .model _ xs => xs.all reprsAgree
  | _ => true

partial def getVal (j : Json) : Except String Val := do
  let t ← getStr j "t"
  match String.ofList t with
  | "none" => pure .none
  | "bool" => pure (.bool (← getBool j "v"))
  | "int" => pure (.int (← asBigInt (j.getObjValD "v")))
  | "float" => pure (.float (← getF64 j) (← getStr j "repr"))
  | "decimal" => pure (.decimal (← getDec j) (← getStr j "repr"))
  | "str" => pure (.str (← getStr j "v") (← getStr j "repr"))
  | "bytes" => pure (.bytes (← getRef j) (← getNats j "bs") (← getStr j "repr"))
  | "qname" => pure (.qname (← getStr j "text"))
  | "opaque" => pure (.opaque (← getRef j) (← strList j "callee") (← getStr j "args") (← getNum j))
  | "enum" => pure (.enum (← getRef j) (← getStr j "member"))
  | "list" => pure (.list (← (← getArr j "items").mapM getVal))
  | "tuple" => pure (.tuple (← (← getArr j "items").mapM getVal))
  | "set" => pure (.set (← getBool j "frozen") (← (← getArr j "items").mapM getVal))
  | "dict" => do
      let items ← getArr j "items"
      let ps ← items.mapM fun p => do
        match p with
        | .arr #[k, v] => pure ((← getVal k), (← getVal v))
        | _ => .error "bad dict item"
      pure (.dict ps)
  | "model" => do
      let attrs ← getArr j "attrs"
      let vs ← attrs.mapM fun p => do
        match p with
        | .arr #[_, v] => getVal v
        | _ => .error "bad attr"
      pure (.model (← getRef j) vs)
  | k => .error s!"bad value tag {k}"

def getDefault (j : Json) : Except String Default :=
  match j.getObjValD "default" with
  | .null => pure .missing
  | d =>
    match d.getObjVal? "value", d.getObjVal? "factory" with
    | .ok v, _ => do pure (.value (← getVal v))
    | _, .ok v => do pure (.factory (← getVal v))
    | _, _ => .error "bad default"

def getEntry (j : Json) : Except String ClsEntry := do
  let r ← getRef j
  let kind ← getStr j "kind"
  match String.ofList kind with
  | "model" => do
      let fs ← (← getArr j "fields").mapM fun f => do
        pure (⟨← getStr f "name", ← getBool f "init", ← getDefault f⟩ : FieldSpec)
      pure ⟨r, .model fs⟩
  | "enum" => pure ⟨r, .enum (← strList j "members")⟩
  | "other" => pure ⟨r, .other⟩
  | k => .error s!"bad class kind {k}"

def getWorld (j : Json) : Except String World := do
  (← getArr j "world").mapM getEntry

def run (op : String) (a : Json) : Option (Except String Json) :=
  match op with
  | "c18.code" => some do
      let W ← getWorld a
      let v ← getVal (a.getObjValD "val")
      let var ← getStr a "var"
      pure <| ok (jObj [
        ("text", match sourceE W v var with | .ok t => jStr t | .error e => jStr (cs!"RAISES:" ++ e.name)),
        ("outcome", jStr (outcome W v)),
        -- the hypotheses of Props.C18.code_rt_partial on this input
        ("hyps", jObj [("wf", jBool (wf W v)), ("dom", jBool (domOK W v)), ("renders", jBool (renders W v)), ("nesting", jBool (nestingOK W v)),
                       ("init", jBool (initFalseAtDefault W v)), ("quiet", jBool (comparesQuietly W v)),
                       ("reprs", jBool (reprsAgree v))]),
        ("imports", jList (fun p => Json.arr #[jStr p.1, jStr p.2]) (importsEnv W v))])
  | "c18.seq" => some do
      -- the model is stateless: each render is what a fresh serializer gives
      let W ← getWorld a
      let vs ← (← getArr a "vals").mapM getVal
      pure <| ok (jList (fun v => match sourceE W v cs!"obj" with
        | .ok t => jStr t
        | .error e => jStr (cs!"RAISES:" ++ e.name)) vs)
  | "c18.dq" => some do
      let s ← getStr a "s"
      pure <| match decodeDq .normal s with
        | some t => ok (jStr t)
        | none => err "unmodelled"
  | "c18.json" => some do
      let s ← getStr a "s"
      pure <| ok (jStr (jsonDumps s))
  | "c18.qnamelit" => some do
      let s ← getStr a "s"
      let e := PyExpr.qnameCall s
      pure <| ok (jObj [("text", jStr (e.text 0)),
        ("back", match decodeDq .normal (jsonBody s) with
          | some t => jStr t
          | none => Json.str "EXC:unmodelled")])
  | "c18.qnamecp" => some do
      -- QName text given by its code points (lone surrogates allowed)
      let cps ← (← getArr a "cps").mapM fun j => match j.getNat? with
        | .ok n => pure n
        | .error _ => .error "bad code point"
      pure <| ok (jObj [("body", jStr (qnameLitBody cps)),
        ("back", match decodeCp .normal (qnameLitBody cps) with
          | some t => jList jNat t
          | none => Json.null)])
  | "c18.dqcp" => some do
      let s ← getStr a "s"
      pure <| match decodeCp .normal s with
        | some t => ok (jList jNat t)
        | none => err "unmodelled"
  | "c18.strrepr" => some do
      let s ← getStr a "s"
      pure <| ok (jObj [("repr", jStr (pyReprStr tblPrintable s)),
        ("back", match decodeStrLit (pyReprStr tblPrintable s) with | some t => jStr t | none => Json.null)])
  | "c18.bytesrepr" => some do
      let bs ← getNats a "bs"
      pure <| ok (jObj [("repr", jStr (pyReprBytes bs)),
        ("back", match decodeBytesLit (pyReprBytes bs) with | some t => jList jNat t | none => Json.null)])
  | "c18.strlit" => some do
      let t ← getStr a "t"
      pure <| match decodeStrLit t with
        | some r => ok (jStr r)
        | none => err "unmodelled"
  | "c18.byteslit" => some do
      let t ← getStr a "t"
      pure <| match decodeBytesLit t with
        | some r => ok (jList jNat r)
        | none => err "unmodelled"
  | "c18.decrepr" => some do
      let d ← getDec a
      pure <| ok (jObj [("repr", jStr (decRepr d)),
        ("back", match readDecimal (decRepr d) with | some d' => jBool (d' == d) | none => Json.null)])
  | "c18.pyeq" => some do
      let x ← getVal (a.getObjValD "a")
      let y ← getVal (a.getObjValD "b")
      -- `a == b`, or the exception a signaling NaN makes it raise
      pure <| match eqRaises x y with
        | some true => err "InvalidOperation"
        | none => err "unmodelled"
        | some false => ok (jBool (pyEq x y))
  | _ => none

end OpsCode
