/-
L8 — which class a type name resolves to (C02): `ProcessAttributeTypes.find_dependency`.

Classes are looked up by qualified name; several global components may share one (a complex or
simple type, an element, an attribute).  `AttrType` does not record whether the name came from
`type=` or from `ref=`; the handler picks by the tag of the *attr* and a priority list.

Spec: `type="n"` names a type definition (complex or simple), `ref="n"` on an element an element
declaration, on an attribute an attribute declaration (XSD part 1, 3.3.2 / 3.2.2).
-/
import XsdataModel.Py.Basic

namespace Xs.Gen

/-- `Class.tag` of the global components a schema can declare under one name -/
inductive CTag | element | complexType | simpleType | attribute
deriving DecidableEq, Repr

/-- `Class.is_complex_type` (`tag in GLOBAL_TYPES`): the classes that get generated -/
def CTag.isGlobalType : CTag → Bool
  | .element | .complexType => true
  | _ => false

/-- how the attr came by the type name -/
inductive NameSource | typeAttr | refAttr
deriving DecidableEq, Repr

/-- `find_dependency` (no `reference` set yet): the position, among the classes of that qualified
name in container order, of the class picked for an attr of tag `attrTag`; `isTarget i`: the
candidate is the class that owns the attr -/
def pickCand (cands : List CTag) (p : Nat → CTag → Bool) : Option Nat :=
  (List.range cands.length).find? fun i => match cands[i]? with | some t => p i t | none => false

def findDependency (attrTag : CTag) (cands : List CTag) (isTarget : Nat → Bool) : Option Nat :=
  match pickCand cands (fun i t => attrTag = .element && t = .complexType && !isTarget i) with
  | some i => some i
  | none =>
    match pickCand cands (fun _ t => t = attrTag) with
    | some i => some i
    | none =>
      match pickCand cands (fun _ t => !t.isGlobalType) with
      | some i => some i
      | none => pickCand cands (fun _ _ => true)

/-- Spec: the components the name may denote -/
def denotes (attrTag : CTag) (src : NameSource) (t : CTag) : Bool :=
  match src with
  | .typeAttr => t = .complexType || t = .simpleType
  | .refAttr => t = attrTag

end Xs.Gen
