import Driver.Proto
import XsdataModel.Py.TblEnv
import XsdataModel.Conv.Factory
import XsdataModel.Conv.TblCEnv
import XsdataModel.Conv.FloatRepr
import XsdataModel.Conv.Strptime
open Lean Proto Py Xs.Conv Xs.Dates

namespace OpsConv

/-- environment for every request: Unicode tables of the running interpreter and
the exact `repr(float(s))` computed in Lean (`Conv/FloatRepr.lean`); the harness
no longer supplies float reprs -/
def mkEnv (_freprs : Json) : CEnv := tblCEnv (pyFloatReprD tblEnv)

def optInts (j : Json) : Except String (List (Option Int)) := do
  let a ← asArr j
  a.mapM asOptInt

def reqI : Option Int → Except String Int
  | some i => .ok i
  | none => .error "null component"

def getField (j : Json) (k : String) : Json := j.getObjValD k

def parseAtom (j : Json) : Except String Atom := do
  let t ← getStr j "t"
  let v := getField j "v"
  match String.ofList t with
  | "str" => return .str (← asStr v)
  | "int" => return .int (← asInt v)
  | "bool" => match v with
    | .bool b => return .bool b
    | _ => throw "bool expected"
  | "float" => return .float ⟨← asStr v⟩
  | "dec" =>
    let k ← getStr j "k"
    match String.ofList k with
    | "fin" => return .dec (.fin (← getBool j "neg") (← getNat j "coeff") (← getInt j "exp"))
    | "inf" => return .dec (.inf (← getBool j "neg"))
    | "nan" => return .dec (.nan (← getBool j "neg") (← getBool j "sig") (← getNat j "diag"))
    | _ => throw "bad dec kind"
  | "bytes" =>
    let k ← getStr j "k"
    let kind ← match String.ofList k with
      | "plain" => pure BytesKind.plain
      | "hex" => pure BytesKind.hex
      | "b64" => pure BytesKind.b64
      | _ => throw "bad bytes kind"
    let a ← asArr v
    let bs ← a.mapM (fun x => match x.getNat? with | .ok n => pure n | .error _ => throw "byte")
    return .bytes kind bs
  | "qname" => return .qname (← asStr v)
  | "date" =>
    match ← optInts v with
    | [y, m, d, o] => return .date ⟨← reqI y, ← reqI m, ← reqI d, o⟩
    | _ => throw "date arity"
  | "time" =>
    match ← optInts v with
    | [h, mi, s, f, o] => return .time ⟨← reqI h, ← reqI mi, ← reqI s, ← reqI f, o⟩
    | _ => throw "time arity"
  | "datetime" =>
    match ← optInts v with
    | [y, m, d, h, mi, s, f, o] =>
      return .dateTime ⟨← reqI y, ← reqI m, ← reqI d, ← reqI h, ← reqI mi, ← reqI s, ← reqI f, o⟩
    | _ => throw "datetime arity"
  | "duration" => return .duration (← asStr v)
  | "period" => return .period (← asStr v)
  | "pydate" =>
    match ← optInts v with
    | [some y, some m, some d] => return .pyDate y m d
    | _ => throw "pydate arity"
  | "pytime" =>
    match ← optInts v with
    | [some h, some mi, some s, some us] => return .pyTime h mi s us
    | _ => throw "pytime arity"
  | "pydatetime" =>
    match ← optInts v with
    | [some y, some m, some d, some h, some mi, some s, some us] => return .pyDateTime ⟨y, m, d, h, mi, s, us⟩
    | _ => throw "pydatetime arity"
  | k => throw s!"bad atom type {k}"

def parseEnumVal (j : Json) : Except String EnumVal := do
  let t ← getStr j "t"
  if String.ofList t == "tuple" then
    let a ← getArr j "v"
    return .tuple (← a.mapM parseAtom)
  else return .atom (← parseAtom j)

def parseTy (j : Json) : Except String Ty :=
  match j with
  | .str s =>
    match s with
    | "int" => pure .int | "bool" => pure .bool | "float" => pure .float
    | "Decimal" => pure .decimal | "str" => pure .str | "QName" => pure .qname
    | "bytes" => pure .bytes | "XmlDate" => pure .xmlDate | "XmlTime" => pure .xmlTime
    | "XmlDateTime" => pure .xmlDateTime | "unregistered" => pure .unregistered
    | "XmlDuration" => pure .xmlDuration | "XmlPeriod" => pure .xmlPeriod
    | "XmlHexBinary" => pure .xmlHexBinary | "XmlBase64Binary" => pure .xmlBase64Binary
    | "date" => pure .pyDate | "time" => pure .pyTime | "datetime" => pure .pyDateTime
    | k => throw s!"bad type {k}"
  | _ => do
    let a ← getArr j "enum"
    return .enum (← a.mapM parseEnumVal)

def parseNsMap (j : Json) : Except String (Option NsMap) :=
  match j with
  | .null => pure none
  | .arr a => do
    let items ← a.toList.mapM (fun p => do
      match ← asArr p with
      | [k, v] =>
        let key ← match k with
          | .null => pure none
          | .str s => pure (some s.toList)
          | _ => throw "bad prefix"
        pure (key, ← asStr v)
      | _ => throw "bad ns_map item")
    return some items
  | _ => throw "bad ns_map"

def parseKw (j : Json) : Except String Kw := do
  let f ← getOptStr j "format"
  let m ← parseNsMap (getField j "ns_map")
  return { format := f, nsMap := m }

def jDec : Dec → Json
  | .fin n c x => jObj [("t", "dec"), ("k", "fin"), ("neg", jBool n), ("coeff", jNat c), ("exp", jInt x)]
  | .inf n => jObj [("t", "dec"), ("k", "inf"), ("neg", jBool n)]
  | .nan n s d => jObj [("t", "dec"), ("k", "nan"), ("neg", jBool n), ("sig", jBool s), ("diag", jNat d)]

def jAtom : Atom → Json
  | .str s => jObj [("t", "str"), ("v", jStr s)]
  | .int i => jObj [("t", "int"), ("v", jInt i)]
  | .bool b => jObj [("t", "bool"), ("v", jBool b)]
  | .float f => jObj [("t", "float"), ("v", jStr f.repr)]
  | .dec d => jDec d
  | .bytes k bs =>
    jObj [("t", "bytes"), ("k", match k with | .plain => "plain" | .hex => "hex" | .b64 => "b64"),
      ("v", jList jNat bs)]
  | .qname t => jObj [("t", "qname"), ("v", jStr t)]
  | .date v => jObj [("t", "date"), ("v", jList (jOpt jInt) [some v.year, some v.month, some v.day, v.offset])]
  | .time v => jObj [("t", "time"),
      ("v", jList (jOpt jInt) [some v.hour, some v.minute, some v.second, some v.frac, v.offset])]
  | .dateTime v => jObj [("t", "datetime"),
      ("v", jList (jOpt jInt) [some v.year, some v.month, some v.day, some v.hour,
        some v.minute, some v.second, some v.frac, v.offset])]
  | .duration d => jObj [("t", "duration"), ("v", jStr d)]
  | .period d => jObj [("t", "period"), ("v", jStr d)]
  | .pyDate y m d => jObj [("t", "pydate"), ("v", jList jInt [y, m, d])]
  | .pyTime h mi sec us => jObj [("t", "pytime"), ("v", jList jInt [h, mi, sec, us])]
  | .pyDateTime v => jObj [("t", "pydatetime"),
      ("v", jList jInt [v.year, v.month, v.day, v.hour, v.minute, v.second, v.micro])]

def jVal : Val → Json
  | .atom a => jAtom a
  | .member ty idx => jObj [("t", "member"), ("ty", jNat ty), ("idx", jNat idx)]

def jNsMap : Option NsMap → Json
  | none => Json.null
  | some m => jList (fun (p : Option Str × Str) => Json.arr #[jOpt jStr p.1, jStr p.2]) m

def jSer : Except SerErr (Str × Option NsMap) → Json
  | .ok (s, m) => ok (jObj [("s", jStr s), ("ns_map", jNsMap m)])
  | .error .converterError => err "ConverterError"
  | .error .indexError => err "LEAK:IndexError"
  | .error .unsupported => jObj [("fail", "format outside the strftime model")]

/-- a `date`/`time`/`datetime` candidate with a format outside the strptime model cannot be evaluated -/
def needsUnsupportedFmt (tys : List Ty) (kw : Kw) : Bool :=
  tys.any (fun t => t = .pyDate || t = .pyTime || t = .pyDateTime) && !fmtSupported tblEnv kw.format

def jFloatLit : FloatLit → Json
  | .fin n c x => jObj [("k", "fin"), ("neg", jBool n), ("coeff", jNat c), ("exp", jInt x)]
  | .inf n => jObj [("k", "inf"), ("neg", jBool n)]
  | .nan => jObj [("k", "nan")]

def strList (j : Json) (k : String) : Except String (List Str) := do
  let a ← getArr j k
  a.mapM asStr

def run (op : String) (a : Json) : Option (Except String Json) :=
  match op with
  | "conv.de" => some do
      let e := mkEnv (getField a "freprs")
      let s ← getStr a "s"
      let tys0 ← (← getArr a "types").mapM parseTy
      let tys := if (getField a "sort") == Json.bool true then sortTys tys0 else tys0
      let kw ← parseKw (getField a "kw")
      if needsUnsupportedFmt tys kw then throw "format outside the strptime model"
      pure <| match deserialize e s tys kw with
        | some v => ok (jVal v)
        | none => err "ConverterError"
  | "conv.test" => some do
      let e := mkEnv (getField a "freprs")
      let s ← getStr a "s"
      let tys ← (← getArr a "types").mapM parseTy
      let kw ← parseKw (getField a "kw")
      let strict ← getBool a "strict"
      if needsUnsupportedFmt tys kw then throw "format outside the strptime model"
      pure <| ok (jBool (test e s tys strict kw))
  | "conv.ser" => some do
      let kw ← parseKw (getField a "kw")
      let v := getField a "v"
      let t ← getStr v "t"
      match String.ofList t with
      | "list" | "tuple" =>
        let items ← (← getArr v "v").mapM parseAtom
        pure <| match listSerialize kw items with
          | .ok (ss, m) => jSer (.ok (joinSp ss, m))
          | .error x => jSer (.error x)
      | "member" => do
        let ev ← parseEnumVal (getField v "v")
        pure <| jSer (enumSerialize ev kw)
      | _ => do
        let atm ← parseAtom v
        pure <| jSer (atomSerialize atm kw)
  | "conv.sort" => some do
      let names ← strList a "names"
      pure <| ok (jList jStr (sortTypes names))
  | "conv.type_converter" => some do
      let mro ← strList a "mro"
      pure <| match typeConverter Tables.registryTypes mro with
        | some c => ok (jStr c)
        | none => err "ConverterError"
  | "conv.from_value" => some do
      let atm ← parseAtom (getField a "v")
      pure <| ok (jStr (fromValue tblEnv atm))
  | "conv.strptime" => some do
      let s ← getStr a "s"; let f ← getStr a "fmt"
      match strptime tblEnv s f with
      | .ok v => pure <| ok (jList jInt [v.year, v.month, v.day, v.hour, v.minute, v.second, v.micro])
      | .err => pure <| err "ValueError"
      | .unsupported => .error "format outside the strptime model"
  | "conv.strftime" => some do
      let f ← getStr a "fmt"
      match ← optInts (getField a "v") with
      | [some y, some mo, some d, some h, some mi, some sec, some us] =>
        match strftime ⟨y, mo, d, h, mi, sec, us⟩ f with
        | .ok r => pure <| ok (jStr r)
        | .err => pure <| err "ValueError"
        | .unsupported => .error "format outside the strftime model"
      | _ => .error "datetime arity"
  | "conv.float_repr" => some do
      let s ← getStr a "s"
      pure <| match pyFloatRepr tblEnv s with
        | some r => ok (jStr r)
        | none => err "ValueError"
  | "conv.float_lit" => some do
      let s ← getStr a "s"
      pure <| match pyFloatLit tblEnv s with
        | some l => ok (jFloatLit l)
        | none => err "ValueError"
  | "ns.split_qname" => some do
      let s ← getStr a "s"
      let r := splitQName s
      pure <| ok (Json.arr #[jOpt jStr r.1, jStr r.2])
  | "ns.build_qname" => some do
      let u ← getOptStr a "uri"; let t ← getOptStr a "tag"
      pure <| match buildQName u t with
        | some q => ok (jStr q)
        | none => err "ValueError"
  | "ns.is_ncname" => some do
      let s ← getOptStr a "s"
      pure <| ok (jBool (match s with | some x => isNcName (mkEnv Json.null) x | none => false))
  | "ns.is_uri" => some do
      let s ← getOptStr a "s"
      pure <| ok (jBool (isUri s))
  | "text.split" => some do
      let s ← getStr a "s"; let sep ← getStr a "sep"
      match sep with
      | [c] =>
        let r := textSplit s c
        pure <| ok (Json.arr #[jOpt jStr r.1, jStr r.2])
      | _ => .error "single-char separator only"
  | _ => none

end OpsConv
