/-
L8 — namespaces and forms (C02): the qualified name under which a generated field is bound.

* `SchemaParser` : `end_element` / `end_attribute` (a local declaration without `form` takes the
  schema's `elementFormDefault` / `attributeFormDefault`), `set_schema_forms` (global declarations
  are qualified), `set_schema_namespaces` (a document without `targetNamespace` inherits the one
  of the including document — chameleon include);
* `ElementBase.is_qualified` / `is_ref` / `prefix` / `raw_namespace`;
* `SchemaMapper.element_namespace` (after the repair `fix: an unprefixed reference resolves to the
  default namespace in scope`);
* `Filters.field_metadata` : the `namespace` entry is written unless it equals the namespace the
  class hands down (`parent_namespace`) and the field is not an attribute;
* `XmlMetaBuilder.resolve_namespaces` for elements and attributes: an element without explicit
  namespace inherits the class namespace, an empty namespace means "no namespace".

Spec (`specNs`, written from XSD part 1, 3.3.2 / 3.2.2 and QName resolution 3.15.3): the namespace
name of the element / attribute information items a declaration or reference admits.
`none` = no namespace.
-/
import XsdataModel.Py.Basic

namespace Xs.Gen
open Py

inductive Form | qualified | unqualified
deriving DecidableEq, Repr

/-- what a schema document says about names; `prefixes` = the `xmlns:p` bindings in scope,
`defaultNs` = `xmlns="…"` -/
structure NsCtx where
  /-- the effective target namespace: the document's own, or the includer's for a chameleon include -/
  tns : Option Str
  /-- the document has no `targetNamespace` of its own and was included by one that has -/
  chameleon : Bool := false
  defaultNs : Option Str := none
  prefixes : List (Str × Str) := []
  elementForm : Option Form := none
  attributeForm : Option Form := none
deriving Repr

inductive NsDecl
  /-- `<xs:element|attribute name=… form=… targetNamespace=…/>` inside a type -/
  | localD (isAttr : Bool) (form : Option Form) (tnsAttr : Option Str)
  /-- `<xs:element|attribute ref="p:name"/>` (`pfx = none`: unprefixed) -/
  | refD (isAttr : Bool) (pfx : Option Str)
  /-- a global `xs:element` / `xs:attribute` -/
  | globalD (isAttr : Bool)
deriving Repr

def NsDecl.isAttr : NsDecl → Bool
  | .localD a _ _ => a
  | .refD a _ => a
  | .globalD a => a

def lookupPrefix (ctx : NsCtx) (p : Str) : Option Str :=
  (ctx.prefixes.find? (·.1 = p)).map (·.2)

/-- Python truthiness of an optional string -/
def truthy : Option Str → Bool
  | some (_ :: _) => true
  | _ => false

/-! ### Spec -/

/-- the namespace name of the items the declaration admits -/
def specNs (ctx : NsCtx) : NsDecl → Option Str
  | .refD _ (some p) => lookupPrefix ctx p
  | .refD _ none =>
    -- an unprefixed QName resolves to the default namespace; in a chameleon include the names
    -- without namespace are moved to the includer's target namespace
    match ctx.defaultNs with
    | some d => some d
    | none => if ctx.chameleon then ctx.tns else none
  | .globalD _ => ctx.tns
  | .localD isAttr form tnsAttr =>
    match tnsAttr with
    | some t => some t
    | none =>
      let eff := match form with
        | some f => f
        | none => ((if isAttr then ctx.attributeForm else ctx.elementForm).getD .unqualified)
      if eff = .qualified then ctx.tns else none

/-- "no namespace" is `None` or `""` in the code -/
def normNs : Option Str → Option Str
  | some (c :: cs) => some (c :: cs)
  | _ => none

/-! ### SchemaParser + SchemaMapper -/

/-- the `form` the parser leaves on the object -/
def parserForm (ctx : NsCtx) : NsDecl → Option Form
  | .globalD _ => some .qualified
  | .localD isAttr form _ =>
    match form with
    | some f => some f
    | none => if isAttr then ctx.attributeForm else ctx.elementForm
  | .refD isAttr _ => if isAttr then ctx.attributeForm else ctx.elementForm

def NsDecl.isRef : NsDecl → Bool
  | .refD _ _ => true
  | _ => false

/-- `ElementBase.is_qualified` (elements and attributes have a `form` attribute) -/
def isQualified (ctx : NsCtx) (d : NsDecl) : Bool :=
  parserForm ctx d = some .qualified || d.isRef

/-- `prefix_exists(uri, ns_map)` : some prefix (or the default) is bound to the uri -/
def prefixExists (ctx : NsCtx) (uri : Str) : Bool :=
  ctx.prefixes.any (·.2 = uri) || ctx.defaultNs = some uri

/-- `is_default(uri, ns_map)` -/
def isDefaultNs (ctx : NsCtx) (uri : Str) : Bool :=
  ctx.defaultNs = some uri || ctx.prefixes.any (fun pu => pu.1 = [] && pu.2 = uri)

/-- `SchemaMapper.element_namespace`; `some []` is the code's `""`, `none` its `None` -/
def elementNamespace (ctx : NsCtx) (d : NsDecl) : Option Str :=
  let raw := match d with | .localD _ _ t => t | _ => none
  if truthy raw then raw else
  let pfx := match d with | .refD _ p => p | _ => none
  if truthy pfx then (pfx.bind (lookupPrefix ctx)) else
  if d.isRef && truthy ctx.defaultNs then ctx.defaultNs else
  if isQualified ctx d &&
      (!d.isRef || !truthy ctx.tns ||
        (match ctx.tns with | some t => !prefixExists ctx t || isDefaultNs ctx t | none => true)) then
    ctx.tns
  else if d.isAttr then none else some []

/-! ### Filters.field_metadata + XmlMetaBuilder -/

/-- the `namespace` entry of the field metadata (`none`: no entry) -/
def fieldMetaNs (parentNs attrNs : Option Str) (isAttr : Bool) : Option Str :=
  if parentNs ≠ attrNs || isAttr then attrNs else none

/-- `XmlMetaBuilder.resolve_namespaces` for `Element` / `Attribute` fields: the namespace of the
qualified name the field is bound to (`none`: the local name alone) -/
def boundNs (metaNs classNs : Option Str) (isAttr : Bool) : Option Str :=
  let ns := if !isAttr && metaNs.isNone then classNs else metaNs
  normNs ns

/-- generator and binding together, for a field of a class whose namespace is `classNs` -/
def fieldNs (ctx : NsCtx) (classNs : Option Str) (d : NsDecl) : Option Str :=
  boundNs (fieldMetaNs classNs (elementNamespace ctx d) d.isAttr) classNs d.isAttr

/-- where the unprefixed-reference heuristic of `element_namespace` is right: with a default
namespace in scope it is read; without one "the target namespace has no binding here" is taken for
"this is a chameleon include" -/
def refHeuristicOk (ctx : NsCtx) : NsDecl → Bool
  | .refD _ none =>
    truthy ctx.defaultNs ||
      (match ctx.tns with
       | some t => truthy ctx.tns && (ctx.chameleon = !prefixExists ctx t)
       | none => true)
  | _ => true

/-- the bindings a schema document can have: no empty prefix, no empty uri, a non-empty default
namespace and target namespace; a chameleon include has a target namespace to inherit -/
def NsCtx.wf (ctx : NsCtx) : Bool :=
  ctx.prefixes.all (fun pu => truthy (some pu.1) && truthy (some pu.2)) &&
  (ctx.defaultNs.isNone || truthy ctx.defaultNs) && (ctx.tns.isNone || truthy ctx.tns) &&
  (!ctx.chameleon || ctx.tns.isSome)

def NsDecl.wf (ctx : NsCtx) : NsDecl → Bool
  | .localD _ _ t => t.isNone || truthy t
  | .refD _ (some p) => truthy (some p) && (lookupPrefix ctx p).isSome
  | _ => true

end Xs.Gen
