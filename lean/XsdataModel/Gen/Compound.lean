/-
L8 — compound fields (C02): `CreateCompoundFields.process` / `group_fields` / `update_counters` /
`sum_counters` with `compound_fields` enabled (after the repair `fix: CreateCompoundFields keeps the
sequence number on the compound field …`).

The attrs that share a `choice` id (two or more) are replaced, at the position of the first, by one
compound attr whose `min_occurs` / `max_occurs` come from a tree of counters keyed by the path
steps from the first choice step on: a `"c"` step contributes the minimum / maximum of what is
below it, any other step the sums; the compound takes the sum of the minima and, for a real
choice (`choice > 0`), the maximum of the maxima, for an effective choice their sum. It keeps the
`sequence` the grouped attrs share, if they share one.
(Naming of the compound field and the `choices` metadata are property C07 / the oracles.)
-/
import XsdataModel.Gen.Occurs

namespace Xs.Gen
open Py

/-- a member on its way down the counters tree: the steps still to walk, and its bounds -/
structure CMember where
  keys : List PathE
  min : Nat
  max : Nat
deriving DecidableEq, Repr

/-- `update_counters`, the walk: skip the steps before the first choice step (or the step whose id
is the attr's choice), a walked step with `min ≤ 1` makes the attr optional -/
def counterMember (s : Site) : CMember :=
  let keys := s.path.dropWhile fun e =>
    !(e.kind = .c) && !(s.choice = some (Int.ofNat e.id))
  { keys, min := if keys.any (·.min ≤ 1) then 0 else s.min, max := s.max }

def listMin : List Nat → Nat
  | [] => 0
  | x :: xs => xs.foldl Nat.min x

def listMax (l : List Nat) : Nat := l.foldl Nat.max 0

/-- the distinct steps in order of first appearance (the keys of a `dict`) -/
def firsts : List PathE → List PathE
  | [] => []
  | x :: xs => x :: (firsts xs).filter (· ≠ x)

/-- `sum_counters` on the tree built by `update_counters` (`fuel` ≥ the longest key list) -/
def sumCounters : Nat → List CMember → List Nat × List Nat
  | 0, ms => (ms.map (·.min), ms.map (·.max))
  | fuel + 1, ms =>
    let leaves := ms.filter (·.keys.isEmpty)
    let inner := ms.filter (!·.keys.isEmpty)
    let heads := firsts (inner.filterMap (·.keys.head?))
    let kids := heads.map fun e =>
      let sub := (inner.filter (·.keys.head? = some e)).map fun m => { m with keys := m.keys.tail }
      let r := sumCounters fuel sub
      if e.kind = .c then (listMin r.1, listMax r.2) else (r.1.sum, r.2.sum)
    (leaves.map (·.min) ++ kids.map (·.1), leaves.map (·.max) ++ kids.map (·.2))

/-- the compound attr of a group -/
structure Compound where
  names : List Str
  min : Nat
  max : Nat
  sequence : Option Nat
deriving DecidableEq, Repr

/-- `group_fields` on the attrs of one choice id -/
def groupFields (choice : Int) (grp : List Site) : Compound :=
  let ms := grp.map counterMember
  let fuel := (ms.map (·.keys.length)).foldl Nat.max 0
  let r := sumCounters fuel ms
  { names := grp.map (·.name),
    min := r.1.sum,
    max := if choice > 0 then listMax r.2 else r.2.sum,
    -- `sequences = {attr.restrictions.sequence for attr in attrs}`; one element: that one
    sequence := match grp with
      | [] => none
      | s :: rest => if rest.all (·.sequence = s.sequence) then s.sequence else none }

inductive CField
  | plain (s : Site)
  | compound (c : Compound)
deriving DecidableEq, Repr

/-- `CreateCompoundFields.process` with compound fields enabled: groups in order of first
appearance, each compound at the position of the first attr of its group -/
def compoundFields (ss : List Site) : List CField :=
  let choices := (ss.filterMap (·.choice)).eraseDups.filter fun c =>
    c ≠ 0 && (ss.filter (·.choice = some c)).length > 1
  ss.filterMap fun s =>
    match s.choice with
    | some c =>
      if choices.contains c then
        let grp := ss.filter (·.choice = some c)
        if grp.head? = some s then some (.compound (groupFields c grp)) else none
      else some (.plain s)
    | none => some (.plain s)

end Xs.Gen
