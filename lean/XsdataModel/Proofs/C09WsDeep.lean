/- C09 helper lemmas: ignorable white space at every level of a document.
`nodeMetaOk P`: every `ElementNode` the parser creates from a universe whose classes all satisfy `P`
is for a class that satisfies `P`. -/
import XsdataModel.Proofs.C09Ws
import XsdataModel.Proofs.C09Ns

namespace Proofs.C09
open Py Xs.Bind

def ctxAll (P : XmlMeta → Bool) (Γ : Ctx) : Bool := Γ.classes.all fun ci => ci.metas.all fun pm => P pm.2

def nodeMetaOk (P : XmlMeta → Bool) : Node → Prop
  | .element m _ _ _ _ _ => P m = true
  | _ => True

theorem buildElementNode_meta (P : XmlMeta → Bool) (Γ : Ctx) (hΓ : ctxAll P Γ = true) (pns c d nl a n df xt xn)
    (node : Node) (h : buildElementNode Γ pns c d nl a n df xt xn = .ok (some node)) : nodeMetaOk P node := by
  unfold buildElementNode at h
  cases hf : Γ.fetch c pns xt with
  | error err => simp [hf, bind, Except.bind] at h
  | ok m =>
    have hm := fetch_all P Γ hΓ c pns xt m hf
    simp only [hf, bind, Except.bind, pure, Except.pure] at h
    split at h
    · split at h
      · cases h
      · cases h; exact hm
    · cases h; exact hm

theorem buildNode_meta (P : XmlMeta → Bool) (e : BEnv) (Γ : Ctx) (hΓ : ctxAll P Γ = true) (pm : XmlMeta) (q : QN)
    (var : XmlVar) (a : List (QN × Str)) (n : NsMap) (node : Node)
    (h : buildNode e Γ pm q var a n = .ok (some node)) : nodeMetaOk P node := by
  unfold buildNode at h
  by_cases hu : var.isClazzUnion = true
  · simp [hu, bind, Except.bind, throw, throwThe, MonadExceptOf.throw] at h
  · simp only [hu, Bool.false_eq_true, if_false] at h
    cases hxt : xsiTypeOf e a n with
    | error err => simp [hxt, bind, Except.bind] at h
    | ok xt =>
      simp only [hxt, bind, Except.bind, pure, Except.pure] at h
      cases hc : var.clazz with
      | some c =>
        simp only [hc] at h
        exact buildElementNode_meta P Γ hΓ _ _ _ _ a n _ _ _ node h
      | none =>
        simp only [hc] at h
        by_cases hp : (!var.anyType && !var.isWildcard) = true
        · simp only [hp, if_true] at h
          cases h; exact True.intro
        · simp only [hp, Bool.false_eq_true, if_false] at h
          cases hd : (xt.bind fun q => (Γ.datatypes.find? (·.1 = q)).map (·.2)) with
          | some dt =>
            cases dt with
            | none => simp [hd, throw, throwThe, MonadExceptOf.throw] at h
            | some d => simp [hd] at h; subst h; exact True.intro
          | none =>
            simp only [hd] at h
            cases h1 : xt.bind Γ.findType with
            | some c1 =>
              simp only [h1] at h
              cases hb1 : buildElementNode Γ pm.namespace c1 var.isWildcard var.nillable a n true xt (xsiNilOf a) with
              | error err => simp [hb1] at h
              | ok r1 =>
                cases r1 with
                | some nd => simp [hb1] at h; subst h; exact buildElementNode_meta P Γ hΓ _ _ _ _ a n _ _ _ nd hb1
                | none =>
                  simp only [hb1] at h
                  generalize (if var.processContents ≠ "skip".toList then Γ.findType q else some c1) = c2 at h
                  cases c2 with
                  | none => simp at h; subst h; exact True.intro
                  | some c =>
                    simp only [] at h
                    cases hb : buildElementNode Γ pm.namespace c false var.nillable a n false xt (xsiNilOf a) with
                    | error err => simp [hb] at h
                    | ok r =>
                      cases r with
                      | none => simp [hb] at h; subst h; exact True.intro
                      | some nd => simp [hb] at h; subst h; exact buildElementNode_meta P Γ hΓ _ _ _ _ a n _ _ _ nd hb
            | none =>
              simp only [h1] at h
              generalize (if var.processContents ≠ "skip".toList then Γ.findType q else none) = c2 at h
              cases c2 with
              | none => simp at h; subst h; exact True.intro
              | some c =>
                simp only [] at h
                cases hb : buildElementNode Γ pm.namespace c false var.nillable a n false xt (xsiNilOf a) with
                | error err => simp [hb] at h
                | ok r =>
                  cases r with
                  | none => simp [hb] at h; subst h; exact True.intro
                  | some nd => simp [hb] at h; subst h; exact buildElementNode_meta P Γ hΓ _ _ _ _ a n _ _ _ nd hb

theorem childNode_go_meta (P : XmlMeta → Bool) (e : BEnv) (Γ : Ctx) (hΓ : ctxAll P Γ = true) (cfg : ParserConfig)
    (m : XmlMeta) (st : ElState) (q : QN) (a : List (QN × Str)) (n : NsMap) (w : Option QN)
    (vars : List XmlVar) (node : Node) (st' : ElState)
    (h : childNode.go e Γ cfg m st q a n w vars = .ok (node, st')) : nodeMetaOk P node := by
  induction vars with
  | nil =>
    unfold childNode.go at h
    split at h
    · cases h
    · cases h; exact True.intro
  | cons var rest ih =>
    simp only [childNode.go] at h
    cases hb : buildNode e Γ m q var a n with
    | error err =>
      simp only [hb] at h
      repeat' split at h
      all_goals first | exact ih h | cases h
    | ok r =>
      cases r with
      | none =>
        simp only [hb] at h
        repeat' split at h
        all_goals exact ih h
      | some nd =>
        have hnd := buildNode_meta P e Γ hΓ m q var a n nd hb
        simp only [hb] at h
        repeat' split at h
        all_goals first | exact ih h | (cases h; exact hnd)

theorem childNode_meta (P : XmlMeta → Bool) (e : BEnv) (Γ : Ctx) (hΓ : ctxAll P Γ = true) (cfg : ParserConfig)
    (m : XmlMeta) (st : ElState) (q : QN) (a : List (QN × Str)) (n : NsMap) (w : Option QN) (node : Node) (st' : ElState)
    (h : childNode e Γ cfg m st q a n w = .ok (node, st')) : nodeMetaOk P node := by
  unfold childNode at h
  exact childNode_go_meta P e Γ hΓ cfg m st q a n w _ node st' h

/-! ### the relation: the same document up to ignorable white space, at every level -/

mutual
/-- same names, attributes, prefix maps; tails equal for `normalize_content`; the character data of an
element equal, or — when the element has child elements — equal for `normalize_content` (indentation
before the first child); children related -/
def wsRel (e : Env) : Tree → Tree → Bool
  | .node q a n t c tl, .node q' a' n' t' c' tl' =>
    decide (q = q') && decide (a = a') && decide (n = n') &&
    decide (normalizeContent e tl = normalizeContent e tl') &&
    (decide (t = t') || (!c.isEmpty && decide (normalizeContent e t = normalizeContent e t'))) &&
    wsRelL e c c'
def wsRelL (e : Env) : List Tree → List Tree → Bool
  | [], [] => true
  | x :: xs, y :: ys => wsRel e x y && wsRelL e xs ys
  | _, _ => false
end

/-- the class has no text field (complex content; leaf values are elements of primitive type) -/
def textless (m : XmlMeta) : Bool := m.text.isNone

theorem wsRelL_isEmpty (e : Env) (c c' : List Tree) (h : wsRelL e c c' = true) : c'.isEmpty = c.isEmpty := by
  cases c <;> cases c' <;> simp_all [wsRelL]

theorem bindWildText_text (e : BEnv) (w : XmlVar) (attrs) (nsmap) (params : Params) (t t' tl : Option Str)
    (h : normalizeContent e.py t = normalizeContent e.py t') :
    bindWildText e w attrs nsmap params t tl = bindWildText e w attrs nsmap params t' tl := by
  unfold bindWildText
  simp only [h]

theorem bindText_textless (e : BEnv) (cfg : ParserConfig) (m : XmlMeta) (hm : m.text = none) (xn : Option Bool)
    (ns : NsMap) (params : Params) (t : Option Str) : bindText e cfg m xn ns params t = .ok (false, params, 0) := by
  unfold bindText
  simp [hm]

theorem parseNode_wildcard_objs (e : BEnv) (Γ : Ctx) (cfg : ParserConfig) (var : XmlVar) (ats ns) (t : Tree) (o : Out)
    (h : parseNode e Γ cfg (.wildcard var ats ns) t = .ok o) : o.objs.isEmpty = false := by
  obtain ⟨q, a, n, tx, c, tl⟩ := t
  simp only [parseNode, bind, Except.bind] at h
  cases hw : parseWild e Γ cfg var c with
  | error err => simp [hw] at h
  | ok sub =>
    simp only [hw] at h
    split at h <;> (cases h; rfl)

theorem parseWild_objs (e : BEnv) (Γ : Ctx) (cfg : ParserConfig) (var : XmlVar) (kids : List Tree) (sub : Out)
    (hk : kids.isEmpty = false) (h : parseWild e Γ cfg var kids = .ok sub) : sub.objs.isEmpty = false := by
  cases kids with
  | nil => simp at hk
  | cons k ks =>
    obtain ⟨q, a, n, tx, c, tl⟩ := k
    simp only [parseWild, bind, Except.bind] at h
    cases h1 : parseNode e Γ cfg (.wildcard var a n) (.node q a n tx c tl) with
    | error err => simp [h1] at h
    | ok o =>
      have ho := parseNode_wildcard_objs e Γ cfg var a n _ o h1
      simp only [h1] at h
      cases h2 : parseWild e Γ cfg var ks with
      | error err => simp [h2] at h
      | ok r =>
        simp only [h2, pure, Except.pure] at h
        cases h
        cases hoo : o.objs with
        | nil => simp [hoo] at ho
        | cons x xs => rfl

/-! ### every level at once -/

theorem parseNode_wsRel (e : BEnv) (Γ : Ctx) (cfg : ParserConfig) (hΓ : ctxAll textless Γ = true) (node : Node) (t : Tree) :
    ∀ t', wsRel e.py t t' = true → nodeMetaOk textless node → parseNode e Γ cfg node t = parseNode e Γ cfg node t' := by
  refine parseNode.induct
    (motive_1 := fun node t => ∀ t', wsRel e.py t t' = true → nodeMetaOk textless node →
      parseNode e Γ cfg node t = parseNode e Γ cfg node t')
    (motive_2 := fun m st w kids => ∀ kids', wsRelL e.py kids kids' = true →
      parseKids e Γ cfg m st w kids = parseKids e Γ cfg m st w kids')
    (motive_3 := fun var kids => ∀ kids', wsRelL e.py kids kids' = true →
      parseWild e Γ cfg var kids = parseWild e Γ cfg var kids')
    ?skip ?wrapper ?prim1 ?prim2 ?std1 ?std2 ?wild ?elem ?knil ?kwrap ?kcons ?wnil ?wcons node t
  case skip => intro q a n t c tl t' _ _; obtain ⟨q', a', n', tx', c', tl'⟩ := t'; simp [parseNode]
  case wrapper => intro q a n t c tl qw t' _ _; obtain ⟨q', a', n', tx', c', tl'⟩ := t'; simp [parseNode]
  case prim1 =>
    intro q a n t c tl pm var ns nil hc t' hr _
    obtain ⟨q', a', n', tx', c', tl'⟩ := t'
    simp only [wsRel, Bool.and_eq_true, decide_eq_true_eq] at hr
    have he := wsRelL_isEmpty e.py _ _ hr.2
    simp only [parseNode, he, hc, if_true]
  case prim2 =>
    intro q a n t c tl pm var ns nil hc t' hr _
    obtain ⟨q', a', n', tx', c', tl'⟩ := t'
    simp only [wsRel, Bool.and_eq_true, Bool.or_eq_true, decide_eq_true_eq] at hr
    obtain ⟨⟨⟨⟨⟨hq, ha⟩, hn⟩, htl⟩, ht⟩, hk⟩ := hr
    subst hq ha hn
    have he := wsRelL_isEmpty e.py _ _ hk
    have htx : t = tx' := by
      rcases ht with h | h
      · exact h
      · simp only [Bool.not_eq_true] at hc
        rw [hc] at h
        simp at h
    subst htx
    rw [parseNode_tail e Γ cfg _ q a n t c tl tl' htl]
    simp only [parseNode, he, hc]
  case std1 =>
    intro q a n t c tl var dt ns nl d mx hc t' hr _
    obtain ⟨q', a', n', tx', c', tl'⟩ := t'
    simp only [wsRel, Bool.and_eq_true, decide_eq_true_eq] at hr
    have he := wsRelL_isEmpty e.py _ _ hr.2
    simp only [parseNode, he, hc, if_true]
  case std2 =>
    intro q a n t c tl var dt ns nl d mx hc t' hr _
    obtain ⟨q', a', n', tx', c', tl'⟩ := t'
    simp only [wsRel, Bool.and_eq_true, Bool.or_eq_true, decide_eq_true_eq] at hr
    obtain ⟨⟨⟨⟨⟨hq, ha⟩, hn⟩, htl⟩, ht⟩, hk⟩ := hr
    subst hq ha hn
    have he := wsRelL_isEmpty e.py _ _ hk
    have htx : t = tx' := by
      rcases ht with h | h
      · exact h
      · simp only [Bool.not_eq_true] at hc
        rw [hc] at h
        simp at h
    subst htx
    rw [parseNode_tail e Γ cfg _ q a n t c tl tl' htl]
    simp only [parseNode, he, hc]
  case wild =>
    intro q a n t c tl var ats ns ih t' hr _
    obtain ⟨q', a', n', tx', c', tl'⟩ := t'
    simp only [wsRel, Bool.and_eq_true, Bool.or_eq_true, decide_eq_true_eq] at hr
    obtain ⟨⟨⟨⟨⟨hq, ha⟩, hn⟩, htl⟩, ht⟩, hk⟩ := hr
    subst hq ha hn
    rw [parseNode_tail e Γ cfg _ q a n t c tl tl' htl]
    simp only [parseNode, ih c' hk]
    rcases ht with h | h
    · subst h; rfl
    · obtain ⟨hne, hnorm⟩ := h
      have hne' : c'.isEmpty = false := by
        rw [wsRelL_isEmpty e.py _ _ hk]; simpa using hne
      cases hw : parseWild e Γ cfg var c' with
      | error err => rfl
      | ok sub =>
        have hs := parseWild_objs e Γ cfg var c' sub hne' hw
        have hs' : (sub.objs.map (·.2)).isEmpty = false := by
          cases hh : sub.objs with
          | nil => simp [hh] at hs
          | cons x xs => rfl
        simp only [bind, Except.bind, hs', Bool.not_false, if_true, hnorm]
  case elem =>
    intro q a n t c tl m ats ns d xt xn ih t' hr hm
    obtain ⟨q', a', n', tx', c', tl'⟩ := t'
    simp only [wsRel, Bool.and_eq_true, Bool.or_eq_true, decide_eq_true_eq] at hr
    obtain ⟨⟨⟨⟨⟨hq, ha⟩, hn⟩, htl⟩, ht⟩, hk⟩ := hr
    subst hq ha hn
    have hmt : m.text = none := by
      have : textless m = true := hm
      simpa [textless, Option.isNone_iff_eq_none] using this
    have hnorm : normalizeContent e.py t = normalizeContent e.py tx' := by
      rcases ht with h | h
      · rw [h]
      · exact h.2
    rw [parseNode_tail e Γ cfg _ q a n t c tl tl' htl]
    simp only [parseNode, ih c' hk, bindText_textless e cfg m hmt,
      fun w ats' ns' params tail => bindWildText_text e w ats' ns' params t tx' tail hnorm]
  case knil =>
    intro m st w kids' h
    cases kids' with
    | nil => rfl
    | cons k ks => simp [wsRelL] at h
  case kwrap =>
    intro m st w q a n t c tl rest hcond ih1 ih2 kids' h
    cases kids' with
    | nil => simp [wsRelL] at h
    | cons k ks =>
      obtain ⟨q', a', n', t', c', tl'⟩ := k
      simp only [wsRelL, wsRel, Bool.and_eq_true, decide_eq_true_eq] at h
      obtain ⟨⟨⟨⟨⟨⟨hq, ha⟩, hn⟩, htl⟩, ht⟩, hk⟩, hrest⟩ := h
      subst hq ha hn
      simp only [parseKids, hcond, if_true, ih1 _ hk, fun st' => ih2 st' _ hrest]
  case kcons =>
    intro m st w q a n t c tl rest hcond ih1 ih2 kids' h
    cases kids' with
    | nil => simp [wsRelL] at h
    | cons k ks =>
      obtain ⟨q', a', n', t', c', tl'⟩ := k
      have h0 := h
      simp only [wsRelL, Bool.and_eq_true] at h0
      obtain ⟨hhead, hrest⟩ := h0
      have hh := hhead
      simp only [wsRel, Bool.and_eq_true, decide_eq_true_eq] at hh
      obtain ⟨⟨⟨⟨⟨hq, ha⟩, hn⟩, _⟩, _⟩, _⟩ := hh
      subst hq ha hn
      simp only [parseKids, hcond, Bool.false_eq_true, if_false, fun st' => ih2 st' _ hrest]
      cases hch : childNode e Γ cfg m st q a n w with
      | error err => rfl
      | ok p =>
        obtain ⟨nd, st'⟩ := p
        have hnd := childNode_meta textless e Γ hΓ cfg m st q a n w nd st' hch
        simp only [bind, Except.bind, ih1 nd _ hhead hnd]
  case wnil =>
    intro var kids' h
    cases kids' with
    | nil => rfl
    | cons k ks => simp [wsRelL] at h
  case wcons =>
    intro var q a n t c tl rest ih1 ih2 kids' h
    cases kids' with
    | nil => simp [wsRelL] at h
    | cons k ks =>
      obtain ⟨q', a', n', t', c', tl'⟩ := k
      have h0 := h
      simp only [wsRelL, Bool.and_eq_true] at h0
      obtain ⟨hhead, hrest⟩ := h0
      have hh := hhead
      simp only [wsRel, Bool.and_eq_true, decide_eq_true_eq] at hh
      obtain ⟨⟨⟨⟨⟨hq, ha⟩, hn⟩, _⟩, _⟩, _⟩ := hh
      subst hq ha hn
      simp only [parseWild, ih1 _ hhead True.intro, ih2 _ hrest]

theorem parseRoot_wsRel (e : BEnv) (Γ : Ctx) (cfg : ParserConfig) (hΓ : ctxAll textless Γ = true) (c : ClassId) (t t' : Tree)
    (h : wsRel e.py t t' = true) : parseRoot e Γ cfg c t = parseRoot e Γ cfg c t' := by
  obtain ⟨q, a, n, tx, ch, tl⟩ := t
  obtain ⟨q', a', n', tx', ch', tl'⟩ := t'
  have hh := h
  simp only [wsRel, Bool.and_eq_true, decide_eq_true_eq] at hh
  obtain ⟨⟨⟨⟨⟨hq, ha⟩, hn⟩, _⟩, _⟩, _⟩ := hh
  subst hq ha hn
  simp only [parseRoot, bind, Except.bind]
  cases hx : xsiTypeOf e a n with
  | error err => rfl
  | ok xt =>
    simp only []
    cases hf : Γ.fetch c none xt with
    | error err => rfl
    | ok m =>
      have hm := fetch_all textless Γ hΓ c none xt m hf
      have := parseNode_wsRel e Γ cfg hΓ
        (.element m a n (!(xt.isNone || m.qname = q)) (if (!(xt.isNone || m.qname = q)) = true then xt else none) (xsiNilOf a))
        _ _ h hm
      simp only [this]

/-! ### pretty-printing a whole document -/

mutual
/-- indentation at every level: white space `ws` before the first child of every element whose own
character data is ignorable, and after every element whose tail is ignorable -/
def indentDeep (e : Env) (ws : Str) : Tree → Tree
  | .node q a n t c tl =>
    .node q a n (if c.isEmpty || (normalizeContent e t).isSome then t else some ws) (indentDeepL e ws c)
      (if (normalizeContent e tl).isNone then some ws else tl)
def indentDeepL (e : Env) (ws : Str) : List Tree → List Tree
  | [] => []
  | t :: ts => indentDeep e ws t :: indentDeepL e ws ts
end

mutual
theorem wsRel_indentDeep (e : Env) (ws : Str) (hws : e.strip ws = []) (t : Tree) : wsRel e t (indentDeep e ws t) = true := by
  match t with
  | .node q a n tx c tl =>
    have hn := normalizeContent_ws e ws hws
    have htl : normalizeContent e tl = normalizeContent e (if (normalizeContent e tl).isNone then some ws else tl) := by
      cases h : normalizeContent e tl with
      | none => simp [hn]
      | some s => simp [h]
    have htx : (decide (tx = (if c.isEmpty || (normalizeContent e tx).isSome then tx else some ws)) ||
        (!c.isEmpty && decide (normalizeContent e tx =
          normalizeContent e (if c.isEmpty || (normalizeContent e tx).isSome then tx else some ws)))) = true := by
      by_cases hc : (c.isEmpty || (normalizeContent e tx).isSome) = true
      · simp [hc]
      · simp only [hc, Bool.false_eq_true, if_false]
        simp only [Bool.or_eq_true, not_or, Bool.not_eq_true, Option.isSome_eq_false_iff, Option.isNone_iff_eq_none] at hc
        simp [hc.1, hc.2, hn]
    simp only [indentDeep, wsRel, decide_true, Bool.true_and, ← htl, htx, wsRelL_indentDeep e ws hws c, Bool.and_self]
theorem wsRelL_indentDeep (e : Env) (ws : Str) (hws : e.strip ws = []) (ts : List Tree) :
    wsRelL e ts (indentDeepL e ws ts) = true := by
  match ts with
  | [] => rfl
  | t :: ts' => simp only [indentDeepL, wsRelL, wsRel_indentDeep e ws hws t, wsRelL_indentDeep e ws hws ts', Bool.and_self]
end

end Proofs.C09
